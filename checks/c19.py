"""C19 - the FFI view mirrors the core recipe and combines amounts faithfully.
Theorems: coq/Properties/C19.v.  Correspondence L-bind: extracted Model/Bindings.v vs the harness
harness/bind (the bindings compiled as an rlib through harness/bshim from /repo/bindings/src/lib.rs).
Monitor (here, independent of the model, exact rationals decoded from the f64 bits):
  mirror        the view returned by parse_recipe has the sections / blocks / items / components of the
                recipe the core canonical parser returns for the same text and factor
  resolve       deref_component of every item, deref_* of every listed index = image of the denoted component
  section refs  section lists = concatenation of the steps' lists = references among the items
  combine       per (name, unit, kind): sum of the inputs with that key, each index counted once
  permutation   numeric entries and key sets equal for all orders of a list
  selection     combine_selected(list, idx) = combine(sublist)
"""
import itertools
import os
import random
import re
import shutil
import subprocess
import sys
from collections import Counter
from fractions import Fraction

from vlib import common
from vlib.common import hx, unhx
from checks import parser_common as pc

TOL = Fraction(1, 2 ** 40)
DEPS = ["Base/Chars.v", "Model/Bindings.v"]
COMMONS = ("common_n.ml", "common_zq.ml")
BIND = os.path.join(common.HARNESS, "bind")
TARGET = os.path.join(common.BUILD, "target-bind")
U32 = 1 << 32
WORST = {"dev": Fraction(0)}


# ----------------------------------------------------------------------------- build

def build_bind():
    """Build harness/bind (own crate: depends on harness/bshim = the bindings as an rlib, on /repo and on
    the shared harness library) against /repo's working tree.  Modelled on common.build_harness."""
    common.ensure_dirs()
    if os.path.realpath(common.REPO) != "/repo":
        return _build_bind_alt()
    with common.Lock("cargo"):
        lock_src = os.path.join(common.REPO, "Cargo.lock")
        lock_dst = os.path.join(BIND, "Cargo.lock")
        if not os.path.exists(lock_dst):
            shutil.copyfile(lock_src, lock_dst)
        cmd = ["cargo", "build", "--offline", "--bin", "bind"]
        env = {"CARGO_NET_OFFLINE": "true", "RUSTFLAGS": "--cfg %s -Awarnings" % common.GUARD,
               "CARGO_TARGET_DIR": TARGET}
        p = common.run(cmd, cwd=BIND, env=env, timeout=1500, check=False)
        if p.returncode != 0:
            shutil.copyfile(lock_src, lock_dst)
            p = common.run(cmd, cwd=BIND, env=env, timeout=1500, check=False)
        if p.returncode != 0:
            raise common.Broken("bind harness build failed:\n" + p.stdout[-6000:])
    return os.path.join(TARGET, "debug", "bind")


def _build_bind_alt():
    """VERIF_REPO points at another checkout (seeded-change runs in a scratch worktree): the manifests of
    harness/bshim and harness/bind name /repo literally, so build copies of them (and of the shared harness
    library) whose every /repo path is that checkout, in an own target directory.  Same pattern as
    common._build_harness_alt; bin/seedtest serialises such runs."""
    real = os.path.realpath(common.REPO)
    alt = os.path.join(common.BUILD, "bind-alt")
    target = os.path.join(common.BUILD, "target-bind-alt")
    with common.Lock("cargo-alt"):
        if os.path.exists(alt):
            shutil.rmtree(alt)
        os.makedirs(alt)
        shutil.copytree(common.HARNESS, os.path.join(alt, "vh"),
                        ignore=shutil.ignore_patterns("target", "bshim", "bind", "Cargo.lock"))
        shutil.copytree(os.path.join(common.HARNESS, "bshim"), os.path.join(alt, "bshim"))
        shutil.copytree(BIND, os.path.join(alt, "bind"), ignore=shutil.ignore_patterns("target", "Cargo.lock"))
        for root, _, files in os.walk(alt):
            for fn in files:
                if fn == "Cargo.toml":
                    pth = os.path.join(root, fn)
                    t = open(pth).read().replace('"/repo', '"' + real)
                    if root == os.path.join(alt, "bind"):
                        t = t.replace('vh = { path = ".." }', 'vh = { path = "../vh" }')
                    open(pth, "w").write(t)
                    if '"/repo' in t and not real.startswith("/repo"):
                        raise common.Broken("a /repo path survived in " + pth)
        shutil.copyfile(os.path.join(real, "Cargo.lock"), os.path.join(alt, "bind", "Cargo.lock"))
        cmd = ["cargo", "build", "--offline", "--bin", "bind"]
        env = {"CARGO_NET_OFFLINE": "true", "RUSTFLAGS": "--cfg %s -Awarnings" % common.GUARD,
               "CARGO_TARGET_DIR": target}
        p = common.run(cmd, cwd=os.path.join(alt, "bind"), env=env, timeout=1500, check=False)
        if p.returncode != 0:
            raise common.Broken("bind harness build (alternative checkout %s) failed:\n%s" % (real, p.stdout[-6000:]))
    return os.path.join(target, "debug", "bind")


# ----------------------------------------------------------------------------- tokens

def f64tok(x):
    fr = Fraction(x)
    if fr == 0:
        return "0^0"
    d = fr.denominator
    e = -(d.bit_length() - 1)
    m = fr.numerator
    while m % 2 == 0:
        m //= 2
        e += 1
    return "%d^%d" % (m, e)


def num(tok):
    if "^" in tok:
        m, e = tok.split("^")
        m, e = int(m), int(e)
        return Fraction(m * (1 << e)) if e >= 0 else Fraction(m, 1 << -e)
    if "/" in tok:
        a, b = tok.split("/")
        return Fraction(int(a), int(b))
    return Fraction(int(tok))


_NUM = re.compile(r":(-?\d+)(?:\^(-?\d+)|/(\d+))")


def canon_nums(s):
    """rewrite every number token (m^e of the harness, num/den of the runner) as a reduced fraction"""
    def f(m):
        v = num(m.group(0)[1:])
        return ":%d/%d" % (v.numerator, v.denominator)
    return _NUM.sub(f, s)


def sec(line):
    d = {}
    for part in line.split(" ; ")[1:]:
        k, _, v = part.partition(" ")
        d[k] = v
    return d


def lst(tok, sep):
    return [] if tok == "-" else tok.split(sep)


def pval(tok):
    p = tok.split(":")
    if p[0] == "n":
        return ("n", num(p[1]))
    if p[0] == "r":
        return ("r", num(p[1]), num(p[2]))
    if p[0] == "t":
        return ("t", p[1])
    return ("e",)


def pilist(tok):
    """ingredient list dump -> {name hex: {(unit hex, kind): value}} or None for a panic"""
    if tok.startswith("panic"):
        return None
    out = {}
    for e in lst(tok, "+"):
        n, g = e.split("=")
        d = {}
        for k in lst(g, ","):
            u, kind, v = k.split("/", 2)
            d[(u, kind)] = pval(v)
        out[n] = d
    return out


# ----------------------------------------------------------------------------- monitor: recipes

def parse_core(d):
    secs = []
    for s in lst(d["K"], "!"):
        title, content = s.split("~")
        blocks = []
        for c in lst(content, ","):
            if c[0] == "S":
                blocks.append(("S", [x for x in c[1:].split("+")] if len(c) > 1 else []))
            else:
                blocks.append(("T", c[1:]))
        secs.append((title, blocks))
    return secs


def parse_view(d):
    secs = []
    for s in lst(d["B"], "!"):
        title, blocks_t, ir, cr, tr = s.split("~")
        blocks = []
        for c in lst(blocks_t, ","):
            if c[0] == "S":
                items, a, b, e = c[1:].split("/")
                blocks.append(("S", items.split("+") if items else [], a, b, e))
            else:
                blocks.append(("T", c[1:]))
        secs.append((title, blocks, ir, cr, tr))
    return secs


def image_item(it):
    """the FFI item a core item must be shown as"""
    if it[0] == "t":
        return it
    if it[0] == "q":
        return "tx"
    return it[0] + str(int(it[1:]) % U32)


def image_ing(tok):
    return tok          # name|qty|note -> name|amount|descriptor, token for token


def image_cw(tok):
    n, v = tok.split("|")
    return n + "|" + ("-" if v == "-" else v + "@-")


def image_tm(tok):
    n, q = tok.split("|")
    return ("x" if n == "-" else n) + "|" + q


def refs_among(items, letter):
    return ".".join(x[1:] for x in items if x[0] == letter)


def monitor_p(line):
    """None if the property holds on what the implementation returned for this input, else what fails"""
    d = sec(line)
    core, view = parse_core(d), parse_view(d)
    ki, kc, kt = lst(d["KI"], ","), lst(d["KC"], ","), lst(d["KT"], ",")
    bi, bc, bt = lst(d["BI"], ","), lst(d["BC"], ","), lst(d["BT"], ",")
    # ---- mirror
    if len(core) != len(view):
        return "mirror: %d sections in the core recipe, %d in the view" % (len(core), len(view))
    for si, ((ct, cb), (vt, vb, _, _, _)) in enumerate(zip(core, view)):
        if ct != vt:
            return "mirror: title of section %d" % si
        if len(cb) != len(vb):
            return "mirror: section %d has %d blocks, the view %d" % (si, len(cb), len(vb))
        for bi_, (x, y) in enumerate(zip(cb, vb)):
            if x[0] != y[0]:
                return "mirror: kind of block %d of section %d" % (bi_, si)
            if x[0] == "T":
                if x[1] != y[1]:
                    return "mirror: text of block %d of section %d" % (bi_, si)
            else:
                if [image_item(i) for i in x[1]] != y[1]:
                    return "mirror: items of block %d of section %d" % (bi_, si)
    if [image_ing(t) for t in ki] != bi:
        return "mirror: ingredients"
    if [image_cw(t) for t in kc] != bc:
        return "mirror: cookware"
    if [image_tm(t) for t in kt] != bt:
        return "mirror: timers"
    # ---- reference lists
    for si, (_, vb, ir, cr, tr) in enumerate(view):
        steps = [b for b in vb if b[0] == "S"]
        for b in steps:
            if (b[2], b[3], b[4]) != (refs_among(b[1], "i"), refs_among(b[1], "c"), refs_among(b[1], "m")):
                return "refs: lists of a step of section %d are not the references among its items" % si
        for j, got in ((2, ir), (3, cr), (4, tr)):
            if got != ".".join(b[j] for b in steps if b[j]):
                return "refs: list %d of section %d is not the concatenation of its steps' lists" % (j - 2, si)
    # ---- resolution
    want = []
    for _, cb in core:
        for x in cb:
            if x[0] != "S":
                continue
            for it in x[1]:
                k, tables = it[0], {"i": ("I", ki, image_ing), "c": ("C", kc, image_cw), "m": ("M", kt, image_tm)}
                if k == "t":
                    want.append("X" + it[1:])
                elif k == "q":
                    want.append("Xx")
                else:
                    tag, tbl, img = tables[k]
                    n = int(it[1:])
                    if n >= len(tbl):
                        return "resolve: core item %s is out of range (the C06 invariant fails)" % it
                    want.append(tag + img(tbl[n]))
    if want != lst(d["D"], ","):
        return "resolve: deref_component of the items is not the image of the denoted components"
    want = []
    for _, _, ir, cr, tr in view:
        for tag, l, tbl, img in (("I", ir, ki, image_ing), ("C", cr, kc, image_cw), ("M", tr, kt, image_tm)):
            for n in (l.split(".") if l else []):
                if int(n) >= len(tbl):
                    return "resolve: listed index %s out of range" % n
                want.append(tag + img(tbl[int(n)]))
    if want != lst(d["R"], ","):
        return "resolve: deref of the section reference lists"
    # metadata is NOT judged: the statement speaks of sections, blocks, step items and components; what the view
    # keeps of the metadata (string values only, today) is compared between model and implementation only
    return None


# ----------------------------------------------------------------------------- monitor: combining

def ing_key(tok):
    """(name, unit-or-empty, kind, value) of an input ingredient token name|qty|note"""
    n, q, _ = tok.split("|")
    if q == "-":
        return n, "x", "e", ("e",)
    v, u = q.rsplit("@", 1)
    v = pval(v)
    return n, ("x" if u == "-" else u), v[0], v


def spec_list(toks):
    """the per-key sums the property demands, with the magnitude of the contributions (for the tolerance)"""
    out, scale = {}, {}
    for t in toks:
        n, u, k, v = ing_key(t)
        key = (n, u, k)
        if key not in out:
            out[key] = v
            scale[key] = [abs(x) for x in v[1:]] if k in "nr" else None
        elif k == "n":
            out[key] = ("n", out[key][1] + v[1])
            scale[key][0] += abs(v[1])
        elif k == "r":
            out[key] = ("r", out[key][1] + v[1], out[key][2] + v[2])
            scale[key][0] += abs(v[1])
            scale[key][1] += abs(v[2])
        elif k == "t":
            out[key] = ("t", "x" + out[key][1][1:] + v[1][1:])
    return out, scale


def flat(il):
    return {(n, u, k): v for n, g in il.items() for (u, k), v in g.items()}


def close_vals(a, b, sc):
    if a[0] != b[0]:
        return False
    if a[0] in "te":
        return a == b
    for i, (x, y) in enumerate(zip(a[1:], b[1:])):
        if x != y:
            s = sc[i] if sc else max(abs(x), abs(y))
            if s == 0 or abs(x - y) > TOL * s:
                return False
            WORST["dev"] = max(WORST["dev"], abs(x - y) / s)
    return True


def cmp_lists(got, want, scale, what):
    if set(got) != set(want):
        return "%s: keys %s, expected %s" % (what, sorted(got), sorted(want))
    for k in want:
        if not close_vals(got[k], want[k], scale.get(k) if scale else None):
            return "%s: entry %s is %s, expected %s" % (what, k, got[k], want[k])
    return None


def monitor_c(case, line):
    _, ings_t, idx_t = case.split(" ")
    toks = lst(ings_t, ",")
    idx = [int(x) for x in lst(idx_t, ".")]
    parts = line[2:].split(" ; ")
    sel, all_, sub, held = parts[0], parts[1], parts[2], parts[3][2:]
    if lst(held, ",") != toks:
        return "From<&Ingredient>: the list the bindings hold is not the image of the inputs", None
    in_range = all(i < len(toks) for i in idx)
    a = pilist(all_)
    if a is None:
        return "combine_ingredients panicked: " + all_, None
    want, scale = spec_list(toks)
    r = cmp_lists(flat(a), want, scale, "combine_ingredients")
    if r:
        return r, None
    if any(len(g) == 0 for g in a.values()):
        return "combine_ingredients: a name without entry", None
    s = pilist(sel)
    if not in_range:
        # outside the statement: the code unwraps a missing index
        return None, ("out_of_range_panics" if s is None else "out_of_range_returns")
    if s is None:
        return "combine_ingredients_selected panicked on in-range indices: " + sel, None
    want, scale = spec_list([toks[i] for i in idx])
    r = cmp_lists(flat(s), want, scale, "combine_ingredients_selected")
    if r:
        return r, None
    b = pilist(sub)
    if b is None:
        return "combine_ingredients of the sublist panicked", None
    r = cmp_lists(flat(s), flat(b), scale, "selection vs sublist")
    if r:
        return r, None
    return None, ("selection_bit_identical" if sel == sub else "selection_within_tolerance")


def monitor_perm(lines_of_family, scale):
    """numeric entries and key sets of combine_ingredients over all orders of one list; scale: magnitude
    of the contributions per key (the same for every order)"""
    base = None
    for line in lines_of_family:
        a = pilist(line[2:].split(" ; ")[1])
        if a is None:
            return "combine_ingredients panicked"
        f = flat(a)
        if base is None:
            base = f
            continue
        if set(f) != set(base):
            return "key sets differ between two orders"
        for k, v in f.items():
            if k[2] != "t" and not close_vals(v, base[k], scale.get(k)):
                return "entry %s differs between two orders: %s vs %s" % (k, v, base[k])
    return None


# ----------------------------------------------------------------------------- generators

NAMES = ["salt", "flour", "Salt", "olive oil", "é", "a|b", ""]
UNITS = ["g", "kg", "cup", "G", "", "ml ", "pinch", "%"]
TEXTS = ["some", "a pinch", "", 'say "when"', "back\\slash", "tab\there", "line\nbreak", "ñandú", "́x", "q'", "​"]
NOTES = [None, None, "fine", ""]


def gen_value(rng):
    r = rng.random()
    if r < 0.3:
        return "n:" + f64tok(float(rng.choice([0, 1, 2, 3, 5, 10, 100, 250, rng.randint(0, 5000)])))
    if r < 0.55:
        return "n:" + f64tok(rng.choice([0.1, 0.2, 0.25, 0.5, 1.5, 0.333, 1e-6, 12345.678, 1e9, 1 / 3,
                                         round(rng.uniform(0, 100), rng.randint(1, 4))]))
    if r < 0.6:
        return "n:" + f64tok(-rng.choice([1.0, 0.5, 20.0, 0.1]))
    if r < 0.8:
        a = rng.choice([0.5, 1.0, 2.0, 0.1, round(rng.uniform(0, 50), 2)])
        return "r:%s:%s" % (f64tok(a), f64tok(a + rng.choice([0.5, 1.0, 0.2, round(rng.uniform(0, 50), 2)])))
    return "t:" + hx(rng.choice(TEXTS))


def gen_ing(rng, names, units):
    name = rng.choice(names)
    r = rng.random()
    if r < 0.15:
        q = "-"
    else:
        u = rng.choice(units) if rng.random() < 0.75 else None
        q = "%s@%s" % (gen_value(rng), "-" if u is None else hx(u))
    note = rng.choice(NOTES)
    return "%s|%s|%s" % (hx(name), q, "-" if note is None else hx(note))


CASE_PAIRS = [("T", "t"), ("L", "l"), ("Cup", "cup"), ("G", "g"), ("ML", "ml"), ("É", "é")]


def gen_list(rng, maxn):
    names = rng.sample(NAMES, rng.randint(1, 3))
    units = rng.sample(UNITS, rng.randint(1, 3))
    if rng.random() < 0.3:
        # units that differ only in case are different keys
        units = list(rng.choice(CASE_PAIRS)) + units[:1]
    return [gen_ing(rng, names, units) for _ in range(rng.randint(0, maxn))]


def gen_indices(rng, n):
    r = rng.random()
    if r < 0.25:
        return list(range(n))
    if r < 0.5:
        return sorted(rng.sample(range(n), rng.randint(0, n))) if n else []
    if r < 0.9 or n == 0:
        return [rng.randrange(n) for _ in range(rng.randint(0, n + 3))] if n else []
    k = [rng.randrange(n) for _ in range(rng.randint(0, n))]
    k.insert(rng.randint(0, len(k)), rng.choice([n, n + 1, n + 7, 4294967295]))
    return k


def c_case(toks, idx):
    return "C %s %s" % (",".join(toks) if toks else "-", ".".join(str(i) for i in idx) if idx else "-")


FACTORS = [1.0, 1.0, 2.0, 0.5, 3.0, 1.5, 1 / 3, 1 / 7, 0.1, 10.0, 2.75, 7.0, 0.0, 1e-3, 64.0]

HAND = [
    "", "\n", "plain text only", "@a", "@a{}", "@a{1}", "@a{1%g}(note) and @a{2%g}", "#pan{2} #pan ~{5%min} ~eggs{3%minutes}",
    "> note only", "= A\n\n== B ==\n\ntext @x{1/2%cup}", ">> k: v\n>> k: w\nstep", "---\na: b\nn: 3\nl: [1]\n---\n@é{0.1%kg}",
    "@x{1-2%g} @y{some%bag} @z{=3%l}", "@x{1%g} @x{2%g} @x{3%kg} @x{few}", "~{1%h} and ~t{2%min} and ~name",
    "line one\nline two @a{1}\n\nsecond @b{2}(n)\n", "\\@ escaped @a\\", "@&a{1} @-b{2} @?c{3} @+d{4} @@e{5}",
    "@a|alias{1} #b|c{2}", "@a{0.0004%kg} @b{1/16} #c{1/3} ~{0.0005%h}",
    "~first{1%min} step\n\n= Two\n\n#pot ~second{2%min}\n\n= Three\n\nno timer here @x #pan\n\n= Four\n\n~{3%s}",
    "@salt and later @salt{1%g} then @salt{2%g} and @salt", "{2%g} inline 3 kg", "@a{1%}", "@a{%g}", "@a{1 % g }", "@a{ 1 1/2 %g}", "@a{1e3%g} @b{.5} @c{01}",
]


def gen_recipes(rng, n):
    texts = list(HAND)
    for text, _, _, _ in pc.grec_texts(rng, n, profiles=("canonical", "canonical", "canonical", "extended")):
        texts.append(text)
    return texts


# ----------------------------------------------------------------------------- run

def run(rep, tier, seed):
    rng = random.Random(seed)
    quick = tier == "quick"
    exe = build_bind()
    audit = common.audit_property_file("C19")
    runner = common.build_runner("bindings", DEPS, commons=COMMONS)

    monitor_hits, disagreements = [], []
    stats = Counter()
    samples = []
    distinct = set()

    # ---- P: recipes x scaling factors
    texts = gen_recipes(rng, 3000 if quick else 90000)
    p_cases = [c for c in common.load_corpus("C19") if c.startswith("P ")]
    for i, t in enumerate(texts):
        fs = {FACTORS[i % len(FACTORS)], rng.choice(FACTORS)} if i >= len(HAND) else set(FACTORS[:8])
        for f in sorted(fs):
            p_cases.append("P %s %s" % (hx(t), f64tok(f)))
    pi = common.run_lines(exe, p_cases, tag="implP")
    m_idx, m_lines = [], []
    for j, li in enumerate(pi):
        if "READERR" in li:
            disagreements.append((p_cases[j], {"case": p_cases[j], "what": "the harness could not read an Amount",
                                               "impl": li[:2000]}))
            continue
        if li.startswith("P ok"):
            d = sec(li)
            m_idx.append(j)
            m_lines.append("M %s %s %s %s %s" % (d["K"], d["KI"], d["KC"], d["KT"], d["KM"]))
    pm = dict(zip(m_idx, common.run_lines(runner, m_lines, tag="modelP")))
    for j, (case, li) in enumerate(zip(p_cases, pi)):
        text = unhx(case.split(" ")[1])
        if li.startswith("P invalid"):
            stats["P_rejected_by_the_canonical_parser"] += 1
            stats["P_rejected_bindings_" + li.split(" ")[2]] += 1
            continue
        if li.startswith("P bpanic"):
            monitor_hits.append((text, "parse_recipe panicked on an input the canonical parser accepts: "
                                 + unhx(li.split(" ")[2])[:200], {"case": case, "input": text, "impl": li}))
            continue
        if j not in pm:
            continue
        stats["P_accepted"] += 1
        if "nan" in li or "inf" in li:
            stats["P_nonfinite_skipped"] += 1
            continue
        m = monitor_p(li)
        if m:
            monitor_hits.append((text, m, {"case": case, "input": text, "impl": li[:4000], "violated": m}))
            continue
        impl_view = li[li.index(" ; B ") + 3:]
        if canon_nums(impl_view) != canon_nums(pm[j]):
            disagreements.append((text, {"case": case, "input": text, "impl": impl_view[:3000], "model": pm[j][:3000]}))
        d = sec(li)
        if d["KI"] != "-" or d["KC"] != "-" or d["KT"] != "-":
            distinct.add(impl_view)
        stats["P_items_dereferenced"] += len(lst(d["D"], ","))
        stats["P_components"] += len(lst(d["KI"], ",")) + len(lst(d["KC"], ",")) + len(lst(d["KT"], ","))
        stats["P_sections"] += len(lst(d["K"], "!"))
    ok_j = [j for j in m_idx if len(pi[j]) < 1500 and "~S" in pi[j] and "|n:" in pi[j]]
    for j in ok_j[len(ok_j) // 2:len(ok_j) // 2 + 2]:
        samples.append({"case": p_cases[j], "input": unhx(p_cases[j].split(" ")[1]), "impl": pi[j]})

    # ---- C: ingredient lists
    c_cases, fam = [], []        # fam[i] = permutation family id or None
    for c in common.load_corpus("C19"):
        if c.startswith("C "):
            c_cases.append(c)
            fam.append(None)
    n_perm = 60 if quick else 1500
    for f in range(n_perm):
        toks = gen_list(rng, 5)
        perms = sorted(set(itertools.permutations(toks)))
        for p in perms:
            c_cases.append(c_case(list(p), gen_indices(rng, len(p))))
            fam.append(f)
    n_rand = 5000 if quick else 150000
    for _ in range(n_rand):
        toks = gen_list(rng, 12)
        c_cases.append(c_case(toks, gen_indices(rng, len(toks))))
        fam.append(None)
    ci = common.run_lines(exe, c_cases, tag="implC")
    cm = common.run_lines(runner, c_cases, tag="modelC")
    families = {}
    for case, f, li, lm in zip(c_cases, fam, ci, cm):
        stats["C_lists"] += 1
        if "READERR" in li:
            disagreements.append((case, {"case": case, "what": "the harness could not read an Amount", "impl": li[:2000]}))
            continue
        if "nan" in li or "inf" in li:
            stats["C_nonfinite_skipped"] += 1
            continue
        m, note = monitor_c(case, li)
        if m:
            monitor_hits.append((case, m, {"case": case, "impl": li[:4000], "violated": m}))
            continue
        if note:
            stats["C_" + note] += 1
        toks_ = lst(case.split(" ")[1], ",")
        idx_ = [int(x) for x in lst(case.split(" ")[2], ".")]
        sc_all = spec_list(toks_)[1]
        sc_sel = spec_list([toks_[i] for i in idx_])[1] if all(i < len(toks_) for i in idx_) else {}
        if f is not None:
            families.setdefault(f, ([], sc_all))[0].append(li)
        # model vs implementation: the three lists (tolerance), the held list (exact)
        ip, mp = li[2:].split(" ; "), lm[2:].split(" ; ")
        bad = None
        if canon_nums(ip[3]) != canon_nums(mp[3]):
            bad = "held list"
        for k in range(3):
            a, b = ip[k], mp[k]
            if a.startswith("panic") or b.startswith("panic") or a == "-" or b == "-":
                if (a.startswith("panic"), a == "-") != (b.startswith("panic"), b == "-") or b == "panic:type":
                    bad = "panic / no panic"
                continue
            if cmp_lists(flat(pilist(a)), flat(pilist(b)), sc_all if k == 1 else sc_sel, "model"):
                bad = "list %d" % k
        if bad:
            disagreements.append((case, {"case": case, "what": bad, "impl": li[:3000], "model": lm[:3000]}))
        if len(lst(case.split(" ")[1], ",")) >= 2:
            distinct.add(ip[0] + ip[1])
    for f, (ls, sc) in families.items():
        stats["C_permutation_families"] += 1
        stats["C_permutations"] += len(ls)
        m = monitor_perm(ls, sc)
        if m:
            first = next(c for c, ff in zip(c_cases, fam) if ff == f)
            monitor_hits.append((first, "permutation: " + m, {"case": first, "violated": m, "family_outputs": ls[:6]}))
    k = len(c_cases) - n_rand // 2
    samples.append({"case": c_cases[k], "impl": ci[k]})
    samples.append({"case": c_cases[0], "impl": ci[0], "stream": "permutation family"})

    common.decide(rep, "C19", "L-bind", audit, monitor_hits, disagreements, tier,
                  "correspondence Model/Bindings.v <-> bindings/src/model.rs, bindings/src/lib.rs")
    common.proof_coverage(rep, "C19", audit, tier,
                          "bindings/src/model.rs 84-138 (into_group_quantity), 173-209 (Amountable, extract_value), "
                          "211-311 (expand_with_ingredients, add_to_ingredient_list, merge_ingredient_lists, "
                          "merge_grouped_quantities), 313-448 (into_item, into_simple_recipe, From impls); "
                          "bindings/src/lib.rs 43-72 (deref_*), 101-117 (combine_ingredients*); parse_recipe's parser "
                          "and scaling are outside the model (the core recipe is a variable); HashMap = association "
                          "list, f64 = exact rationals, `as u32` = mod 2^32")
    rep.coverage.update({
        "evaluations": len(p_cases) + len(c_cases), "distinct_nontrivial": len(distinct),
        "rule": "P: corpus first, then %d texts (hand-written edge cases, gen/grec.py: 3/4 canonical profile, 1/4 extended profile read "
                "by the canonical parser) x 1-2 of %d scaling factors (incl. 0, 1/3, 0.1, 1e-3) - parsed by parse_recipe of "
                "the bindings and by CooklangParser::canonical + scale, both dumped; rejected texts are counted and skipped "
                "(outside the statement). C: all distinct permutations of %d lists of <=5 ingredients and %d random lists of "
                "<=12 (1-3 names and 1-3 units per list so that keys collide; same name with different units, 30%% of the lists with units differing only in case (T/t, L/l, Cup/cup); unit None vs "
                "\"\"; numbers incl. negatives and 1/3, ranges, texts with quotes/backslashes/newlines/combining marks, no "
                "amount), each with an index selection (all, subset, with repetitions, 10%% with an out-of-range index). "
                "distinct_nontrivial = distinct views of recipes with >=1 component + distinct outputs of lists with >=2 "
                "ingredients" % (len(texts), len(set(FACTORS)), n_perm, n_rand),
        "samples": samples, "streams": dict(stats),
        "correspondence_disagreements": len(disagreements), "monitor_violations": len(monitor_hits),
        "tolerance": "sums: 2^-40 relative to the sum of magnitudes of the contributions; everything else exact",
        "worst_relative_deviation": float(WORST["dev"]),
    })
    rep.assumptions = [
        "f64 addition modelled by exact rational addition; deviation bounded by the tolerance and reported",
        "HashMap iteration order is not modelled; maps are compared sorted by key",
        "Amount's crate-private fields are read from its Debug rendering, the value cross-checked through "
        "combine_ingredients on a singleton; a value Empty with a unit is not constructible from Rust outside the crate (model only)",
        "the index-in-range hypothesis of C19_refs_resolve is C06's invariant (C19_refs_invariant_is_C06); tables "
        "longer than 2^32 are excluded by hypothesis (`as u32` truncates)",
    ]


def setup():
    build_bind()
    common.build_runner("bindings", DEPS, commons=COMMONS)


def replay(rp):
    exe = build_bind()
    case = rp["replay"].get("case")
    if not case:
        print("nothing to replay (no failing input recorded)")
        return 1
    p = subprocess.run([exe, "-"], input=case + "\n", text=True, stdout=subprocess.PIPE)
    line = p.stdout.strip()
    print(line[:3000])
    if case.startswith("P "):
        if line.startswith("P invalid"):
            m = None
        elif line.startswith("P bpanic"):
            m = "parse_recipe panicked"
        else:
            m = monitor_p(line)
    else:
        m, _ = monitor_c(case, line)
    print("monitor:", m)
    return 1 if m else 0
