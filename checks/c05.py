"""C05 - no recipe content is silently dropped."""
from checks import span_cover as sc

PID = "C05"


def run(rep, tier, seed):
    sc.run(PID, "c05:", rep, tier, seed,
           "lexer and pull parser (Model/Lexer.v, Model/Parser.v); the comment scanner of the monitor is written "
           "independently in Rust (harness/src/bin/pmon.rs) and in Coq (Model/CommentMask.v)",
           "theorems tie the independent comment scanner to the lexer's comment tokens and place every letter or "
           "digit outside comments in a Word/Int/Escaped token, for every input; coverage of those tokens by events "
           "is decided by exact correspondence + monitor")
    rep.assumptions = ["`alphanumeric` is char::is_alphanumeric of the running std (the model takes it as the parameter U)"]


setup = sc.setup


def replay(rp):
    return sc.replay(rp, "c05:")
