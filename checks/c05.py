"""C05 - no recipe content is silently dropped."""
from checks import span_cover as sc

PID = "C05"


def mask_disagreements(inputs):
    """the Coq scanner (extracted) and the monitor's Rust scanner on the same inputs"""
    import os
    from vlib import common
    from vlib.common import hx
    bindir = common.build_harness(["cmask"])
    runner = common.build_runner("cmask", ["Base/Chars.v", "Model/Lexer.v", "Model/CommentMask.v"])
    cases = [hx(s) for s in inputs]
    a = common.run_lines(os.path.join(bindir, "cmask"), cases, tag="implmask")
    b = common.run_lines(runner, cases, tag="modelmask")
    return [(s, {"input": s, "input_hex": hx(s), "part": "comment mask", "impl": x, "model": y})
            for s, x, y in zip(inputs, a, b) if x != y]


def run(rep, tier, seed):
    sc.run(PID, "c05:", rep, tier, seed,
           "lexer and pull parser (Model/Lexer.v, Model/Parser.v); the comment scanner of the monitor is written "
           "independently in Rust (harness/src/bin/pmon.rs) and in Coq (Model/CommentMask.v)",
           "theorems tie the independent comment scanner to the lexer's comment tokens and place every letter or "
           "digit outside comments in a Word/Int/Escaped token, for every input; coverage of those tokens by events "
           "is decided by exact correspondence + monitor", extra=mask_disagreements)
    rep.coverage["comment_scanner_correspondence"] = "Model/CommentMask.v (extracted) vs the monitor's comment_mask on every input"
    rep.assumptions = ["`alphanumeric` is char::is_alphanumeric of the running std (the model takes it as the parameter U)"]


def setup():
    from vlib import common
    sc.setup()
    common.build_harness(["cmask"])
    common.build_runner("cmask", ["Base/Chars.v", "Model/Lexer.v", "Model/CommentMask.v"])


def replay(rp):
    return sc.replay(rp, "c05:")
