"""C02 generators: core recipes, the eight one-extension families (with the reading the
statement prescribes when the extension is off, computed here and not by any parser), and the
decidable `core` predicate on source strings that spells out the statement's exclusion list.

Everything is built on gen/grec.py (profile 'canonical': no extension syntax at all)."""
import re
import sys
import os

from vlib import common

sys.path.insert(0, os.path.join(common.VERIF, "gen"))
import grec  # noqa: E402

FAMILIES = ["modifiers", "alias", "advanced", "range", "modes", "inline", "timer_plain", "intermediate"]
# the flag each family's syntax belongs to (names of gen_consts / Gen/ExtBits.v)
FAMILY_FLAG = {"modifiers": "COMPONENT_MODIFIERS", "alias": "COMPONENT_ALIAS", "advanced": "ADVANCED_UNITS",
               "range": "RANGE_VALUES", "modes": "MODES", "inline": "INLINE_QUANTITIES",
               "timer_plain": "TIMER_REQUIRES_TIME", "intermediate": "INTERMEDIATE_PREPARATIONS"}

# step text that is core but sits next to an extension's trigger: numbers followed by a word that is
# no unit, `-`, `|`, brackets and `%` outside any component
NEAR_TEXT = [["2", "eggs"], ["3", "times"], ["well-done"], ["-", "then"], ["a", "|", "b"], ["[sic]"],
             ["50%", "done"], ["(optional)"], ["No.", "7"], ["1/2", "way"], ["x2"], ["10", "más"]]
# escaped marker / trigger characters are plain text: (printed, expected)
NEAR_TEXT += [[("\\#1", "#1")], [("\\~5", "~5"), "or", "so"], [("2\\-3", "2-3"), "pieces"], [("\\{x\\}", "{x}")],
              [("a\\|b", "a|b")], [("\\[mode\\]", "[mode]")]]
# number-led TEXT values: core when the unit is introduced by `%` (quantity.rs 98-100: a `%`
# anywhere in the braces sends the quantity down the regular path)
NUM_TEXT_VALUES = ["2 medium", "1 large", "2 x 400", "3 or 4", "1 heaped", "2 small ripe", "1 1/2 big"]
NUM_TEXT_UNITS = ["pieces", "piece", "g", "cloves", "tbsp", "cans"]
# text values without unit that sit next to the range / advanced-units triggers
ODD_TEXT_VALUES = ["2x", "semi-dry", "x2", "a-few"]
# names with digits and punctuation (always written with braces)
ING_EXTRA = ["7-up", "half & half", "St. Agur", "piri-piri", "no.5 flour"]
# <number>-<non-number> text values: no numeric range (quantity.rs 204-229 needs a number on both
# sides of the `-`), hence core; with and without a `%` unit
DASH_TEXT_VALUES = ["1-inch piece", "2-day old", "1-qt", "3-in-1", "2-ply", "1-pound bag"]
# path-style recipe references (core: the name is the last segment, no modifier) and names with
# `/` and `.` that are no paths: (spelling, expected name)
PATH_NAMES = [("./sauces/Hollandaise", "Hollandaise"), ("../base/stock", "stock"), ("./pesto", "pesto"),
              (".\\\\sauces\\\\aioli", "aioli"), ("half/half cream", "half/half cream"),
              ("dr. oetker mix", "dr. oetker mix")]
META_BODY_LINES = [">> note: see above", ">> source: x y z", ">> k1: later", ">> serves: 4 people", ">>tip:stir"]

INLINE_TEXT = [["180", "C"], ["5g"], ["1.5", "kg"], ["350", "F"], ["10", "min"], ["2", "cups"], ["-3", "C"]]


class CoreGen(grec.Gen):
    """core recipes: canonical profile, every timer has a number and a time unit the bundled
    converter knows, no timer without duration; plus near-miss text."""

    family = None

    def __init__(self, rng, features=None):
        f = {"timer_plain": False}
        if features:
            f.update(features)
        super().__init__(rng, "canonical", f)
        self.used = 0          # occurrences of the family's syntax
        self.inter_refs = []   # (index of the `&(n)` ingredient, index of its definition)
        self.n_timers = 0

    # -- timers: number + known time unit ------------------------------------------------
    def quantity(self, kind):
        if kind == "tm":
            s, j = self.number()
            unit = self.r.choice(grec.UNITS_TIME)
            body = self.blank() + s + self.blank() + "%" + self.blank() + unit + self.blank()
            return body, {"value": {"type": "fixed", "value": {"type": "number", "value": j}}, "unit": unit}
        r = self.r
        if kind == "igr" and r.random() < 0.12:
            txt = r.choice(NUM_TEXT_VALUES)
            unit = r.choice(NUM_TEXT_UNITS)
            body = self.blank() + txt + self.blank() + "%" + self.blank() + unit + self.blank()
            return body, {"value": {"type": "fixed", "value": {"type": "text", "value": txt}}, "unit": unit}
        if kind in ("igr", "cw") and r.random() < 0.08:
            txt = r.choice(DASH_TEXT_VALUES)
            j = {"type": "fixed", "value": {"type": "text", "value": txt}}
            if kind == "cw":
                return self.blank() + txt + self.blank(), j
            unit = r.choice(NUM_TEXT_UNITS + ["slices"]) if r.random() < 0.5 else None
            body = self.blank() + txt + (self.blank() + "%" + self.blank() + unit if unit else "") + self.blank()
            return body, {"value": j, "unit": unit}
        if kind in ("igr", "cw") and r.random() < 0.05:
            txt = r.choice(ODD_TEXT_VALUES)
            j = {"type": "fixed", "value": {"type": "text", "value": txt}}
            return self.blank() + txt + self.blank(), (j if kind == "cw" else {"value": j, "unit": None})
        return super().quantity(kind)

    def timer(self, st):
        self.n_timers += 1
        return super().timer(st)

    def ingredient(self, st):
        r = self.r
        if r.random() < 0.14:
            if r.random() < 0.5:
                spelled, name = r.choice(PATH_NAMES)
            else:
                spelled = name = r.choice(ING_EXTRA)
            qs, q = (self.quantity("igr") if r.random() < 0.6 else (None, None))
            text = spelled + "{" + (qs if qs is not None else self.blank(0.2)) + "}"
            note = None
            if r.random() < 0.3:
                note = r.choice(["chilled", "the blue one"])
                text += "(" + note + ")"
            st["ingredients"].append(_definition(name, q, note))
            return ("c", "@" + text, "ingredient", len(st["ingredients"]) - 1)
        return super().ingredient(st)

    # -- near-miss text ---------------------------------------------------------------------
    def extra_text(self):
        return NEAR_TEXT

    def build_step(self, st):
        pieces = super().build_step(st)
        r = self.r
        if r.random() < 0.35:
            words = r.choice(self.extra_text())
            if words in INLINE_TEXT:
                self.used += 1
            ins = []
            for i, w in enumerate(words):
                if i:
                    ins.append(("sp",))
                ins.append(("t", w[0], w[1]) if isinstance(w, tuple) else ("t", w, w))
            if r.random() < 0.5:
                pieces = pieces + [("sp",)] + ins
            else:
                pieces = ins + [("sp",)] + pieces
        return pieces

    def recipe(self):
        text, exp, info = super().recipe()
        info["timers"] = self.n_timers
        info["used"] = self.used
        # a metadata entry with brackets that is no bracketed key (only where `>>` lines are entries)
        if not text.startswith("---\n") and self.f["metadata"] and self.r.random() < 0.3:
            text = ">> src[1]: see [x]\n" + text
            exp["metadata"]["src[1]"] = "see [x]"
        # after a YAML front matter a plain `>>` line is ordinary step text (mod.rs 361-371), a
        # block of its own; placed before the first block, after the last one, or between steps
        if text.startswith("---\n") and self.r.random() < 0.6:
            text = self.meta_lines_in_body(text, exp)
            info["meta_in_body"] = True
        return text, exp, info

    def meta_lines_in_body(self, text, exp):
        r = self.r
        secs = exp["sections"]

        def step(n, txt):
            return {"type": "step", "number": n, "items": [["text", txt]]}

        def nsteps(sec):
            return sum(1 for b in sec["content"] if b["type"] == "step")

        where = r.choice(["before", "after", "between", "both"])
        if where in ("before", "both"):
            line = r.choice(META_BODY_LINES)
            fm_end = text.index("---\n", 4) + 4
            text = text[:fm_end] + line + "\n" + text[fm_end:]
            if secs and secs[0]["name"] is None:
                for b in secs[0]["content"]:
                    if b["type"] == "step":
                        b["number"] += 1
                secs[0]["content"].insert(0, step(1, line))
            else:
                secs.insert(0, {"name": None, "content": [step(1, line)]})
        if where in ("after", "between", "both"):
            line = r.choice(META_BODY_LINES)
            text += ("" if text.endswith("\n") else "\n") + line + "\n"
            last = secs[-1]
            last["content"].append(step(nsteps(last) + 1, line))
            if where == "between":
                more = r.choice(["Serve hot now", "then mix well", "stir and pour"])
                text += r.choice(["", "\n"]) + more + "\n"
                last["content"].append(step(nsteps(last) + 1, more))
        return text


def _definition(name, q=None, note=None):
    return {"name": name, "alias": None, "note": note, "quantity": q, "modifiers": "", "_bits": 0,
            "relation": {"type": "definition", "referenced_from": [], "defined_in_step": True,
                         "reference_target": None}}


class FamGen(CoreGen):
    """a core recipe plus occurrences of ONE extension's syntax; `expected` is the reading with
    that extension off (the statement's converse half)."""

    def __init__(self, rng, family):
        feats = {}
        if family == "modes":
            feats["frontmatter"] = False      # `>>` lines are entries only without a front matter
        super().__init__(rng, feats)
        self.family = family

    def extra_text(self):
        return INLINE_TEXT if self.family == "inline" else NEAR_TEXT

    def quantity(self, kind):
        r = self.r
        if self.family == "advanced" and kind == "igr" and r.random() < 0.6:
            s, _ = self.number()
            unit = r.choice(grec.UNITS_MASS + grec.UNITS_VOL + grec.UNITS_UNKNOWN)
            self.used += 1
            txt = s + " " + unit
            return self.blank() + txt + self.blank(), \
                {"value": {"type": "fixed", "value": {"type": "text", "value": txt}}, "unit": None}
        if self.family == "range" and kind in ("igr", "cw") and r.random() < 0.6:
            a, _ = self.number()
            b, _ = self.number()
            sp = r.choice(["", " "])
            txt = a + sp + "-" + sp + b
            self.used += 1
            if kind == "cw":
                return self.blank() + txt + self.blank(), {"type": "fixed", "value": {"type": "text", "value": txt}}
            unit = r.choice(grec.UNITS_MASS + grec.UNITS_UNKNOWN) if r.random() < 0.6 else None
            body = self.blank() + txt + (self.blank() + "%" + self.blank() + unit if unit else "") + self.blank()
            return body, {"value": {"type": "fixed", "value": {"type": "text", "value": txt}}, "unit": unit}
        return super().quantity(kind)

    def ingredient(self, st):
        r = self.r
        igrs = st["ingredients"]
        fam = self.family
        if fam in ("modifiers", "alias") and r.random() < 0.5:
            name = r.choice(grec.ING_SINGLE + grec.ING_MULTI)
            if fam == "modifiers":
                pre = "".join(r.sample(["?", "+", "&", "-"], r.randint(1, 2)))
                shown = pre + name
            else:
                shown = name + "|" + r.choice(["oil", "the good stuff", "AP"])
            qs, q = (self.quantity("igr") if r.random() < 0.6 else (None, None))
            text = shown + "{" + (qs if qs is not None else self.blank(0.2)) + "}"
            self.used += 1
            igrs.append(_definition(shown, q))
            return ("c", "@" + text, "ingredient", len(igrs) - 1)
        if fam == "intermediate" and r.random() < 0.5:
            # with the extension off `&` is at most the reference modifier and `(1)` part of the name
            defs = [(i, g) for i, g in enumerate(igrs) if g.get("_idef")]
            if defs and r.random() < 0.6:
                i, g = r.choice(defs)
                # the reference resolves to the LAST earlier definition of that name
                target = max(k for k, h in defs if h["name"].lower() == g["name"].lower())
                self.used += 1
                igrs.append(_definition("&" + g["name"]))
                self.inter_refs.append((len(igrs) - 1, target))
                return ("c", "@&" + g["name"] + "{}", "ingredient", len(igrs) - 1)
            name = r.choice(["(1)", "(2)", "(=1)"]) + r.choice(["dough", "sauce"])
            e = _definition(name)
            e["_idef"] = True
            igrs.append(e)
            return ("c", "@" + name + "{}", "ingredient", len(igrs) - 1)
        return super().ingredient(st)

    def cookware(self, st):
        r = self.r
        fam = self.family
        if fam in ("modifiers", "alias") and r.random() < 0.5:
            name = r.choice(grec.CW_SINGLE + grec.CW_MULTI)
            shown = (r.choice(["?", "-", "+", "&"]) + name) if fam == "modifiers" else (name + "|" + r.choice(["p", "big one"]))
            self.used += 1
            st["cookware"].append({"name": shown, "alias": None, "note": None, "quantity": None, "modifiers": "",
                                   "relation": {"type": "definition", "referenced_from": [], "defined_in_step": True}})
            return ("c", "#" + shown + "{}", "cookware", len(st["cookware"]) - 1)
        return super().cookware(st)

    def timer(self, st):
        r = self.r
        if self.family == "alias" and r.random() < 0.6:
            # with COMPONENT_ALIAS off the `|` stays in the timer's name (step.rs 529-531)
            name = r.choice(["soft|hard boiled", "rest|wait", "bake|roast slowly"])
            qs, q = self.quantity("tm")
            self.used += 1
            self.n_timers += 1
            st["timers"].append({"name": name, "quantity": q})
            return ("c", "~" + name + "{" + qs + "}", "timer", len(st["timers"]) - 1)
        if self.family == "timer_plain" and r.random() < 0.6:
            name = r.choice(grec.TM_NAMES)
            single = " " not in name
            text = name if (single and r.random() < 0.5) else name + "{" + self.blank(0.2) + "}"
            self.used += 1
            st["timers"].append({"name": name, "quantity": None})
            return ("c", "~" + text, "timer", len(st["timers"]) - 1)
        return super().timer(st)

    def recipe(self):
        text, exp, info = super().recipe()
        if self.family == "modes":
            lines = []
            for _ in range(self.r.randint(1, 2)):
                k, v = self.r.choice([("[mode]", "steps"), ("[mode]", "text"), ("[mode]", "components"),
                                      ("[define]", "all"), ("[duplicate]", "ref"), ("[duplicate]", "new"),
                                      ("[foo]", "bar"), ("[mode]", "nonsense")])
                lines.append(">> " + k + ": " + v + "\n")
                exp["metadata"][k] = v         # a later entry with the same key replaces the earlier one
                self.used += 1
            text = "".join(lines) + text
        info["used"] = self.used
        info["inter_refs"] = list(self.inter_refs)
        return text, exp, info


def with_modifiers_reading(exp, inter_refs):
    """the reading of an 'intermediate' family recipe under COMPONENT_MODIFIERS without
    INTERMEDIATE_PREPARATIONS: `&` is the reference modifier, `(1)dough` the name."""
    import copy
    e = copy.deepcopy(exp)
    for idx, target in inter_refs:
        g = e["ingredients"][idx]
        g["name"] = g["name"][1:]
        g["modifiers"] = "REF"
        g["relation"] = {"type": "reference", "references_to": target, "reference_target": "ingredient"}
        e["ingredients"][target]["relation"]["referenced_from"].append(idx)
    return e


# ------------------------------------------------------------------------------------------
# the class `core` on source strings (DESIGN.md section 5, C02): None = core, else the reason.
# Decidable and deliberately conservative (it may call a core string non-core, never the reverse
# for the constructs the generators and the enumeration alphabet can spell).

_MOD_AFTER_MARKER = re.compile(r"[@#~][@&?+\-]")
# a braced component's name is everything between its marker and the next `{` (no marker between)
_PIPE_IN_NAME = re.compile(r"[@#~][^@#~{]*\|[^@#~{]*\{")
_BRACES = re.compile(r"\{([^}]*)\}")
_UNIT_NO_PERCENT = re.compile(r"\d\s+[^\s\d/.]")
_RANGE = re.compile(r"\d[^-]*-[^-]*\d", re.S)
# mod.rs 361-371 / event_consumer.rs 352-354: the trimmed key starts with `[` and ends with `]`
_BRACKET_KEY = re.compile(r">>[ \t]*\[[^:\n]*\][ \t]*(:|$)", re.M)
_BLOCK_COMMENT = re.compile(r"\[-.*?-\]", re.S)
_LINE_COMMENT = re.compile(r"--[^\n]*")
# every digit run is examined (the code examines a subset): glued suffix, else the next word
_NUMBER_WORD = re.compile(r"(\d[\d.]*)(\S*)(?=(?:\s+(\S+))?)")
_TIMER_BRACES = re.compile(r"([^@#~{]*)\{([^}]*)\}", re.S)
_TIME_QTY = re.compile(r"\s*[\d./ ]*\d[\d./ ]*\s*%\s*(\S+)\s*\Z")
# characters that cannot begin a single-word timer name (lexer: not Word/Int)
_NOT_NAME_START = set(" \t\n\r.>:@#~?+-/*&|=%{}()\\,;!\"'[]")


_ESCAPE = re.compile(r"\\.", re.S)


def core_reason(s, units=frozenset(), time_units=frozenset()):
    s = _ESCAPE.sub("_", s)      # an escaped character is plain text whatever it is
    if _MOD_AFTER_MARKER.search(s):
        return "modifier-after-marker"
    if "|" in s and _PIPE_IN_NAME.search(s):
        return "pipe-in-name"
    for m in _BRACES.finditer(s):
        c = m.group(1)
        if "%" not in c and _UNIT_NO_PERCENT.search(c):
            return "unit-without-percent"
        if "-" in c and _RANGE.search(c):
            return "range-in-value"
    if _BRACKET_KEY.search(s):
        return "bracketed-metadata-key"
    plain = _LINE_COMMENT.sub(" ", _BLOCK_COMMENT.sub(" ", s))
    if units:
        for m in _NUMBER_WORD.finditer(plain):
            unit = m.group(2) if m.group(2) else m.group(3)
            if unit and unit in units:
                return "number-plus-known-unit-in-text"
    for i, ch in enumerate(s):
        if ch != "~":
            continue
        rest = s[i + 1:]
        m = _TIMER_BRACES.match(rest)
        if m:
            q = _TIME_QTY.match(m.group(2))
            if not (q and q.group(1) in time_units and "-" not in m.group(2)):
                return "timer-without-time-quantity"
        elif rest and rest[0] not in _NOT_NAME_START:
            return "timer-without-time-quantity"
    return None
