"""C07 - the catalogue of invalid constructs and the splicer that places them in well-formed recipes.

Every entry names: the class of the property statement it belongs to, the text of the offending
construct (B), an optional well-formed set-up placed before it (A, in an earlier step or just before
B; or PREFIX blocks at the top of the body), the level at which it is spliced ('step': a component
inside a step, 'line': a block of its own at a line start, 'front': a front matter at the top), the
severity the code/documentation gives it, the stage, the extension bits that enable the check, whether
the bundled converter is needed, and the source line that emits the diagnostic.

Severities come from the code (bp.error / bp.warn, ctx.error / ctx.warn) and extensions.md:
  * src/parser/step.rs, src/parser/quantity.rs: `bp.error(error!(..))` => error, Stage::Parse
    (macros of src/parser/mod.rs:430-441); `bp.warn(warning!(..))` => warning.
  * src/analysis/event_consumer.rs: `self.ctx.error(error!(..))` => error, Stage::Analysis (macros 19-43).
  * extensions.md: "Timer requires time: ... makes timers like `~name` invalid"; "Advanced units ...
    Enables extra checks: Checks that units between references are compatible, so they can be added.
    Checks that timers have a time unit."; "Intermediate preparations ... Only past steps from the
    current section can be referenced. It can only be combined with the optional (`?`) modifier";
    "Modifiers ... This also works (except recipe) for cookware"; "`&` Reference ... The ingredient
    must be defined before."
`{}` and `{ }` are *not* empty values (step.rs:54-61: a quantity of blanks is no quantity; the braces
only delimit the name) - the empty value of quantity.rs:193-199 is `{%unit}`, `{=}`, `{=%unit}`."""
import re

import grec

X_MOD, X_ALIAS, X_ADV, X_MODES, X_INLINE, X_RANGE, X_TRT, X_INTER = 2, 8, 32, 64, 128, 512, 1024, 2050
X_COMPAT, X_ALL = 2794, 3818

STEP_RS = "src/parser/step.rs"
QTY_RS = "src/parser/quantity.rs"
EC_RS = "src/analysis/event_consumer.rs"


class Entry:
    def __init__(self, eid, cls, b, sev, stage, need, src, a=None, prefix=None, level="step", conv=None,
                 why="", feats=None, sub=None, strict_stage=False):
        self.id, self.cls, self.b, self.sev, self.stage = eid, cls, b, sev, stage
        self.need, self.src, self.a, self.prefix, self.level, self.conv, self.why = need, src, a, prefix, level, conv, why
        # feats: feature switches of the base recipe; sub: (lo, hi) characters of `b` that are the offending
        # part (the key / the value of a metadata line); strict_stage: the diagnostic must have `stage`
        self.feats, self.sub, self.strict_stage = feats, sub, strict_stage

    def configs(self):
        """the (extension set, converter) pairs under which the check must fire: the minimal enabling set,
        and - when they contain it - no extensions, COMPAT and all extensions"""
        out = []
        need_b = self.conv == "b" or bool(self.need & X_ADV)
        for e in (0, self.need, X_COMPAT, X_ALL):
            if e & self.need != self.need:
                continue
            # extended syntax/units in the base recipe need the bundled converter; the canonical
            # base under ADVANCED_UNITS needs it for its timer units too
            c = "b" if (need_b or e in (X_COMPAT, X_ALL)) else "e"
            if (e, c) not in out:
                out.append((e, c))
        return out


def E(*a, **k):
    return Entry(*a, **k)


# ten levels of ten aliases each: serde_yaml stops with "repetition limit exceeded" (no location)
ALIAS_BOMB = "a: &a [x, x, x, x, x, x, x, x, x, x]\n" + "".join(
    "%s: &%s [%s]\n" % (n, n, ", ".join("*" + p for _ in range(10))) for p, n in zip("abcdefghi", "bcdefghij"))

CATALOG = [
    # ---- empty name (step.rs:569-576 check_empty_name; timers: 475-486)
    E("empty_name_igr", "empty name", "@{1%g}", "e", "Parse", 0, STEP_RS + ":571"),
    E("empty_name_igr_blank", "empty name", "@ {}", "e", "Parse", 0, STEP_RS + ":571"),
    E("empty_name_igr_note", "empty name", "@{}(chopped)", "e", "Parse", 0, STEP_RS + ":571"),
    E("empty_name_cw", "empty name", "#{2}", "e", "Parse", 0, STEP_RS + ":571"),
    E("empty_name_alias", "empty name", "@|oil{}", "e", "Parse", X_ALIAS, STEP_RS + ":571"),
    E("empty_name_mods", "empty name", "@?{}", "e", "Parse", X_MOD, STEP_RS + ":571"),
    E("empty_timer", "empty name", "~{}", "e", "Parse", 0, STEP_RS + ":481",
      why="a timer with neither a name nor a duration"),
    # ---- zero denominator (quantity.rs:297-313 frac)
    E("div_zero_igr", "zero denominator", "@zzflour{1/0}", "e", "Parse", 0, QTY_RS + ":303"),
    E("div_zero_unit", "zero denominator", "@zzflour{3/0%g}", "e", "Parse", 0, QTY_RS + ":303"),
    E("div_zero_mixed", "zero denominator", "@zzflour{2 1/0%cup}", "e", "Parse", 0, QTY_RS + ":303"),
    E("div_zero_spaced", "zero denominator", "@zzflour{1 / 0}", "e", "Parse", 0, QTY_RS + ":303"),
    E("div_zero_cw", "zero denominator", "#zzpan{1/0}", "e", "Parse", 0, QTY_RS + ":303"),
    E("div_zero_timer", "zero denominator", "~{1/0%min}", "e", "Parse", 0, QTY_RS + ":303"),
    E("div_zero_range", "zero denominator", "@zzflour{1/0-2%g}", "e", "Parse", X_RANGE, QTY_RS + ":303"),
    E("div_zero_range_end", "zero denominator", "@zzflour{1-2/0}", "e", "Parse", X_RANGE, QTY_RS + ":303"),
    E("div_zero_advanced", "zero denominator", "@zzflour{1/0 kg}", "e", "Parse", X_ADV, QTY_RS + ":303"),
    # ---- empty value (quantity.rs:193-199 text_value)
    E("empty_value_unit", "empty value", "@zzsalt{%g}", "e", "Parse", 0, QTY_RS + ":196"),
    E("empty_value_blank_unit", "empty value", "@zzsalt{ %g}", "e", "Parse", 0, QTY_RS + ":196"),
    E("empty_value_lock", "empty value", "@zzsalt{=}", "e", "Parse", 0, QTY_RS + ":196"),
    E("empty_value_lock_unit", "empty value", "@zzsalt{= %g}", "e", "Parse", 0, QTY_RS + ":196"),
    E("empty_value_percent", "empty value", "@zzsalt{%}", "e", "Parse", 0, QTY_RS + ":196"),
    E("empty_value_timer", "empty value", "~zzrest{%min}", "e", "Parse", 0, QTY_RS + ":196"),
    E("empty_value_cw", "empty value", "#zzpan{%}", "e", "Parse", 0, QTY_RS + ":196"),
    # ---- unit on cookware (step.rs:379-394)
    E("cookware_unit", "unit on cookware", "#zzpot{1%kg}", "e", "Parse", 0, STEP_RS + ":387"),
    E("cookware_unit_text", "unit on cookware", "#zzpot{some%big}", "e", "Parse", 0, STEP_RS + ":387"),
    E("cookware_unit_advanced", "unit on cookware", "#zzpot{2 kg}", "e", "Parse", X_ADV, STEP_RS + ":387"),
    # ---- timer without unit (step.rs:445-456) / without duration (460-467, TIMER_REQUIRES_TIME)
    E("timer_no_unit", "timer without unit or duration", "~{5}", "e", "Parse", 0, STEP_RS + ":446"),
    E("timer_no_unit_named", "timer without unit or duration", "~zzrest{10}", "e", "Parse", 0, STEP_RS + ":446"),
    E("timer_no_unit_sep", "timer without unit or duration", "~zzrest{10%}", "e", "Parse", 0, STEP_RS + ":446",
      why="the empty unit is dropped with a warning (quantity.rs:71-80), then the unit is missing"),
    E("timer_no_qty_word", "timer without unit or duration", "~zzrest", "e", "Parse", X_TRT, STEP_RS + ":462"),
    E("timer_no_qty_braces", "timer without unit or duration", "~zz rest{}", "e", "Parse", X_TRT, STEP_RS + ":462"),
    # ---- duplicate modifier (step.rs:166-174)
    E("dup_mod_opt", "duplicate or forbidden modifier", "@??zzthyme{}", "e", "Parse", X_MOD, STEP_RS + ":167"),
    E("dup_mod_hidden", "duplicate or forbidden modifier", "@-?-zzthyme", "e", "Parse", X_MOD, STEP_RS + ":167"),
    E("dup_mod_recipe", "duplicate or forbidden modifier", "@@@zzsauce{1}", "e", "Parse", X_MOD, STEP_RS + ":167"),
    E("dup_mod_new", "duplicate or forbidden modifier", "@++zzthyme", "e", "Parse", X_MOD, STEP_RS + ":167"),
    E("dup_mod_ref", "duplicate or forbidden modifier", "@&&zzdef", "e", "Parse", X_MOD, STEP_RS + ":167",
      a="@zzdef{1%g}"),
    E("dup_mod_cw", "duplicate or forbidden modifier", "#??zzpan", "e", "Parse", X_MOD, STEP_RS + ":167"),
    # ---- forbidden modifier
    E("forbidden_recipe_cw", "duplicate or forbidden modifier", "#@zzpan{}", "e", "Parse", X_MOD, STEP_RS + ":406"),
    E("forbidden_mods_timer", "duplicate or forbidden modifier", "~?zzrest{1%min}", "e", "Parse", X_MOD,
      STEP_RS + ":498"),
    E("forbidden_mods_timer_ref", "duplicate or forbidden modifier", "~&{2%min}", "e", "Parse", X_MOD,
      STEP_RS + ":498"),
    E("forbidden_inter_cw", "duplicate or forbidden modifier", "#&(1)zzpan{}", "e", "Parse", X_INTER,
      STEP_RS + ":515"),
    E("forbidden_inter_timer", "duplicate or forbidden modifier", "~&(1){1%min}", "e", "Parse", X_INTER,
      STEP_RS + ":498"),
    E("forbidden_new_ref", "duplicate or forbidden modifier", "@+&zzthyme", "e", "Analysis", X_MOD, EC_RS + ":1123",
      why="new (+) can never be combined with ref (&)"),
    E("forbidden_inter_hidden", "duplicate or forbidden modifier", "@&(~1)-zzdough{}", "e", "Analysis", X_INTER,
      EC_RS + ":615", why="an intermediate reference can only be combined with `?` (extensions.md)"),
    E("forbidden_inter_recipe", "duplicate or forbidden modifier", "@@&(~1)zzdough{}", "e", "Analysis", X_INTER,
      EC_RS + ":615"),
    # ---- bad alias (step.rs:292-313, 526-545)
    E("alias_empty", "bad alias", "@zzwine|{}", "e", "Parse", X_ALIAS, STEP_RS + ":306"),
    E("alias_empty_blank", "bad alias", "@zz wine| {1}", "e", "Parse", X_ALIAS, STEP_RS + ":306"),
    E("alias_multiple", "bad alias", "@zzwine|a|b{}", "e", "Parse", X_ALIAS, STEP_RS + ":297"),
    E("alias_multiple_empty", "bad alias", "@zzwine||{}", "e", "Parse", X_ALIAS, STEP_RS + ":297"),
    E("alias_cw_empty", "bad alias", "#zzpan|{}", "e", "Parse", X_ALIAS, STEP_RS + ":306"),
    E("alias_timer", "bad alias", "~zzrest|nap{1%min}", "e", "Parse", X_ALIAS, STEP_RS + ":537"),
    # ---- dangling reference (event_consumer.rs:1212-1225)
    E("dangling_ref_igr", "dangling or conflicting reference", "@&zznowhere{}", "e", "Analysis", X_MOD,
      EC_RS + ":1212"),
    E("dangling_ref_word", "dangling or conflicting reference", "@&zznowhere", "e", "Analysis", X_MOD,
      EC_RS + ":1212"),
    E("dangling_ref_qty", "dangling or conflicting reference", "@&zz nowhere{1%g}", "e", "Analysis", X_MOD,
      EC_RS + ":1212"),
    E("dangling_ref_cw", "dangling or conflicting reference", "#&zznopan{}", "e", "Analysis", X_MOD,
      EC_RS + ":1212"),
    E("dangling_ref_after", "dangling or conflicting reference", "@&zzlater{}", "e", "Analysis", X_MOD,
      EC_RS + ":1212", why="the definition comes AFTER the reference (same marker, B then a definition)"),
    E("dangling_ref_steps_mode", "dangling or conflicting reference", "@zznowhere{}", "e", "Analysis", X_MODES,
      EC_RS + ":1212", prefix=">> [mode]: steps\n", why="in `steps` mode every ingredient is a reference"),
    # ---- conflicting reference (modifiers: 1183-1207; quantity: 720-732; units: 649-697)
    E("conflict_ref_mods", "dangling or conflicting reference", "@&-zzdef{}", "e", "Analysis", X_MOD,
      EC_RS + ":1205", a="@zzdef{1%g}"),
    E("conflict_ref_mods_recipe", "dangling or conflicting reference", "@@&zzdef", "e", "Analysis", X_MOD,
      EC_RS + ":1205", a="@zzdef{}"),
    E("conflict_ref_mods_cw", "dangling or conflicting reference", "#&?zzpan{}", "e", "Analysis", X_MOD,
      EC_RS + ":1205", a="#zzpan{}"),
    E("conflict_ref_qty", "dangling or conflicting reference", "@&zzdef{2%g}", "e", "Analysis", X_MODES | X_MOD,
      EC_RS + ":727", prefix=">> [mode]: components\n@zzdef{1%g}\n>> [mode]: all\n",
      why="definition outside a step with a quantity, reference with a quantity"),
    E("conflict_ref_qty_cw", "dangling or conflicting reference", "#&zzpan{2}", "e", "Analysis", X_MODES | X_MOD,
      EC_RS + ":943", prefix=">> [define]: ingredients\n#zzpan{1}\n>> [define]: default\n"),
    E("conflict_ref_units", "dangling or conflicting reference", "@&zzdef{1%ml}", "w", "Analysis", X_ADV | X_MOD,
      EC_RS + ":688", a="@zzdef{1%g}", conv="b",
      why="extensions.md: units between references are checked to be compatible; ctx.warn"),
    E("conflict_ref_units_missing", "dangling or conflicting reference", "@&zzdef{1}", "w", "Analysis",
      X_ADV | X_MOD, EC_RS + ":688", a="@zzdef{1%g}", conv="b"),
    # ---- note on a reference (event_consumer.rs:701-708, 926-933, 1426-1447)
    E("note_on_ref", "note on a reference", "@&zzdef{}(sifted)", "e", "Analysis", X_MOD, EC_RS + ":702",
      a="@zzdef{1%g}"),
    E("note_on_ref_defnote", "note on a reference", "@&zzdef(again)", "e", "Analysis", X_MOD, EC_RS + ":702",
      a="@zzdef{1%g}(first)"),
    E("note_on_ref_cw", "note on a reference", "#&zzpan(big)", "e", "Analysis", X_MOD, EC_RS + ":927",
      a="#zzpan{}"),
    E("note_on_ref_implicit", "note on a reference", "@zzdef{}(sifted)", "e", "Analysis", X_MODES, EC_RS + ":702",
      prefix=">> [duplicate]: ref\n", a="@zzdef{1%g}"),
    # ---- intermediate reference (analysis: 792-809, 811-899; parse: step.rs:224-266)
    E("inter_zero", "out-of-range intermediate reference", "@&(0)zzdough{}", "e", "Analysis", X_INTER, EC_RS + ":795"),
    E("inter_zero_rel", "out-of-range intermediate reference", "@&(~0)zzdough{}", "e", "Analysis", X_INTER,
      EC_RS + ":802"),
    E("inter_zero_section", "out-of-range intermediate reference", "@&(=0)zzdough{}", "e", "Analysis", X_INTER,
      EC_RS + ":795"),
    E("inter_oob_step", "out-of-range intermediate reference", "@&(99)zzdough{}", "e", "Analysis", X_INTER,
      EC_RS + ":830"),
    E("inter_oob_step_rel", "out-of-range intermediate reference", "@&(~99)zzdough{}", "e", "Analysis", X_INTER,
      EC_RS + ":852"),
    E("inter_oob_section", "out-of-range intermediate reference", "@&(=99)zzdough{}", "e", "Analysis", X_INTER,
      EC_RS + ":867"),
    E("inter_oob_section_rel", "out-of-range intermediate reference", "@&(=~99)zzdough{}", "e", "Analysis", X_INTER,
      EC_RS + ":884"),
    E("inter_oob_opt", "out-of-range intermediate reference", "@?&( ~ 99 )zz dough{}", "e", "Analysis", X_INTER,
      EC_RS + ":852"),
    E("inter_empty", "out-of-range intermediate reference", "@&()zzdough{}", "e", "Parse", X_INTER, STEP_RS + ":225",
      why="malformed"),
    E("inter_swapped", "out-of-range intermediate reference", "@&(~=1)zzdough{}", "e", "Parse", X_INTER,
      STEP_RS + ":235", why="malformed"),
    E("inter_signed", "out-of-range intermediate reference", "@&(-1)zzdough{}", "e", "Parse", X_INTER,
      STEP_RS + ":246", why="malformed"),
    E("inter_word", "out-of-range intermediate reference", "@&(first)zzdough{}", "e", "Parse", X_INTER,
      STEP_RS + ":256", why="malformed"),
    E("inter_i16", "out-of-range intermediate reference", "@&(40000)zzdough{}", "e", "Parse", X_INTER,
      STEP_RS + ":264", why="does not fit i16"),
    # ---- bad mode value (event_consumer.rs:358-371)
    E("bad_mode", "bad mode value", ">> [mode]: nonsense", "e", "Analysis", X_MODES, EC_RS + ":363", level="line"),
    E("bad_define", "bad mode value", ">>[define]:stepz", "e", "Analysis", X_MODES, EC_RS + ":363", level="line"),
    E("bad_duplicate", "bad mode value", ">> [duplicate]: maybe", "e", "Analysis", X_MODES, EC_RS + ":370",
      level="line"),
    E("bad_mode_mb", "bad mode value", ">> [mode]: tëxt", "e", "Analysis", X_MODES, EC_RS + ":363", level="line"),
    E("bad_mode_empty", "bad mode value", ">> [mode]:", "e", "Analysis", X_MODES, EC_RS + ":363", level="line",
      why="the parser warns about the empty value (metadata.rs:34), the analysis rejects it"),
    # ---- empty metadata key / value of an old-style `>>` line (src/parser/metadata.rs:25-43): the key text
    # (Text::is_text_empty: blanks only, comments are not text) empty => `block.error`, label = the key
    # position; else the value text empty => `block.warn`, first label = the value position.  The base recipe
    # has no front matter (with one, `>>` lines are not metadata any more).
] + [
    Entry("meta_key_" + n, "empty metadata key or value", b, "e", "Parse", 0, "src/parser/metadata.rs:27",
          level="line", feats={"frontmatter": False}, sub=(2, b.index(":", b.rfind("-]") + 1 if "-]" in b else 0) + 1),
          strict_stage=True, why=w)
    for n, b, w in [
        ("none", ">>: zzvalue", "nothing before the colon"),
        ("blanks", ">>   : zzvalue", "blanks only"),
        ("tab", ">>\t:zzvalue", "a tab only"),
        ("comment", ">> [- which key? -]: zzvalue", "a block comment only"),
        ("comment_tight", ">>[- k -] : zzvalue", "a block comment and a blank"),
        ("comments", ">> [- a -] [- b -]  : zzvalue", "several comments and blanks"),
        ("comment_mb", ">> [- clé à définir 名 🥕 -]: zzvalue", "multi-byte text in the comment"),
        ("comment_no_value", ">>[- k -]:", "key and value both empty: the key error wins"),
    ]
] + [
    Entry("meta_value_" + n, "empty metadata key or value", b, "w", "Parse", 0, "src/parser/metadata.rs:35",
          level="line", feats={"frontmatter": False}, sub=(b.index(":") + 1, len(b)), strict_stage=True, why=w)
    for n, b, w in [
        ("none", ">> zzmood:", "nothing after the colon"),
        ("blanks", ">> zzmood:   ", "blanks only"),
        ("tab", ">>zzmood:\t", "a tab only"),
        ("comment", ">> zzmood: [- ask grandma -]", "a block comment only"),
        ("line_comment", ">> zzmood: -- ask grandma", "a line comment only"),
        ("line_comment_tight", ">> zz mood:-- ask", "a line comment right after the colon"),
        ("comments", ">> zzmood:  [- a -]  [- b -] ", "several comments and blanks"),
        ("comment_then_line", ">> zzmood: [- a -] -- b", "block comment then line comment"),
        ("comment_mb", ">> zzmood: [- demandé à mémé 名 🥕 -]", "multi-byte text in the comment"),
        ("line_comment_mb", ">> zz mööd: -- à voir 名", "multi-byte key and line comment"),
    ]
] + [
    # ---- malformed front matter (event_consumer.rs:238-252)
    E("fm_flow_open", "malformed front matter", "title: [1\n", "e", "Analysis", 0, EC_RS + ":243", level="front"),
    E("fm_tab", "malformed front matter", "\ttitle: x\n", "e", "Analysis", 0, EC_RS + ":243", level="front"),
    E("fm_quote_open", "malformed front matter", "title: 'x\n", "e", "Analysis", 0, EC_RS + ":243", level="front"),
    E("fm_bad_indent", "malformed front matter", "title: x\n  sub: y\n", "e", "Analysis", 0, EC_RS + ":243",
      level="front"),
    E("fm_mb_then_error", "malformed front matter", "título: crème\nb: {x\n", "e", "Analysis", 0, EC_RS + ":243",
      level="front"),
    E("fm_sequence", "malformed front matter", "- a\n- b\n", "e", "Analysis", 0, EC_RS + ":243", level="front",
      why="not a mapping"),
    E("fm_scalar", "malformed front matter", "just some text\n", "e", "Analysis", 0, EC_RS + ":243", level="front",
      why="not a mapping"),
    E("fm_duplicate_key", "malformed front matter", "title: a\ntitle: b\n", "e", "Analysis", 0, EC_RS + ":243",
      level="front", why="serde_yaml rejects duplicate keys of a Mapping"),
    # errors serde_yaml reports WITHOUT a location (Error::location() is None): the label is then the whole
    # front matter text (45a4888; before that repair the diagnostic had no label at all)
    E("fm_multi_document", "malformed front matter", "a: 1\n...\nb: 2\n", "e", "Analysis", 0, EC_RS + ":243",
      level="front", why="more than one YAML document; serde_yaml gives no location"),
    E("fm_multi_document_comment", "malformed front matter", "title: x\n...\n# c\nservings: 2\n", "e", "Analysis", 0,
      EC_RS + ":243", level="front", why="more than one YAML document; serde_yaml gives no location"),
    E("fm_document_end_then_scalar", "malformed front matter", "title: x\n...\ny\n", "e", "Analysis", 0,
      EC_RS + ":243", level="front", why="more than one YAML document; serde_yaml gives no location"),
    E("fm_alias_bomb", "malformed front matter", ALIAS_BOMB, "e", "Analysis", 0, EC_RS + ":243", level="front",
      why="repetition limit exceeded while expanding aliases; serde_yaml gives no location"),
    # ---- non-time timer unit (event_consumer.rs:988-1016; ADVANCED_UNITS + a converter)
    E("timer_unit_mass", "non-time timer unit", "~{5%kg}", "e", "Analysis", X_ADV, EC_RS + ":1001", conv="b"),
    E("timer_unit_volume", "non-time timer unit", "~zzrest{2 ml}", "e", "Analysis", X_ADV, EC_RS + ":1001", conv="b"),
    E("timer_unit_unknown", "non-time timer unit", "~zzrest{2%whiles}", "e", "Analysis", X_ADV, EC_RS + ":1011",
      conv="b"),
    E("timer_value_text", "non-time timer unit", "~zzrest{a while%min}", "e", "Analysis", X_ADV, EC_RS + ":991",
      conv="b", why="extra check of the same block: the duration is text"),
]

# ---- the diagnostic each `src` of the catalogue names, as the CONSTRUCTOR of the models that stands for it (the
# target column of [table] in coq/Model/DiagMap.v: a parse-stage code D_.. or a kind of Model/AnalysisDiag.v) - a
# stable name: not a line number (those of `src` are names; the analysis ones are the numbering of 17e6a01 that
# Model/AnalysisDiag.v uses) and not the wording of the message (rewording is harmless).
# [inventory_cross_check] holds the severity and stage of every catalogue entry against the PINNED rows - per
# (stage, file) the set of (severity, constructor) in the statement of C07_diag_inventory - never against the tree
# being judged: when the code changes a severity, the regenerated inventory differs from the pinned
# list (reported by checks/c07.py) while the monitor keeps expecting the pinned severity and so finds the inputs on
# which the code now answers otherwise.
SRC_DIAG = {
    STEP_RS + ":571": "PCode D_EMPTY_NAME",
    STEP_RS + ":481": "PCode D_TIMER_NEITHER",
    QTY_RS + ":303": "PCode D_DIV_ZERO",
    QTY_RS + ":196": "PCode D_EMPTY_VALUE",
    STEP_RS + ":387": "PCode D_COOKWARE_UNIT",
    STEP_RS + ":446": "PCode D_TIMER_NO_UNIT",
    STEP_RS + ":462": "PCode D_TIMER_NO_QTY",
    STEP_RS + ":167": "PCode D_DUP_MOD",
    STEP_RS + ":406": "PCode D_COOKWARE_RECIPE",
    STEP_RS + ":498": "PCode D_MODS_NOT_ALLOWED",
    STEP_RS + ":515": "PCode D_INTER_NOT_ALLOWED",
    STEP_RS + ":306": "PCode D_EMPTY_ALIAS",
    STEP_RS + ":297": "PCode D_MULTI_ALIAS",
    STEP_RS + ":537": "PCode D_ALIAS_NOT_ALLOWED",
    STEP_RS + ":225": "PCode D_INTER_EMPTY",
    STEP_RS + ":235": "PCode D_INTER_ORDER",
    STEP_RS + ":246": "PCode D_INTER_SIGN",
    STEP_RS + ":256": "PCode D_INTER_INVALID",
    STEP_RS + ":264": "PCode D_INTER_INT",
    "src/parser/metadata.rs:27": "PCode D_EMPTY_META_KEY",
    "src/parser/metadata.rs:35": "PCode D_EMPTY_META_VALUE",
    EC_RS + ":1123": "AKind KConflictModifiers",
    EC_RS + ":1205": "AKind KConflictModifiers",
    EC_RS + ":1212": "AKind KRefNotFound",
    EC_RS + ":615": "AKind KInterModifiers",
    EC_RS + ":727": "AKind KConflictQuantity",
    EC_RS + ":943": "AKind KConflictQuantity",
    EC_RS + ":688": "AKind KIncompatibleUnits",
    EC_RS + ":702": "AKind KNoteOnReference",
    EC_RS + ":927": "AKind KNoteOnReference",
    EC_RS + ":795": "AKind KInterZero",
    EC_RS + ":802": "AKind KInterZero",
    EC_RS + ":830": "AKind KInterBounds",
    EC_RS + ":852": "AKind KInterBounds",
    EC_RS + ":867": "AKind KInterBounds",
    EC_RS + ":884": "AKind KInterBounds",
    EC_RS + ":363": "AKind KInvalidConfigValue",
    EC_RS + ":370": "AKind KInvalidConfigValue",
    EC_RS + ":243": "AKind KYamlError",
    EC_RS + ":1001": "AKind KTimerUnitNotTime",
    EC_RS + ":1011": "AKind KTimerUnitUnknown",
    EC_RS + ":991": "AKind KTimerValueText",
}
# the out-of-range intermediate references that checks/c07.py builds itself (inter_cases: severity "e")
INTER_CASES_SRC = EC_RS + ":830"
SEV_NAME = {"e": "Error", "w": "Warning"}


def inventory_cross_check(rows):
    """rows: the pinned rows (stage, file stem, severity, constructor, _) in the statement of C07_diag_inventory
    (gen_diags.expected_summary()).  -> (number of catalogue entries held against them, list of disagreements)"""
    by_ctor = {}
    for stage, file, sev, ctor, _ in rows or []:
        by_ctor.setdefault(ctor, []).append((stage, file, sev))
    bad, n = [], 0
    for en in CATALOG + [Entry("inter_cases", "out-of-range intermediate reference", "", "e", "Analysis", X_INTER,
                               INTER_CASES_SRC)]:
        ctor = SRC_DIAG.get(en.src)
        if ctor is None:
            bad.append("catalogue entry %s: its source %s names no constructor (SRC_DIAG)" % (en.id, en.src))
            continue
        pinned = by_ctor.get(ctor)
        if not pinned:
            bad.append("catalogue entry %s (%s): no row of C07_diag_inventory has the constructor %s" % (en.id, en.src, ctor))
            continue
        n += 1
        for stage, file, sev in pinned:
            if stage != en.stage:
                bad.append("catalogue entry %s expects stage %s, the pinned rows say %s for %s (%s.rs)"
                           % (en.id, en.stage, stage, ctor, file))
            if sev != SEV_NAME[en.sev]:
                bad.append("catalogue entry %s expects severity %s, the pinned rows say %s for %s (%s.rs)"
                           % (en.id, SEV_NAME[en.sev], sev, ctor, file))
    return n, bad


CLASSES = ["empty name", "zero denominator", "empty value", "unit on cookware", "timer without unit or duration",
           "duplicate or forbidden modifier", "bad alias", "dangling or conflicting reference", "note on a reference",
           "out-of-range intermediate reference", "bad mode value", "malformed front matter", "non-time timer unit",
           "empty metadata key or value"]

BY_ID = {e.id: e for e in CATALOG}

MARK = "\x01%d\x02"
MARK_RE = re.compile("\x01(\\d+)\x02")
MB = ["名", "é", "\U0001F955"]


class SpliceGen(grec.Gen):
    """the generator of well-formed recipes, leaving one numbered marker per step between two of
    the step's pieces (at its start, after one of its blanks, or at its end)"""

    def __init__(self, rng, profile, features=None):
        super().__init__(rng, profile, features)
        self.nmarks = 0
        self.mark_section = []     # marker number -> index of its section
        self.mark_info = []        # marker number -> steps / text blocks before it in its section, past sections

    def build_step(self, st):
        pieces = super().build_step(st)
        r = self.r
        m = MARK % self.nmarks
        self.nmarks += 1
        self.mark_section.append(st["done_sections"])
        cur = st["cur_content"]
        self.mark_info.append({"prev_steps": sum(1 for b in cur if b["type"] == "step"),
                               "prev_texts": sum(1 for b in cur if b["type"] == "text"),
                               "done_sections": st["done_sections"]})
        piece = ("t", m, m)
        sps = [i for i, p in enumerate(pieces) if p[0] == "sp"]
        k = r.random()
        if k < 0.3 or not pieces:
            return [piece, ("sp",)] + pieces
        if k < 0.6 or not sps:
            return pieces + [("sp",), piece]
        i = r.choice(sps)
        return pieces[:i + 1] + [piece, ("sp",)] + pieces[i + 1:]


# an unused marker becomes a plain word: removing it could leave a comment-only line, which is a block
# boundary (parser/mod.rs:205-212) and would change the number of steps the generator counted
FILL = "then"


def strip_marks(text):
    return MARK_RE.sub(FILL, text)


def base_ok(exp, ext):
    """is the generated (canonical-profile) recipe well-formed under extension set `ext`?  With
    ADVANCED_UNITS a timer needs a known time unit, with TIMER_REQUIRES_TIME a duration."""
    for t in exp["timers"]:
        if ext & X_TRT and t["quantity"] is None:
            return False
        if ext & X_ADV and t["quantity"] is not None and t["quantity"]["unit"] not in grec.UNITS_TIME:
            return False
    return True


def gen_base(rng, ext, features=None):
    """a marked well-formed recipe for extension set `ext`: (marked text, expected, info, generator)"""
    profile = "extended" if ext in (X_COMPAT, X_ALL) else "canonical"
    for _ in range(50):
        g = SpliceGen(rng, profile, features)
        text, exp, info = g.recipe()
        if profile == "extended" or base_ok(exp, ext):
            return text, exp, info, g
    raise RuntimeError("no suitable base recipe")


def blen(s):
    return len(s.encode("utf-8"))


def body_start(text):
    """character offset where the body (after a front matter) starts"""
    if text.startswith("---\n"):
        i = text.find("\n---\n", 3)
        if i >= 0:
            return i + 5
    return 0


def safe_line_starts(text):
    """character offsets of line starts at which a single-line block can be inserted without landing
    inside a block comment or the front matter; each with a tag describing the place"""
    comments = [(m.start(), m.end()) for m in re.finditer(r"\[-.*?-\]", text, flags=re.S)]
    b0 = body_start(text)
    out = []
    pos = b0
    lines = text[b0:].split("\n")
    for idx, line in enumerate(lines):
        inside = any(a < pos < b for a, b in comments)
        if not inside:
            prev = lines[idx - 1] if idx else None
            if idx == 0:
                tag = "top"
            elif line.startswith(">>") or line.startswith("="):
                tag = "between-blocks"
            elif prev.strip() == "" or prev.startswith(">>") or prev.startswith("=") or prev.startswith("--"):
                tag = "after-section" if prev.startswith("=") else "between-blocks"
            elif line.strip() == "":
                tag = "block-end"
            else:
                tag = "splits-a-step"
            out.append((pos, tag))
        pos += len(line) + 1
    out.append((len(text), "end"))
    return out


def splice(rng, entry, ext, want=None):
    """one placement of `entry` in a fresh well-formed recipe for `ext`.
    Returns dict(text, base, a, b (byte range of the construct), placement tags, info) or None."""
    r = rng
    if entry.level == "front":
        text, exp, info, g = gen_base(r, ext, {"metadata": False})
        base = strip_marks(text)
        lead = r.choice(["", "", "\n", " \n", "\n\n"])
        fence2 = r.choice(["---\n", "---\n", "--- \n", "---\n\n"])
        fm = lead + "---\n" + entry.b + fence2
        full = fm + base
        return {"text": full, "base": base, "a": 0, "b": blen(fm), "tags": ["front", "lead=%r" % lead],
                "old_style": False}
    feats = None
    if entry.level == "line":
        text, exp, info, g = gen_base(r, ext, entry.feats)
        base = strip_marks(text)
        starts = safe_line_starts(base)
        kinds = sorted(set(t for _, t in starts))
        k = want if want in kinds else r.choice(kinds)
        pos, tag = r.choice([s for s in starts if s[1] == k])
        line = entry.b
        if tag == "end":
            ins = line if base.endswith("\n") else "\n" + line
            a = blen(base) + (0 if base.endswith("\n") else 1)
            if r.random() < 0.5:
                ins += "\n"
        else:
            ins = line + "\n"
            a = blen(base[:pos])
        full = base[:pos] + ins + base[pos:]
        tags = ["line", tag]
        lo, hi = entry.sub if entry.sub else (0, len(line))
        ca = pos + (len(ins) - len(ins.lstrip("\n")) if tag == "end" else 0)
        if entry.sub and r.random() < 0.25:
            # the same document with CRLF line ends
            conv = lambda t: t.replace("\n", "\r\n")
            a = blen(conv(full[:ca]))
            full, base = conv(full), conv(base)
            tags.append("crlf")
        return {"text": full, "base": base, "a": a + blen(line[:lo]), "b": a + blen(line[:hi]), "tags": tags,
                "old_style": info["old_style_meta"] or bool(entry.sub)}
    # step level
    text, exp, info, g = gen_base(r, ext)
    n = g.nmarks
    if n == 0:
        return None
    secs = g.mark_section
    cands = {"first": 0, "last": n - 1}
    if n >= 3:
        cands["middle"] = r.randint(1, n - 2)
    aft = [i for i in range(1, n) if secs[i] != secs[i - 1]]
    if aft:
        cands["after-section"] = r.choice(aft)
    where = want if want in cands else r.choice(sorted(cands))
    tgt = cands[where]
    tags = ["step", where]
    btxt = entry.b
    pre = ""
    if entry.id == "dangling_ref_after":
        post_def = " @zzlater{1%g}"
    else:
        post_def = ""
    # set-up part A: in an earlier step's marker or right before B
    a_at = None
    if entry.a is not None:
        if tgt > 0 and r.random() < 0.6:
            a_at = r.randint(0, tgt - 1)
            tags.append("setup-earlier-step")
        else:
            pre = entry.a + r.choice([" ", "  ", " then "])
            tags.append("setup-same-step")
    # multi-byte neighbours
    v = r.random()
    mb_before = mb_after = ""
    if v < 0.25:
        mb_before = r.choice(MB)
        tags.append("mb-before")
    elif v < 0.45 and btxt[-1] in "})":
        mb_after = r.choice(MB)
        tags.append("mb-after")
    elif v < 0.55 and btxt[-1] in "})":
        mb_before, mb_after = r.choice(MB), r.choice(MB)
        tags.append("mb-both")
    sofar = ""
    a = b = None
    pos = 0
    for m in MARK_RE.finditer(text):
        sofar += text[pos:m.start()]
        k = int(m.group(1))
        if k == tgt:
            line_before = sofar[sofar.rfind("\n") + 1:]
            if r.random() < 0.3 and line_before.endswith(" ") and line_before.strip() and \
                    line_before.rstrip()[-1] not in "]":
                # the blank before the construct becomes a line wrap inside the step
                sofar = sofar[:-1] + "\n"
                tags.append("wrapped-line")
            lead = pre + mb_before
            a = blen(sofar) + blen(lead)
            b = a + blen(btxt)
            sofar += lead + btxt + mb_after + post_def
        elif a_at is not None and k == a_at:
            sofar += entry.a
        else:
            sofar += FILL
        pos = m.end()
    sofar += text[pos:]
    full = sofar
    base = strip_marks(text)
    if entry.prefix:
        b0 = body_start(full)
        shift = blen(entry.prefix)
        full = full[:b0] + entry.prefix + full[b0:]
        a += shift
        b += shift
        tags.append("prefix-blocks")
    return {"text": full, "base": base, "a": a, "b": b, "tags": tags, "old_style": info["old_style_meta"]}


def touches(label, a, b):
    """the primary label [s, e) meets the construct [a, b): they intersect, or - for a zero-width
    label - the position is inside or at an end of the construct"""
    s, e = label
    if s == e:
        return a <= s <= b
    return s < b and e > a


# ---------------------------------------------------------------------------------------------
# well-formed references that repeat modifiers of their definition
#
# resolve_reference (event_consumer.rs:1176-1207): "except ref and new, the only modifiers a
# reference can have is those inherited from the definition": conflict = written & !inherited & !REF
# with inherited = definition's modifiers & inherit_modifiers(), which is RECIPE|HIDDEN|OPT for
# ingredients (1263-1265) and HIDDEN|OPT for cookware (1311-1313).  So a reference may repeat any
# subset of those modifiers of its definition - explicitly (`&`) or, in `[duplicate]: ref` mode
# (extensions.md, Modes), implicitly - and the recipe stays well-formed.
INHERIT = {"@": "@-?", "#": "-?"}


def _wf_ref_pair(rng, implicit):
    r = rng
    marker = "@" if r.random() < 0.7 else "#"
    pool = INHERIT[marker]
    dmods = "".join(r.sample(pool, r.randint(1, len(pool))))
    rsub = [c for c in dmods if r.random() < 0.75]
    if not rsub:
        rsub = [r.choice(dmods)]
    if "@" in dmods and r.random() < 0.6 and "@" not in rsub:
        rsub.append("@")
    rmods = list(rsub) + ([] if implicit else ["&"])
    r.shuffle(rmods)
    name = r.choice(["zzdough", "zz pizza dough", "zzbase 2", "zzCrème"])
    multi = not name.isalpha()
    if marker == "@":
        dq = r.choice(["", "1", "2%g", "1/2%cup"])
        rq = "" if (not dq or r.random() < 0.5) else r.choice(["3", "1.5"]) + (dq[dq.index("%"):] if "%" in dq else "")
    else:
        dq = r.choice(["", "", "2"])
        rq = ""
    a = marker + dmods + name + ("{" + dq + "}" if (dq or multi or r.random() < 0.5) else "")
    rname = name if r.random() < 0.7 else name.swapcase()
    b = marker + "".join(rmods) + rname + ("{" + rq + "}" if (rq or multi or r.random() < 0.5) else "")
    return a, b


def wf_reference(rng, ext):
    """an explicit reference repeating modifiers of its definition, spliced into a well-formed recipe"""
    a, b = _wf_ref_pair(rng, implicit=False)
    en = Entry("wf_ref", "well-formed reference", b, None, "Analysis", X_MOD, EC_RS + ":1183", a=a)
    sp = splice(rng, en, ext)
    if sp is not None:
        sp["pair"] = [a, b]
    return sp


def wf_implicit_reference(rng, ext):
    """a step in `[duplicate]: ref` mode whose second mention of a component repeats modifiers of the
    first, inserted as a block of its own between two mode lines"""
    a, b = _wf_ref_pair(rng, implicit=True)
    text, exp, info, g = gen_base(rng, ext)
    base = strip_marks(text)
    starts = [s for s in safe_line_starts(base) if s[1] != "splits-a-step"]
    pos, tag = rng.choice(starts)
    step = rng.choice(["", "Mix "]) + a + rng.choice([" then ", " ", ", and "]) + b + rng.choice(["", "."])
    if rng.random() < 0.3:
        step += " again " + b
    group = ">> [duplicate]: %s\n%s\n>> [duplicate]: %s\n" % (rng.choice(["ref", "reference"]), step,
                                                             rng.choice(["new", "default"]))
    if tag == "end" and not base.endswith("\n"):
        group = "\n" + group
    full = base[:pos] + group + base[pos:]
    return {"text": full, "base": base, "tags": ["implicit-ref-block", tag], "old_style": info["old_style_meta"],
            "pair": [a, b]}


# ---------------------------------------------------------------------------------------------
# two invalid constructs in one recipe: an analysis-stage one and a parse-stage one
DOUBLE_ANALYSIS = ["dangling_ref_igr", "dangling_ref_cw", "dangling_ref_qty", "note_on_ref", "note_on_ref_cw",
                   "inter_oob_step", "inter_zero", "inter_oob_section_rel", "forbidden_new_ref", "conflict_ref_mods",
                   "bad_mode", "bad_duplicate", "fm_flow_open", "fm_sequence", "fm_mb_then_error", "timer_unit_mass"]
DOUBLE_PARSE = ["empty_name_igr", "empty_name_cw", "cookware_unit", "div_zero_igr", "div_zero_timer", "timer_no_unit",
                "alias_empty", "dup_mod_opt", "empty_value_unit", "inter_empty"]


def double_configs(ea, ep):
    need = ea.need | ep.need
    need_b = ea.conv == "b" or ep.conv == "b" or bool(need & X_ADV)
    out = []
    for e in (need, X_COMPAT, X_ALL):
        if e & need != need:
            continue
        c = "b" if (need_b or e in (X_COMPAT, X_ALL)) else "e"
        if (e, c) not in out:
            out.append((e, c))
    return out


def _inline(entry):
    """(text, offset of the construct inside it) for a step-level entry with its set-up just before"""
    pre = (entry.a + " then ") if entry.a else ""
    return pre + entry.b, len(pre)


def double_splice(rng, ea, ep, ext, analysis_first):
    """both constructs in one otherwise well-formed recipe; `analysis_first`: the analysis-stage
    construct comes earlier in the text than the parse-stage one (the converse is the control).
    Returns dict(text, pa, pb: bytes of the parse construct, aa, ab: of the analysis construct)."""
    r = rng
    if ea.level == "front" and not analysis_first:
        return None
    feats = {"metadata": False} if ea.level == "front" else None
    text, exp, info, g = gen_base(r, ext, feats)
    n = g.nmarks
    if n == 0:
        return None
    step_entries = [x for x in (ea, ep) if x.level == "step"]
    # markers for the step-level constructs, in text order
    if len(step_entries) == 2:
        if n >= 2 and r.random() < 0.7:
            i, j = sorted(r.sample(range(n), 2))
            same = False
        else:
            i = j = r.randrange(n)
            same = True
        first, second = (ea, ep) if analysis_first else (ep, ea)
        plan = {i: [first]} if not same else {i: [first, second]}
        if not same:
            plan[j] = [second]
    else:
        plan = {r.randrange(n): [ep]}
    sofar = ""
    pos = 0
    where = {}
    for m in MARK_RE.finditer(text):
        sofar += text[pos:m.start()]
        k = int(m.group(1))
        for idx, en in enumerate(plan.get(k, [])):
            if idx:
                sofar += r.choice([" ", " and ", ", "])
            t, off = _inline(en)
            where[en.id] = (len(sofar) + off, len(sofar) + off + len(en.b))
            sofar += t
        if k not in plan:
            sofar += FILL
        pos = m.end()
    sofar += text[pos:]
    full = sofar
    tags = ["double", "analysis-first" if analysis_first else "parse-first",
            "same-step" if any(len(v) == 2 for v in plan.values()) else "separate"]
    if ea.level == "line":
        if analysis_first:
            b0 = body_start(full)
            ins = ea.b + "\n"
            full = full[:b0] + ins + full[b0:]
            where = {k: (a + len(ins) if a >= b0 else a, b + len(ins) if a >= b0 else b) for k, (a, b) in where.items()}
            where[ea.id] = (b0, b0 + len(ea.b))
            tags.append("mode-line-top")
        else:
            lead = "" if full.endswith("\n") else "\n"
            where[ea.id] = (len(full) + len(lead), len(full) + len(lead) + len(ea.b))
            full = full + lead + ea.b + r.choice(["", "\n"])
            tags.append("mode-line-end")
    elif ea.level == "front":
        fm = r.choice(["", "\n"]) + "---\n" + ea.b + "---\n"
        where = {k: (a + len(fm), b + len(fm)) for k, (a, b) in where.items()}
        where[ea.id] = (0, len(fm))
        full = fm + full
        tags.append("front-matter")
    ca, cb = where[ep.id]
    xa, xb = where[ea.id]
    return {"text": full, "a": blen(full[:ca]), "b": blen(full[:cb]), "aa": blen(full[:xa]), "ab": blen(full[:xb]),
            "tags": tags, "old_style": info["old_style_meta"]}


# ---------------------------------------------------------------------------------------------
# well-formed components-mode blocks (extensions.md, Modes: "`ingredients` | `components`. In this mode
# only components can be defined, all regular text is omitted. Useful for writing an ingredient list
# manually at the beginning of the recipe").  in_step (event_consumer.rs:505-516) warns about ignored
# text only when it has an alphanumeric character, "so that the user can format the text with spaces,
# hypens or whatever": every separator below is non-alphanumeric, so the list is diagnostic-free.
COMP_SEPARATORS = [", ", ". ", "; ", " * ", " • ", " / ", " - ", "\n", "\n- ", "\n* ", "\n• ", " ", ",\n", " · ", " | "]
COMP_BULLETS = ["", "", "- ", "* ", "• ", "· "]
COMP_KEYS = ["[mode]", "[define]"]
COMP_ON = ["components", "ingredients"]
COMP_OFF = ["all", "default"]


def wf_components_block(rng, ext):
    """a components-mode ingredient list laid out with punctuation, then the mode switched back and the
    ordinary steps of a well-formed recipe"""
    r = rng
    text, exp, info, g = gen_base(r, ext)
    base = strip_marks(text)
    starts = [s for s in safe_line_starts(base) if s[1] != "splits-a-step"]
    if r.random() < 0.5:
        starts = [s for s in starts if s[1] == "top"] or starts       # "at the beginning of the recipe"
    pos, tag = r.choice(starts)
    names = r.sample(["zzflour", "zz olive oil", "zzeggs", "zzÁgua", "zz sea salt 2", "zzbutter", "zzrice"], r.randint(2, 5))
    items = []
    for nm in names:
        if r.random() < 0.2:
            items.append("#" + nm + ("{}" if not nm.isalpha() or r.random() < 0.5 else ""))
        else:
            q = r.choice(["", "1%kg", "2", "1/2%cup", "some", "3.5%g"])
            items.append("@" + nm + ("{" + q + "}" if (q or not nm.isalpha() or r.random() < 0.5) else ""))
    sep = r.choice(COMP_SEPARATORS)
    body = r.choice(COMP_BULLETS)
    for i, it in enumerate(items):
        if i:
            body += sep if r.random() < 0.8 else r.choice(COMP_SEPARATORS)
        body += it
    body += r.choice(["", ".", ".", ";", " ."])
    if " | " in body and ext & X_ALIAS:
        body = body.replace(" | ", " / ")       # `|` is the alias separator under COMPONENT_ALIAS
    key = r.choice(COMP_KEYS)
    sp1, sp2 = r.choice(["", " "]), r.choice(["", " ", "  "])
    on = ">>%s%s:%s%s" % (sp1, key, sp2, r.choice(COMP_ON))
    off = ">> %s: %s" % (r.choice(COMP_KEYS), r.choice(COMP_OFF))
    group = on + "\n" + body + "\n" + off + "\n"
    if ext & X_MOD and r.random() < 0.4:
        refs = [it for it in items if it.startswith("@")][:2]
        if refs:
            group += "Mix " + " and ".join("@&" + it[1:].split("{")[0] + "{}" for it in refs) + ".\n\n"
    if tag == "end" and not base.endswith("\n"):
        group = "\n" + group
    full = base[:pos] + group + base[pos:]
    return {"text": full, "base": base, "tags": ["components-block", tag, "sep=%r" % sep],
            "old_style": info["old_style_meta"], "pair": [on, body]}



# ---------------------------------------------------------------------------------------------
# intermediate references at the boundary, in sections that also hold `> text` blocks
#
# extensions.md: "Only past steps from the current section can be referenced. ... Text steps can't be
# referenced. In relative references, text steps are ignored."  resolve_intermediate_ref
# (event_consumer.rs:811-899) counts steps only: `(N)` / `(~N)` with N one more than the number of
# previous steps of the section, `(=N)` / `(=~N)` with N one more than the number of previous sections,
# are out of bounds (error), however many text blocks the section has; N equal to that number is fine.
INTER_KINDS = {"step_abs": "(%d)", "step_rel": "(~%d)", "sec_abs": "(=%d)", "sec_rel": "(=~%d)"}
INTER_SRC = {"step_abs": EC_RS + ":830", "step_rel": EC_RS + ":852", "sec_abs": EC_RS + ":867", "sec_rel": EC_RS + ":884"}


def inter_boundary_splice(rng, ext, kind, how):
    """how: 'boundary' (one past the last valid target), 'far' (well out of range: both errors), or
    'valid' (the last valid target: a well-formed recipe).  `> text` blocks are inserted before the
    referring step, in its section.  Returns None when 'valid' has no target."""
    r = rng
    text, exp, info, g = gen_base(r, ext)
    n = g.nmarks
    if n == 0:
        return None
    # prefer a marker with steps before it in its section, so that text blocks can sit between steps
    order = list(range(n))
    r.shuffle(order)
    order.sort(key=lambda k: -min(g.mark_info[k]["prev_steps"], 1) if r.random() < 0.7 else 0)
    tgt = order[0]
    mi = g.mark_info[tgt]
    count = mi["prev_steps"] if kind.startswith("step") else mi["done_sections"]
    if how == "valid":
        if count == 0:
            return None
        val = count if r.random() < 0.6 else r.randint(1, count)
    elif how == "boundary":
        val = count + 1
    else:
        val = count + r.choice([2, 3, 5, 40])
    # `> text` blocks before the referring step, inside its section
    mpos = text.index(MARK % tgt)
    sec_start = max(text.rfind("\n=", 0, mpos) + 1, 0)
    if text.startswith("=") and "\n=" not in text[:mpos]:
        sec_start = 0
    cands = [q for q, tag in safe_line_starts(text)
             if tag in ("top", "between-blocks", "after-section") and sec_start <= q < mpos
             and not text[q:q + 1] == "=" and "\n=" not in text[q:mpos]]
    # a position right after the section line is fine, a position before it belongs to the previous section
    cands = [q for q in cands if not (q == sec_start and text[q:q + 1] == "=")]
    ntext = 0
    if cands and r.random() < 0.85:
        for q in sorted(r.sample(cands, min(len(cands), r.randint(1, 3))), reverse=True):
            note = "> " + r.choice(["zz note", "zz remember to preheat", "zz café"]) + "\n\n"
            text = text[:q] + note + text[q:]
            ntext += 1
    btxt = "@&" + (INTER_KINDS[kind] % val) + r.choice(["zzdough", "zz rested dough"]) + "{}"
    if r.random() < 0.2:
        btxt = btxt.replace("@&", "@?&") if r.random() < 0.5 else btxt.replace("(", "( ").replace(")", " )")
    mb = r.choice(MB) if r.random() < 0.25 else ""
    sofar = ""
    pos = 0
    a = b = None
    for m in MARK_RE.finditer(text):
        sofar += text[pos:m.start()]
        if int(m.group(1)) == tgt:
            a = blen(sofar) + blen(mb)
            b = a + blen(btxt)
            sofar += mb + btxt
        else:
            sofar += FILL
        pos = m.end()
    sofar += text[pos:]
    tags = ["step", "inter-" + how, kind, "text-blocks-before=%d" % (mi["prev_texts"] + ntext),
            "steps-before=%d" % mi["prev_steps"], "sections-before=%d" % mi["done_sections"]]
    return {"text": sofar, "a": a, "b": b, "tags": tags, "old_style": info["old_style_meta"],
            "texts_before": mi["prev_texts"] + ntext, "construct": btxt, "base": strip_marks(text)}


for _k in INTER_KINDS:
    for _h in ("boundary", "far"):
        BY_ID["inter_%s_%s" % (_h, _k)] = Entry("inter_%s_%s" % (_h, _k), "out-of-range intermediate reference",
                                              "@&" + INTER_KINDS[_k].replace("%d", "N") + "zzdough{}", "e", "Analysis",
                                              X_INTER, INTER_SRC[_k],
                                              why="N = steps/sections before + 1 (boundary) or more, `> text` blocks before")
