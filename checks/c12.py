"""C12 - fraction approximation never misstates a value.
Theorems in coq/Properties/C12.v (over coq/Gen/FracConsts.v, regenerated from the source on every run),
L-frac correspondence (extracted Model/Fraction.v vs Number::new_approx / try_approx / value / Display,
ScaledQuantity::try_fraction / fit), monitor on the implementation's answers (harness/src/bin/frac.rs).
Besides single approximations the cases contain SEQUENCES: the same number is approximated again and
again (same and different limits; also a number that starts as a stored fraction with an error), through
Number::try_approx, ScaledQuantity::try_fraction (number and range) and ScaledQuantity::fit."""
import math
import os
import random
import struct
import subprocess
from fractions import Fraction

from checks import c12_gen
from vlib import common

U32MAX = 4294967295
COQ_DEPS = ["Base/Chars.v", "Gen/FracConsts.v", "Model/Fraction.v"]
COMMONS = ("common_n.ml", "common_zq.ml")
ACCS = [0.0, 0.001, 0.01, 0.05, 0.1, 0.5, 1.0]
WHOLES = [0, 1, 4, 5, 100, U32MAX]
TOL = 2.0 ** -40
KNOWN_CLASS = "integer_u32_max"


def f64hex(x):
    return "%016x" % struct.unpack("<Q", struct.pack("<d", x))[0]


def f32round(x):
    return struct.unpack("<f", struct.pack("<f", x))[0]


def f32hex(x):
    return "%08x" % struct.unpack("<I", struct.pack("<f", x))[0]


def hex64_to_float(h):
    return struct.unpack("<d", struct.pack("<Q", int(h, 16)))[0]


def hex32_to_float(h):
    return struct.unpack("<f", struct.pack("<I", int(h, 16)))[0]


def around(x, k=2):
    """x and its k neighbours on each side among the doubles."""
    out = [x]
    a = b = x
    for _ in range(k):
        a = math.nextafter(a, math.inf)
        b = math.nextafter(b, -math.inf)
        out += [a, b]
    return out


def py_table(c):
    """(fixed, n, d) as the source builds it (used only to aim the generator, never to judge)."""
    t = {}
    for d in c["denoms"]:
        for n in range(1, d):
            k = int(Fraction(n, d) * c["fix_ratio"])
            if k not in t:
                t[k] = (n, d)
    return sorted((k, nd[0], nd[1]) for k, nd in t.items())


def den_classes(c):
    """max_den values that separate every distinct set {d in denoms : d <= max_den}."""
    s = {1, 64}
    for d in c["denoms"]:
        if 1 <= d <= 64:
            s.add(d)
        if 1 <= d - 1:
            s.add(d - 1)
    return sorted(s)


def gen_cases(c, tier, rng):
    """Returns list of (vhex, acchex, max_den, max_whole)."""
    quick = tier == "quick"
    table = py_table(c)
    fr = float(c["fix_ratio"])
    cases = []

    def add(v, acc, md, mw):
        cases.append((f64hex(v), f32hex(acc), md, mw))

    # 0. specials: declines, assertion failures, extremes, the integer shortcut
    specials = [0.0, -0.0, -1.0, -0.5, -1e-300, float("nan"), float("inf"), float("-inf"), 5e-324, 2.2250738585072014e-308,
                1.7976931348623157e308, 1e-300, 1e-11, 0.99e-10, 1e-10, 1.01e-10, 2e-10, 0.5, 1.0, 2.0, 3.0]
    for w in [1, 2, 3, 5, 100, 1000, 10 ** 6, 2 ** 31, U32MAX - 1, U32MAX, U32MAX + 1, 2 ** 33, 2 ** 53, 1e19]:
        for d in [0.0, 1e-11, 0.99e-10, 1e-10, 1.01e-10, 1e-9, 0.25, 0.5 - 1e-9, 0.5, 0.5 + 1e-9, 0.75, 1 - 1e-9, 1 - 1e-11]:
            specials += around(float(w) + d, 1)
    for j in range(-12, 11):
        specials += around(10.0 ** j, 2)
    specials += around(float(2 ** 32), 3) + around(float(U32MAX), 3) + around(U32MAX + 0.5, 3) + around(U32MAX - 0.5, 3)
    for v in specials:
        for acc in ACCS:
            for md in ([4, 16] if quick else [1, 4, 10, 16, 64]):
                for mw in WHOLES:
                    add(v, acc, md, mw)
    for acc in [1.0000001, -1e-9, -0.0, float("nan"), float("inf"), float("-inf"), 2.0, -1.0]:
        for md in [4, 64, 65, 255]:
            for v in [0.5, 2.5, float("nan"), -1.0]:
                add(v, acc, md, 5)
    for md in [65, 100, 255]:
        add(1.3, 0.05, md, 5)

    # 1. scan of the lookup cells: v = (k + s)/FIX_RATIO, accuracy 1, max_whole 0 (no rounding shortcut)
    mds = den_classes(c) if quick else list(range(1, 65))
    subs = [0.5] if quick else [0.25, 0.5, 0.75]
    kmax = int(c["fix_ratio"])
    for md in mds:
        for k in range(kmax):
            for s in subs:
                add((k + s) / fr, 1.0, md, 0)

    # 2. dense grid around every table key and every switch point between two entries, with whole parts
    ks = set()
    for (k, _, _) in table:
        ks.update(range(k - 2, k + 3))
    for i, (k1, _, _) in enumerate(table):
        for (k2, _, _) in table[i + 1:]:
            m = (k1 + k2) // 2
            ks.update(range(m - 1, m + 3))
    ks = sorted(k for k in ks if 0 <= k <= kmax)
    grid = []
    for k in ks:
        base = k / fr
        grid += around(base, 1) + [base + 1e-7, base - 1e-7]
    n2 = 60000 if quick else 1500000
    for _ in range(n2):
        dcm = rng.choice(grid)
        w = rng.choice([0, 0, 1, 1, 2, 4, 5, 100, 4294967294])
        v = w + dcm
        add(v, rng.choice(ACCS) if rng.random() < 0.8 else f32round(rng.random()), rng.randint(1, 64), rng.choice(WHOLES))

    # 3. acceptance thresholds: |v - round v| = acc*v and |v - (w + n/d)| = acc*v
    th = []
    for acc in ACCS[1:] + [0.2, 0.25, 0.3]:
        a = float(f32round(acc))
        for w in [1, 2, 3, 4, 5, 6, 100, 101, U32MAX - 1, U32MAX]:
            for v0 in (w / (1 + a), (w / (1 - a)) if a < 1 else None):
                if v0 is not None:
                    for v in around(v0, 2):
                        th.append((v, acc, None))
        for (_, n, d) in table:
            for w in [0, 1, 4, 5]:
                t = w + n / d
                for v0 in (t / (1 + a), (t / (1 - a)) if a < 1 else None):
                    if v0 is not None:
                        for v in around(v0, 1):
                            th.append((v, acc, d))
    if quick:
        th = rng.sample(th, min(len(th), 12000))
    for (v, acc, d) in th:
        for md in ([64] if d is None else sorted({d, 64})):
            for mw in ([5, U32MAX] if quick else WHOLES):
                add(v, acc, md, mw)

    # 4. k/2520 grid (all denominators up to 10 and 2520 = lcm(1..10)), every max_den class
    kk = range(1, 2520 * 6 + 1)
    if quick:
        kk = rng.sample(list(kk), 4000)
    for k in kk:
        v = k / 2520.0
        for md in (rng.sample(den_classes(c), 3) if quick else den_classes(c)):
            add(v, rng.choice(ACCS), md, rng.choice(WHOLES))

    # 5. random doubles
    n5 = 40000 if quick else 2500000
    for _ in range(n5):
        r = rng.random()
        if r < 0.45:
            v = rng.uniform(0, 10)
        elif r < 0.75:
            v = 10.0 ** rng.uniform(-12, 12)
        elif r < 0.9:
            v = rng.choice(WHOLES[1:] + [2, 3, 7, 1000]) + rng.choice([0.0, rng.random(), rng.random() * 1e-9, 1 - rng.random() * 1e-9])
        else:
            v = struct.unpack("<d", struct.pack("<Q", rng.getrandbits(64)))[0]
        acc = rng.choice(ACCS) if rng.random() < 0.6 else f32round(rng.random())
        add(v, acc, rng.randint(1, 64), rng.choice(WHOLES) if rng.random() < 0.85 else rng.randint(0, U32MAX))
    return cases


# --------------------------------------------------------------------------
# sequences: ("S", mode, start, ((acchex, max_den, max_whole), ...))

SEQ_WITNESSES = [0.26, 2.08]          # 1/4 + 0.01 and "2" + 0.08 at 5 %: the recorded error must survive
Q_ACCS = ACCS + [2.0, -1.0]           # a units file may say anything: `define` clamps
Q_DENS = [0, 1, 2, 3, 4, 8, 10, 15, 16, 17, 64, 200]


def is_seq(case):
    return case[0] == "S"


def seq_start_value(tok):
    """float value of a start token as Number::value computes it (aims tolerances, never judges)."""
    if tok[0] == "b":
        return hex64_to_float(tok[1:])
    w, n, d, e = tok[1:].split(",")
    d = int(d)
    if d == 0:
        return math.nan
    return int(w) + hex64_to_float(e) + int(n) / d


def gen_seq_cases(c, tier, rng):
    quick = tier == "quick"
    table = py_table(c)
    denoms = c["denoms"]
    out = []

    def triple(mode):
        if mode == "n":
            acc = rng.choice(ACCS) if rng.random() < 0.8 else f32round(rng.random())
            return (f32hex(acc), rng.randint(1, 64) if rng.random() < 0.7 else rng.choice(den_classes(c)),
                    rng.choice(WHOLES) if rng.random() < 0.9 else rng.randint(0, U32MAX))
        # unit configurations come from a bounded pool (one converter is built per distinct triple)
        return (f32hex(rng.choice(ACCS if rng.random() < 0.9 else Q_ACCS)),
                rng.choice(Q_DENS) if rng.random() < 0.5 else rng.choice([d for d in den_classes(c) if d <= 16]),
                rng.choice(WHOLES))

    def plan(mode):
        """2..4 calls: the same limits again, other limits, or a mixture."""
        n = rng.choice([2, 2, 3, 3, 4])
        first = triple(mode)
        r = rng.random()
        if r < 0.3:
            return (first,) * n
        if r < 0.6:
            return tuple([first] + [triple(mode) for _ in range(n - 1)])
        ts = [first, triple(mode)]
        return tuple(rng.choice(ts) for _ in range(n))

    def value():
        r = rng.random()
        if r < 0.35:      # near a table fraction, so that a first approximation leaves an error
            _, n, d = rng.choice(table)
            w = rng.choice([0, 0, 1, 2, 4, 5, 100])
            t = w + n / d
            return t * (1 + rng.choice([-1, 1]) * rng.choice([0.0, 1e-12, 1e-6, 0.0009, 0.004, 0.009, 0.03, 0.049, 0.08, 0.3]) * rng.random())
        if r < 0.5:       # near an integer (the "w" + err answers)
            w = rng.choice([1, 2, 3, 4, 5, 6, 100, 101, 1000, U32MAX - 1])
            return w * (1 + rng.choice([-1, 1]) * rng.choice([1e-13, 1e-11, 1e-9, 0.001, 0.01, 0.04, 0.09]) * rng.random())
        if r < 0.8:
            return rng.uniform(0, 10)
        if r < 0.95:
            return 10.0 ** rng.uniform(-6, 7)
        return rng.choice([0.0, -0.5, -2.25, 1e-11, 0.5, 1.0, 3.0, float(U32MAX), U32MAX + 0.5, 2.0 ** 33 + 0.5, 1e19])

    def start():
        r = rng.random()
        if r < 0.7:
            return "b" + f64hex(value())
        # a stored fraction: parsed (err = 0), left by an earlier approximation, or anything at all
        d = rng.choice(denoms) if rng.random() < 0.8 else rng.choice([0, 1, 5, 6, 7, 32, 64, 100])
        n = rng.randint(0, max(d - 1, 0)) if rng.random() < 0.85 else rng.randint(0, 2 * d + 1)
        w = rng.choice([0, 0, 1, 2, 4, 5, 100, U32MAX])
        base = w + (n / d if d else 0.0)
        k = rng.random()
        if k < 0.25:
            err = 0.0
        elif k < 0.8:
            err = base * rng.choice([0.0009, 0.009, 0.049, 0.099, 0.4]) * rng.uniform(-1, 1)
        elif k < 0.9:
            err = rng.uniform(-1, 1)
        else:
            err = rng.choice([-base, -base - 1.0, 1e-11, -1e-11, 0.5, 1e9])
        if d:
            # Number::value adds in floating point; where that cancels (err close to -(whole + num/den)) its
            # result is rounding noise the exact model cannot follow: such starts are not generated
            fl = w + err + n / d
            ex = Fraction(w) + Fraction(err) + Fraction(n, d)
            if abs(Fraction(fl) - ex) > abs(ex) / 2 ** 45:
                return start()
        return "F%d,%d,%d,%s" % (w, n, d, f64hex(err))

    def add(mode, st, ps):
        out.append(("S", mode, st, tuple(ps)))

    # the recorded witnesses, every mode, the same limits twice and then others
    dflt = (f32hex(0.05), 4, U32MAX)
    for v in SEQ_WITNESSES:
        for mode in "nqf":
            add(mode, "b" + f64hex(v), (dflt, dflt, (f32hex(0.01), 16, U32MAX), dflt))
        add("r", "b%s&b%s" % (f64hex(v), f64hex(v + 1.0)), (dflt, dflt, dflt))
    add("n", "F0,1,4," + f64hex(0.01), (dflt, dflt))
    add("n", "F2,0,1," + f64hex(0.08), (dflt, (f32hex(0.0), 4, U32MAX), dflt))
    add("n", "F1,1,0," + f64hex(0.0), (dflt, dflt))       # den = 0: value() is not finite
    add("n", "b" + f64hex(0.26), ((f32hex(1.5), 4, U32MAX),))  # assertion
    add("n", "b" + f64hex(0.26), (dflt, (f32hex(0.05), 65, U32MAX)))

    n_seq = 30000 if quick else 600000
    for _ in range(n_seq):
        r = rng.random()
        mode = "n" if r < 0.55 else "q" if r < 0.8 else "r" if r < 0.9 else "f"
        st = start() + ("&" + start() if mode == "r" else "")
        add(mode, st, plan(mode))
    return out


def seq_line(case, upto=None):
    _, mode, st, ps = case
    return "S %s %s %s" % (mode, st, " ".join("%s %d %d" % t for t in ps))


def parse_steps(field):
    """'1 frac 0 1 4 m e & reg m e | 0 ...' -> [(flag, [tokens of number, ...]), ...]"""
    steps = []
    for part in field.split(" | "):
        t = part.split(" ")
        if t[0] in ("P", "X"):
            steps.append((t[0], []))
        else:
            steps.append((t[0], [x.split(" ") for x in " ".join(t[1:]).split(" & ")]))
    return steps


def num_discrete(t):
    return tuple(t[:4]) if t[0] == "frac" else (t[0],)


def num_close(ti, tm, scale, stats):
    """numeric agreement of two numbers with the same discrete part (impl m e / model num/den)."""
    if ti[0] == "frac":
        if len(ti) < 6:
            return False                      # err is nan / inf: nothing the model could have said
        ei, em = impl_num(ti[4], ti[5]), model_num(tm[4])
        if not (math.isfinite(scale) and scale > 0):
            return ei == em
        dev = abs(ei - em) / scale
        stats["worst_err_dev"] = max(stats["worst_err_dev"], dev)
        return dev <= TOL
    if ti[1] == "nan" or tm[1] == "nan" or ti[1] in ("inf", "-inf"):
        return (ti[1] in ("nan", "inf", "-inf")) == (tm[1] == "nan")
    a, b = impl_num(ti[1], ti[2]), model_num(tm[1])
    return a == b or abs(a - b) <= TOL * abs(b)


def step_agrees(si, sm, scales, stats):
    """None | 'discrete' | 'numeric'"""
    if si[0] != sm[0] or len(si[1]) != len(sm[1]):
        return "discrete"
    for ti, tm in zip(si[1], sm[1]):
        if num_discrete(ti) != num_discrete(tm):
            return "discrete"
    for k, (ti, tm) in enumerate(zip(si[1], sm[1])):
        if not num_close(ti, tm, scales[k], stats):
            return "numeric"
    return None


def compare_seq(case, fi, fm, stats):
    """None, ('discrete', k) or 'numeric: ..' - the first call at which the two sides part."""
    si, sm = parse_steps(fi["S"]), parse_steps(fm["S"])
    scales = [abs(seq_start_value(t)) for t in case[2].split("&")]
    for k in range(max(len(si), len(sm))):
        if k >= len(si) or k >= len(sm):
            return ("discrete", k)
        why = step_agrees(si[k], sm[k], scales, stats)
        if why == "discrete":
            return ("discrete", k)
        if why:
            return "numeric: call %d impl=%r model=%r" % (k + 1, si[k], sm[k])
    return None


def state_token(nums):
    """the implementation's numbers as a state for the model; None when one of them has no rational value
    (a stored fraction whose err is not finite)."""
    out = []
    for t in nums:
        if t[0] == "frac" and len(t) < 6:
            return None
        if t[0] == "frac":
            out.append("F%s,%s,%s,%s:%s" % (t[1], t[2], t[3], t[4], t[5]))
        elif t[1] in ("nan", "inf", "-inf"):
            out.append("b" + f64hex(float(t[1])))
        else:
            out.append("R%s:%s" % (t[1], t[2]))
    return "&".join(out)


def exact_value(tok):
    """exact rational value of a state token (b<bits>, F..,<bits> or R<m>:<e>, F..,<m>:<e>); None if not finite."""
    def num(x):
        if ":" in x:
            m, e = x.split(":")
            return Fraction(int(m)) * Fraction(2) ** int(e)
        v = hex64_to_float(x)
        return Fraction(v) if math.isfinite(v) else None
    if tok[0] in "bR":
        return num(tok[1:])
    w, n, d, e = tok[1:].split(",")
    if int(d) == 0 or num(e) is None:
        return None
    return Fraction(int(w)) + Fraction(int(n), int(d)) + num(e)


def float_value(tok):
    """Number::value of a state token in IEEE doubles, in the order the source adds: whole + err + num / den."""
    def num(x):
        if ":" in x:
            m, e = x.split(":")
            return impl_num(m, e)
        return hex64_to_float(x)
    if tok[0] in "bR":
        return num(tok[1:])
    w, n, d, e = tok[1:].split(",")
    if int(d) == 0:
        return math.nan
    return (float(int(w)) + num(e)) + float(int(n)) / float(int(d))


def probes_for(before_tok, answer):
    """perturbations of the value one number hands to new_approx: none, +-2^-40, the double value() really
    returns, the fraction the implementation names - the last two only where they lie within 2^-40 (relative)
    of the exact value."""
    out = ["0", "+", "-"]
    ex = exact_value(before_tok)
    if ex is None or ex <= 0:
        return out
    cands = []
    fv = float_value(before_tok)
    if math.isfinite(fv):
        cands.append(Fraction(fv))
    if answer is not None and answer[0] == "frac" and int(answer[3]) > 0:
        cands.append(Fraction(int(answer[1])) + Fraction(int(answer[2]), int(answer[3])))
    for t in cands:
        if t != ex and abs(t - ex) <= ex / 2 ** 40:
            out.append("=%d/%d" % (t.numerator, t.denominator))
    return list(dict.fromkeys(out))


def seq_probes(case, si, k):
    """model lines: one call from the implementation's state before call j (j >= k), plain and perturbed."""
    import itertools
    _, mode, st, ps = case
    lines, keys = [], []
    for j in range(k, len(si)):
        before = st if j == 0 else state_token(si[j - 1][1])
        if before is None:
            break
        toks = before.split("&")
        answers = si[j][1] if len(si[j][1]) == len(toks) else [None] * len(toks)
        for combo in itertools.product(*[probes_for(t, a) for t, a in zip(toks, answers)]):
            lines.append("T %s %s %s %d %d %s" % ((mode, before) + ps[j] + (",".join(combo),)))
            keys.append((j, combo))
    return lines, keys


# --------------------------------------------------------------------------
# comparison

def parse_line(line):
    d = {}
    for part in line.split(" ; "):
        k, _, v = part.partition(" ")
        d[k] = v
    return d


def discrete(res):
    t = res.split(" ")
    if t[0] == "frac":
        return ("frac", t[1], t[2], t[3])
    return (t[0],)


def impl_num(m, e):
    return math.ldexp(int(m), int(e)) if abs(int(e)) < 900 else float(Fraction(int(m)) * Fraction(2) ** int(e))


def model_num(s):
    a, _, b = s.partition("/")
    return int(a) / int(b)


def compare(case, fi, fm, stats):
    """Returns None when the two sides agree, 'discrete' or 'numeric: ..' otherwise."""
    ri, rm = fi["R"], fm["R"]
    di, dm = discrete(ri), discrete(rm)
    if di != dm:
        return "discrete"
    if di[0] == "frac":
        ti, tm = ri.split(" "), rm.split(" ")
        v = abs(hex64_to_float(case[0]))
        ei, em = impl_num(ti[4], ti[5]), model_num(tm[4])
        dev = abs(ei - em) / v if v > 0 else (0.0 if ei == em else math.inf)
        if dev > stats["worst_err_dev"]:
            stats["worst_err_dev"] = dev
        if dev > TOL:
            return "numeric: err impl=%r model=%r" % (ei, em)
        if fi["D"] != fm["D"]:
            return "numeric: display impl=%s model=%s" % (fi["D"], fm["D"])
    elif di[0] == "reg":
        ti, tm = ri.split(" "), rm.split(" ")
        if impl_num(ti[1], ti[2]) != model_num(tm[1]):
            return "numeric: regular value differs"
    return None


def case_line(case, pert=None):
    if is_seq(case):
        return seq_line(case)
    return "%s %s %d %d" % case + ((" " + pert) if pert else "")


def case_of_line(l):
    t = l.split(" ")
    if t[0] == "S":
        r = t[3:]
        return ("S", t[1], t[2], tuple((r[i], int(r[i + 1]), int(r[i + 2])) for i in range(0, len(r) - 2, 3)))
    return (t[0], t[1], int(t[2]), int(t[3]))


def describe(case):
    if is_seq(case):
        _, mode, st, ps = case
        return {"sequence": {"n": "Number::try_approx", "q": "ScaledQuantity::try_fraction (number)",
                             "r": "ScaledQuantity::try_fraction (range)", "f": "ScaledQuantity::fit"}[mode],
                "start": st, "start_value": [repr(seq_start_value(t)) for t in st.split("&")],
                "calls": [{"accuracy": repr(hex32_to_float(a)), "max_den": d, "max_whole": w} for a, d, w in ps],
                "case": seq_line(case)}
    return {"value": repr(hex64_to_float(case[0])), "value_bits": case[0], "accuracy": repr(hex32_to_float(case[1])),
            "accuracy_bits": case[1], "max_den": case[2], "max_whole": case[3], "case": case_line(case)}


def witness_case():
    return (f64hex(float(U32MAX)), f32hex(0.05), 4, U32MAX)


def builds():
    bindir = common.build_harness(["frac"])
    runner = common.build_runner("frac", COQ_DEPS, commons=COMMONS)
    # C12_IMPL_EXE: debugging aid (a frac harness built against a scratch copy of the crate)
    return os.environ.get("C12_IMPL_EXE") or os.path.join(bindir, "frac"), runner


def run(rep, tier, seed):
    import time
    t0 = [time.time()]
    phases = {}

    def phase(name):
        now = time.time()
        phases[name] = round(now - t0[0], 1)
        t0[0] = now

    rng = random.Random(seed)
    consts, regenerated = c12_gen.regen()
    impl_exe, runner = builds()
    phase("build")
    audit = common.audit_property_file("C12")
    phase("proof_audit")
    env_i = {"C12_DENOMS": ",".join(str(d) for d in consts["denoms"]),
             "C12_CLAMP_DEN": "%d,%d" % (consts["clamp_den_lo"], consts["clamp_den_hi"])}

    # which new_approx is in the tree: the code as found rejects the exact value u32::MAX
    probe = parse_line(common.run_lines(impl_exe, [case_line(witness_case())], env=env_i, tag="probe")[0])
    found_code = probe["R"] == "none"
    env_m = {"FRAC_CFG": "found" if found_code else "fixed"}

    corpus = [case_of_line(l) for l in common.load_corpus("C12")]
    # the sequences draw from their own stream: the single approximations are those of earlier runs
    seqs = gen_seq_cases(consts, tier, random.Random(seed * 2654435761 % 2 ** 32 + 12))
    singles_gen = gen_cases(consts, tier, rng)
    # a sequence costs the model several calls: spread them evenly so that the shards of run_lines are balanced
    mixed, step, j = [], max(1, len(singles_gen) // max(1, len(seqs))), 0
    for i, x in enumerate(singles_gen):
        mixed.append(x)
        if (i + 1) % step == 0 and j < len(seqs):
            mixed.append(seqs[j])
            j += 1
    mixed += seqs[j:]
    cases = list(dict.fromkeys(corpus + [witness_case()] + mixed))
    lines = [case_line(c) for c in cases]
    phase("generate")
    impl = common.run_lines(impl_exe, lines, env=env_i, tag="impl")
    phase("implementation")
    model = common.run_lines(runner, lines, env=env_m, tag="model")
    phase("model")

    stats = {"worst_err_dev": 0.0}
    kinds = {}
    nontrivial = set()
    monitor_hits, known_hits, suspects, disagreements = [], [], [], []
    parsed = []
    seq_stats = {"sequences": 0, "calls": 0, "by_mode": {}, "calls_on_stored_fraction_with_error": 0,
                 "of_which_approximated_again": 0, "declined_calls": 0, "ended_by_panic": 0, "ended_by_unit_change": 0,
                 "worst_value_drift_ulps": 0.0, "step_kinds": {}}
    seq_suspects = []
    for c, li, lm in zip(cases, impl, model):
        fi, fm = parse_line(li), parse_line(lm)
        if is_seq(c):
            seq_stats["sequences"] += 1
            seq_stats["by_mode"][c[1]] = seq_stats["by_mode"].get(c[1], 0) + 1
            si = parse_steps(fi["S"])
            before = None
            for flag, nums in si:
                seq_stats["calls"] += 1
                if flag == "P":
                    seq_stats["ended_by_panic"] += 1
                elif flag == "X":
                    seq_stats["ended_by_unit_change"] += 1
                else:
                    if flag == "0":
                        seq_stats["declined_calls"] += 1
                    for t in nums:
                        seq_stats["step_kinds"][t[0]] = seq_stats["step_kinds"].get(t[0], 0) + 1
                    stored = [t for t in (before or []) if t[0] == "frac" and t[4] != "0"]
                    if stored:
                        seq_stats["calls_on_stored_fraction_with_error"] += 1
                        if flag == "1":
                            seq_stats["of_which_approximated_again"] += 1
                    if any(t[0] == "frac" for t in nums):
                        nontrivial.add((c[2], tuple(num_discrete(t) for t in nums)))
                before = nums
            seq_stats["worst_value_drift_ulps"] = max(seq_stats["worst_value_drift_ulps"], float(fi["DEV"]))
            if fi["V"] != "-":
                monitor_hits.append((case_line(c), "monitor: " + fi["V"], dict(describe(c), violated=fi["V"], impl=li)))
            why = compare_seq(c, fi, fm, stats)
            if isinstance(why, tuple):
                seq_suspects.append((c, fi, fm, li, lm, why[1]))
            elif why is not None:
                disagreements.append((case_line(c), dict(describe(c), impl=li, model=lm, why=why)))
            continue
        di = discrete(fi["R"])
        kinds[di[0]] = kinds.get(di[0], 0) + 1
        if di[0] == "frac":
            nontrivial.add((c[0], di))
        if fi["V"] != "-":
            if fi["V"] == "integers_u32max":
                known_hits.append((c, li))
            else:
                monitor_hits.append((case_line(c), "monitor: " + fi["V"], dict(describe(c), violated=fi["V"], impl=li)))
        why = compare(c, fi, fm, stats)
        if why == "discrete":
            suspects.append((c, fi, fm, li, lm))
        elif why is not None:
            disagreements.append((case_line(c), dict(describe(c), impl=li, model=lm, why=why)))

    # counted rounding ties: the model at v(1 +- 2^-40) gives the implementation's discrete answer
    # AND the monitor accepts the implementation's answer
    phase("compare")
    ties, ties_exact = [], []
    if suspects:
        probes = []
        for i, (c, fi, fm, li, lm) in enumerate(suspects):
            probes.append((i, "+"))
            probes.append((i, "-"))
            di = discrete(fi["R"])
            v = hex64_to_float(c[0])
            if di[0] == "frac" and int(di[3]) > 0 and math.isfinite(v) and v > 0:
                # the fraction the implementation names, when it lies inside v(1 +- 2^-40)
                t = Fraction(int(di[1])) + Fraction(int(di[2]), int(di[3]))
                if abs(t - Fraction(v)) <= Fraction(v) / 2 ** 40:
                    probes.append((i, "=%d/%d" % (t.numerator, t.denominator)))
        pm = common.run_lines(runner, [case_line(suspects[i][0], p) for i, p in probes], env=env_m, tag="tie")
        alts = {}
        for (i, p), out in zip(probes, pm):
            alts.setdefault(i, []).append((p[0], discrete(parse_line(out)["R"])))
        for i, (c, fi, fm, li, lm) in enumerate(suspects):
            di = discrete(fi["R"])
            hit = [p for p, a in alts[i] if a == di]
            if hit and fi["V"] == "-":
                (ties if hit[0] in "+-" else ties_exact).append((c, li, lm))
            else:
                disagreements.append((case_line(c), dict(describe(c), impl=li, model=lm, why="discrete answers differ, "
                                                         "also inside v(1+-2^-40): %r" % (alts[i],))))

    # sequences that part at call k: from there on the model makes ONE call from the state the implementation
    # was in; a call is accepted when the plain model answer agrees, or - a counted rounding tie - when the
    # model answers as the implementation did with the value it approximates moved by 2^-40 (relative), or
    # taken at the fraction the implementation names when that lies as close, and the monitor accepted
    seq_ties = []
    if seq_suspects:
        plines, pkeys, owner = [], [], []
        for i, (c, fi, fm, li, lm, k) in enumerate(seq_suspects):
            ls, ks = seq_probes(c, parse_steps(fi["S"]), k)
            plines += ls
            pkeys += ks
            owner += [i] * len(ls)
        pout = common.run_lines(runner, plines, env=env_m, tag="seqtie") if plines else []
        answers = {}
        for i, (j, p), out in zip(owner, pkeys, pout):
            answers.setdefault((i, j), []).append((p, parse_steps(parse_line(out)["S"])[0]))
        for i, (c, fi, fm, li, lm, k) in enumerate(seq_suspects):
            si = parse_steps(fi["S"])
            scales = [abs(seq_start_value(t)) for t in c[2].split("&")]
            bad, tied = None, 0
            for j in range(k, len(si)):
                ok_plain, ok_tie = False, False
                for p, sm in answers.get((i, j), []):
                    if set(p) == {"0"}:
                        ok_plain = step_agrees(si[j], sm, scales, stats) is None
                    elif step_agrees(si[j], sm, scales, {"worst_err_dev": 0.0}) in (None, "numeric"):
                        ok_tie = True
                if ok_plain:
                    continue
                if ok_tie:
                    tied += 1
                    continue
                bad = j
                break
            if bad is None and fi["V"] == "-":
                # tied == 0: the two states before call k differed below the tolerance and call k fell on
                # different sides - the model follows as soon as it is given the implementation's state
                seq_ties.append((c, li, lm, tied))
            else:
                disagreements.append((case_line(c), dict(describe(c), impl=li, model=lm,
                                                         why="sequence parts at call %d; the model, started from the "
                                                             "implementation's state, does not follow at call %d (also not "
                                                             "inside v(1+-2^-40))" % (k + 1, (bad if bad is not None else k) + 1))))

    # the recorded boundary defect: exact value u32::MAX with max_whole = u32::MAX is declined
    if known_hits:
        entry = [f for f in rep.findings if f.get("class") == KNOWN_CLASS]
        bad = [(c, li) for c, li in known_hits if not (hex64_to_float(c[0]) == float(U32MAX) and c[3] == U32MAX)]
        if entry and not bad:
            rep.known(entry[0].get("id", KNOWN_CLASS), entry[0].get("what", "new_approx declines the integer u32::MAX"))
        else:
            for c, li in (bad or known_hits)[:1]:
                monitor_hits.append((case_line(c), "integers within the limit come back as plain numbers: "
                                     "new_approx(4294967295.0, .., max_whole = u32::MAX) declines",
                                     dict(describe(c), violated="integers_u32max", impl=li)))
    elif [f for f in rep.findings if f.get("class") == KNOWN_CLASS]:
        disagreements.append((case_line(witness_case()), dict(describe(witness_case()), why="known_findings.json lists "
                              "%s as open but the implementation no longer shows it" % KNOWN_CLASS)))

    if os.environ.get("C12_DEBUG"):
        import json
        with open(os.path.join(common.BUILD, "c12_debug.json"), "w") as f:
            json.dump({"disagreements": disagreements, "ties": [dict(describe(c), impl=li, model=lm) for c, li, lm in ties + ties_exact]},
                      f, indent=1)

    phase("ties")
    common.decide(rep, "C12", "L-frac", audit, monitor_hits, disagreements, tier,
                  "correspondence Model/Fraction.v <-> src/quantity.rs (new_approx, try_approx, lookup table, value, "
                  "Display), src/convert (define, try_fraction), single approximations and sequences")
    common.proof_coverage(rep, "C12", audit, tier,
                          "FractionLookupTable::{new,lookup}, Number::{new_approx,try_approx,value}, Display for Number "
                          "(src/quantity.rs 101-116, 208-240, 633-791), FractionsConfigHelper::define and the part of "
                          "ScaledQuantity::try_fraction after the unit's configuration is known (src/convert) over exact "
                          "rationals; IEEE rounding is not "
                          "modelled (compared within 2^-40, discrete differences only as counted rounding ties); "
                          "f64 Display of Regular numbers is an oracle (monitored, not modelled)")
    singles = [i for i, c in enumerate(cases) if not is_seq(c)]
    seq_idx = [i for i, c in enumerate(cases) if is_seq(c)]
    isample = [i for i in singles if discrete(parse_line(impl[i])["R"])[0] == "frac"][:2] + \
              [singles[len(singles) // 2]] + seq_idx[:1] + seq_idx[len(seq_idx) // 2:len(seq_idx) // 2 + 1] + seq_idx[-1:]
    rep.coverage.update({
        "evaluations": len(cases), "distinct_nontrivial": len(nontrivial),
        "rule": "cases (value bits, f32 accuracy bits, max_den, max_whole): specials (non-positive, non-finite, "
                "subnormal, powers of ten 1e-12..1e10, around 2^32 and u32::MAX, integer + {1e-11..1e-9} shortcut, "
                "out-of-range accuracy / max_den for the assertions); complete scan of the %d lookup cells "
                "k/FIX_RATIO for max_den in %s with accuracy 1, max_whole 0; grid around every table key and every "
                "midpoint of two entries (+-2 cells, +-1e-7, neighbouring doubles) with whole parts; doubles "
                "around the acceptance thresholds v = t/(1+-acc); k/2520 grid; seeded random doubles (uniform, "
                "log-uniform 1e-12..1e12, near-integers, random bit patterns); max_den 1..64, accuracies "
                "{0,.001,.01,.05,.1,.5,1} + random f32, max_whole in {0,1,4,5,100,u32::MAX} + random. "
                "distinct_nontrivial = distinct (value, returned whole/num/den) with a Fraction answer. "
                "SEQUENCES (S lines): a number - a plain one (near table fractions and integers so that an error is "
                "recorded, uniform, log-uniform, non-positive, beyond u32) or a stored fraction (supported and other "
                "denominators, den 0, num >= den, err 0 / within a few %% / arbitrary / cancelling the value where "
                "value() is exact to 2^-45) - is "
                "approximated 2..4 times: the same limits again, other limits, a mixture; through Number::try_approx "
                "(max_den 1..64), ScaledQuantity::try_fraction on a number and on a range (limits as a units-file layer, "
                "also outside the clamp of define), ScaledQuantity::fit in a unit without system; plus the recorded "
                "witnesses 0.26 and 2.08 at 5 %% in every mode"
                % (int(consts["fix_ratio"]), "all 1..64" if tier != "quick" else str(den_classes(consts))),
        "exhaustive": False,
        "samples": [dict(describe(cases[i]), impl=impl[i], model=model[i]) for i in isample],
        "outcome_kinds": kinds,
        "single_approximations": len(singles),
        "sequences": seq_stats,
        "sequence_value_tolerance": "after call i: |value() - original value()| <= 4*i ulp; each answer within 4 ulp of "
                                    "the value() it was computed from",
        "sequence_rounding_ties_counted": len(seq_ties),
        "sequence_rounding_ties_with_perturbed_call": len([t for t in seq_ties if t[3]]),
        "sequence_rounding_tie_samples": [dict(describe(c), impl=li, model=lm) for c, li, lm, _ in seq_ties[:2]],
        "rounding_ties_counted": len(ties) + len(ties_exact),
        "rounding_ties_at_interval_end": len(ties),
        "rounding_ties_at_named_fraction": len(ties_exact),
        "rounding_tie_samples": [dict(describe(c), impl=li, model=lm) for c, li, lm in ties[:2] + ties_exact[:2]],
        "correspondence_disagreements": len(disagreements),
        "monitor_violations": len(monitor_hits),
        "worst_err_deviation_relative_to_value": stats["worst_err_dev"],
        "err_tolerance": "2^-40 * |value|",
        "phase_seconds": phases,
        "gen_regenerated_this_run": bool(regenerated),
        "gen_constants": {k: str(v) for k, v in consts.items()},
        "implementation_variant": "as found (whole == u32::MAX sentinel)" if found_code else "repaired (value > u32::MAX as f64)",
    })
    rep.assumptions = [
        "f64 arithmetic of new_approx is modelled by exact rational arithmetic; the implementation's rounding is covered "
        "only by the correspondence run (tolerance 2^-40 relative to the value) and the monitor (value() within 4 ulp; "
        "after the i-th successive approximation within 4*i ulp of the original value)",
        "finding the unit of a quantity and the layers of its fractions configuration are not part of this model "
        "(Model/Convert.v, C09/C16); the sequences use one unit whose configuration is a single `fractions.all` layer",
        "the monitor's list of supported denominators is the DENOMS constant read from the source on this run",
    ]


def setup():
    c12_gen.regen()
    builds()


def replay(rp):
    impl_exe, _ = builds()
    consts = c12_gen.read_consts()
    case = rp["replay"].get("case")
    if not case:
        print("no input in this replay (proof/correspondence failure): %s" % rp.get("what"))
        return 1
    e = dict(os.environ)
    e["C12_DENOMS"] = ",".join(str(d) for d in consts["denoms"])
    e["C12_CLAMP_DEN"] = "%d,%d" % (consts["clamp_den_lo"], consts["clamp_den_hi"])
    p = subprocess.run([impl_exe, "-"], input=case + "\n", text=True, stdout=subprocess.PIPE, env=e)
    print(p.stdout.strip())
    return 0 if p.stdout.strip().endswith("V -") else 1
