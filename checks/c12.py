"""C12 - fraction approximation never misstates a value.
Theorems in coq/Properties/C12.v (over coq/Gen/FracConsts.v, regenerated from the source on every run),
L-frac correspondence (extracted Model/Fraction.v vs Number::new_approx / value / Display), monitor on
the implementation's answers (harness/src/bin/frac.rs)."""
import math
import os
import random
import struct
import subprocess
from fractions import Fraction

from checks import c12_gen
from vlib import common

U32MAX = 4294967295
COQ_DEPS = ["Base/Chars.v", "Gen/FracConsts.v", "Model/Fraction.v"]
COMMONS = ("common_n.ml", "common_zq.ml")
ACCS = [0.0, 0.001, 0.01, 0.05, 0.1, 0.5, 1.0]
WHOLES = [0, 1, 4, 5, 100, U32MAX]
TOL = 2.0 ** -40
KNOWN_CLASS = "integer_u32_max"


def f64hex(x):
    return "%016x" % struct.unpack("<Q", struct.pack("<d", x))[0]


def f32round(x):
    return struct.unpack("<f", struct.pack("<f", x))[0]


def f32hex(x):
    return "%08x" % struct.unpack("<I", struct.pack("<f", x))[0]


def hex64_to_float(h):
    return struct.unpack("<d", struct.pack("<Q", int(h, 16)))[0]


def hex32_to_float(h):
    return struct.unpack("<f", struct.pack("<I", int(h, 16)))[0]


def around(x, k=2):
    """x and its k neighbours on each side among the doubles."""
    out = [x]
    a = b = x
    for _ in range(k):
        a = math.nextafter(a, math.inf)
        b = math.nextafter(b, -math.inf)
        out += [a, b]
    return out


def py_table(c):
    """(fixed, n, d) as the source builds it (used only to aim the generator, never to judge)."""
    t = {}
    for d in c["denoms"]:
        for n in range(1, d):
            k = int(Fraction(n, d) * c["fix_ratio"])
            if k not in t:
                t[k] = (n, d)
    return sorted((k, nd[0], nd[1]) for k, nd in t.items())


def den_classes(c):
    """max_den values that separate every distinct set {d in denoms : d <= max_den}."""
    s = {1, 64}
    for d in c["denoms"]:
        if 1 <= d <= 64:
            s.add(d)
        if 1 <= d - 1:
            s.add(d - 1)
    return sorted(s)


def gen_cases(c, tier, rng):
    """Returns list of (vhex, acchex, max_den, max_whole)."""
    quick = tier == "quick"
    table = py_table(c)
    fr = float(c["fix_ratio"])
    cases = []

    def add(v, acc, md, mw):
        cases.append((f64hex(v), f32hex(acc), md, mw))

    # 0. specials: declines, assertion failures, extremes, the integer shortcut
    specials = [0.0, -0.0, -1.0, -0.5, -1e-300, float("nan"), float("inf"), float("-inf"), 5e-324, 2.2250738585072014e-308,
                1.7976931348623157e308, 1e-300, 1e-11, 0.99e-10, 1e-10, 1.01e-10, 2e-10, 0.5, 1.0, 2.0, 3.0]
    for w in [1, 2, 3, 5, 100, 1000, 10 ** 6, 2 ** 31, U32MAX - 1, U32MAX, U32MAX + 1, 2 ** 33, 2 ** 53, 1e19]:
        for d in [0.0, 1e-11, 0.99e-10, 1e-10, 1.01e-10, 1e-9, 0.25, 0.5 - 1e-9, 0.5, 0.5 + 1e-9, 0.75, 1 - 1e-9, 1 - 1e-11]:
            specials += around(float(w) + d, 1)
    for j in range(-12, 11):
        specials += around(10.0 ** j, 2)
    specials += around(float(2 ** 32), 3) + around(float(U32MAX), 3) + around(U32MAX + 0.5, 3) + around(U32MAX - 0.5, 3)
    for v in specials:
        for acc in ACCS:
            for md in ([4, 16] if quick else [1, 4, 10, 16, 64]):
                for mw in WHOLES:
                    add(v, acc, md, mw)
    for acc in [1.0000001, -1e-9, -0.0, float("nan"), float("inf"), float("-inf"), 2.0, -1.0]:
        for md in [4, 64, 65, 255]:
            for v in [0.5, 2.5, float("nan"), -1.0]:
                add(v, acc, md, 5)
    for md in [65, 100, 255]:
        add(1.3, 0.05, md, 5)

    # 1. scan of the lookup cells: v = (k + s)/FIX_RATIO, accuracy 1, max_whole 0 (no rounding shortcut)
    mds = den_classes(c) if quick else list(range(1, 65))
    subs = [0.5] if quick else [0.25, 0.5, 0.75]
    kmax = int(c["fix_ratio"])
    for md in mds:
        for k in range(kmax):
            for s in subs:
                add((k + s) / fr, 1.0, md, 0)

    # 2. dense grid around every table key and every switch point between two entries, with whole parts
    ks = set()
    for (k, _, _) in table:
        ks.update(range(k - 2, k + 3))
    for i, (k1, _, _) in enumerate(table):
        for (k2, _, _) in table[i + 1:]:
            m = (k1 + k2) // 2
            ks.update(range(m - 1, m + 3))
    ks = sorted(k for k in ks if 0 <= k <= kmax)
    grid = []
    for k in ks:
        base = k / fr
        grid += around(base, 1) + [base + 1e-7, base - 1e-7]
    n2 = 60000 if quick else 1500000
    for _ in range(n2):
        dcm = rng.choice(grid)
        w = rng.choice([0, 0, 1, 1, 2, 4, 5, 100, 4294967294])
        v = w + dcm
        add(v, rng.choice(ACCS) if rng.random() < 0.8 else f32round(rng.random()), rng.randint(1, 64), rng.choice(WHOLES))

    # 3. acceptance thresholds: |v - round v| = acc*v and |v - (w + n/d)| = acc*v
    th = []
    for acc in ACCS[1:] + [0.2, 0.25, 0.3]:
        a = float(f32round(acc))
        for w in [1, 2, 3, 4, 5, 6, 100, 101, U32MAX - 1, U32MAX]:
            for v0 in (w / (1 + a), (w / (1 - a)) if a < 1 else None):
                if v0 is not None:
                    for v in around(v0, 2):
                        th.append((v, acc, None))
        for (_, n, d) in table:
            for w in [0, 1, 4, 5]:
                t = w + n / d
                for v0 in (t / (1 + a), (t / (1 - a)) if a < 1 else None):
                    if v0 is not None:
                        for v in around(v0, 1):
                            th.append((v, acc, d))
    if quick:
        th = rng.sample(th, min(len(th), 12000))
    for (v, acc, d) in th:
        for md in ([64] if d is None else sorted({d, 64})):
            for mw in ([5, U32MAX] if quick else WHOLES):
                add(v, acc, md, mw)

    # 4. k/2520 grid (all denominators up to 10 and 2520 = lcm(1..10)), every max_den class
    kk = range(1, 2520 * 6 + 1)
    if quick:
        kk = rng.sample(list(kk), 4000)
    for k in kk:
        v = k / 2520.0
        for md in (rng.sample(den_classes(c), 3) if quick else den_classes(c)):
            add(v, rng.choice(ACCS), md, rng.choice(WHOLES))

    # 5. random doubles
    n5 = 40000 if quick else 2500000
    for _ in range(n5):
        r = rng.random()
        if r < 0.45:
            v = rng.uniform(0, 10)
        elif r < 0.75:
            v = 10.0 ** rng.uniform(-12, 12)
        elif r < 0.9:
            v = rng.choice(WHOLES[1:] + [2, 3, 7, 1000]) + rng.choice([0.0, rng.random(), rng.random() * 1e-9, 1 - rng.random() * 1e-9])
        else:
            v = struct.unpack("<d", struct.pack("<Q", rng.getrandbits(64)))[0]
        acc = rng.choice(ACCS) if rng.random() < 0.6 else f32round(rng.random())
        add(v, acc, rng.randint(1, 64), rng.choice(WHOLES) if rng.random() < 0.85 else rng.randint(0, U32MAX))
    return cases


# --------------------------------------------------------------------------
# comparison

def parse_line(line):
    d = {}
    for part in line.split(" ; "):
        k, _, v = part.partition(" ")
        d[k] = v
    return d


def discrete(res):
    t = res.split(" ")
    if t[0] == "frac":
        return ("frac", t[1], t[2], t[3])
    return (t[0],)


def impl_num(m, e):
    return math.ldexp(int(m), int(e)) if abs(int(e)) < 900 else float(Fraction(int(m)) * Fraction(2) ** int(e))


def model_num(s):
    a, _, b = s.partition("/")
    return int(a) / int(b)


def compare(case, fi, fm, stats):
    """Returns None when the two sides agree, 'discrete' or 'numeric: ..' otherwise."""
    ri, rm = fi["R"], fm["R"]
    di, dm = discrete(ri), discrete(rm)
    if di != dm:
        return "discrete"
    if di[0] == "frac":
        ti, tm = ri.split(" "), rm.split(" ")
        v = abs(hex64_to_float(case[0]))
        ei, em = impl_num(ti[4], ti[5]), model_num(tm[4])
        dev = abs(ei - em) / v if v > 0 else (0.0 if ei == em else math.inf)
        if dev > stats["worst_err_dev"]:
            stats["worst_err_dev"] = dev
        if dev > TOL:
            return "numeric: err impl=%r model=%r" % (ei, em)
        if fi["D"] != fm["D"]:
            return "numeric: display impl=%s model=%s" % (fi["D"], fm["D"])
    elif di[0] == "reg":
        ti, tm = ri.split(" "), rm.split(" ")
        if impl_num(ti[1], ti[2]) != model_num(tm[1]):
            return "numeric: regular value differs"
    return None


def case_line(case, pert=None):
    return "%s %s %d %d" % case + ((" " + pert) if pert else "")


def describe(case):
    return {"value": repr(hex64_to_float(case[0])), "value_bits": case[0], "accuracy": repr(hex32_to_float(case[1])),
            "accuracy_bits": case[1], "max_den": case[2], "max_whole": case[3], "case": case_line(case)}


def witness_case():
    return (f64hex(float(U32MAX)), f32hex(0.05), 4, U32MAX)


def builds():
    bindir = common.build_harness(["frac"])
    runner = common.build_runner("frac", COQ_DEPS, commons=COMMONS)
    # C12_IMPL_EXE: debugging aid (a frac harness built against a scratch copy of the crate)
    return os.environ.get("C12_IMPL_EXE") or os.path.join(bindir, "frac"), runner


def run(rep, tier, seed):
    import time
    t0 = [time.time()]
    phases = {}

    def phase(name):
        now = time.time()
        phases[name] = round(now - t0[0], 1)
        t0[0] = now

    rng = random.Random(seed)
    consts, regenerated = c12_gen.regen()
    impl_exe, runner = builds()
    phase("build")
    audit = common.audit_property_file("C12")
    phase("proof_audit")
    env_i = {"C12_DENOMS": ",".join(str(d) for d in consts["denoms"])}

    # which new_approx is in the tree: the code as found rejects the exact value u32::MAX
    probe = parse_line(common.run_lines(impl_exe, [case_line(witness_case())], env=env_i, tag="probe")[0])
    found_code = probe["R"] == "none"
    env_m = {"FRAC_CFG": "found" if found_code else "fixed"}

    corpus = [tuple(l.split(" ")[:2]) + (int(l.split(" ")[2]), int(l.split(" ")[3])) for l in common.load_corpus("C12")]
    cases = list(dict.fromkeys(corpus + [witness_case()] + gen_cases(consts, tier, rng)))
    lines = [case_line(c) for c in cases]
    phase("generate")
    impl = common.run_lines(impl_exe, lines, env=env_i, tag="impl")
    phase("implementation")
    model = common.run_lines(runner, lines, env=env_m, tag="model")
    phase("model")

    stats = {"worst_err_dev": 0.0}
    kinds = {}
    nontrivial = set()
    monitor_hits, known_hits, suspects, disagreements = [], [], [], []
    parsed = []
    for c, li, lm in zip(cases, impl, model):
        fi, fm = parse_line(li), parse_line(lm)
        di = discrete(fi["R"])
        kinds[di[0]] = kinds.get(di[0], 0) + 1
        if di[0] == "frac":
            nontrivial.add((c[0], di))
        if fi["V"] != "-":
            if fi["V"] == "integers_u32max":
                known_hits.append((c, li))
            else:
                monitor_hits.append((case_line(c), "monitor: " + fi["V"], dict(describe(c), violated=fi["V"], impl=li)))
        why = compare(c, fi, fm, stats)
        if why == "discrete":
            suspects.append((c, fi, fm, li, lm))
        elif why is not None:
            disagreements.append((case_line(c), dict(describe(c), impl=li, model=lm, why=why)))

    # counted rounding ties: the model at v(1 +- 2^-40) gives the implementation's discrete answer
    # AND the monitor accepts the implementation's answer
    phase("compare")
    ties, ties_exact = [], []
    if suspects:
        probes = []
        for i, (c, fi, fm, li, lm) in enumerate(suspects):
            probes.append((i, "+"))
            probes.append((i, "-"))
            di = discrete(fi["R"])
            v = hex64_to_float(c[0])
            if di[0] == "frac" and int(di[3]) > 0 and math.isfinite(v) and v > 0:
                # the fraction the implementation names, when it lies inside v(1 +- 2^-40)
                t = Fraction(int(di[1])) + Fraction(int(di[2]), int(di[3]))
                if abs(t - Fraction(v)) <= Fraction(v) / 2 ** 40:
                    probes.append((i, "=%d/%d" % (t.numerator, t.denominator)))
        pm = common.run_lines(runner, [case_line(suspects[i][0], p) for i, p in probes], env=env_m, tag="tie")
        alts = {}
        for (i, p), out in zip(probes, pm):
            alts.setdefault(i, []).append((p[0], discrete(parse_line(out)["R"])))
        for i, (c, fi, fm, li, lm) in enumerate(suspects):
            di = discrete(fi["R"])
            hit = [p for p, a in alts[i] if a == di]
            if hit and fi["V"] == "-":
                (ties if hit[0] in "+-" else ties_exact).append((c, li, lm))
            else:
                disagreements.append((case_line(c), dict(describe(c), impl=li, model=lm, why="discrete answers differ, "
                                                         "also inside v(1+-2^-40): %r" % (alts[i],))))

    # the recorded boundary defect: exact value u32::MAX with max_whole = u32::MAX is declined
    if known_hits:
        entry = [f for f in rep.findings if f.get("class") == KNOWN_CLASS]
        bad = [(c, li) for c, li in known_hits if not (hex64_to_float(c[0]) == float(U32MAX) and c[3] == U32MAX)]
        if entry and not bad:
            rep.known(entry[0].get("id", KNOWN_CLASS), entry[0].get("what", "new_approx declines the integer u32::MAX"))
        else:
            for c, li in (bad or known_hits)[:1]:
                monitor_hits.append((case_line(c), "integers within the limit come back as plain numbers: "
                                     "new_approx(4294967295.0, .., max_whole = u32::MAX) declines",
                                     dict(describe(c), violated="integers_u32max", impl=li)))
    elif [f for f in rep.findings if f.get("class") == KNOWN_CLASS]:
        disagreements.append((case_line(witness_case()), dict(describe(witness_case()), why="known_findings.json lists "
                              "%s as open but the implementation no longer shows it" % KNOWN_CLASS)))

    if os.environ.get("C12_DEBUG"):
        import json
        with open(os.path.join(common.BUILD, "c12_debug.json"), "w") as f:
            json.dump({"disagreements": disagreements, "ties": [dict(describe(c), impl=li, model=lm) for c, li, lm in ties + ties_exact]},
                      f, indent=1)

    phase("ties")
    common.decide(rep, "C12", "L-frac", audit, monitor_hits, disagreements, tier,
                  "correspondence Model/Fraction.v <-> src/quantity.rs (new_approx, lookup table, value, Display)")
    common.proof_coverage(rep, "C12", audit, tier,
                          "FractionLookupTable::{new,lookup}, Number::{new_approx,value}, Display for Number "
                          "(src/quantity.rs 101-116, 208-240, 633-778) over exact rationals; IEEE rounding is not "
                          "modelled (compared within 2^-40, discrete differences only as counted rounding ties); "
                          "f64 Display of Regular numbers is an oracle (monitored, not modelled)")
    isample = [i for i, c in enumerate(cases) if discrete(parse_line(impl[i])["R"])[0] == "frac"][:2] + \
              [len(cases) // 2, len(cases) - 1]
    rep.coverage.update({
        "evaluations": len(cases), "distinct_nontrivial": len(nontrivial),
        "rule": "cases (value bits, f32 accuracy bits, max_den, max_whole): specials (non-positive, non-finite, "
                "subnormal, powers of ten 1e-12..1e10, around 2^32 and u32::MAX, integer + {1e-11..1e-9} shortcut, "
                "out-of-range accuracy / max_den for the assertions); complete scan of the %d lookup cells "
                "k/FIX_RATIO for max_den in %s with accuracy 1, max_whole 0; grid around every table key and every "
                "midpoint of two entries (+-2 cells, +-1e-7, neighbouring doubles) with whole parts; doubles "
                "around the acceptance thresholds v = t/(1+-acc); k/2520 grid; seeded random doubles (uniform, "
                "log-uniform 1e-12..1e12, near-integers, random bit patterns); max_den 1..64, accuracies "
                "{0,.001,.01,.05,.1,.5,1} + random f32, max_whole in {0,1,4,5,100,u32::MAX} + random. "
                "distinct_nontrivial = distinct (value, returned whole/num/den) with a Fraction answer"
                % (int(consts["fix_ratio"]), "all 1..64" if tier != "quick" else str(den_classes(consts))),
        "exhaustive": False,
        "samples": [dict(describe(cases[i]), impl=impl[i], model=model[i]) for i in isample],
        "outcome_kinds": kinds,
        "rounding_ties_counted": len(ties) + len(ties_exact),
        "rounding_ties_at_interval_end": len(ties),
        "rounding_ties_at_named_fraction": len(ties_exact),
        "rounding_tie_samples": [dict(describe(c), impl=li, model=lm) for c, li, lm in ties[:2] + ties_exact[:2]],
        "correspondence_disagreements": len(disagreements),
        "monitor_violations": len(monitor_hits),
        "worst_err_deviation_relative_to_value": stats["worst_err_dev"],
        "err_tolerance": "2^-40 * |value|",
        "phase_seconds": phases,
        "gen_regenerated_this_run": bool(regenerated),
        "gen_constants": {k: str(v) for k, v in consts.items()},
        "implementation_variant": "as found (whole == u32::MAX sentinel)" if found_code else "repaired (value > u32::MAX as f64)",
    })
    rep.assumptions = [
        "f64 arithmetic of new_approx is modelled by exact rational arithmetic; the implementation's rounding is covered "
        "only by the correspondence run (tolerance 2^-40 relative to the value) and the monitor (value() within 4 ulp)",
        "the monitor's list of supported denominators is the DENOMS constant read from the source on this run",
    ]


def setup():
    c12_gen.regen()
    builds()


def replay(rp):
    impl_exe, _ = builds()
    consts = c12_gen.read_consts()
    case = rp["replay"].get("case")
    if not case:
        print("no input in this replay (proof/correspondence failure): %s" % rp.get("what"))
        return 1
    e = dict(os.environ)
    e["C12_DENOMS"] = ",".join(str(d) for d in consts["denoms"])
    p = subprocess.run([impl_exe, "-"], input=case + "\n", text=True, stdout=subprocess.PIPE, env=e)
    print(p.stdout.strip())
    return 0 if p.stdout.strip().endswith("V -") else 1
