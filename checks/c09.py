"""C09 - unit conversion preserves the physical amount.
Theorems: coq/Properties/C09.v (over the regenerated coq/Gen/UnitsToml.v).  Correspondence: L-conv
(harness/src/bin/conv.rs vs runner/conv_main.ml), including the recipe level: the implementation parses and
scales a recipe, dumps it, converts it (ScaledRecipe::convert) and dumps it again; the model
(Model/RecipeConvert.v) converts the first dump; the second dumps are compared slot by slot.  Monitor: the V field of the harness (round trip,
transitivity, best-list membership, amount preservation, failure frame) and the comparison of the
implementation's unit table with the hand-written standards (coq/Model/Standards.v, printed by the
runner) done here."""
import os
import random
import re
import subprocess
from fractions import Fraction

from checks import c09_gen
from vlib import common
from vlib.common import hx, unhx

DEPS = ["Base/Chars.v", "Model/Convert.v", "Gen/UnitsToml.v", "Model/Standards.v", "Model/Scale.v",
        "Model/RecipeConvert.v"]
COMMONS = ("common_n.ml", "common_zq.ml")
PQS = ["volume", "mass", "length", "temperature", "time"]
SYSTEMS = ["metric", "imperial"]
REL = Fraction(1, 2 ** 40)
NUM_RE = re.compile(r"^-?\d+(:-?\d+|/\d+)$")


def num(t):
    if ":" in t:
        m, e = t.split(":")
        m, e = int(m), int(e)
        return Fraction(m) * (Fraction(2) ** e)
    return Fraction(t)


def ftok(x):
    """python float -> exact `m:e` token"""
    n, d = float(x).as_integer_ratio()
    e = -(d.bit_length() - 1)
    while n != 0 and n % 2 == 0:
        n //= 2
        e += 1
    return "%d:%d" % (n, e if n != 0 else 0)


def qtok(fr):
    fr = Fraction(fr)
    return "%d/%d" % (fr.numerator, fr.denominator)


# ---------------------------------------------------------------- comparison of two canonical lines

def split_items(line):
    """-> list of ('lit', s) | ('num', Fraction) | ('frac', (w, n, d), err)"""
    out = []
    for t in line.split(" "):
        if t.startswith("R(") and t.endswith(")"):
            out.append(("lit", "R"))
            out.append(("num", num(t[2:-1])))
        elif t.startswith("F(") and t.endswith(")"):
            w, n, d, e = t[2:-1].split(",")
            out.append(("frac", (int(w), int(n), int(d)), num(e)))
        elif NUM_RE.match(t):
            out.append(("num", num(t)))
        else:
            out.append(("lit", t))
    return out


def compare(li, lm, abs_tol, rel=REL):
    """returns (same_skeleton, numbers_close, worst_relative_deviation)"""
    a, b = split_items(li), split_items(lm)
    if len(a) != len(b):
        return False, False, 0
    worst = Fraction(0)
    close = True
    for x, y in zip(a, b):
        if x[0] != y[0]:
            return False, False, 0
        if x[0] == "lit":
            if x[1] != y[1]:
                return False, False, 0
        elif x[0] == "num":
            scale = max(abs(x[1]), abs(y[1]))
            dev = abs(x[1] - y[1])
            if dev > rel * scale + abs_tol:
                close = False
            if scale > 0:
                worst = max(worst, dev / scale)
        else:
            if x[1] != y[1]:
                return False, False, 0
            w, n, d = x[1]
            scale = abs(Fraction(w) + (Fraction(n, d) if d else 0) + x[2])
            dev = abs(x[2] - y[2])
            if dev > rel * scale + abs_tol:
                close = False
            if scale > 0:
                worst = max(worst, dev / scale)
    return True, close, worst


def strip_v(line):
    head, _, v = line.rpartition(" ; V ")
    return head, v


# ---------------------------------------------------------------- case generation

def parse_unit_dump(line):
    f = line.split(" ")
    assert f[0] == "unit", line
    lst = lambda s: [unhx(x) for x in s[1:].split(",")] if len(s) > 1 else []
    return {"pq": f[1], "sys": f[2], "ratio": num(f[3]), "diff": num(f[4]),
            "names": lst(f[5]), "symbols": lst(f[6]), "aliases": lst(f[7])}


def unit_keys(u):
    return u["names"] + u["symbols"] + u["aliases"]


def perturb_line(case, sign):
    """the same case with every numeric input multiplied by (1 +- 2^-40), for the model only"""
    f = case.split(" ")
    k = (1 + sign * REL)
    pos = {"C": [1], "R": [1, 2], "T": [1], "S": [1], "SR": [1, 2]}.get(f[0])
    if pos is None and f[0] in ("QC", "QF"):
        pos = {"n": [2], "r": [2, 3]}.get(f[1], [])
    if pos is not None and f[0] in ("QC", "QF") and f[1] == "f":
        # a fraction input w,n,d,err: moved through its recorded error
        w, n, d, err = f[2].split(",")
        val = Fraction(int(w)) + (Fraction(int(n), int(d)) if int(d) else 0) + num(err)
        f[2] = ",".join([w, n, d, qtok(num(err) + sign * REL * abs(val))])
        return " ".join(f)
    if not pos:
        return None
    for i in pos:
        f[i] = qtok(num(f[i]) * k)
    return " ".join(f)


def gen_cases(rng, tier, units):
    grid = [0.0, 1e-6, 1e-3, 0.01, 0.1, 0.25, 1 / 3, 0.5, 1.0, 1.5, 2.0, 3.0, 5.0, 7.5, 10.0, 12.0, 37.5,
            100.0, 250.0, 999.999, 1000.0, 1001.0, 4096.0, 1e4, 1e5, 1e6, -1.0, -2.5]
    temp_extra = [-40.0, -273.15, -17.78, -459.67, 36.6, 180.0, 212.0, 451.0]
    if tier == "thorough":
        grid += [rng.uniform(0, 10) for _ in range(10)] + [10 ** rng.uniform(-6, 6) for _ in range(15)] + \
                [2.0 ** k for k in (-20, -10, -3, 7, 19)] + [0.2, 0.75, 0.125, 0.3333, 2.9999, 3.0001]
    keyvariants = []
    for u in units:
        ks = unit_keys(u)
        keyvariants.append(list(dict.fromkeys([u["symbols"][0] if u["symbols"] else ks[0], u["names"][0] if u["names"] else ks[0], ks[-1]])))
    cases = []
    n = len(units)
    # the tables
    for i in range(n + 1):
        cases.append("D %d" % i)
    for p in PQS:
        for s in SYSTEMS:
            cases.append("B %s %s" % (p, s))
    # all ordered pairs x value grid; keys rotate over the variants
    rot = 0
    for i in range(n):
        for j in range(n):
            same = units[i]["pq"] == units[j]["pq"]
            vals = grid + (temp_extra if units[i]["pq"] == "temperature" and same else [])
            if not same:
                vals = [1.0, 0.0, 250.0]  # failure frame: a few values are enough
            for v in vals:
                ka = keyvariants[i][rot % len(keyvariants[i])]
                kb = keyvariants[j][(rot // 3) % len(keyvariants[j])]
                rot += 1
                cases.append("C %s %s %s" % (ftok(v), hx(ka), hx(kb)))
            cases.append("R %s %s %s %s" % (ftok(rng.choice(grid)), ftok(rng.choice(grid)), hx(keyvariants[i][0]), hx(keyvariants[j][0])))
    # every key of every unit resolves to it
    for i in range(n):
        for k in unit_keys(units[i]):
            cases.append("C %s %s %s" % (ftok(1.0), hx(k), hx(keyvariants[i][0])))
    # triples inside a physical quantity
    triples = [(a, b, c) for a in range(n) for b in range(n) for c in range(n)
               if units[a]["pq"] == units[b]["pq"] == units[c]["pq"]]
    if tier == "quick":
        triples = rng.sample(triples, min(2000, len(triples)))
        tvals = lambda: [rng.choice(grid)]
    else:
        tvals = lambda: [rng.choice(grid) for _ in range(6)] + [rng.uniform(-50, 500)]
    for a, b, c in triples:
        for v in tvals():
            cases.append("T %s %s %s %s" % (ftok(v), hx(rng.choice(keyvariants[a])), hx(rng.choice(keyvariants[b])), hx(rng.choice(keyvariants[c]))))
    # conversions to a system: grid + values around every threshold of the best lists
    return cases, grid, temp_extra, keyvariants


def threshold_values(units, best, p, s, u):
    """values of unit u that land on `th - 0.001` of every entry of the best list (exact rationals)"""
    syms = best[(p, s)]
    bu = [next(x for x in units if (x["symbols"] or x["names"])[0] == sy) for sy in syms]
    bu.sort(key=lambda x: x["ratio"])
    base = bu[0]
    out = []
    for x in bu[1:]:
        th = (1 + x["diff"]) * x["ratio"] / base["ratio"] - base["diff"]
        norm = th - Fraction(1, 1000)
        # norm = (v + d_u) r_u / r_base - d_base
        v = (norm + base["diff"]) * base["ratio"] / u["ratio"] - u["diff"]
        out.append(v)
    return out


def gen_system_cases(rng, tier, units, best, grid, temp_extra, keyvariants):
    cases = []
    eps = Fraction(1, 10 ** 9)
    for i, u in enumerate(units):
        for s in SYSTEMS:
            key = keyvariants[i][0]
            vals = [ftok(v) for v in grid + (temp_extra if u["pq"] == "temperature" else [])]
            for th in threshold_values(units, best, u["pq"], s, u):
                fl = float(th)
                vals += [ftok(fl), ftok(fl * (1 + 1e-9)), ftok(fl * (1 - 1e-9)), ftok(fl * 1.01), ftok(fl * 0.99)]
            for v in vals:
                cases.append("S %s %s %s" % (v, hx(key), s))
                cases.append("QC n %s - %s s%s" % (v, hx(rng.choice(keyvariants[i])), s))
            for _ in range(6 if tier == "quick" else 40):
                a, b = sorted([rng.choice(grid), rng.choice(grid)])
                cases.append("SR %s %s %s %s" % (ftok(a), ftok(b), hx(key), s))
                cases.append("QC r %s %s %s s%s" % (ftok(a), ftok(b), hx(key), s))
    return cases


def gen_recipe_cases(rng, tier, units):
    """recipes whose quantities are already in / not in the target system, in designated and non-designated units,
    badly fitted values, text values with units, unknown units, no units, timers, inline temperatures, cookware,
    ingredients without quantity, sections and metadata; a third of them scaled first (fitted fractions as input)"""
    out = []
    keys = [k for u in units for k in unit_keys(u) if k and " " not in k and not k[0].isdigit()]
    vals = ["5", "1500", "0.5", "2", "250", "1/2", "1 1/2", "3-4", "1500-2500", "some", "a bit", "0.001", "12",
            "0", "2.5-3", "1/3", "100000", "0.33", "=3", "7 1/8"]
    names = ["milk", "flour", "salt", "water", "oil", "rice"]
    factors = [2.0, 0.5, 3.0, 1 / 3, 7.5, 0.1]
    n = 1500 if tier == "quick" else 15000
    for _ in range(n):
        parts = []
        for j in range(rng.randint(1, 6)):
            k = rng.random()
            if k < 0.62:
                u = rng.choice(keys + ["pinch", "cloves"]) if rng.random() < 0.9 else None
                v = rng.choice(vals)
                parts.append("@%s%d{%s%s}" % (rng.choice(names), j, v, ("%" + u) if u else ""))
            elif k < 0.7:
                parts.append(rng.choice(["@pepper", "@sea salt{}", "@&milk0{}", "@eggs%d{3}(large)" % j]))
            elif k < 0.8:
                parts.append("~%s{%s%%%s}" % (rng.choice(["", "rest"]), rng.choice(["90", "0.5", "36", "1500", "1-2"]),
                                             rng.choice(["min", "h", "s", "d", "minutes", "fortnights"])))
            elif k < 0.9:
                parts.append("#pot%d{%s}" % (j, rng.choice(["2", "big", "1-2"])))
            else:
                parts.append("heat to %s %s" % (rng.choice(["350", "180", "0", "32", "-40"]), rng.choice(["F", "°F", "C", "ºC", "K"])))
        text = " and ".join(parts)
        r = rng.random()
        if r < 0.15:
            text = ">> servings: 2\n" + text
        elif r < 0.3:
            text = "= first\n" + text + "\n\n= second\nthen @butter{8%oz} and ~{10%min}"
        fac = ""
        if rng.random() < 0.33:
            fac = " f" + ftok(rng.choice(factors))
        for sysn in SYSTEMS:
            out.append("RC %s %s%s" % (hx(text), sysn, fac))
    return out


# ---------------------------------------------------------------- recipe level: dumps, slots, perturbation

TOK_R = re.compile(r"R\(([^()]*)\)")
TOK_F = re.compile(r"F\((\d+),(\d+),(\d+),([^(),]*)\)")


def perturb_dump(dump, sign):
    """every number of a recipe dump multiplied by (1 +- 2^-40) (fractions moved through their recorded error)"""
    k = 1 + sign * REL

    def fr(m):
        w, n, d, e = int(m.group(1)), int(m.group(2)), int(m.group(3)), num(m.group(4))
        val = Fraction(w) + (Fraction(n, d) if d else 0) + e
        return "F(%d,%d,%d,%s)" % (w, n, d, qtok(e + sign * REL * abs(val)))
    dump = TOK_R.sub(lambda m: "R(%s)" % qtok(num(m.group(1)) * k), dump)
    return TOK_F.sub(fr, dump)


def slot_unit(slot):
    """the unit token of the quantity in a slot of a recipe dump, or None"""
    f = slot.split(" ")
    if f[0] in ("I", "T", "Q") and f[-1] != "-" and len(f) >= 4:
        return f[-1]
    return None


def compare_rc(in_dump, out_i, out_m, alts, temp_keys):
    """slot by slot; `alts`: model outputs at perturbed inputs.  -> (ok, used_tie, worst, worst_temp, slots, detail)"""
    si, sm, sin = out_i.split(" / "), out_m.split(" / "), in_dump.split(" / ")
    if not (len(si) == len(sm) == len(sin)):
        return False, False, 0, 0, 0, "different number of slots"
    salts = [a.split(" / ") for a in alts]
    worst = worst_t = Fraction(0)
    tie = False
    nq = 0
    for j, (a, b, src) in enumerate(zip(si, sm, sin)):
        atol = Fraction(1, 10 ** 9) if slot_unit(src) in temp_keys else Fraction(0)
        fs = src.split(" ")
        if fs[0] == "Q" or (fs[0] in ("I", "T") and fs[2] != "-"):
            nq += 1
        same, close, dev = compare(a, b, atol)
        if same and close:
            if atol:
                worst_t = max(worst_t, dev)
            else:
                worst = max(worst, dev)
            continue
        ok = False
        for sa in salts:
            if len(sa) == len(si):
                s2, c2, _ = compare(a, sa[j], atol, rel=REL * 8)
                ok = ok or (s2 and c2)
        if not ok:
            return False, False, worst, worst_t, nq, "slot %d: impl %r model %r" % (j, a, b)
        tie = True
    return True, tie, worst, worst_t, nq, ""


def gen_quantity_cases(rng, tier, units, grid, temp_extra, keyvariants):
    cases = []
    n = len(units)
    nfit = 5000 if tier == "quick" else 150000
    fracs = [0.5, 0.25, 0.75, 1 / 3, 2 / 3, 0.125, 0.2, 0.3, 0.0625, 0.05, 0.95, 0.999, 0.0001]
    for k in range(nfit):
        i = rng.randrange(n)
        r = rng.random()
        if r < 0.3:
            v = rng.choice(grid)
        elif r < 0.6:
            v = float(rng.randint(0, 20)) + rng.choice(fracs) * rng.choice([1, 1, 1 + 1e-4, 1 - 1e-4, 1.04, 0.96])
        elif r < 0.8:
            v = 10 ** rng.uniform(-4, 5)
        else:
            v = rng.uniform(0, 64)
        key = rng.choice(keyvariants[i])
        if k % 5 == 0:
            w = v + abs(rng.choice(grid)) * rng.random()
            cases.append("QF r %s %s %s" % (ftok(v), ftok(w), hx(key)))
        elif k % 17 == 0:
            cases.append("QF f %d,%d,%d,%s - %s" % (rng.randint(0, 9), rng.randint(0, 7), rng.choice([1, 2, 3, 4, 8]),
                                                 ftok(rng.choice([0.0, 1e-3, -1e-3])), hx(key)))
        else:
            cases.append("QF n %s - %s" % (ftok(v), hx(key)))
    # ScaledQuantity::convert to a unit: all ordered pairs once with a random value
    for i in range(n):
        for j in range(n):
            v = rng.choice(grid + [2.5, 0.75, 1.3333])
            cases.append("QC n %s - %s u%s" % (ftok(v), hx(rng.choice(keyvariants[i])), hx(rng.choice(keyvariants[j]))[1:]))
    # failure cases: text, unit-less, unknown unit, unknown target
    unknown = ["", "pinch", "Cup", "ML", "kilo", "clove", "°", "g "]
    for i in range(n):
        key = keyvariants[i][0]
        for t in ["a bit", "", "1-2"]:
            for tgt in ["smetric", "simperial", "u" + hx(key)[1:], "u" + hx("l")[1:]]:
                cases.append("QC t %s - %s %s" % (hx(t), hx(key), tgt))
            cases.append("QF t %s - %s" % (hx(t), hx(key)))
        for uk in unknown[:3]:
            cases.append("QC n %s - %s u%s" % (ftok(2.0), hx(key), hx(uk)[1:]))
            cases.append("C %s %s %s" % (ftok(2.0), hx(key), hx(uk)))
            cases.append("C %s %s %s" % (ftok(2.0), hx(uk), hx(key)))
    for uk in unknown:
        for tgt in ["smetric", "simperial", "u" + hx("g")[1:], "u" + hx(uk)[1:]]:
            cases.append("QC n %s - %s %s" % (ftok(3.0), hx(uk), tgt))
            cases.append("QC r %s %s %s %s" % (ftok(1.0), ftok(3.0), hx(uk), tgt))
            cases.append("QC t %s - %s %s" % (hx("some"), hx(uk), tgt))
        cases.append("QF n %s - %s" % (ftok(3.0), hx(uk)))
        cases.append("QF t %s - %s" % (hx("some"), hx(uk)))
        cases.append("S %s %s metric" % (ftok(3.0), hx(uk)))
    for tgt in ["smetric", "simperial", "u" + hx("g")[1:]]:
        cases.append("QC n %s - - %s" % (ftok(3.0), tgt))
        cases.append("QC r %s %s - %s" % (ftok(1.0), ftok(3.0), tgt))
        cases.append("QC t %s - - %s" % (hx("x"), tgt))
    cases.append("QF n %s - -" % ftok(3.0))
    cases.append("QF t %s - -" % hx("x"))
    return cases


# ---------------------------------------------------------------- the run

def builds():
    c09_gen.regenerate()
    bindir = common.build_harness(["conv"])
    runner = common.build_runner("conv", DEPS, commons=COMMONS)
    return os.path.join(bindir, "conv"), runner


def case_abs_tol(case, temp_keys):
    f = case.split(" ")
    for t in f[1:]:
        if t.startswith("x") or t.startswith("u"):
            if ("x" + t[1:]) in temp_keys:
                return Fraction(1, 10 ** 9)
    return Fraction(0)


def run(rep, tier, seed):
    rng = random.Random(seed)
    _, regenerated = c09_gen.regenerate()
    impl_exe, runner = builds()
    audit = common.audit_property_file("C09")

    # phase 1: the tables (also tells the generator what the units are)
    head = ["D %d" % i for i in range(0, 64)]
    hi = common.run_lines(impl_exe, head, tag="impl-d")
    units = [parse_unit_dump(strip_v(l)[0]) for l in hi if not l.startswith("none")]
    bl = [("B %s %s" % (p, s)) for p in PQS for s in SYSTEMS]
    bi = common.run_lines(impl_exe, bl, tag="impl-b")
    best = {}
    for c, l in zip(bl, bi):
        _, p, s = c.split(" ")
        syms = strip_v(l)[0].split(" ")[1]
        best[(p, s)] = [unhx(x) for x in syms.split(",")] if syms else []
    temp_keys = set(hx(k) for u in units if u["pq"] == "temperature" for k in unit_keys(u))

    corpus = common.load_corpus("C09")
    cases, grid, temp_extra, keyvariants = gen_cases(rng, tier, units)
    cases += gen_system_cases(rng, tier, units, best, grid, temp_extra, keyvariants)
    cases += gen_quantity_cases(rng, tier, units, grid, temp_extra, keyvariants)
    cases = list(dict.fromkeys([c for c in corpus if not c.startswith("RC ")] + cases))
    impl = common.run_lines(impl_exe, cases, tag="impl")
    model = common.run_lines(runner, cases, tag="model")

    # recipe level: ScaledRecipe::convert must do to every ingredient, timer and inline quantity exactly what converting
    # that quantity alone does, store one error per failure, leave failures and everything else untouched (monitor in
    # the harness); the model converts the recipe the implementation dumped before converting
    rc_cases = list(dict.fromkeys([c for c in corpus if c.startswith("RC ")] + gen_recipe_cases(rng, tier, units)))
    rc_impl = common.run_lines(impl_exe, rc_cases, tag="impl-rc")
    rc_stats = {"recipes": 0, "scaled_first": 0, "quantities": 0, "converted": 0, "errors": 0, "invalid": 0,
                "error_kinds": {}, "slots_compared": 0, "quantities_compared": 0, "rounding_ties": 0}
    rc_parsed = []   # (case, in_dump, out_dump, errs, v, raw line)
    for c, li in zip(rc_cases, rc_impl):
        hi_, v = strip_v(li)
        parts = hi_.split(" | ")
        if len(parts) == 4:
            rc_parsed.append((c, parts[1], parts[2], parts[3], v, li))
    rm_lines = ["RM %s %s" % (c.split(" ")[2], din) for c, din, _, _, _, _ in rc_parsed]
    rc_model = common.run_lines(runner, rm_lines, tag="model-rc")

    monitor_hits = []
    disagreements = []
    pending = []   # discrete disagreements to be classified as rounding ties
    worst = Fraction(0)
    worst_temp = Fraction(0)
    kinds = {}
    outcomes = {}
    for c, li, lm in zip(cases, impl, model):
        k = c.split(" ")[0]
        kinds[k] = kinds.get(k, 0) + 1
        hi_, v = strip_v(li)
        oc = hi_.split(" ")[0] + ("-" + hi_.split(" ")[1] if hi_.startswith("err") else "")
        outcomes[oc] = outcomes.get(oc, 0) + 1
        if v != "-":
            monitor_hits.append((c, "C09 monitor: " + v, {"case": c, "impl": li, "violated": v}))
        atol = case_abs_tol(c, temp_keys)
        same, close, dev = compare(hi_, lm, atol)
        if same and close:
            if atol == 0:
                worst = max(worst, dev)
            else:
                worst_temp = max(worst_temp, dev)
        elif same:
            disagreements.append((c, {"case": c, "impl": li, "model": lm, "kind": "value beyond tolerance"}))
        else:
            pending.append((c, li, lm, v))

    rc_worst = rc_worst_temp = Fraction(0)
    rc_ties = []
    for c, li in zip(rc_cases, rc_impl):
        hi_, v = strip_v(li)
        if hi_ == "rc invalid":
            rc_stats["invalid"] += 1
        elif len(hi_.split(" | ")) != 4:
            monitor_hits.append((c, "C09 monitor (ScaledRecipe::convert): " + (v if v != "-" else "malformed output"),
                                 {"case": c, "recipe": unhx(c.split(" ")[1]), "impl": li, "violated": v}))
    rc_pending = []
    for (c, din, dout, errs, v, li), lm in zip(rc_parsed, rc_model):
        if v != "-":
            monitor_hits.append((c, "C09 monitor (ScaledRecipe::convert): " + v,
                                 {"case": c, "recipe": unhx(c.split(" ")[1]), "system": c.split(" ")[2], "impl": li, "violated": v}))
        f = li.split(" ")
        rc_stats["recipes"] += 1
        rc_stats["scaled_first"] += 1 if len(c.split(" ")) > 3 else 0
        rc_stats["quantities"] += int(f[1])
        rc_stats["converted"] += int(f[2])
        rc_stats["errors"] += int(f[3])
        for e in (errs[2:].split(",") if errs != "E -" else []):
            rc_stats["error_kinds"][e] = rc_stats["error_kinds"].get(e, 0) + 1
        mp = lm.split(" | ")
        if len(mp) != 2 or mp[1] != errs:
            disagreements.append((c, {"case": c, "recipe": unhx(c.split(" ")[1]), "impl": li, "model": lm,
                                      "kind": "recipe level: error list / panic"}))
            continue
        ok, tie, w, wt, nq, detail = compare_rc(din, dout, mp[0], [], temp_keys)
        if ok:
            rc_stats["slots_compared"] += len(dout.split(" / "))
            rc_stats["quantities_compared"] += nq
            rc_worst, rc_worst_temp = max(rc_worst, w), max(rc_worst_temp, wt)
        else:
            rc_pending.append((c, din, dout, mp[0], v, li, lm))
    if rc_pending:
        pl = []
        for c, din, dout, mo, v, li, lm in rc_pending:
            for sgn in (1, -1):
                pl.append("RM %s %s" % (c.split(" ")[2], perturb_dump(din, sgn)))
        pm = common.run_lines(runner, pl, tag="model-rc-tie")
        for idx, (c, din, dout, mo, v, li, lm) in enumerate(rc_pending):
            alts = [x.split(" | ")[0] for x in pm[2 * idx: 2 * idx + 2]]
            ok, tie, w, wt, nq, detail = compare_rc(din, dout, mo, alts, temp_keys)
            if ok:
                rc_stats["slots_compared"] += len(dout.split(" / "))
                rc_stats["quantities_compared"] += nq
            if ok and v == "-":
                rc_ties.append({"case": c, "recipe": unhx(c.split(" ")[1]), "impl": dout, "model": mo})
            else:
                disagreements.append((c, {"case": c, "recipe": unhx(c.split(" ")[1]), "impl": li, "model": lm,
                                          "kind": "recipe level: " + (detail or "monitor rejected the tie")}))
    rc_stats["rounding_ties"] = len(rc_ties)
    rc_stats["rounding_tie_samples"] = rc_ties[:2]
    rc_stats["worst_relative_deviation"] = float(rc_worst)
    rc_stats["worst_relative_deviation_temperature_slots_within_abs_1e-9"] = float(rc_worst_temp)
    kinds["RC"] = len(rc_cases)

    # rounding ties: the model at v(1 +- 2^-40) gives the implementation's answer and the monitor accepts
    ties = []
    if pending:
        pl = []
        for c, li, lm, v in pending:
            for sgn in (1, -1):
                p = perturb_line(c, sgn)
                pl.append(p if p is not None else c)
        pm = common.run_lines(runner, pl, tag="model-tie")
        for idx, (c, li, lm, v) in enumerate(pending):
            hi_, _ = strip_v(li)
            ok = False
            for lm2 in pm[2 * idx: 2 * idx + 2]:
                same, close, _ = compare(hi_, lm2, case_abs_tol(c, temp_keys), rel=REL * 8)
                if same and close:
                    ok = True
            if ok and v == "-" and perturb_line(c, 1) is not None:
                ties.append({"case": c, "impl": li, "model": lm})
            else:
                disagreements.append((c, {"case": c, "impl": li, "model": lm, "kind": "discrete"}))

    # the implementation's table against the hand-written standards (independent of the model of
    # the builder): every unit known, right physical quantity, ratio / offset within 1e-6
    std = common.run_lines(runner, ["ST %d" % i for i in range(64)], tag="model-st")
    standards = {}
    for l in std:
        if l == "none":
            continue
        f = l.split(" ")
        standards[unhx(f[1])] = (f[2], num(f[3]), num(f[4]))
    tol6 = Fraction(1, 10 ** 6)
    for u in units:
        nm = u["names"][0] if u["names"] else ""
        sdef = standards.get(nm)
        bad = None
        if sdef is None:
            bad = "no standard definition for unit %r" % nm
        elif sdef[0] != u["pq"] or abs(u["ratio"] - sdef[1]) > tol6 * abs(sdef[1]) or abs(u["diff"] - sdef[2]) > tol6 * abs(sdef[2]):
            bad = "unit %r: ratio %s offset %s, standard %s %s" % (nm, float(u["ratio"]), float(u["diff"]), float(sdef[1]), float(sdef[2]))
        if bad:
            key = (u["symbols"] or u["names"])[0]
            base = next((x for x in units if x["pq"] == u["pq"] and x["ratio"] == 1), u)
            wit = "C %s %s %s" % (ftok(1.0), hx(key), hx((base["symbols"] or base["names"])[0]))
            monitor_hits.append((wit, "C09 definitions: " + bad, {"case": wit, "violated": "definitions", "detail": bad}))

    common.decide(rep, "C09", "L-conv", audit, monitor_hits, disagreements, tier,
                  "correspondence Model/Convert.v, Model/RecipeConvert.v <-> src/convert/mod.rs, builder.rs (single file), "
                  "quantity.rs new_approx")
    common.proof_coverage(rep, "C09", audit, tier,
                          "Converter::{convert,convert_to_unit,convert_to_best,convert_value,convert_f64,get_unit,find_unit,"
                          "fractions_config}, BestConversions::best_unit, ScaledQuantity::{convert_impl,fit,fit_fraction,"
                          "try_fraction}, ScaledRecipe::convert (src/convert/mod.rs 141-158,196-218,316-388,415-725), the single-file path of "
                          "ConverterBuilder (builder.rs 73-275,365-419,457-534), Number::new_approx and the fraction table "
                          "(quantity.rs 637-790, runner only); f64 arithmetic is exact rational arithmetic in the model")
    pairs = sum(1 for c in cases if c.startswith("C "))
    samples = []
    for want in ("C", "T", "S", "QC", "QF"):
        for c, li in zip(cases, impl):
            if c.startswith(want + " ") and " ok" in " " + li:
                samples.append({"case": c, "impl": li})
                break
    for (c, din, dout, errs, v, li), lm in list(zip(rc_parsed, rc_model))[:400]:
        if errs != "E -" and int(li.split(" ")[2]) > 0:
            samples.append({"case": c, "recipe": unhx(c.split(" ")[1]), "impl": li, "model": lm})
            break
    rep.coverage.update({
        "evaluations": len(cases) + len(rc_cases), "case_kinds": kinds, "impl_outcomes": outcomes,
        "units": len(units), "unit_keys": sum(len(unit_keys(u)) for u in units),
        "ordered_pairs": len(units) ** 2, "number_conversions": pairs,
        "rule": "all %d^2 ordered pairs of the bundled units (keys rotating over symbol / name / last key) x a grid of %d "
                "values (+%d for temperature), every key of every unit, %s triples inside a physical quantity, both "
                "systems x grid x values on and around every best-list threshold, ranges, %d seeded fit cases "
                "(numbers, ranges, fractions), all pairs through ScaledQuantity::convert, text / unit-less / unknown-unit "
                "/ cross-quantity failure cases; unit table and best lists dumped and compared; %d generated recipes x both "
                "systems through ScaledRecipe::convert (a third scaled first), model and implementation compared slot by "
                "slot; corpus first"
                % (len(units), len(grid), len(temp_extra), "2000 sampled" if tier == "quick" else "all",
                   kinds.get("QF", 0), len(rc_cases) // 2),
        "exhaustive": False,
        "tolerance": "relative 2^-40 (temperature: + absolute 1e-9)",
        "worst_relative_deviation": float(worst),
        "worst_relative_deviation_temperature_cases": float(worst_temp),
        "rounding_ties": len(ties) + len(rc_ties), "rounding_tie_samples": ties[:3],
        "recipe_level_convert": rc_stats,
        "correspondence_disagreements": len(disagreements), "monitor_violations": len(monitor_hits),
        "units_toml_regenerated_changed": bool(regenerated),
        "standards_entries": len(standards),
        "samples": samples,
    })
    rep.assumptions = [
        "approx_exact (Section hypothesis of C09_convert_preserves / C09_fit_preserves / C09_fit_member / "
        "C09_failures_frame / C09_recipe_convert / C09_recipe_each / C09_recipe_twice; discharged for the model of "
        "new_approx in C09_recipe_shipped): Number::new_approx returns a number whose value() is its input - C12's subject; "
        "monitored here on every fit / convert case through the amount check",
        "IEEE rounding is not modelled: theorems are about exact rationals, the implementation is compared within 2^-40",
        "std::ptr::eq(from, to) in Converter::convert_f64 is modelled as equality of unit ids (all references come from the converter)",
    ]


def setup():
    builds()


def replay(rp):
    impl_exe, _ = builds()
    c = rp["replay"].get("case")
    if not c:
        print("no case in replay (proof obligation or machinery): " + rp.get("what", ""))
        return 1
    p = subprocess.run([impl_exe, "-"], input=c + "\n", text=True, stdout=subprocess.PIPE)
    print(p.stdout.strip())
    bad = not p.stdout.strip().endswith("; V -")
    if rp["replay"].get("violated") == "definitions":
        bad = True
    return 1 if bad else 0
