"""C10 - grouping and listing ingredients conserves quantities.
Theorems: coq/Properties/C10.v.  Correspondence L-group: extracted Model/Group.v vs harness bin `group`
on the live bundled converter.  Monitor (here, exact rationals, independent of the model):
total(what the implementation returned) = (+) contributions of the inputs."""
import itertools
import json
import os
import posixpath
import random
import subprocess
from collections import Counter
from fractions import Fraction

from vlib import common
from vlib.common import hx, unhx

TOL = Fraction(1, 2 ** 40)
DEPS = ["Base/Chars.v", "Model/Aisle.v", "Model/Group.v"]
COMMONS = ("common_n.ml", "common_zq.ml")
CLASS_COLLISION = "synonym_collision_among_listed_names"

# ----------------------------------------------------------------------------- tokens


def num(tok):
    if "^" in tok:
        m, e = tok.split("^")
        m, e = int(m), int(e)
        return Fraction(m * (1 << e)) if e >= 0 else Fraction(m, 1 << -e)
    if "/" in tok:
        a, b = tok.split("/")
        return Fraction(int(a), int(b))
    return Fraction(int(tok))


def pval(tok):
    p = tok.split(":")
    if p[0] == "n":
        return ("n", num(p[1]))
    if p[0] == "r":
        return ("r", num(p[1]), num(p[2]))
    return ("t", p[1])


def pqty(tok):
    v, u = tok.rsplit("@", 1)
    return (pval(v), None if u == "-" else u)


def plist(tok, sep, f):
    return [] if tok == "-" else [f(x) for x in tok.split(sep)]


def pgq(tok):
    k, u, o, n = tok.split("&")
    return {"k": [None if x == "-" else pqty(x) for x in k.split("|")], "u": plist(u, ",", pqty),
            "o": plist(o, ",", pqty), "n": None if n == "-" else pqty(n)}


def gq_iter(g):
    return [x for x in g["k"] if x] + g["u"] + g["o"] + ([g["n"]] if g["n"] else [])


def pilist(tok):
    out = []
    for e in plist(tok, "+", str):
        n, g = e.split("=")
        out.append((n, pgq(g)))
    return out


def f64tok(x):
    """exact token m^e of a Python float"""
    fr = Fraction(x)
    if fr == 0:
        return "0^0"
    d = fr.denominator
    e = -(d.bit_length() - 1)
    m = fr.numerator
    while m % 2 == 0:
        m //= 2
        e += 1
    return "%d^%d" % (m, e)


def vtok(v):
    if v[0] == "n":
        return "n:" + f64tok(v[1])
    if v[0] == "r":
        return "r:%s:%s" % (f64tok(v[1]), f64tok(v[2]))
    return "t:" + hx(v[1])


def qtok(v, unit):
    return "%s@%s" % (vtok(v), "-" if unit is None else hx(unit))


# ----------------------------------------------------------------------------- summaries

class Summary:
    """per physical quantity / unknown unit / unit-less: a pair of rationals (ranges end-wise);
    the multiset of text values (with their unit)."""

    def __init__(self):
        self.b = {}
        self.scale = {}
        self.texts = Counter()

    def add(self, key, lo, hi, scale=None):
        a = self.b.get(key, (0, 0))
        self.b[key] = (a[0] + lo, a[1] + hi)
        self.scale[key] = self.scale.get(key, 0) + (scale if scale is not None else max(abs(lo), abs(hi)))

    def add_q(self, table, q):
        v, u = q
        if v[0] == "t":
            self.texts[(v[1], u)] += 1
            return
        lo, hi = (v[1], v[1]) if v[0] == "n" else (v[1], v[2])
        if u is None:
            self.add(("n",), lo, hi)
        elif u in table:
            _, pq, r, _ = table[u]
            self.add(("k", pq), lo * r, hi * r)
        else:
            self.add(("u", u), lo, hi)

    def add_v(self, v):
        if v[0] == "t":
            self.texts[(v[1], None)] += 1
        elif v[0] == "n":
            self.add(("n",), v[1], v[1])
        else:
            self.add(("n",), v[1], v[2])


def total(table, qs):
    s = Summary()
    for q in qs:
        s.add_q(table, q)
    return s


def total_v(vs):
    s = Summary()
    for v in vs:
        s.add_v(v)
    return s


WORST = {"dev": Fraction(0)}


def close(a, b, skip=(), scale=None):
    """None if equal within TOL relative to the sum of magnitudes, else a description"""
    if a.texts != b.texts:
        return "text values differ: %s vs %s" % (dict(a.texts), dict(b.texts))
    for key in set(a.b) | set(b.b):
        if key in skip:
            continue
        x, y = a.b.get(key, (0, 0)), b.b.get(key, (0, 0))
        sc = max(a.scale.get(key, 0), b.scale.get(key, 0), (scale or {}).get(key, 0))
        for i in (0, 1):
            d = abs(x[i] - y[i])
            if d != 0:
                if sc == 0 or d > TOL * sc:
                    return "bucket %s end %d: %s vs %s" % (key, i, float(x[i]), float(y[i]))
                WORST["dev"] = max(WORST["dev"], d / sc)
    return None


def same_qty(a, b, mag=0):
    """structural equality of two quantities, numbers within TOL relative to their own size or to [mag],
    the sum of the magnitudes that went into them (f64 sums with cancellation, e.g. 1e-6 h + 1 day - 1 day,
    are exact only relative to what was added, not to what is left)"""
    (va, ua), (vb, ub) = a, b
    if ua != ub or va[0] != vb[0]:
        return False
    if va[0] == "t":
        return va[1] == vb[1]
    for x, y in zip(va[1:], vb[1:]):
        if x != y and abs(x - y) > TOL * max(abs(x), abs(y), mag):
            return False
    return True


def same_opt(a, b, mag=0):
    return (a is None and b is None) or (a is not None and b is not None and same_qty(a, b, mag))


def input_scale(table, qs):
    """per bucket, the sum of the magnitudes of the inputs in base units (offsets included)"""
    sc = {}
    for v, u in qs:
        if v[0] == "t":
            continue
        m = max(abs(t) for t in v[1:])
        if u is None:
            key = ("n",)
        elif u in table:
            _, pq, r, d = table[u]
            key, m = ("k", pq), (m + 2 * abs(d)) * r
        else:
            key = ("u", u)
        sc[key] = sc.get(key, 0) + m
    return sc


def same_gq(table, gi, gm, fitted, scale=None):
    """model vs implementation; after fit only the per-quantity totals of the known slots are comparable.
    [scale]: input_scale of what was added (None: numbers are compared relative to their own size)"""
    scale = scale or {}

    def mag(key, q):
        m = scale.get(key, 0)
        if key[0] == "k" and q is not None and q[1] in table:
            return m / table[q[1]][2]
        return m
    if len(gi["u"]) != len(gm["u"]) or len(gi["o"]) != len(gm["o"]):
        return False
    if not all(same_qty(x, y, mag(("u", x[1]), x)) for x, y in zip(gi["u"], gm["u"])):
        return False
    if not all(same_qty(x, y) for x, y in zip(gi["o"], gm["o"])):
        return False
    if not same_opt(gi["n"], gm["n"], mag(("n",), None)):
        return False
    if fitted:
        return close(total(table, [x for x in gi["k"] if x]), total(table, [x for x in gm["k"] if x]),
                     scale=scale) is None and \
            [x is None for x in gi["k"]] == [x is None for x in gm["k"]]
    return all(same_opt(x, y, mag(("k", p), x)) for p, (x, y) in enumerate(zip(gi["k"], gm["k"])))


# ----------------------------------------------------------------------------- generators

TEXTS = ["some", "a pinch", "big", "to taste", "1 or 2", "", "é"]
UNKNOWN_UNITS = ["bag", "pinch", "clove", "Cup", "boîte", "g "]


def gen_value(rng, allow_neg=True):
    r = rng.random()
    if r < 0.35:
        return ("n", float(rng.choice([0, 1, 2, 3, 5, 10, 100, 250, 1000, rng.randint(0, 5000)])))
    if r < 0.6:
        return ("n", rng.choice([0.1, 0.2, 0.25, 0.5, 0.75, 1.5, 2.5, 0.333, 1e-6, 12345.678, 1e9,
                                 round(rng.uniform(0, 100), rng.randint(1, 4))]))
    if r < 0.8:
        a = rng.choice([0.5, 1.0, 2.0, 10.0, round(rng.uniform(0, 50), 2)])
        return ("r", a, a + rng.choice([0.5, 1.0, 5.0, round(rng.uniform(0, 50), 2)]))
    if r < 0.83 and allow_neg:
        return ("n", -rng.choice([1.0, 0.5, 20.0]))
    return ("t", rng.choice(TEXTS))


def gen_multiset(rng, keys, i, temperature_keys, maxn=12):
    """units: every key of the live converter in turn (i), a few other known ones, unknown, none"""
    n = rng.randint(0, maxn)
    pool = [keys[i % len(keys)], keys[(i * 7 + 3) % len(keys)], rng.choice(keys), rng.choice(keys)]
    pool = [k for k in pool if k not in temperature_keys] or ["g"]
    qs = []
    for _ in range(n):
        r = rng.random()
        if r < 0.55:
            u = rng.choice(pool)
        elif r < 0.75:
            u = rng.choice(UNKNOWN_UNITS)
        else:
            u = None
        qs.append((gen_value(rng), u))
    return qs


def ops_fold(qs):
    return ["E"] + ["Q" + qtok(v, u) for v, u in qs]


def ops_tree(rng, qs, fit_p):
    if len(qs) <= 1 or rng.random() < 0.25:
        o = ops_fold(qs)
    else:
        k = rng.randint(0, len(qs))
        o = ops_tree(rng, qs[:k], fit_p) + ops_tree(rng, qs[k:], fit_p) + ["M"]
    if rng.random() < fit_p:
        o.append("F")
    return o


NAMES = ["flour", "sugar", "tuna", "chicken of the sea", "salt", "water", "olive oil", "eggs", "Milk", "milk",
         "butter", "crème fraîche", "dough", "rice", "onion"]
# units of the bundled converter with fractions enabled (imperial): fit moves totals between them
FRACTION_UNITS = ["tsp", "tbsp", "cup", "fl oz", "pint", "quart", "gallon", "oz", "lb", "inch", "ft"]
QUARTER_RANGES = ["1-1.25", "2-2.25", "0.5-0.75", "1-1.5", "0.25-0.5", "3-3.5", "1.5-1.75", "2-2.5", "0.75-1.25"]
RECIPE_NAMES = ["./sauces/tomato sauce", "base/stock.cook", "pesto"]
ALIASES = ["oil", "tuna", "white sugar", "H2O", "sauce"]
COOKWARE = ["pan", "big bowl", "pot", "oven tray"]
WORDS = ["Mix", "add", "then", "stir in", "and", "with", "cook", "the", "slowly"]


def gen_qty_text(rng, units):
    r = rng.random()
    if r < 0.15:
        return ""
    if rng.random() < 0.12:
        # range totals in fraction-enabled units: group_ingredients fits them, often into another unit
        fu = [u for u in FRACTION_UNITS if u in units] or units
        return rng.choice(QUARTER_RANGES) + "%" + rng.choice(fu)
    if r < 0.3:
        v = str(rng.choice([1, 2, 3, 10, 250]))
    elif r < 0.45:
        v = rng.choice(["0.5", "1.25", "2.5", "0.1", "100.75"])
    elif r < 0.55:
        v = rng.choice(["1/2", "1 1/2", "3/4", "1/3"])
    elif r < 0.7:
        v = rng.choice(["1-2", "2-4", "0.5-1.5", "100-150"])
    else:
        v = rng.choice(["some", "a pinch", "to taste", "a few"])
    r = rng.random()
    if r < 0.6:
        return v + "%" + rng.choice(units)
    if r < 0.8:
        return v + "%" + rng.choice(["bag", "clove", "pinch", "can"])
    return v


def gen_recipe(rng, units):
    defined, cw_defined = [], []
    lines = []
    if rng.random() < 0.12:
        lines.append(">> [duplicate]: ref")
        lines.append("")
    nsteps = rng.randint(1, 5)
    in_section = 0
    for s in range(nsteps):
        if rng.random() < 0.15:
            lines.append("== Part %d ==" % s)
            lines.append("")
            in_section = 0
        frags = []
        for _ in range(rng.randint(1, 5)):
            frags.append(rng.choice(WORDS))
            r = rng.random()
            if r < 0.72:
                q = gen_qty_text(rng, units)
                if defined and rng.random() < 0.3:
                    name = rng.choice(defined)
                    frags.append("@&%s{%s}" % (name, q))
                elif in_section >= 1 and rng.random() < 0.06:
                    frags.append("@&(~1)%s{%s}" % (rng.choice(["mix", "dough"]), q))
                else:
                    if rng.random() < 0.12:
                        name, mod = rng.choice(RECIPE_NAMES), "@"
                    else:
                        name = rng.choice(NAMES)
                        if rng.random() < 0.12:
                            name = name[:1].upper() + name[1:]   # sentence-start spelling: a different listed name
                        mod = rng.choice(["", "", "", "", "", "", "-", "-", "?", "+"])
                    alias = "|" + rng.choice(ALIASES) if rng.random() < 0.12 else ""
                    frags.append("@%s%s%s{%s}" % (mod, name, alias, q))
                    defined.append(name)
            elif r < 0.9:
                v = rng.choice(["", "1", "2", "big", "1-2", "large", "3", "large", "big"])
                if cw_defined and rng.random() < 0.4:
                    frags.append("#&%s{%s}" % (rng.choice(cw_defined), v))
                else:
                    name = rng.choice(COOKWARE)
                    frags.append("#%s{%s}" % (name, v))
                    cw_defined.append(name)
        lines.append(" ".join(frags) + ".")
        lines.append("")
        in_section += 1
    return "\n".join(lines)


def display_guess(text):
    """names a recipe text may list (generator side estimate, used only to aim the aisle files)"""
    out = set()
    for n in NAMES + ALIASES:
        if n in text or (n[:1].upper() + n[1:]) in text:
            out.add(n)       # the aisle file gets the plain spelling also when the recipe capitalises it
    for n in RECIPE_NAMES:
        if n in text:
            out.add(posixpath.splitext(posixpath.basename(n))[0])
    return sorted(out)


def gen_aisle(rng, listed):
    """categories with lines of synonyms built from the listed names: hits, misses, collisions (two
    listed names on one line), a category literally called `other`."""
    cands = list(listed) + ["bread", "cheese", "canned fish"]
    rng.shuffle(cands)
    cands = cands[:rng.randint(0, len(cands))]
    catnames = ["produce", "pantry", "fish", "other", "dairy"]
    rng.shuffle(catnames)
    ncat = rng.randint(1, 4)
    cats = [(c, []) for c in catnames[:ncat]]
    mode = rng.random()
    i = 0
    while i < len(cands):
        k = 1 if mode < 0.35 else rng.choice([1, 1, 2, 2, 3])
        rng.choice(cats)[1].append(cands[i:i + k])
        i += k
    text = ""
    for c, ls in cats:
        text += "[%s]\n" % c
        for names in ls:
            text += "|".join(names) + "\n"
        text += "\n"
    return cats, text


def aisle_lookup(cats):
    m = {}
    for c, ls in cats:
        for names in ls:
            for n in names:
                m[n] = (c, names[0])
    return m


# ----------------------------------------------------------------------------- monitors

def monitor_a(table, qs, out_line, temperature):
    """qs: the input quantities (parsed) in the order they were added."""
    if out_line.startswith("A panic"):
        return "panic: " + unhx(out_line.split(" ")[2])
    g = pgq(out_line.split(" ")[1])
    got = total(table, gq_iter(g))
    exp = total(table, qs)
    if temperature:
        # offsets: "the sum" is taken in the unit of the first stored temperature
        first = next((u for v, u in qs if v[0] != "t" and u in table and table[u][1] == 3), None)
        if first is not None:
            idx, _, rx, dx = table[first]
            lo = hi = sc = Fraction(0)
            for v, u in qs:
                if v[0] == "t" or u not in table or table[u][1] != 3:
                    continue
                idu, _, ru, du = table[u]
                for j, x in enumerate((v[1], v[1]) if v[0] == "n" else (v[1], v[2])):
                    c = x if idu == idx else (x + du) * ru / rx - dx
                    if j == 0:
                        lo += c * rx
                    else:
                        hi += c * rx
                sc += (max(abs(t) for t in v[1:]) + abs(du)) * ru + abs(dx) * rx
            exp.b[("k", 3)] = (lo, hi)
            exp.scale[("k", 3)] = sc
            if g["k"][3] is None or g["k"][3][1] != first:
                return "temperature not stored in the unit of the first one"
    r = close(got, exp)
    if r:
        return "total(output) != sum of inputs: " + r
    if any(q[0][0] != "t" for q in g["o"]):
        return "a numeric quantity was set aside although every bucket can absorb it"
    return None


def monitor_v(vals, out_line):
    if out_line.startswith("V panic"):
        return "panic: " + unhx(out_line.split(" ")[2])
    got = plist(out_line.split(" ")[1], ",", pval)
    r = close(total_v(got), total_v(vals))
    if r:
        return "GroupedValue total != sum of inputs: " + r
    if sum(1 for v in got if v[0] != "t") > 1:
        return "more than one numeric entry"
    return None


def parse_dump(d):
    recipes = []
    for rt in d.split("!"):
        it, ct = rt.split("~")
        ings = []
        for s in plist(it, "+", str):
            name, alias, stem, flags, rel, q = s.split(",")
            ings.append({"name": name, "alias": None if alias == "-" else alias, "stem": None if stem == "-" else stem,
                         "hidden": flags[0] == "1", "ref": flags[1] == "1", "recipe": flags[2] == "1",
                         "rel": rel, "q": None if q == "-" else pqty(q)})
        cws = []
        for s in plist(ct, "+", str):
            rel, v = s.split(",")
            cws.append({"rel": rel, "v": None if v == "-" else pval(v)})
        recipes.append((ings, cws))
    return recipes


def display(i):
    if i["alias"] is not None:
        return i["alias"]
    if i["recipe"] and i["stem"] is not None:
        return i["stem"]
    return i["name"]


def home(items, idx):
    """the definition an item's amount belongs to: itself, or the ingredient it references; None for a
    reference to a step or section"""
    rel = items[idx]["rel"]
    if rel[0] == "d":
        return idx
    if rel[-1] == "i":
        return int(rel[1:-1])
    return None


def sec(line):
    d = {}
    for part in line.split(" ; "):
        k, _, v = part.partition(" ")
        d[k] = v
    return d


def monitor_r(table, line, cats, conf_ok):
    """The property on what the implementation returned for a sequence of recipes.
    Returns (message|None, class|None)."""
    if line.startswith("R panic"):
        return "panic: " + unhx(line.split(" ")[2]), None
    s = sec(line)
    recipes = parse_dump(s["D"])
    gparts, wparts = s["G"].split("!"), s["W"].split("!")
    want_list = {}
    for (ings, cws), gt, wt in zip(recipes, gparts, wparts):
        # hypothesis `consistent` of C10_definition_quantities / C10_list (referential consistency, C06),
        # restated here and evaluated on what the implementation produced
        for items in (ings, cws):
            for i, x in enumerate(items):
                rel = x["rel"]
                if rel[0] == "d":
                    refs = [int(t) for t in rel.split(".")[1:]]
                    if refs != [j for j, y in enumerate(items) if y["rel"] == "r%di" % i]:
                        return "hypothesis `consistent` fails: referenced_from of %d is %s" % (i, refs), None
                elif rel[-1] == "i":
                    t = int(rel[1:-1])
                    if not (t < i and items[t]["rel"][0] == "d"):
                        return "hypothesis `consistent` fails: %d refers to %d which is not an earlier definition" % (i, t), None
        per_def = {}
        for i, x in enumerate(ings):
            if x["rel"][0] == "d":
                per_def[i] = []
        for i, x in enumerate(ings):
            h = home(ings, i)
            if x["q"] is not None and h is not None:
                if h not in per_def:
                    return "ingredient %d references %d which is not a definition" % (i, h), None
                per_def[h].append(x["q"])
        got = [(int(e.split("=")[0]), pgq(e.split("=")[1])) for e in plist(gt, "+", str)]
        if [i for i, _ in got] != sorted(per_def):
            return "group_ingredients lists %s, definitions are %s" % ([i for i, _ in got], sorted(per_def)), None
        for i, g in got:
            r = close(total(table, gq_iter(g)), total(table, per_def[i]))
            if r:
                return "group of definition %d: %s" % (i, r), None
            if ings[i]["hidden"] or ings[i]["ref"]:
                continue
            want_list.setdefault(display(ings[i]), []).extend(per_def[i])
        # cookware
        cdef = {i: [] for i, x in enumerate(cws) if x["rel"][0] == "d"}
        for i, x in enumerate(cws):
            h = home(cws, i)
            if x["v"] is not None and h is not None:
                if h not in cdef:
                    return "cookware %d references %d which is not a definition" % (i, h), None
                cdef[h].append(x["v"])
        gotw = [(int(e.split("=")[0]), plist(e.split("=")[1], ",", pval)) for e in plist(wt, "+", str)]
        if [i for i, _ in gotw] != sorted(cdef):
            return "group_cookware lists %s, definitions are %s" % ([i for i, _ in gotw], sorted(cdef)), None
        for i, vs in gotw:
            r = close(total_v(vs), total_v(cdef[i]))
            if r:
                return "cookware %d: %s" % (i, r), None
    lst = pilist(s["L"])
    keys = [n for n, _ in lst]
    if keys != sorted(want_list, key=lambda h: bytes.fromhex(h[1:])):
        return "listed names %s, expected %s" % ([unhx(k) for k in keys], sorted(unhx(k) for k in want_list)), None
    for n, g in lst:
        r = close(total(table, gq_iter(g)), total(table, want_list[n]))
        if r:
            return "list entry %r: %s" % (unhx(n), r), None
    if s["C"] == "noconf":
        return ("aisle configuration rejected" if conf_ok else None), None
    look = aisle_lookup(cats)
    want_cat, senders = {}, {}
    for n, qs in want_list.items():
        name = unhx(n)
        dest = look.get(name)
        key = (hx(dest[0]), hx(dest[1])) if dest else (hx("other"), n)
        want_cat.setdefault(key, []).extend(qs)
        if dest:
            senders.setdefault(key, []).append(n)
    got_cat = {}
    for ct in plist(s["C"], "!", str):
        cname, il = ct.split(">")
        for n, g in pilist(il):
            got_cat.setdefault((cname, n), []).extend(gq_iter(g))
    if set(got_cat) != set(want_cat):
        return "categorized entries %s, expected %s" % (
            sorted((unhx(a), unhx(b)) for a, b in got_cat), sorted((unhx(a), unhx(b)) for a, b in want_cat)), None
    # Conservation under every (category, name).  The open finding's class is narrow: the key is the
    # destination of >= 2 listed names (a synonym collision) AND what is shown is exactly the group of the
    # last of them in list (byte) order - the overwrite.  Any other loss, also under a colliding key, and
    # any loss under a key without collision is a violation of its own.
    known = None
    for key in sorted(want_cat):
        r = close(total(table, got_cat[key]), total(table, want_cat[key]))
        if not r:
            continue
        msg = "category %r entry %r: %s" % (unhx(key[0]), unhx(key[1]), r)
        names = senders.get(key, [])
        if len(names) >= 2:
            last = max(names, key=lambda h: bytes.fromhex(h[1:]))
            if close(total(table, got_cat[key]), total(table, want_list[last])) is None:
                known = known or msg
                continue
        return msg, None
    if known:
        return known, CLASS_COLLISION
    return None, None


def compare_s(table, li, lm):
    """implementation line (R ..) vs model line (S ..); None if they agree"""
    if lm.startswith("S panic") or li.startswith("R panic"):
        return None if (lm.startswith("S panic") and li.startswith("R panic")) else "panic on one side only"
    a, b = sec(li), sec(lm)
    for ga, gb in zip(a["G"].split("!"), b["G"].split("!")):
        ea, eb = plist(ga, "+", str), plist(gb, "+", str)
        if [e.split("=")[0] for e in ea] != [e.split("=")[0] for e in eb]:
            return "G indices"
        for x, y in zip(ea, eb):
            if not same_gq(table, pgq(x.split("=")[1]), pgq(y.split("=")[1]), True):
                return "G entry " + x.split("=")[0]
    if len(a["W"].split("!")) != len(b["W"].split("!")):
        return "W recipes"
    for wa, wb in zip(a["W"].split("!"), b["W"].split("!")):
        ea, eb = plist(wa, "+", str), plist(wb, "+", str)
        if len(ea) != len(eb):
            return "W length"
        for x, y in zip(ea, eb):
            ia, va = x.split("=")
            ib, vb = y.split("=")
            pa, pb = plist(va, ",", pval), plist(vb, ",", pval)
            if ia != ib or len(pa) != len(pb) or not all(same_qty((p, None), (q, None)) for p, q in zip(pa, pb)):
                return "W entry " + ia
    la, lb = pilist(a["L"]), pilist(b["L"])
    if [n for n, _ in la] != [n for n, _ in lb]:
        return "L names"
    for (n, x), (_, y) in zip(la, lb):
        if not same_gq(table, x, y, True):
            return "L entry " + unhx(n)
    if (a["C"] == "noconf") != (b["C"] == "noconf"):
        return "aisle configuration accepted on one side only"
    if a["C"] != "noconf":
        ca, cb = plist(a["C"], "!", str), plist(b["C"], "!", str)
        if [c.split(">")[0] for c in ca] != [c.split(">")[0] for c in cb]:
            return "C categories"
        for x, y in zip(ca, cb):
            ia, ib = pilist(x.split(">")[1]), pilist(y.split(">")[1])
            if [n for n, _ in ia] != [n for n, _ in ib]:
                return "C names in " + unhx(x.split(">")[0])
            for (n, p), (_, q) in zip(ia, ib):
                if not same_gq(table, p, q, True):
                    return "C entry " + unhx(n)
    return None


# ----------------------------------------------------------------------------- run

WITNESS_AISLE = "[fish]\ntuna|chicken of the sea\n"
WITNESS_CATS = [("fish", [["tuna", "chicken of the sea"]])]
WITNESS_RECIPE = "Mix @tuna{100%g} with @chicken of the sea{200%g}."


def load_table(bindir):
    p = subprocess.run([os.path.join(bindir, "group"), "-"], input="T\n", text=True, stdout=subprocess.PIPE)
    line = p.stdout.strip()
    if not line.startswith("T "):
        raise common.Broken("harness did not produce the unit table: " + line[:200])
    table = {}
    for e in line.split(" ")[1:]:
        k, uid, pq, r, d = e.split(",")
        table[k] = (int(uid), int(pq), num(r), num(d))
    path = os.path.join(common.BUILD, "c10-table-%d.txt" % os.getpid())
    with open(path, "w") as f:
        f.write(line + "\n")
    return table, path


def ops_inputs(ops):
    return [pqty(o[1:]) for o in ops if o[0] == "Q"]


def run(rep, tier, seed):
    rng = random.Random(seed)
    bindir = common.build_harness(["group"])
    audit = common.audit_property_file("C10")
    runner = common.build_runner("group", DEPS, commons=COMMONS)
    exe = os.path.join(bindir, "group")
    table, tpath = load_table(bindir)
    open_classes = {f.get("class"): f for f in rep.findings}
    fixd = "0" if CLASS_COLLISION in open_classes else "1"
    env = {"GROUP_TABLE": tpath, "GROUP_FIXD": fixd}
    try:
        _run(rep, tier, rng, audit, runner, exe, table, env, open_classes)
    finally:
        try:
            os.unlink(tpath)
        except OSError:
            pass


def _run(rep, tier, rng, audit, runner, exe, table, env, open_classes):
    quick = tier == "quick"
    keys_hex = sorted(table)
    keys = [unhx(k) for k in keys_hex]
    temp_keys = set(unhx(k) for k in keys_hex if table[k][1] == 3)
    recipe_units = [k for k in keys if k not in temp_keys and all(c.isalnum() or c in " ." for c in k)]

    monitor_hits, disagreements, known_hits = [], [], []
    stats = Counter()
    samples = []

    sane = common.run_lines(runner, ["SANE"], env=env, tag="sane")[0]
    if sane != "SANE true":
        disagreements.append(("unit table", {"what": "the live unit table does not satisfy the hypothesis `sane` of the theorems",
                                             "model": sane}))

    # ---- A: group machine
    n_multi = 5000 if quick else 90000
    n_tree = 2500 if quick else 45000
    n_perm_sets = 40 if quick else 600
    a_cases = []   # (ops, temperature, stream)
    for c in common.load_corpus("C10"):
        if c.startswith("A "):
            a_cases.append((c.split(" ")[1:], False, "corpus"))
    for i in range(n_multi):
        qs = gen_multiset(rng, keys, i, temp_keys)
        a_cases.append((ops_fold(qs), False, "fold"))
    for i in range(n_tree):
        qs = gen_multiset(rng, keys, i * 13 + 5, temp_keys)
        a_cases.append((ops_tree(rng, qs, 0.15), False, "tree"))
    for i in range(n_perm_sets):
        qs = gen_multiset(rng, keys, i * 11 + 1, temp_keys, maxn=5)
        for p in sorted(set(itertools.permutations(range(len(qs))))):
            a_cases.append((ops_fold([qs[j] for j in p]), False, "perm"))
    fkeys = [u for u in FRACTION_UNITS if u in keys]
    for i in range((500 if quick else 9000) if fkeys else 0):
        base = rng.choice(fkeys)
        same_pq = [u for u in fkeys if table[hx(u)][1] == table[hx(base)][1]]
        qs = []
        for _ in range(rng.randint(1, 4)):
            if rng.random() < 0.75:
                a = rng.randint(0, 16) / 4.0
                v = ("r", a, a + rng.choice([0.25, 0.5, 0.75, 1.0, 1.25]))
            else:
                v = ("n", rng.randint(1, 24) / 4.0)
            qs.append((v, base if rng.random() < 0.7 else rng.choice(same_pq)))
        a_cases.append((ops_fold(qs) + ["F"], False, "fitrange"))
    tk = sorted(temp_keys)
    for i in range(600 if quick else 9000):
        qs = [((gen_value(rng, False)), rng.choice(tk + tk + ["g", None, "bag"])) for _ in range(rng.randint(1, 6))]
        a_cases.append((ops_fold(qs), True, "temperature"))
    a_lines = ["A " + " ".join(o) for o, _, _ in a_cases]
    ai = common.run_lines(exe, a_lines, tag="implA")
    am = common.run_lines(runner, a_lines, env=env, tag="modelA")
    distinct = set()
    for (ops, temp, stream), case, li, lm in zip(a_cases, a_lines, ai, am):
        stats["A_" + stream] += 1
        qs = ops_inputs(ops)
        m = monitor_a(table, qs, li, temp)
        if m:
            monitor_hits.append((case, m, {"case": case, "impl": li, "violated": m}))
            continue
        fitted = "F" in ops
        if lm.startswith("A panic") or not same_gq(table, pgq(li.split(" ")[1]), pgq(lm.split(" ")[1]), fitted,
                                                   input_scale(table, qs)):
            disagreements.append((case, {"case": case, "impl": li, "model": lm}))
        if len(qs) >= 2:
            distinct.add(li)
    samples.append({"case": a_lines[len(a_lines) // 3], "impl": ai[len(a_lines) // 3]})
    samples.append({"case": a_lines[-1], "impl": ai[-1], "stream": "temperature"})

    # ---- V: cookware amounts
    v_cases = []
    for c in common.load_corpus("C10"):
        if c.startswith("V "):
            v_cases.append(c.split(" ")[1:])
    for i in range(1500 if quick else 30000):
        vs = [gen_value(rng) for _ in range(rng.randint(0, 8))]
        if vs and rng.random() < 0.3:
            t = ("t", rng.choice(TEXTS))          # the same text several times: a multiset, not a set
            for _ in range(rng.randint(2, 3)):
                vs.insert(rng.randint(0, len(vs)), t)
        toks = ["Q" + vtok(v) for v in vs]
        if rng.random() < 0.5 or len(vs) < 2:
            v_cases.append(["E"] + toks)
        else:
            k = rng.randint(0, len(vs))
            v_cases.append(["E"] + toks[:k] + ["E"] + toks[k:] + ["M"])
    v_lines = ["V " + " ".join(o) for o in v_cases]
    vi = common.run_lines(exe, v_lines, tag="implV")
    vm = common.run_lines(runner, v_lines, env=env, tag="modelV")
    for ops, case, li, lm in zip(v_cases, v_lines, vi, vm):
        stats["V"] += 1
        vals = [pval(o[1:]) for o in ops if o[0] == "Q"]
        m = monitor_v(vals, li)
        if m:
            monitor_hits.append((case, m, {"case": case, "impl": li, "violated": m}))
            continue
        a, b = plist(li.split(" ")[1], ",", pval), (plist(lm.split(" ")[1], ",", pval) if not lm.startswith("V panic") else None)
        vmag = sum(max(abs(t) for t in v[1:]) for v in vals if v[0] != "t")
        if b is None or len(a) != len(b) or not all(same_qty((x, None), (y, None), vmag) for x, y in zip(a, b)):
            disagreements.append((case, {"case": case, "impl": li, "model": lm}))
        if len(vals) >= 2:
            distinct.add(li)
    samples.append({"case": v_lines[len(v_lines) // 2], "impl": vi[len(v_lines) // 2]})

    # ---- R: recipes, lists, aisles
    r_cases = []   # (case line, cats, conf_ok)
    r_cases.append(("R d %s %s" % (hx(WITNESS_AISLE), hx(WITNESS_RECIPE)), WITNESS_CATS, True, "witness"))
    for c in common.load_corpus("C10"):
        if c.startswith("R "):
            # corpus R cases carry their aisle structure as JSON in a trailing comment field `#<hex json>`
            parts = c.split(" ")
            cats = json.loads(unhx(parts[-1][1:])) if parts[-1].startswith("#") else []
            body = " ".join(p for p in parts if not p.startswith("#"))
            r_cases.append((body, [(a, b) for a, b in cats], True, "corpus"))
    n_seq = 1500 if quick else 28000
    n_aisle = 3 if quick else 5
    for i in range(n_seq):
        texts = [gen_recipe(rng, recipe_units) for _ in range(rng.randint(1, 4))]
        listed = sorted(set().union(*[display_guess(t) for t in texts]))
        scale = "d" if rng.random() < 0.7 else f64tok(rng.choice([2.0, 0.5, 3.0, 1.5]))
        for _ in range(n_aisle):
            cats, atext = gen_aisle(rng, listed)
            r_cases.append(("R %s %s %s" % (scale, hx(atext), " ".join(hx(t) for t in texts)), cats, True, "gen"))
    r_lines = [c[0] for c in r_cases]
    ri = common.run_lines(exe, r_lines, tag="implR")
    s_idx, s_lines = [], []
    for j, (c, li) in enumerate(zip(r_cases, ri)):
        if li.startswith("R ok"):
            s_idx.append(j)
            s_lines.append("S %s %s" % (c[0].split(" ")[2], sec(li)["D"]))
    sm = dict(zip(s_idx, common.run_lines(runner, s_lines, env=env, tag="modelS")))
    witness_fails = False
    for j, ((case, cats, conf_ok, stream), li) in enumerate(zip(r_cases, ri)):
        if li == "R invalid":
            stats["R_invalid_recipe"] += 1
            continue
        stats["R_" + stream] += 1
        m, cls = monitor_r(table, li, cats, conf_ok)
        if li.startswith("R ok") and not (m or "").startswith("hypothesis"):
            stats["recipes_hypothesis_consistent_checked"] += len(sec(li)["D"].split("!"))
        if m:
            if stream == "witness":
                witness_fails = True
            if cls is not None and cls in open_classes:
                known_hits.append((case, m))
                stats["R_known_class"] += 1
            else:
                monitor_hits.append((unhx(case.split(" ")[3])[:200], m,
                                     {"case": case, "aisle": unhx(case.split(" ")[2]),
                                      "recipes": [unhx(x) for x in case.split(" ")[3:]],
                                      "cats": cats, "impl": li[:3000], "violated": m}))
                continue
        if cls is None and m is None:
            look = aisle_lookup(cats)
            stats["R_aisle_hits"] += sum(1 for n, _ in pilist(sec(li)["L"]) if unhx(n) in look)
        if li.startswith("R ok"):
            d = compare_s(table, li, sm[j])
            if d:
                disagreements.append((case, {"case": case, "what": d, "impl": li[:3000], "model": sm[j][:3000]}))
            if sec(li)["L"] != "-":
                distinct.add(sec(li)["L"] + sec(li)["C"])
            look = aisle_lookup(cats)
            dests = [look[unhx(n)] for n, _ in pilist(sec(li)["L"]) if unhx(n) in look]
            if len(dests) != len(set(dests)):
                stats["R_with_synonym_collision"] += 1
            if any(c == "other" for c, _ in cats):
                stats["R_with_category_other"] += 1
    ok_i = next(j for j, l in enumerate(ri) if l.startswith("R ok") and j > 0)
    samples.append({"case": r_lines[ok_i], "recipes": [unhx(x) for x in r_lines[ok_i].split(" ")[3:]],
                    "aisle": unhx(r_lines[ok_i].split(" ")[2]), "impl": ri[ok_i][:1500]})

    # sensitivity of the monitor around the known class: mutants of the witness output that lose an amount
    # in a way that is NOT the recorded overwrite must come back as violations of their own (class None)
    w_li = ri[0]
    if w_li.startswith("R ok"):
        head, ctext = w_li.rsplit(" ; C ", 1)
        mutants = [ctext.replace("n:" + f64tok(100.0) + "@", "n:" + f64tok(150.0) + "@"),
                   ctext.replace("n:" + f64tok(100.0) + "@", "n:" + f64tok(200.0) + "@"),
                   "-"]
        for mt in mutants:
            if mt == ctext:
                continue
            mm, mc = monitor_r(table, head + " ; C " + mt, WITNESS_CATS, True)
            stats["monitor_selftest_mutants"] += 1
            if mm is not None and mc is None:
                stats["monitor_selftest_mutants_flagged"] += 1
            else:
                disagreements.append(("selftest", {"what": "the monitor did not flag a mutant of the witness output "
                                                   "(a loss other than the recorded overwrite)", "mutant": mt}))

    if CLASS_COLLISION in open_classes:
        f = open_classes[CLASS_COLLISION]
        if known_hits:
            rep.known(f.get("id", CLASS_COLLISION), f.get("what", "categorize loses amounts on a synonym collision")
                      + " (%d cases this run, e.g. %s)" % (len(known_hits), known_hits[0][1][:160]))
        if not witness_fails:
            disagreements.append(("witness", {"what": "the recorded witness of the open finding no longer fails on the "
                                              "implementation; the entry in known_findings.json is stale",
                                              "case": r_lines[0]}))

    common.decide(rep, "C10", "L-group", audit, monitor_hits, disagreements, tier,
                  "correspondence Model/Group.v <-> src/quantity.rs, src/model.rs, src/ingredient_list.rs")
    common.proof_coverage(rep, "C10", audit, tier,
                          "quantity.rs 285-600 (compatible_unit, try_add, GroupedQuantity, GroupedValue), convert/mod.rs "
                          "convert to a unit (465-503, 631-725), model.rs 193-205, 246-273, 334-353, ingredient_list.rs "
                          "77-135, 165-223, 258-285; Quantity::fit: a parameter in the generic theorems, the model of "
                          "Model/Convert.v (fit, fit_fraction, try_fraction; C09) in C10_fit_range_preserves, "
                          "C10_fit_real_preserves, C10_fit_bundled, C10_list_bundled (Proofs/GroupFit.v); in the "
                          "extracted runner fit is the identity and after fit only totals are compared; "
                          "Path::file_stem an oracle; f64 modelled by exact rationals")
    n_eval = len(a_lines) + len(v_lines) + len(r_lines)
    rep.coverage.update({
        "evaluations": n_eval, "distinct_nontrivial": len(distinct),
        "rule": "seeded: %d multisets (size<=12; integers, decimals, ranges, text, a few negatives; units: every one of the "
                "%d keys of the live bundled converter in turn, unknown units, none) folded in order; %d random split/merge "
                "trees with fit; range totals in fraction-enabled imperial units followed by fit; all distinct permutations of %d multisets of size<=5; a labelled temperature stream "
                "(offset units, sum taken in the first unit); %d GroupedValue programs; %d sequences of 1-4 generated "
                "recipes (parsed by the real parser: references, hidden, recipe references, aliases, intermediate "
                "references, names differing only in letter case, quarter ranges in fraction-enabled imperial "
                "units, repeated equal cookware texts, duplicate=ref mode, default scale or a factor) x %d aisle files built against their names "
                "(hits, misses, synonym collisions, a category called `other`); corpus and the section-7 witness first. "
                "distinct_nontrivial = distinct implementation outputs among cases with >=2 quantities / a non-empty list"
                % (n_multi, len(keys), n_tree, n_perm_sets, len(v_lines), n_seq, n_aisle),
        "samples": samples, "streams": dict(stats),
        "correspondence_disagreements": len(disagreements), "monitor_violations": len(monitor_hits),
        "known_class_hits": len(known_hits),
        "tolerance": "2^-40 relative to the sum of magnitudes of the contributions",
        "worst_relative_deviation": float(WORST["dev"]),
        "table_sane": sane,
    })
    rep.assumptions = [
        "f64 addition/multiplication modelled by exact rationals; deviation bounded by the tolerance and reported",
        "Quantity::fit preserves the amount: proved for the C09 model of fit (C10_fit_range_preserves); the "
        "implementation's fit is monitored through totals (both ends of ranges), not compared step by step",
        "HashMap iteration order of `unknown` is not modelled; outputs are compared sorted by unit text",
    ]


def setup():
    common.build_harness(["group"])
    common.build_runner("group", DEPS, commons=COMMONS)


def replay(rp):
    bindir = common.build_harness(["group"])
    table, tpath = load_table(bindir)
    os.unlink(tpath)
    r = rp["replay"]
    case = r.get("case")
    if not case:
        print("nothing to replay (no failing input recorded)")
        return 1
    p = subprocess.run([os.path.join(bindir, "group"), "-"], input=case + "\n", text=True, stdout=subprocess.PIPE)
    line = p.stdout.strip()
    print(line[:2000])
    kind = case[0]
    if kind == "A":
        ops = case.split(" ")[1:]
        m = monitor_a(table, ops_inputs(ops), line, any(
            o[0] == "Q" and pqty(o[1:])[1] in table and table[pqty(o[1:])[1]][1] == 3 for o in ops))
    elif kind == "V":
        m = monitor_v([pval(o[1:]) for o in case.split(" ")[1:] if o[0] == "Q"], line)
    else:
        m, _ = monitor_r(table, line, [(a, b) for a, b in r.get("cats", [])], True)
    print("monitor:", m)
    return 1 if m else 0
