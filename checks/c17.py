"""C17 - line endings, comments and blank space do not change the recipe.

monitor         metamorphic, on the implementation alone (harness/src/bin/recipe.rs prints the full parse):
                for a source s and an edit E (checks/c17_edits.py: crlf, trail_comment, trail_space,
                mid_comment, mid_comment_spaced, extra_lines; insertion points from a seeded tape)
                observe(impl(E s)) == observe(impl(s)) where observe = (panic, valid, has_output, multiset of
                presence of an error, recipe with step/paragraph text normalised for blank space).
correspondence  L-lex/L-ev of Model/Lexer.v + Model/Parser.v on the *edited* texts (CRLF, comments everywhere),
                which the theorems of Properties/C17.v are about."""
import json
import os
import random
import subprocess

from vlib import common
from vlib.common import hx
from checks import parser_common as pc
from checks import c17_edits as ed

PID = "C17"
PROFILES = {"canonical": (0, "e"), "extended": (pc.EXT_ALL, "b")}
MODES = ["one", "few", "all"]

# hand-made sources with constructs the generator does not print (multi-word keys, aliases and notes with
# several words, a step wrapped inside a name, section without closing `=`, timers with names, text blocks of
# several lines, front matter with a block scalar, a recipe that ends without a newline)
HANDMADE = [
    (">> prep time: 10 min\n>> source url: http://x.y/z\n\nMix @sea salt flakes|fine salt{1%tsp}(freshly ground now) and "
     "#large bowl{}(the big one) then\nwait ~resting time{10%min}.\n\n= Second part\n\n> a note of two lines\n> second line here\n\n"
     "Serve @&sea salt flakes{} hot", "extended"),
    ("---\ntitle: Bread and butter\ndescription: |\n  two lines\n  of text\ntags: [a, b]\n---\n\nKnead @bread flour{500%g} with "
     "@water{300%ml} well.\n\n== Bake ==\n\nBake in #dutch oven for ~{45%minutes}.\n", "extended"),
    ("Add @salt and @black pepper{} to taste\nthen @olive oil{2%tbsp}\n\nUse #pan and ~{5%min}\n\n> plain words only\n", "canonical"),
    (">> title: A b c\n>> servings: 2\n= One =\nStep one @a{1}\n= Two =\nStep two @b b{2%g}(note one two)\n\nStep three #c{}", "canonical"),
    ("First line of step\nsecond line @x{} third\nfourth ~t{1%h} end\n\n\n\nNext step here.\n", "canonical"),
    ("@flour{1 1/2%cup} then @eggs{2} and @milk{1/2 % l}(whole milk only)\n\n@&flour{1%cup} again -- already\n", "extended"),
    # components that wrap over a line end: names, aliases, notes, a unit, a text quantity (the line ends of the judged
    # edits then lie INSIDE a component; C17_trailing_comment_events is about exactly these places too)
    ("Mix @extra virgin\nolive oil{1%tbsp}(cold\npressed only) with @sea\nsalt flakes|fine\nsalt{} and #big\nheavy pot{} then "
     "~long\nrest{5%min} and @flour{a\nfew%hand\nfuls}\n\nServe @&extra virgin\nolive oil{} now", "extended"),
    ("Add @extra virgin\nolive oil{} to #frying\npan{} slowly\nthen @salt\nand @black\npepper{1%pinch}(freshly\nground)\n", "canonical"),
    # inline quantities in step text (INLINE_QUANTITIES, bundled converter): value and unit as two words
    ("Preheat the oven to 180 °C and line #a tin{}.\n\nBake the @dough{500%g} at 350 F for 25 minutes, then rest 10 min\nand cool to 4 °C "
     "before serving 2 kg of it\n", "extended"),
]


# read in text mode (checks/c17_edits.py text_mode_variant puts the mode line on top): components that wrap, with
# aliases, notes and quantities, under a front matter too
HANDMADE_TEXT_MODE = [
    "Mix @sea\nsalt flakes{1%tsp} and #big\npot{} then ~rest\ntime{5%min} done\n\nServe @bread{} hot",
    "---\ntitle: T\n---\n\nAdd @olive oil|good oil{2%tbsp}(extra\nvirgin only) to #frying pan{}\n\n= Part two =\n\nThen @&olive oil{} again\n",
    "Add @sea salt{} now\nand @black\npepper corns{1 1/2%tsp} later -- soon\n\n> a note with @x{} inside\n",
    "@salt and @pepper{} with #pan\n",
]


def run_recipe(bindir, cases):
    """cases: list of (text, ext, conv) -> list of observation dicts"""
    lines = ["%s %d %s" % (hx(t), e, c) for t, e, c in cases]
    out = common.run_lines(os.path.join(bindir, "recipe"), lines, tag="c17")
    return [ed.observe(json.loads(l)) for l in out]


def crlf_inputs(tier, rng, gen_texts):
    quick = tier == "quick"
    alpha = [c for c in pc.SIGMA_CORE if c not in ("\\", "\r")]
    ex = [s for s in pc.enum_strings(alpha, 4 if quick else 5) if "\n" in s]
    # comment / metadata / section / fence characters, where line ends matter most
    alpha2 = ["a", " ", "\n", "-", "[", "]", ">", ":", "=", "@", "{", "}"]
    ex2 = [s for s in pc.enum_strings(alpha2, 5, minlen=5) if "\n" in s]
    if not quick:
        six = [s for s in pc.enum_strings(alpha2, 6, minlen=6) if "\n" in s]
        ex2 += rng.sample(six, 200000)
    muts = []
    for t in gen_texts:
        for _ in range(1 if quick else 3):
            m = pc.mutate(t, rng)
            if ed.crlf_applicable(m) and "\n" in m:
                muts.append(m)
    fm = [s for s in pc.frontmatter_family(3 if quick else 4) if ed.crlf_applicable(s) and "\n" in s and "\r" not in s]
    special = ["---\na: 1\n---\n@a{1%g}\n", "---\na: |\n  x\n  y\n---\nstep\n", "---\na: \"x\n  y\"\n---\nstep\n",
               "-- c\n>> k: v\n", "[- a\nb -]\nstep\n", "> a\n> b\n", "a -- c\nb\n", "@a{1\n%g}\n", "@a b\nc{}\n",
               "= s\n\n= t =\n", ">> k: v -- c\n", ">> k:\n", "@a(n\nm)\n", "~{1%min\n}\n", "a\n\n\nb", "\n", "\n\n"]
    return list(dict.fromkeys(special + ex + ex2 + fm + muts)), len(ex) + len(ex2), len(fm), len(muts)


def run(rep, tier, seed):
    rng = random.Random(seed)
    quick = tier == "quick"
    paths = pc.prepare(need_release=False)
    bindir = common.build_harness(["recipe"])
    audit = common.audit_property_file(PID)

    ngen = 1200 if quick else 12000
    ntapes = 3 if quick else 5
    gen = pc.grec_texts(rng, ngen)
    hand = [(t, None, prof, None) for t, prof in HANDMADE for _ in range(4 if quick else 20)]
    corpus = [common.unhx(c) for c in common.load_corpus(PID)]

    # ---- build the cases: (orig text, edited text, ext, conv, edit name, points used, judged?)
    pairs = []
    excluded = {}
    points_avail = {}
    # text-mode readings: every hand-made source, the ones written for it, every fourth generated recipe
    tm_src = [t for t, _ in HANDMADE] + HANDMADE_TEXT_MODE
    tm = [(ed.text_mode_variant(t, rng), None, "extended", "textmode") for t in tm_src for _ in range(4 if quick else 20)]
    tm += [(ed.text_mode_variant(g[0], rng), None, "extended", "textmode") for g in gen[::4]]
    # sources with components wrapped over a line end: every hand-made source and every third generated recipe that
    # has a component with a name or note of several words
    wrapped = []
    for text, _exp, prof, _info in hand[::4 if quick else 20] + gen[::3]:
        w = ed.wrapped_variant(text, ed.points(text, PROFILES[prof][0] != 0), rng)
        if w is not None and w != text:
            wrapped.append((w, None, prof, "wrapped"))
    # sources with inline quantities in step text (`180 °C`, `20 minutes`): every hand-made source and every third
    # generated recipe, one more step appended (read with INLINE_QUANTITIES and the bundled converter in the extended profile)
    inline = [(ed.with_inline_quantities(text, rng), None, prof, "inline")
              for text, _exp, prof, _info in hand[::4 if quick else 20] + gen[1::3]]
    for text, _exp, prof, info in hand + gen + wrapped + inline + tm:
        textmode = info == "textmode"
        sfx = "/textmode" if textmode else ""
        ext, conv = PROFILES[prof]
        P = ed.points(text, ext != 0)
        for k, v in P.excluded.items():
            excluded[k] = excluded.get(k, 0) + v
        for cat, offs in list(P.after_word.items()) + [("spaced:" + c, o) for c, o in P.at_blank.items()]:
            points_avail[cat] = points_avail.get(cat, 0) + len(offs)
        points_avail["line_end"] = points_avail.get("line_end", 0) + len(P.line_end)
        points_avail["fence_end"] = points_avail.get("fence_end", 0) + len(P.fence_end)
        points_avail["line_start"] = points_avail.get("line_start", 0) + len(P.line_start)
        pairs.append((text, ed.crlf(text), ext, conv, "crlf" + sfx, text.count("\n"), True))
        for name, fn in ed.EDITS.items():
            if textmode and name in ed.TEXT_MODE_SKIP:
                excluded["text_mode_qty"] = excluded.get("text_mode_qty", 0) + 1
                continue
            for ti in range(ntapes):
                t2, npts = fn(text, P, rng, MODES[ti % 3])
                if npts:
                    pairs.append((text, t2, ext, conv, name + sfx, npts, True))
        # two edits at once (a CRLF file with comments)
        t2, npts = ed.trail_comment(text, P, rng, "few")
        pairs.append((text, ed.crlf(t2), ext, conv, "trail_comment+crlf" + sfx, npts + t2.count("\n"), True))
        if textmode:
            continue
        for name in ed.PROBES:
            t2, npts = ed.probe(text, P, rng, name)
            if npts:
                pairs.append((text, t2, ext, conv, name, npts, False))
    cr_in, n_ex, n_fm, n_mut = crlf_inputs(tier, rng, [g[0] for g in gen[:ngen // 2]])
    for s in corpus + cr_in:
        if not ed.crlf_applicable(s):
            continue
        for ext, conv in PROFILES.values():
            pairs.append((s, ed.crlf(s), ext, conv, "crlf_any_input", s.count("\n"), True))

    # ---- run the implementation once per distinct (text, ext, conv)
    need = {}
    for o, e, ext, conv, *_ in pairs:
        need.setdefault((o, ext, conv), None)
        need.setdefault((e, ext, conv), None)
    keys = list(need)
    obs = run_recipe(bindir, keys)
    for k, v in zip(keys, obs):
        need[k] = v

    # ---- judge
    hits = []
    per_edit = {}
    probes = {}
    nontrivial = set()
    samples = {}
    for o, e, ext, conv, name, npts, judged in pairs:
        a, b = need[(o, ext, conv)], need[(e, ext, conv)]
        same = a == b
        if not judged:
            st = probes.setdefault(name, {"cases": 0, "invariant": 0, "example_changed": None})
            st["cases"] += 1
            st["invariant"] += same
            if not same and st["example_changed"] is None:
                st["example_changed"] = {"source": o, "edited": e, "diff": ed.first_diff(a, b)}
            continue
        st = per_edit.setdefault(name, {"cases": 0, "edit_points": 0, "source_has_output": 0, "source_invalid": 0})
        st["cases"] += 1
        st["edit_points"] += npts
        st["source_has_output"] += bool(a.get("out"))
        st["source_invalid"] += not a.get("valid", False)
        if e != o:
            nontrivial.add((e, ext))
        samples.setdefault(name, {"source": o, "edited": e, "ext": ext, "conv": conv})
        if not same:
            hits.append((e, "%s changes the parse result: %s" % (name, ed.first_diff(a, b)),
                         {"input": o, "input_hex": hx(o), "edited": e, "edited_hex": hx(e), "ext": ext, "conv": conv,
                          "edit": name, "diff": ed.first_diff(a, b)}))
    # minimise: shortest source first (decide() reports the three shortest)
    hits.sort(key=lambda h: len(h[2]["input"]))
    hits = [(h[2]["input"], h[1], h[2]) for h in hits]

    # ---- correspondence on the edited texts
    edited = list(dict.fromkeys(e for _, e, _, _, name, _, judged in pairs))
    if quick:
        short = [e for e in edited if len(e) <= 6]
        long_ = [e for e in edited if len(e) > 6]
        rng.shuffle(long_)
        edited_c = short + long_[:12000]
    else:
        short = [e for e in edited if len(e) <= 5]
        long_ = [e for e in edited if len(e) > 5]
        rng.shuffle(long_)
        edited_c = short + long_[:150000]
    dis, ncases, npan = pc.lev_disagreements(paths, edited_c, [0, pc.EXT_ALL])

    common.decide(rep, PID, "metamorphic monitor on parse results + L-lex/L-ev on the edited texts", audit, hits, dis,
                  tier, "correspondence Model/Lexer.v, Model/Parser.v <-> src/lexer, src/parser on CRLF / commented texts")
    common.proof_coverage(rep, PID, audit, tier,
                          "lexer, pull parser and analysis pass (Model/Lexer.v, Model/Parser.v, Model/Analysis.v, "
                          "Model/MetaMap.v): CRLF, extra lines and the block comment after a word or number token are theorems about the "
                          "recipe, its validity and the metadata map (C17_*_recipe) outside text mode; the trailing comment / "
                          "trailing spaces at any line end, components included (C17_trailing_*_events(_fm): content up to blank "
                          "space in step text, presence of an error; C17_trailing_*_recipe: the recipe up to blank space in step "
                          "and paragraph text, validity, metadata map; hypotheses: no text mode, INLINE_QUANTITIES off or the "
                          "find_inline_quantity oracle reads U+0020 runs alike); the padded block comment `word [- c -] next` "
                          "(blank + comment + blank, also glued to the next word, longer runs of U+0020) after a word or number token, "
                          "outside braces and outside metadata values, components included (C17_padded_comment_events(_fm), "
                          "C17_padded_comment_recipe(_fm): same relation and hypotheses as the trailing edit; a metadata VALUE, a blank "
                          "run ending in a TAB and the glued spelling inside braces are refuted places: C17_padded_meta_value_refuted, "
                          "_tab_refuted, _brace_refuted, none of them judged by the monitor); TEXT MODE: every edit is a theorem about the recipe "
                          "WITHOUT the hypothesis src_no_text_mode (C17_crlf_recipe_text_mode, C17_extra_line_recipe_text_mode(_fm), "
                          "C17_mid_comment_recipe_text_mode(_fm), C17_trailing_comment_recipe_text_mode(_fm), "
                          "C17_padded_comment_recipe_text_mode(_fm); code after 200c896: text_raw = false): same outcome, validity, tables, "
                          "sections, steps and metadata map; paragraph texts equal after deleting U+000D for CRLF, the extra line and the "
                          "comment after a word, and equal under rnormN - runs of U+0020, TAB, LF and CR squeezed to one U+0020, none at "
                          "either end - for the trailing and padded edits (a component that wraps over a line end is copied with its line "
                          "end, and a trailing edit puts U+0020s in front of it: C17_trailing_text_mode_rnorm_too_fine shows that rnorm is "
                          "too fine there); from the event relations extended to the SOURCE of each component event (the two spans cut "
                          "related token runs out of the two sources: C17_component_source_ksim, C17_trailing_consumed_runs, "
                          "C17_padded_consumed_runs), the analysis pass blind up to a congruence on paragraph text with mode switches "
                          "anywhere (C17_analysis_text_blind, C17_analysis_wblind_text) and the comment stripping of a copied slice equal to "
                          "dropping the comment tokens it has in the document (C17_strip_token_run); the monitor reads every source in "
                          "text mode as well")
    rep.coverage.update({
        "evaluations": len(pairs) + ncases, "distinct_nontrivial": len(nontrivial),
        "rule": "%d generated and %d hand-made well-formed recipes (canonical: no extensions/empty converter; extended: all "
                "extensions/bundled converter) x {crlf, trail_comment, trail_space, trail_multi (line already ending in a block comment), unit_comment (between a number and the next word of step text), "
                "mid_comment, mid_comment_double (two adjacent comments), mid_comment_spaced, name_comment_spaced, "
                "qty_comment (between the number tokens of a quantity, after `{`), extra_lines} x %d tapes (one point / up to four / every legal point), plus trail_comment+crlf; "
                "the same edits on %d derived sources with a component name / alias / note wrapped over a line end (a blank "
                "between its words replaced by a newline: the line ends then lie inside a component); "
                "and on %d derived sources with one more step holding inline quantities (`180 °C`, `20 minutes`; unit_comment puts a "
                "block comment between such a number and the word after it); "
                "the same edits (without qty_comment) on text-mode readings (`>> [mode]: text` / `>> [define]: text` on top of the Cooklang part, "
                "all extensions) of every hand-made source, of %d sources with components that wrap, and of every fourth generated recipe "
                "(per_edit names ending in /textmode: edit points inside the kept source of a component); "
                "CRLF on every input without backslash or lone CR: exhaustive strings containing a newline (%d; "
                "length <= %d over the 16-symbol core alphabet and %s over a 12-symbol comment/metadata "
                "alphabet), front-matter line arrangements (%d), one-token mutations of generated recipes (%d), "
                "specials, each under both profiles; distinct_nontrivial = distinct (edited text, extensions) with "
                "edited != source" % (ngen, len(HANDMADE), ntapes, len(wrapped), len(inline), len(HANDMADE_TEXT_MODE), n_ex, 4 if quick else 5, "all of length 5" if quick else "all of length 5 + 200000 sampled of length 6", n_fm, n_mut),
        "samples": [dict(edit=k, **v) for k, v in samples.items()],
        "per_edit": per_edit,
        "edit_points_used": sum(v["edit_points"] for v in per_edit.values()),
        "legal_points_available": points_avail,
        "excluded_places": excluded,
        "excluded_why": {
            "inside_braces": "after a WORD inside `{...}` (text values, units): reported by probe_brace only; between the NUMBER tokens of a quantity and directly after `{` the edit qty_comment IS judged (quantity.rs: \"remove spaces and comments in between other tokens\"; ws_comments before the scaling lock)",
            "yaml_lines": "the YAML front matter is not Cooklang: `#`/`--`/blanks mean something else there",
            "before_front_matter": "front matter is recognised only at the top of the document",
            "after_backslash": "a backslash escapes the next character: a comment or line end placed there is not one",
            "inside_comment": "text appended inside an unterminated block comment is comment text",
            "between_lines_of_a_block": "a blank line between the lines of a step or paragraph is a block separator by definition",
            "meta_line_under_front_matter": "`>>` lines are not metadata when a front matter exists",
            "meta_without_colon": "not a metadata entry",
            "probe_value_spaced": "a comment with a blank on BOTH sides inside a metadata value: the value keeps both blanks "
                                  "(\"A [- c -] b\" reads \"A  b\"); the edit adds a blank of its own, so it is reported, not judged. "
                                  "The same variant between the words of component names, aliases, notes, section names and "
                                  "metadata keys IS judged (edit name_comment_spaced): text_trimmed collapses the double blank",
            "probe_brace": "a comment after a word/number inside `{...}`: quantity positions, reported only",
            "probe_trail_tab": "TAB / mixed blanks appended to a line: the statement says trailing SPACES; a trailing TAB at a line end "
                               "inside a component that wraps stays in its name (text_trimmed collapses runs of U+0020 only; "
                               "Properties/C17.v C17_trailing_tab_refuted), so the edit is reported, not judged; the judged "
                               "trail_space appends U+0020 only (any blank space on the fence lines of a front matter)",
            "text_mode_qty": "text-mode sources: qty_comment may put a blank where there was none (`{ [-c-] 1}`); inside the "
                             "kept source of a component that is a blank-space difference the statement does not allow for",
        },
        "probes_not_judged": probes,
        "monitor_cases": len(pairs), "monitor_parses": len(keys), "monitor_violations": len(hits),
        "correspondence_cases": ncases, "correspondence_disagreements": len(dis), "both_sides_panic_cases": npan,
        "exhaustive": False,
    })
    rep.assumptions = ["serde_yaml reads a CRLF front matter like the LF one (observed on every front-matter case, not proved)",
                       "edit points are computed by the check's own tokenizer (checks/c17_edits.py), not by the parser under test"]


def setup():
    pc.prepare(need_release=False)
    common.build_harness(["recipe"])


def replay(rp):
    bindir = common.build_harness(["recipe"])
    r = rp["replay"]
    if "input_hex" not in r or "edited_hex" not in r:
        print("nothing to replay: " + rp.get("what", ""))
        return 1
    lines = "".join("%s %s %s\n" % (h, r.get("ext", 0), r.get("conv", "e")) for h in (r["input_hex"], r["edited_hex"]))
    p = subprocess.run([os.path.join(bindir, "recipe"), "-"], input=lines, text=True, stdout=subprocess.PIPE)
    a, b = [ed.observe(json.loads(l)) for l in p.stdout.splitlines()[:2]]
    d = ed.first_diff(a, b)
    print("same" if d is None else "differs: " + d)
    return 0 if d is None else 1
