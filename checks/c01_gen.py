"""C01 generator: a recipe *structure* (spec), a *tape* of spelling choices, the printer
`print_spec(spec, tape)` and the independent denotation `denote(spec, meta_style)`.

This is the two-phase form of gen/grec.py (which draws structure and spelling from one stream): here the
same structure can be printed under k different tapes and every print must denote the same recipe.
`denote` never looks at the text: it is the documented meaning of the structure (names, values as
numbers, Linear/Fixed = ingredient and numeric and not locked, reference target = last earlier
same-name (case-insensitive) non-reference component, intermediate targets by counting the steps of
the current section / the finished sections, step numbers per section, mode and duplicate switches,
inline temperatures).  The normal form compared is the one of grec.project (+ inline quantities).

Spelling choices read from the tape (statement of C01: any spacing, line wrapping, comments, blank
lines, escapes, `>>` or front matter):
  doc    : `>>` lines vs YAML front matter (plain / quoted scalars, blanks after the colon, YAML comments);
           LF vs CRLF; block separators (blank line(s), blank line with blanks, comment-only line(s),
           block-comment lines; a single newline around single-line blocks); end of document
  meta   : blanks after `>>`, around `:`, trailing blanks, trailing comment; synonyms of mode values
  section: number of `=` on both sides, closing run present or not, blanks around the name, trailing comment
  step   : a line wrap directly between two components (nothing else between them; LF or CRLF);
           separator between pieces = 1..2 blanks, tab, line wrap (with leading blanks on the next line),
           trailing line comment + wrap, block comment (one-line or two-line) with a blank on either side;
           backslash escapes for marker characters (needed ones always, optional ones by the tape)
  text   : `>` + optional blank, continuation lines with or without `>`, escapes or raw markers
  comp   : `{}` vs bare single word; blanks inside empty braces; order of modifier characters; blanks inside
           `&( ~ 1 )`; blanks around `|`; blanks inside the note parentheses
  qty    : blanks at the 5 optional positions `{_=_v_%_u_}`; ADVANCED_UNITS blank instead of `%`;
           `0.5` vs `.5`, trailing zeros of decimals, blanks around `/` and `-`, 1..2 blanks in mixed numbers
"""
import os
import sys
from collections import Counter

sys.path.insert(0, os.path.join(os.path.dirname(os.path.abspath(__file__)), "..", "gen"))
import grec  # noqa: E402

RECIPE, REF, HIDDEN, OPT, NEW = 1, 2, 4, 8, 16
MOD_CH = {RECIPE: "@", REF: "&", HIDDEN: "-", OPT: "?", NEW: "+"}
U32_MAX = 4294967295

ING_SINGLE = grec.ING_SINGLE + ["thyme", "Zucchini"]
ING_MULTI = grec.ING_MULTI + ["tipo zero flour", "7 up"]
CW_SINGLE = grec.CW_SINGLE
CW_MULTI = grec.CW_MULTI + ["9 inch pan"]
TM_NAMES = grec.TM_NAMES
WORDS = grec.WORDS + ["(gently)", "half-way", "it's", "C", "x=y", "a+b", "50/50?", "e.g.", "what?", "*", "&co"]
# words of step text that contain marker characters: every spelling must escape them
MARKER_WORDS = ["@home", "#tag", "~ish", "either\\or", "{curly}", "a--b", "[-x", "C{", "}", "--", "e@mail", "\\"]
UNITS_ING = grec.UNITS_MASS + grec.UNITS_VOL + grec.UNITS_UNKNOWN
UNITS_TIME = grec.UNITS_TIME
TEXT_VALUES = grec.TEXT_VALUES + ["a big handful, more or less"]
TEMP_UNITS = ["°C", "ºC", "°F", "C", "F"]

# every accepted spelling of every standard metadata key (src/metadata.rs StdKey::from_str), main name
# first, with values that pass the standard check of the key under both parsers (times: a bare number of
# minutes or the unit-free `HhMm` form; an int is printed as a YAML integer under front matter)
STD_KEYS = {
    "title": (["title"], ["Pasta", "x y z"]),
    "description": (["description", "introduction"], ["A simple dish", "it's"]),
    "tags": (["tags", "tag"], ["quick, vegan", "dinner"]),
    "author": (["author"], ["Ana", "Ana <https://example.org/ana>"]),
    "source": (["source"], ["a book", "https://example.org/r"]),
    "servings": (["servings", "serves", "yield"], [1, 2, 4, 12, "2|4", "6 people"]),
    "course": (["course", "category"], ["dinner", "main"]),
    "locale": (["locale"], ["en", "es_ES"]),
    "time": (["time", "duration", "time required"], [45, "1h30m", "90m", "2h"]),
    "prep time": (["prep time", "prep_time"], [10, "15m"]),
    "cook time": (["cook time", "cook_time"], [30, "1h"]),
    "difficulty": (["difficulty"], ["easy"]),
    "cuisine": (["cuisine"], ["crème brûlée", "thai"]),
    "diet": (["diet"], ["vegan"]),
    "image": (["image", "images", "picture", "pictures"], ["a.png", "https://example.org/a.jpg"]),
}
SERVINGS_NAMES = STD_KEYS["servings"][0]


def servings_of(v):
    """Servings of a `servings`/`serves`/`yield` value: the leading number of each `|` alternative"""
    if isinstance(v, int):
        return [v]
    out = []
    for part in str(v).split("|"):
        part = part.strip()
        n = ""
        for ch in part:
            if ch.isascii() and ch.isalnum():
                n += ch
            else:
                break
        out.append(int(n))
    return out


class IllFormed(Exception):
    pass


# ---------------------------------------------------------------------------------------------
# tape

class Tape:
    """a stream of spelling choices; `counts` (shared) records which alternatives were used"""

    def __init__(self, rng, counts=None, plain=False):
        self.r = rng
        self.counts = counts if counts is not None else Counter()
        self.plain = plain      # the canonical spelling: first alternative everywhere

    def pick(self, name, options, weights=None):
        """options: list of (label, value) or plain values"""
        if self.plain:
            o = options[0]
        elif weights:
            o = self.r.choices(options, weights)[0]
        else:
            o = self.r.choice(options)
        if isinstance(o, tuple):
            label, v = o
        else:
            label, v = repr(o), o
        self.counts[name + "=" + label] += 1
        return v

    def blanks(self, name, p=0.3):
        """an optional position: nothing, one blank, two blanks, a tab"""
        return self.pick(name, [("none", ""), ("1", " "), ("2", "  "), ("tab", "\t")],
                         [1 - p, p * 0.7, p * 0.2, p * 0.1])

    def qblanks(self, name, p=0.3):
        """an optional position inside a quantity: as blanks(), or a block comment (skipped like blanks)"""
        return fill(self, self.pick(name, [("none", ""), ("1", " "), ("2", "  "), ("tab", "\t"),
                                           ("block-comment", " \x01"), ("block-comment-glued", "\x01")],
                                    [1 - p, p * 0.62, p * 0.2, p * 0.1, p * 0.05, p * 0.03]))

    def flip(self, name, p=0.5):
        return self.pick(name, [("no", False), ("yes", True)], [1 - p, p])

    def shuffle(self, name, xs):
        xs = list(xs)
        if not self.plain:
            self.r.shuffle(xs)
        return xs


# ---------------------------------------------------------------------------------------------
# comments: \x01 = a block comment, \x02 = a line comment (to the end of the line), \x03 = a block
# comment that may span two lines.  Decorations: 0-4 extra dashes after `[-` and before `-]`
# (`[-- x --]`, `[--- x ---]`, `[--]`), `-`, `]`, `[-` inside, extra dashes after `--`.

DASHES = [("0", 0), ("1", 1), ("2", 2), ("3", 3), ("4", 4)]
DASH_W = [0.5, 0.15, 0.15, 0.1, 0.1]


def block_comment(t, two_lines=False):
    lead = t.pick("comment.block-extra-dashes-after-open", DASHES, DASH_W)
    trail = t.pick("comment.block-extra-dashes-before-close", DASHES, DASH_W)
    bodies = [("words", " aside "), ("word-glued", "x"), ("empty", ""), ("with-dash", " a-b - c "),
              ("with-bracket", " a ] b "), ("with-open-marker", " a [- b "), ("with-markers", " @x{1} ")]
    w = [0.4, 0.12, 0.1, 0.12, 0.1, 0.08, 0.08]
    if two_lines:
        bodies[0] = ("2-lines", " an\naside ")
    body = t.pick("comment.block-body", bodies, w)
    return "[-" + "-" * lead + body + "-" * trail + "-]"


def line_comment(t):
    extra = t.pick("comment.line-extra-dashes", DASHES, [0.6, 0.15, 0.1, 0.08, 0.07])
    body = t.pick("comment.line-body", [("words", " a remark"), ("glued", "x"), ("with-markers", " remark @x{1}"),
                                        ("with-dashes", " -- more --"), ("with-block-open", " see [- here")],
                  [0.5, 0.15, 0.15, 0.1, 0.1])
    return "--" + "-" * extra + body


def fill(t, s):
    """replace the comment placeholders of a spelling pattern"""
    if "\x01" not in s and "\x02" not in s and "\x03" not in s:
        return s
    out = []
    for ch in s:
        if ch == "\x01":
            out.append(block_comment(t))
        elif ch == "\x03":
            out.append(block_comment(t, two_lines=True))
        elif ch == "\x02":
            out.append(line_comment(t))
        else:
            out.append(ch)
    return "".join(out)


# ---------------------------------------------------------------------------------------------
# values

def num_json(n):
    k = n[0]
    if k == "int":
        return {"type": "regular", "value": float(n[1])}
    if k == "dec":
        return {"type": "regular", "value": float(n[1] + "." + n[2])}
    if k == "frac":
        return {"type": "fraction", "value": {"whole": 0, "num": n[1], "den": n[2], "err": 0.0}}
    if k == "mixed":
        return {"type": "fraction", "value": {"whole": n[1], "num": n[2], "den": n[3], "err": 0.0}}
    raise IllFormed("number kind " + k)


def value_json(v):
    k = v[0]
    if k == "num":
        return {"type": "number", "value": num_json(v[1])}
    if k == "range":
        return {"type": "range", "value": {"start": num_json(v[1]), "end": num_json(v[2])}}
    if k == "text":
        return {"type": "text", "value": v[1]}
    raise IllFormed("value kind " + k)


def print_num(n, t):
    k = n[0]
    if k == "int":
        return str(n[1])
    if k == "dec":
        ip, fp = n[1], n[2]
        if ip == "0" and t.flip("dec.leading-zero-dropped", 0.3):
            ip = ""
        fp = fp + t.pick("dec.trailing-zeros", [("0", ""), ("1", "0"), ("2", "00")], [0.8, 0.15, 0.05])
        return ip + "." + fp
    if k == "frac":
        return str(n[1]) + t.blanks("frac.before-slash", 0.25) + "/" + t.blanks("frac.after-slash", 0.25) + str(n[2])
    if k == "mixed":
        sp = t.pick("mixed.gap", [("1", " "), ("2", "  "), ("tab", "\t")], [0.8, 0.15, 0.05])
        return str(n[1]) + sp + print_num(("frac", n[2], n[3]), t)
    raise IllFormed("number kind " + k)


def print_value(v, t):
    k = v[0]
    if k == "num":
        return print_num(v[1], t)
    if k == "range":
        return print_num(v[1], t) + t.blanks("range.before-dash", 0.3) + "-" + t.blanks("range.after-dash", 0.3) + \
            print_num(v[2], t)
    return v[1]


def print_qty(q, t, ext):
    """inside the braces.  q = {"v": value, "lock": bool, "unit": str|None}"""
    s = t.qblanks("qty.lead", 0.2)
    if q["lock"]:
        s += "=" + t.qblanks("qty.after-lock", 0.3)
    s += print_value(q["v"], t)
    u = q["unit"]
    if u is not None:
        adv_ok = ext and q["v"][0] != "text" and u.isalpha()
        if adv_ok and t.flip("qty.advanced-blank-instead-of-percent", 0.25):
            s += t.pick("qty.advanced-gap", [("1", " "), ("2", "  ")], [0.85, 0.15]) + u
        else:
            s += t.qblanks("qty.before-percent", 0.3) + "%" + t.qblanks("qty.after-percent", 0.3) + u
    s += t.qblanks("qty.trail", 0.2)
    return s


def qty_json(q, kind):
    """kind 'igr' | 'cw' | 'tm'"""
    vj = value_json(q["v"])
    is_text = q["v"][0] == "text"
    if kind == "cw":
        return {"type": "fixed", "value": vj}
    if kind == "tm":
        return {"value": {"type": "fixed", "value": vj}, "unit": q["unit"]}
    scal = "fixed" if (is_text or q["lock"]) else "linear"
    return {"value": {"type": scal, "value": vj}, "unit": q["unit"]}


# ---------------------------------------------------------------------------------------------
# escapes

def needs_escape(word, i, at_block_start):
    c = word[i]
    if c in "@#~\\{}":
        return True
    if c == "-" and i + 1 < len(word) and word[i + 1] == "-":
        return True
    if c == "[" and i + 1 < len(word) and word[i + 1] == "-":
        return True
    if at_block_start and i == 0 and c in ">=":
        return True
    return False


OPTIONAL_ESC = ",.;()%|:=>?+&*/-!'"


def print_word(word, t, at_block_start=False, raw_markers=False):
    out = []
    i = 0
    while i < len(word):
        c = word[i]
        if needs_escape(word, i, at_block_start):
            if raw_markers and c in "@#~{}" and t.flip("text-block.raw-marker", 0.5):
                out.append(c)
            else:
                t.counts["escape.needed=" + c] += 1
                out.append("\\" + c)
        elif c in OPTIONAL_ESC and t.flip("escape.optional", 0.06):
            out.append("\\" + c)
        else:
            out.append(c)
        i += 1
    return "".join(out)


# ---------------------------------------------------------------------------------------------
# components

def mods_str(bits):
    return grec.mods_str(bits)


def print_inter(inter, t):
    """inter = (kind, k), kind in rel_step | num_step | rel_sec | num_sec"""
    kind, k = inter
    b = lambda: t.blanks("inter.blank", 0.15)   # noqa: E731
    core = {"rel_step": ["~"], "num_step": [], "rel_sec": ["=", "~"], "num_sec": ["="]}[kind]
    s = "(" + b()
    for c in core:
        s += c + b()
    return s + str(k) + b() + ")"


def print_mods(c, t):
    """modifier characters in any order; `&` carries the intermediate data directly after it"""
    chars = []
    for bit in (RECIPE, HIDDEN, OPT, NEW):
        if c.get("mods", 0) & bit:
            chars.append(MOD_CH[bit])
    if c.get("ref") or c.get("inter"):
        chars.append("&" + (print_inter(c["inter"], t) if c.get("inter") else ""))
    if len(chars) > 1:
        chars = t.shuffle("mods.order", chars)
        t.counts["mods.order=permuted-%d" % len(chars)] += 1
    return "".join(chars)


def single_word(name):
    return name.isalnum() and all(ord(ch) < 128 or ch.isalpha() for ch in name)


def print_name(name, t):
    """a multi-word name: each inner blank may be two blanks or a line wrap (names are trimmed and their
    blank runs collapsed; a newline inside text is one blank)"""
    if " " not in name:
        return name
    ws = name.split(" ")
    out = ws[0]
    for w in ws[1:]:
        out += t.pick("name.inner-blank", [("1", " "), ("2", "  "), ("wrap", "\n")], [0.9, 0.06, 0.04]) + w
    return out


def print_component(c, t, ext):
    kind = c["kind"]
    marker = {"igr": "@", "cw": "#", "tm": "~"}[kind]
    s = marker + print_mods(c, t)
    name = c["name"] or ""
    body = print_name(name, t)
    if c.get("alias") is not None:
        body += t.blanks("alias.before-bar", 0.15) + "|" + t.blanks("alias.after-bar", 0.15) + c["alias"]
    q = c.get("qty")
    if q is not None:
        s += body + (t.blanks("comp.blank-before-brace", 0.06) if body else "") + "{" + print_qty(q, t, ext) + "}"
        t.counts["comp.form=braces-with-quantity"] += 1
    elif c.get("alias") is None and name and single_word(name) and t.flip("comp.bare-single-word", 0.5):
        s += body
    else:
        s += body + (t.blanks("comp.blank-before-brace", 0.06) if body else "") + "{" + \
            t.blanks("comp.inside-empty-braces", 0.2) + "}"
    if c.get("note") is not None:
        s += "(" + t.blanks("note.lead", 0.15) + c["note"] + t.blanks("note.trail", 0.15) + ")"
    return s


# ---------------------------------------------------------------------------------------------
# blocks

def sep(t, allow_wrap=True, allow_comment=True, glue_ok=True):
    """one blank of the intended text, spelled.  A comment may touch the previous piece only when that
    cannot change a token (`-` before `--`, `[` before `-`): glue_ok"""
    opts = [("1-blank", " "), ("2-blanks", "  "), ("tab", "\t")]
    w = [0.62, 0.06, 0.03]
    if allow_wrap:
        opts += [("wrap", "\n"), ("blank+wrap", " \n"), ("wrap+indent", "\n  ")]
        w += [0.08, 0.02, 0.02]
        if allow_comment:
            opts += [("line-comment+wrap", " \x02\n")]
            w += [0.03]
            if glue_ok:
                opts += [("line-comment-glued+wrap", "\x02\n")]
                w += [0.01]
    if allow_comment:
        opts += [("block-comment", " \x01 "), ("block-comment-right-glued", " \x01"),
                 ("block-comment-2-lines", " \x03 ")]
        w += [0.04, 0.01, 0.02]
        if glue_ok:
            opts += [("block-comment-left-glued", "\x01 ")]
            w += [0.01]
    return fill(t, t.pick("step.separator", opts, w))


def print_step(items, t, ext, mode):
    out = []
    first = True
    for i, it in enumerate(items):
        k = it[0]
        if k == "p":
            prev = out[-1][-1:] if out else ""
            if (prev.isalnum() or prev in "})") and t.flip("step.comment-glued-on-both-sides", 0.05):
                out.append(block_comment(t))
            out.append(print_word(it[1], t))
            continue
        if not first:
            prev = out[-1][-1:]
            between_comps = k == "c" and i > 0 and items[i - 1][0] == "c"
            if between_comps and t.flip("step.wrap-directly-between-two-components", 0.25):
                out.append("\n")        # `...}` newline `@...`: nothing but the line break (CRLF with doc.crlf)
            else:
                out.append(sep(t, glue_ok=prev.isalnum() or prev in "})"))
        if k == "w":
            out.append(print_word(it[1], t, at_block_start=first))
        elif k == "temp":
            glue = ext and it[2][0] in "°º" and t.flip("inline.number-glued-to-unit", 0.3)
            out.append(str(it[1]) + ("" if glue else " ") + it[2])
        else:
            out.append(print_component(it[1], t, ext))
        first = False
    return "".join(out)


def print_text_block(lines, t):
    out = []
    for li, words in enumerate(lines):
        if li == 0 or t.flip("text-block.marker-on-continuation", 0.5):
            out.append(">" + t.blanks("text-block.after-marker", 0.8))
        ws = [print_word(w, t, at_block_start=(li > 0 and i == 0), raw_markers=True) for i, w in enumerate(words)]
        line = ws[0]
        for w in ws[1:]:
            line += sep(t, allow_wrap=False, glue_ok=line[-1:].isalnum()) + w
        out.append(line)
        if li + 1 < len(lines):
            out.append("\n")
    return "".join(out)


def trailing(t, name):
    return fill(t, t.pick(name, [("none", ""), ("blank", " "), ("line-comment", " \x02"), ("block-comment", " \x01"),
                                 ("line-comment-glued", "\x02"), ("block-comment-glued", "\x01")],
                          [0.76, 0.08, 0.07, 0.04, 0.03, 0.02]))


def print_meta_line(key, value, t):
    return ">>" + t.blanks("meta.after-marker", 0.7) + key + t.blanks("meta.before-colon", 0.15) + ":" + \
        t.blanks("meta.after-colon", 0.8) + value + trailing(t, "meta.trailing")


MODE_SYN = {"all": ["all", "default"], "components": ["components", "ingredients"], "steps": ["steps"],
            "text": ["text"], "new": ["new", "default"], "ref": ["reference", "ref"]}


def print_mode_line(b, t):
    key = "duplicate" if b["key"] == "duplicate" else t.pick("mode.key", ["mode", "define"])
    val = t.pick("mode.value-synonym", MODE_SYN[b["value"]])
    return print_meta_line("[" + key + "]", val, t)


def print_section(name, t):
    n = t.pick("section.opening-run", [("1", 1), ("2", 2), ("3", 3)], [0.5, 0.4, 0.1])
    s = "=" * n + t.blanks("section.before-name", 0.8) + name
    close = t.pick("section.closing-run", [("none", 0), ("same", n), ("1", 1), ("4", 4)], [0.4, 0.4, 0.1, 0.1])
    if close:
        s += t.blanks("section.after-name", 0.8) + "=" * close
    return s + trailing(t, "section.trailing")


def yaml_scalar(v, t):
    if isinstance(v, int):
        return str(v)
    style = t.pick("yaml.scalar-style", ["plain", "double-quoted", "single-quoted"], [0.6, 0.2, 0.2])
    if style == "double-quoted":
        return '"' + v.replace("\\", "\\\\").replace('"', '\\"') + '"'
    if style == "single-quoted":
        return "'" + v.replace("'", "''") + "'"
    return v


def print_frontmatter(meta, t):
    s = "---\n"
    for k, v in meta:
        if t.flip("yaml.comment-line", 0.08):
            s += "# a yaml comment\n"
        s += k + ":" + t.pick("yaml.after-colon", [("1", " "), ("2", "  ")], [0.85, 0.15]) + yaml_scalar(v, t) + \
            t.pick("yaml.trailing", [("none", ""), ("blank", " "), ("comment", " # note")], [0.85, 0.1, 0.05]) + "\n"
    return s + "---\n"


BLOCK_SEPS = [("blank-line", "\n\n"), ("2-blank-lines", "\n\n\n"), ("blank-line-with-blanks", "\n  \n"),
              ("blank-line-with-tab", "\n\t\n"), ("comment-only-line", "\n\x02\n"),
              ("blank+comment-line+blank", "\n\n\x02\n\n"), ("block-comment-line", "\n\x01\n"),
              ("2-line-block-comment", "\n\x03\n\n"), ("blank+indented-comment", "\n\n   \x02\n")]
BLOCK_SEP_W = [0.55, 0.08, 0.06, 0.03, 0.08, 0.06, 0.05, 0.05, 0.04]


def print_spec(spec, t):
    """-> (text, meta_style)"""
    ext = spec["profile"] == "extended"
    blocks = []     # (text, single_line)
    meta = spec["meta"]
    fm = ""
    style = None
    if meta:
        style = t.pick("meta.style", [("chevrons", ">>"), ("front-matter", "fm")])
        if style == "fm":
            fm = print_frontmatter(meta, t)
        else:
            for k, v in meta:
                blocks.append((print_meta_line(k, str(v), t), True))
    mode = "all"
    for b in spec["blocks"]:
        k = b["t"]
        if k == "section":
            blocks.append((print_section(b["name"], t), True))
        elif k == "mode":
            if b["key"] != "duplicate":
                mode = b["value"]
            blocks.append((print_mode_line(b, t), True))
        elif k == "text":
            blocks.append((print_text_block(b["lines"], t), False))
        else:
            blocks.append((print_step(b["items"], t, ext, mode), False))
    body = fill(t, t.pick("doc.leading", [("none", ""), ("blank-line", "\n"), ("comment-line", "\x02\n")], [0.85, 0.08, 0.07])) \
        if not fm else ""
    for i, (txt, single) in enumerate(blocks):
        if i:
            if (single or blocks[i - 1][1]) and t.flip("doc.single-newline-around-single-line-block", 0.5):
                body += "\n"
            else:
                body += fill(t, t.pick("doc.block-separator", BLOCK_SEPS, BLOCK_SEP_W))
        body += txt
    body += fill(t, t.pick("doc.end", [("nothing", ""), ("newline", "\n"), ("2-newlines", "\n\n"), ("comment", "\n\x02"),
                                       ("blanks", "  "), ("block-comment", " \x01")], [0.3, 0.38, 0.1, 0.1, 0.07, 0.05]))
    text = fm + body
    if t.flip("doc.crlf", 0.08):
        text = text.replace("\n", "\r\n")
    return text, style


# ---------------------------------------------------------------------------------------------
# denotation (independent of the text and of the tape, except the metadata carrier)

def fold(name):
    return name.casefold()


def denote(spec, meta_style):
    ext = spec["profile"] == "extended"
    igrs, cws, tms, inl = [], [], [], []
    metadata = {}
    servings = None
    for k, v in spec["meta"]:
        # `>>` can only carry strings; YAML front matter carries the typed scalar
        if k in metadata:
            raise IllFormed("metadata key twice")
        metadata[k] = v if meta_style == "fm" else str(v)     # the key exactly as written, whatever its spelling
        if k in SERVINGS_NAMES:
            servings = servings_of(v)
    sections = []          # finished sections
    cur = {"name": None, "content": []}
    stepno = 1
    define, dup = "all", "new"

    def flush():
        nonlocal cur
        if cur["name"] is not None or cur["content"]:
            sections.append(cur)

    def resolve(lst, c, inherit_mask, kind):
        """-> index of the definition this component refers to, or None (it is a definition)"""
        bits = c.get("mods", 0)
        if bits & NEW:
            if c.get("ref"):
                raise IllFormed("+ with &")
            if not (define == "steps" or (dup == "ref" and last_def(lst, c["name"]) is not None)):
                raise IllFormed("redundant +")
            return None
        explicit = bool(c.get("ref"))
        if explicit and (dup == "ref" or define == "steps"):
            raise IllFormed("redundant &")
        target = last_def(lst, c["name"])
        treat = explicit or define == "steps" or (dup == "ref" and target is not None)
        if not treat:
            return None
        if target is None:
            raise IllFormed("reference without definition")
        d = lst[target]
        inherited = d["_bits"] & inherit_mask
        if bits & ~inherited:
            raise IllFormed("conflicting modifiers on a reference")
        if c.get("note") is not None:
            raise IllFormed("note on a reference")
        q, dq = c.get("qty"), d["_qty"]
        if q is not None and dq is not None:
            if not d["relation"]["defined_in_step"]:
                raise IllFormed("quantity on both sides of a reference to a listed definition")
            if (q["v"][0] == "text") != (dq["v"][0] == "text"):
                raise IllFormed("text/number mix in a reference")
        if kind == "igr" and q is not None and ext:
            for j in [target] + d["relation"]["referenced_from"]:
                oq = lst[j]["_qty"]
                if oq is not None and oq["unit"] != q["unit"]:
                    raise IllFormed("unit differs along a reference chain")
        return target

    def last_def(lst, name):
        f = fold(name)
        for i in range(len(lst) - 1, -1, -1):
            if not (lst[i]["_bits"] & REF) and fold(lst[i]["name"]) == f:
                return i
        return None

    def add_igr(c):
        bits = c.get("mods", 0)
        q = c.get("qty")
        entry = {"name": c["name"], "alias": c.get("alias"), "note": c.get("note"),
                 "quantity": None if q is None else qty_json(q, "igr"), "_qty": q}
        if q is not None and q["lock"] and q["v"][0] == "text":
            raise IllFormed("lock on text")
        if c.get("inter"):
            if not ext or (bits & ~OPT):
                raise IllFormed("intermediate reference modifiers")
            kind, k = c["inter"]
            if k < 1:
                raise IllFormed("intermediate value")
            steps = [i for i, b in enumerate(cur["content"]) if b["type"] == "step"]
            if kind == "num_step":
                if k > len(steps):
                    raise IllFormed("step number")
                rel = {"type": "reference", "references_to": steps[k - 1], "reference_target": "step"}
            elif kind == "rel_step":
                if k > len(steps):
                    raise IllFormed("steps back")
                rel = {"type": "reference", "references_to": steps[-k], "reference_target": "step"}
            elif kind == "num_sec":
                if k > len(sections):
                    raise IllFormed("section number")
                rel = {"type": "reference", "references_to": k - 1, "reference_target": "section"}
            else:
                if k > len(sections):
                    raise IllFormed("sections back")
                rel = {"type": "reference", "references_to": len(sections) - k, "reference_target": "section"}
            bits |= REF
            entry.update({"modifiers": mods_str(bits), "_bits": bits, "relation": rel})
        else:
            target = resolve(igrs, c, HIDDEN | OPT | RECIPE, "igr") if ext else None
            if not ext and (bits or c.get("ref") or c.get("alias") is not None):
                raise IllFormed("extension syntax in the canonical profile")
            if target is None:
                entry.update({"modifiers": mods_str(bits), "_bits": bits,
                              "relation": {"type": "definition", "referenced_from": [],
                                           "defined_in_step": define != "components", "reference_target": None}})
            else:
                bits = bits | (igrs[target]["_bits"] & (HIDDEN | OPT | RECIPE)) | REF
                entry.update({"modifiers": mods_str(bits), "_bits": bits,
                              "relation": {"type": "reference", "references_to": target,
                                           "reference_target": "ingredient"}})
                igrs[target]["relation"]["referenced_from"].append(len(igrs))
        igrs.append(entry)
        return len(igrs) - 1

    def add_cw(c):
        bits = c.get("mods", 0)
        q = c.get("qty")
        if q is not None and (q["unit"] is not None or q["lock"]):
            raise IllFormed("cookware quantity has no unit and no lock")
        if bits & RECIPE or c.get("inter"):
            raise IllFormed("cookware modifiers")
        entry = {"name": c["name"], "alias": c.get("alias"), "note": c.get("note"),
                 "quantity": None if q is None else qty_json(q, "cw"), "_qty": q}
        target = resolve(cws, c, HIDDEN | OPT, "cw") if ext else None
        if not ext and (bits or c.get("ref") or c.get("alias") is not None):
            raise IllFormed("extension syntax in the canonical profile")
        if target is None:
            entry.update({"modifiers": mods_str(bits), "_bits": bits,
                          "relation": {"type": "definition", "referenced_from": [],
                                       "defined_in_step": define != "components"}})
        else:
            bits = bits | (cws[target]["_bits"] & (HIDDEN | OPT)) | REF
            entry.update({"modifiers": mods_str(bits), "_bits": bits,
                          "relation": {"type": "reference", "references_to": target}})
            cws[target]["relation"]["referenced_from"].append(len(cws))
        cws.append(entry)
        return len(cws) - 1

    def add_tm(c):
        q = c.get("qty")
        if q is None and (ext or not c["name"]):
            raise IllFormed("timer without duration")
        if q is not None:
            if q["unit"] is None or q["lock"]:
                raise IllFormed("timer quantity")
            if ext and (q["v"][0] == "text" or q["unit"] not in UNITS_TIME):
                raise IllFormed("timer needs a number and a time unit")
        tms.append({"name": c["name"], "quantity": None if q is None else qty_json(q, "tm")})
        return len(tms) - 1

    for b in spec["blocks"]:
        k = b["t"]
        if k == "section":
            flush()
            cur = {"name": b["name"], "content": []}
            stepno = 1
        elif k == "mode":
            if not ext:
                raise IllFormed("modes need the extension")
            if b["key"] == "duplicate":
                dup = b["value"]
            else:
                define = b["value"]
        elif k == "text":
            cur["content"].append({"type": "text", "value": " ".join(" ".join(l) for l in b["lines"])})
        else:
            items = []

            def text(s):
                if items and items[-1][0] == "text":
                    items[-1] = ("text", items[-1][1] + s)
                else:
                    items.append(("text", s))
            first = True
            for it in b["items"]:
                kk = it[0]
                if kk == "p":
                    text(it[1])
                    continue
                if not first:
                    text(" ")
                first = False
                if kk == "w":
                    text(it[1])
                elif kk == "temp":
                    if ext:
                        items.append(("inline", len(inl)))
                        inl.append({"value": {"type": "number", "value": {"type": "regular", "value": float(it[1])}},
                                    "unit": it[2]})
                    else:
                        text("%d %s" % (it[1], it[2]))
                else:
                    c = it[1]
                    if define == "text":
                        raise IllFormed("component in text mode")
                    if c["kind"] == "igr":
                        items.append(("ingredient", add_igr(c)))
                    elif c["kind"] == "cw":
                        items.append(("cookware", add_cw(c)))
                    else:
                        if define == "components":
                            raise IllFormed("timer in a component list")
                        items.append(("timer", add_tm(c)))
            if define == "components":
                if any(it[0] == "text" and any(ch.isalnum() for ch in it[1]) for it in items):
                    raise IllFormed("words in a component list")
                continue
            if define == "text":
                cur["content"].append({"type": "text", "value": "".join(it[1] for it in items)})
            else:
                cur["content"].append({"type": "step", "number": stepno, "items": items})
                stepno += 1
    flush()
    strip = lambda d: {k: v for k, v in d.items() if not k.startswith("_")}   # noqa: E731
    return {
        "metadata": metadata,
        "sections": [{"name": s["name"], "content": [grec.norm_block(b) for b in s["content"]]} for s in sections],
        "ingredients": [strip(g) for g in igrs],
        "cookware": [strip(g) for g in cws],
        "timers": tms,
        "servings": servings,
        "inline_quantities": inl,
        "raw_line_breaks_in_step_text": 0,
    }


def project(rj):
    """grec.project + the inline quantities (value and unit)"""
    p = grec.project(rj)
    # a line wrap inside a step is one blank of the step text: a raw CR or LF in a text item is wrong
    # (grec.project collapses blank runs, which would hide it)
    p["raw_line_breaks_in_step_text"] = sum(
        1 for s_ in rj["sections"] for b in s_["content"] if b["type"] == "step"
        for it in b["value"]["items"] if it["type"] == "text" and ("\n" in it["value"] or "\r" in it["value"]))
    p["inline_quantities"] = [{"value": q["value"], "unit": q["unit"]} for q in rj.get("inline_quantities", [])]
    return p


# ---------------------------------------------------------------------------------------------
# structures

class SpecGen:
    def __init__(self, rng, profile, size=1.0):
        self.r = rng
        self.profile = profile
        self.ext = profile == "extended"
        self.size = size

    # values
    def number(self):
        r = self.r
        k = r.random()
        if k < 0.4:
            return ("int", r.choice([0, 1, 2, 3, 5, 10, 12, 100, 250, 500, 1000000, U32_MAX, 12345678901234567890]))
        if k < 0.6:
            return ("dec", r.choice(["0", "1", "2", "10", "12", "3"]), r.choice(["5", "25", "75", "125", "05", "1", "333"]))
        if k < 0.8:
            a, b = r.choice([(1, 2), (1, 4), (3, 4), (2, 3), (1, 8), (5, 2), (0, 3), (7, U32_MAX), (U32_MAX, 2)])
            return ("frac", a, b)
        a, b = r.choice([(1, 2), (1, 4), (3, 4), (1, 3)])
        return ("mixed", r.choice([1, 2, 3, 10, U32_MAX]), a, b)

    def value(self, allow_text=True, allow_range=True):
        r = self.r
        k = r.random()
        if allow_text and k < 0.15:
            return ("text", r.choice(TEXT_VALUES + ([] if self.ext else ["2-3", "1 cup"])))
        if self.ext and allow_range and k < 0.3:
            return ("range", self.number(), self.number())
        return ("num", self.number())

    def igr_qty(self, unit="any"):
        r = self.r
        v = self.value()
        is_text = v[0] == "text"
        lock = (not is_text) and r.random() < 0.15
        u = None
        if unit != "any":
            u = unit
        elif r.random() < 0.7:
            u = r.choice(UNITS_ING)
        return {"v": v, "lock": lock, "unit": u}

    # the generator tracks just enough state to stay inside the documented, diagnostic-free fragment;
    # `denote` re-derives everything independently and raises IllFormed if this bookkeeping is wrong
    def recipe(self):
        r = self.r
        ext = self.ext
        spec = {"profile": self.profile, "meta": [], "blocks": []}
        if r.random() < 0.6:
            keys = r.sample(["title", "description", "course", "cuisine", "k1", "author", "my key", "source"],
                            r.randint(1, 3))
            for k in keys:
                spec["meta"].append((k, r.choice(["Pasta", "A simple dish", "dinner", "weeknight food", "x y z",
                                                  "it's", "crème brûlée"])))
            if r.random() < 0.3:
                spec["meta"].append(("servings", r.choice([1, 2, 4, 6])))
        if r.random() < 0.5:
            used = set(k for k, _ in spec["meta"])
            groups = r.sample(sorted(STD_KEYS), r.randint(1, 3))
            if "time" in groups:                       # `time` next to `prep time`/`cook time` warns: never together
                groups = [g_ for g_ in groups if g_ not in ("prep time", "cook time")]
            std = []
            for g_ in groups:
                names, values = STD_KEYS[g_]
                if len(names) > 1 and r.random() < 0.35:
                    pair = [names[0], r.choice(names[1:])]       # main name and an alternative one, both orders
                    r.shuffle(pair)
                else:
                    pair = [r.choice(names)]
                for k in pair:
                    if k not in used:
                        used.add(k)
                        std.append((k, r.choice(values)))
            pos = r.randint(0, len(spec["meta"]))
            spec["meta"][pos:pos] = std
        self.defs = {"igr": [], "cw": []}      # dicts: name, bits, qty, in_step, chain_unit (set), is_def
        self.define, self.dup = "all", "new"
        self.steps_in_section = 0
        self.sections_done = 0
        self.cur_has = False        # current section has a name or content
        blocks = spec["blocks"]
        n_sections = r.randint(1, 3)
        for si in range(n_sections):
            if si > 0 or r.random() < 0.3:
                if self.cur_has:
                    self.sections_done += 1
                blocks.append({"t": "section", "name": r.choice(["Dough", "Filling", "To serve", "Salsa verde", "Crème",
                                                                 "Day 2"])})
                self.cur_has = True
                self.steps_in_section = 0
            nb = r.randint(0 if (si > 0 and r.random() < 0.1) else 1, max(1, int(3 * self.size)))
            for _ in range(nb):
                if ext and r.random() < 0.12:
                    self.mode_switch(blocks)
                if r.random() < 0.18:
                    lines = [[self.text_word(raw_ok=True) for _ in range(r.randint(1, 5))]
                             for _ in range(1 if r.random() < 0.7 else 2)]
                    blocks.append({"t": "text", "lines": lines})
                    self.cur_has = True
                else:
                    blocks.append({"t": "step", "items": self.step()})
        return spec

    def mode_switch(self, blocks):
        r = self.r
        if r.random() < 0.3:
            self.dup = r.choice(["new", "ref"])
            blocks.append({"t": "mode", "key": "duplicate", "value": self.dup})
        else:
            self.define = r.choice(["all", "all", "components", "steps", "text"])
            blocks.append({"t": "mode", "key": "mode", "value": self.define})

    def text_word(self, raw_ok=False):
        r = self.r
        if r.random() < 0.06:
            return r.choice(MARKER_WORDS)
        return r.choice(WORDS)

    def step(self):
        r = self.r
        items = []
        if self.define == "components":
            for i in range(r.randint(1, 4)):
                if i and r.random() < 0.4:
                    items.append(r.choice([("p", ","), ("w", "-"), ("w", "*")]))
                items.append(("c", self.ingredient(listing=True) if r.random() < 0.8 else self.cookware(listing=True)))
            return items
        n = r.randint(1, max(1, int(5 * self.size)))
        for _ in range(n):
            k = r.random()
            if self.define == "text" or k < 0.45:
                for _ in range(r.randint(1, 4)):
                    items.append(("w", self.text_word()))
                if r.random() < 0.3:
                    items.append(("p", r.choice([",", ".", ";", "!", ":"])))
            elif k < 0.49 and items and items[-1][0] != "temp":
                items.append(("temp", r.choice([180, 200, 95, 350]), r.choice(TEMP_UNITS)))
                if r.random() < 0.5:
                    items.append(("w", r.choice(["and", "then", "(hot)"])))
            else:
                items.append(("c", self.component()))
                if r.random() < 0.25:
                    items.append(("p", r.choice([",", ".", ";"])))
        if self.define != "text":
            self.steps_in_section += 1
        self.cur_has = True
        return items

    def component(self):
        k = self.r.random()
        if k < 0.6:
            return self.ingredient()
        if k < 0.8:
            return self.cookware()
        return self.timer()

    # ---- reference bookkeeping
    def find_def(self, kind, name):
        f = fold(name)
        lst = self.defs[kind]
        for i in range(len(lst) - 1, -1, -1):
            if lst[i]["is_def"] and fold(lst[i]["name"]) == f:
                return lst[i]
        return None

    def make_ref(self, kind, d, explicit):
        """a reference to definition d that raises no diagnostic"""
        r = self.r
        name = d["name"] if r.random() < 0.7 else d["name"].swapcase()
        c = {"kind": kind, "name": name, "mods": 0, "ref": explicit}
        inh = d["bits"] & ((HIDDEN | OPT | RECIPE) if kind == "igr" else (HIDDEN | OPT))
        if inh and r.random() < 0.3:
            c["mods"] = inh          # repeating inherited modifiers is allowed
        dq = d["qty"]
        can_q = dq is None or (d["in_step"] and dq["v"][0] != "text")
        if can_q and r.random() < 0.5:
            if kind == "igr":
                if d["chain_unit"]:
                    u = next(iter(d["chain_unit"]))
                else:
                    u = r.choice(UNITS_ING + [None])
                v = self.value(allow_text=False)
                # numeric along the chain: a text/number mix warns only against the definition, keep numeric
                if dq is None and d["chain_text"] is not None:
                    pass
                c["qty"] = {"v": v, "lock": r.random() < 0.1, "unit": u}
                d["chain_unit"].add(u)
            else:
                c["qty"] = {"v": self.value(allow_text=False), "lock": False, "unit": None}
        if self.ext and r.random() < 0.1:
            c["alias"] = r.choice(["the rest", "it"])
        self.defs[kind].append({"name": name, "bits": REF, "qty": c.get("qty"), "in_step": True, "is_def": False,
                                "chain_unit": set(), "chain_text": None})
        return c

    def register_def(self, kind, c):
        q = c.get("qty")
        self.defs[kind].append({"name": c["name"], "bits": c.get("mods", 0), "qty": q,
                                "in_step": self.define != "components", "is_def": True,
                                "chain_unit": set([q["unit"]]) if q is not None else set(), "chain_text": None})

    def ingredient(self, listing=False):
        r = self.r
        ext = self.ext
        defs = [d for d in self.defs["igr"] if d["is_def"]]
        if ext and not listing:
            if self.define == "steps":
                if defs and r.random() < 0.75:
                    d = self.find_def("igr", r.choice(defs)["name"])
                    return self.make_ref("igr", d, explicit=False)
                return self.new_igr(force_new=True)
            if self.dup == "new" and defs and r.random() < 0.3:
                d = self.find_def("igr", r.choice(defs)["name"])
                return self.make_ref("igr", d, explicit=True)
            if r.random() < 0.12:
                c = self.inter()
                if c is not None:
                    return c
        return self.new_igr()

    def inter(self):
        r = self.r
        choices = []
        if self.steps_in_section > 0:
            choices += [("rel_step", self.steps_in_section), ("num_step", self.steps_in_section)]
        if self.sections_done > 0:
            choices += [("rel_sec", self.sections_done), ("num_sec", self.sections_done)]
        if not choices:
            return None
        kind, mx = r.choice(choices)
        c = {"kind": "igr", "name": r.choice(["mixture", "dough", "sauce", "the base"]), "mods": 0,
             "inter": (kind, r.randint(1, mx))}
        if r.random() < 0.2:
            c["mods"] = OPT
        if r.random() < 0.2:
            c["qty"] = {"v": self.value(), "lock": False, "unit": r.choice(["g", None])}
        self.defs["igr"].append({"name": c["name"], "bits": REF, "qty": None, "in_step": True, "is_def": False,
                                 "chain_unit": set(), "chain_text": None})
        return c

    def new_igr(self, force_new=False):
        r = self.r
        ext = self.ext
        name = r.choice(ING_SINGLE + ING_MULTI)
        c = {"kind": "igr", "name": name, "mods": 0}
        existing = self.find_def("igr", name) if ext else None
        if ext and self.dup == "ref" and existing is not None and self.define != "steps":
            # same name under [duplicate]: ref -> implicit reference, or force a definition with +
            if r.random() < 0.6:
                return self.make_ref("igr", existing, explicit=False)
            force_new = True
        if ext and r.random() < 0.3:
            for bit in r.sample([OPT, HIDDEN, RECIPE], r.randint(1, 2)):
                c["mods"] |= bit
        if force_new:
            c["mods"] |= NEW
        if ext and r.random() < 0.15:
            c["alias"] = r.choice(["oil", "the good stuff", "AP", "wine"])
        if r.random() < 0.7:
            c["qty"] = self.igr_qty()
        if r.random() < 0.2:
            c["note"] = r.choice(["chopped", "at room temperature", "sifted", "peeled, then diced", "1 cm cubes"])
        self.register_def("igr", c)
        return c

    def cookware(self, listing=False):
        r = self.r
        ext = self.ext
        defs = [d for d in self.defs["cw"] if d["is_def"]]
        if ext and not listing:
            if self.define == "steps":
                if defs and r.random() < 0.75:
                    return self.make_ref("cw", self.find_def("cw", r.choice(defs)["name"]), explicit=False)
                return self.new_cw(force_new=True)
            if self.dup == "new" and defs and r.random() < 0.25:
                return self.make_ref("cw", self.find_def("cw", r.choice(defs)["name"]), explicit=True)
        return self.new_cw()

    def new_cw(self, force_new=False):
        r = self.r
        ext = self.ext
        name = r.choice(CW_SINGLE + CW_MULTI)
        existing = self.find_def("cw", name) if ext else None
        if ext and self.dup == "ref" and existing is not None and self.define != "steps":
            if r.random() < 0.6:
                return self.make_ref("cw", existing, explicit=False)
            force_new = True
        c = {"kind": "cw", "name": name, "mods": 0}
        if ext and r.random() < 0.2:
            c["mods"] = r.choice([OPT, HIDDEN, OPT | HIDDEN])
        if force_new:
            c["mods"] |= NEW
        if ext and r.random() < 0.1:
            c["alias"] = r.choice(["it", "the tray"])
        if r.random() < 0.3:
            c["qty"] = {"v": self.value(), "lock": False, "unit": None}
        if r.random() < 0.15:
            c["note"] = r.choice(["greased", "the big one"])
        self.register_def("cw", c)
        return c

    def timer(self):
        r = self.r
        name = r.choice(TM_NAMES + [None, None])
        if (not self.ext) and name is not None and r.random() < 0.3:
            return {"kind": "tm", "name": name}
        if self.ext:
            v = self.value(allow_text=False, allow_range=r.random() < 0.5)
            u = r.choice(UNITS_TIME)
        else:
            v = self.value(allow_text=False)
            u = r.choice(UNITS_TIME + ["whiles"])
        return {"kind": "tm", "name": name, "qty": {"v": v, "lock": False, "unit": u}}


# ---------------------------------------------------------------------------------------------
# shrinking and statistics

def shrink_candidates(spec):
    """smaller structures: drop a block, drop an item of a step, strip parts of a component"""
    import copy
    bl = spec["blocks"]
    for i in range(len(bl)):
        s = copy.deepcopy(spec)
        del s["blocks"][i]
        yield s
    if spec["meta"]:
        for i in range(len(spec["meta"])):
            s = copy.deepcopy(spec)
            del s["meta"][i]
            yield s
    for i, b in enumerate(bl):
        if b["t"] == "step":
            for j in range(len(b["items"])):
                if len(b["items"]) > 1:
                    s = copy.deepcopy(spec)
                    del s["blocks"][i]["items"][j]
                    yield s
            for j, it in enumerate(b["items"]):
                if it[0] == "c":
                    for key in ("note", "alias", "qty", "inter"):
                        if it[1].get(key) is not None:
                            s = copy.deepcopy(spec)
                            c = dict(it[1])
                            del c[key]
                            s["blocks"][i]["items"][j] = ("c", c)
                            yield s
                    if it[1].get("mods"):
                        s = copy.deepcopy(spec)
                        c = dict(it[1])
                        c["mods"] = 0
                        s["blocks"][i]["items"][j] = ("c", c)
                        yield s
        if b["t"] == "text" and (len(b["lines"]) > 1 or len(b["lines"][0]) > 1):
            s = copy.deepcopy(spec)
            s["blocks"][i]["lines"] = [b["lines"][0][:1]]
            yield s


def spec_size(spec):
    n = len(spec["meta"])
    for b in spec["blocks"]:
        n += 1 + (len(b["items"]) if b["t"] == "step" else 0)
    return n


def construct_counts(spec, cnt):
    cnt["recipes"] += 1
    if spec["meta"]:
        cnt["recipes with metadata"] += 1
    cnt["metadata entries"] += len(spec["meta"])
    keys = [k for k, _ in spec["meta"]]
    for g_, (names, _) in STD_KEYS.items():
        present = [k for k in keys if k in names]
        cnt["metadata: standard keys under their main name"] += sum(1 for k in present if k == names[0])
        cnt["metadata: standard keys under an alternative name"] += sum(1 for k in present if k != names[0])
        if len(present) > 1:
            cnt["metadata: main and alternative name of one standard key together"] += 1
    for b in spec["blocks"]:
        k = b["t"]
        if k == "mode":
            cnt["mode switch [%s]: %s" % ("duplicate" if b["key"] == "duplicate" else "mode", b["value"])] += 1
            continue
        cnt[{"section": "sections", "text": "text paragraphs", "step": "steps"}[k]] += 1
        if k != "step":
            continue
        for it in b["items"]:
            if it[0] == "temp":
                cnt["inline temperature phrases"] += 1
            if it[0] == "w" and it[1] in MARKER_WORDS:
                cnt["text words needing escapes"] += 1
            if it[0] != "c":
                continue
            c = it[1]
            kind = {"igr": "ingredients", "cw": "cookware", "tm": "timers"}[c["kind"]]
            cnt[kind] += 1
            if c.get("inter"):
                cnt["intermediate references (%s)" % c["inter"][0]] += 1
            elif c.get("ref"):
                cnt["explicit references (%s)" % kind] += 1
            if c.get("mods", 0) & NEW:
                cnt["new (+) definitions"] += 1
            if c.get("mods", 0) & (OPT | HIDDEN | RECIPE):
                cnt["components with ?/-/@ modifiers"] += 1
            if c.get("alias") is not None:
                cnt["aliases"] += 1
            if c.get("note") is not None:
                cnt["notes"] += 1
            q = c.get("qty")
            if q is not None:
                v = q["v"]
                cnt["value: " + (v[0] if v[0] != "num" else v[1][0])] += 1
                if q["lock"]:
                    cnt["scaling locks"] += 1
                if q["unit"] is not None:
                    cnt["units"] += 1
