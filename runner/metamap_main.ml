(* L-meta model side. Case: <hex input> <ext bits>.
   Output: `F <map> ;; M <map>` with <map> = `fm` (front matter: not compared), `panic`, `none`
   (no output), `-` (empty) or `hexkey=hexvalue,...` in insertion order. *)
let pmap (o : (n list * n list) list option) : string =
  match o with
  | None -> "none"
  | Some [] -> "-"
  | Some l -> String.concat "," (List.map (fun (k, v) -> hex_of_str k ^ "=" ^ hex_of_str v) l)

let () =
  drive (fun f ->
    let input = str_of_hex (List.nth f 0) in
    let ext = n_of_dec (List.nth f 1) in
    let cfg = mkcfg ext in
    if has_frontmatter cfg input then "F fm ;; M fm"
    else
      let side o = match o with Done e -> pmap (old_map cfg e) | Panic _ -> "panic" in
      "F " ^ side (events_U cfg input) ^ " ;; M " ^ side (meta_events_U cfg input))
