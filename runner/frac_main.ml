(* L-frac model side.
   Case: <f64 bits, 16 hex> <f32 accuracy bits, 8 hex> <max_den> <max_whole> [pert]
   pert = "+" / "-": evaluate the model at v*(1 + 2^-40) / v*(1 - 2^-40) (rounding-tie probe);
   pert = "=num/den": evaluate it at that rational (the comparer checks that it lies in the same interval).
   Output: R <panic site|none|reg num/den|frac w n d num/den> ; D <hex|->
   env FRAC_CFG=found selects the code as found (cfg0), anything else the repaired test (cfgF). *)

(* IEEE-754 decoding: sign, exponent field of [ebits] bits, fraction of [fbits] bits *)
let decode_bits (bits : int64) (ebits : int) (fbits : int) : f64 =
  let open Int64 in
  let frac = logand bits (sub (shift_left 1L fbits) 1L) in
  let ex = to_int (logand (shift_right_logical bits fbits) (sub (shift_left 1L ebits) 1L)) in
  let neg = logand (shift_right_logical bits (ebits + fbits)) 1L = 1L in
  let emax = (1 lsl ebits) - 1 in
  let bias = (1 lsl (ebits - 1)) - 1 in
  if ex = emax then (if frac <> 0L then NaN else if neg then NInf else PInf)
  else begin
    let m, e =
      if ex = 0 then (frac, 1 - bias - fbits)
      else (logor frac (shift_left 1L fbits), ex - bias - fbits) in
    let ms = (if neg then "-" else "") ^ to_string m in
    Fin (q_of_m_e ms e)
  end

let f64_of_hex (s : string) : f64 = decode_bits (Int64.of_string ("0x" ^ s)) 11 52
let f32_of_hex (s : string) : f64 = decode_bits (Int64.of_string ("0x" ^ s)) 8 23

let one_plus_eps = q_of_m_e "1099511627777" (-40)    (* 1 + 2^-40 *)
let one_minus_eps = q_of_m_e "1099511627775" (-40)   (* 1 - 2^-40 *)

let show_q (x : q) : string = string_of_q (qred x)

let () =
  let c = match Sys.getenv_opt "FRAC_CFG" with Some "found" -> cfg0 | _ -> cfgF in
  let fmt0 = fun _ -> [n_of_int 48] in
  drive (fun f ->
    let fld i = List.nth f i in
    let v = f64_of_hex (fld 0) in
    let acc = f32_of_hex (fld 1) in
    let md = n_of_dec (fld 2) in
    let mw = n_of_dec (fld 3) in
    let v = match v, (if List.length f > 4 then fld 4 else "0") with
      | Fin q, "+" -> Fin (qmult q one_plus_eps)
      | Fin q, "-" -> Fin (qmult q one_minus_eps)
      | Fin _, s when String.length s > 1 && s.[0] = '=' -> Fin (q_of_frac (String.sub s 1 (String.length s - 1)))
      | x, _ -> x in
    match new_approx c v acc md mw with
    | Panic s -> "R panic " ^ string_of_n s ^ " ; D -"
    | Done None -> "R none ; D -"
    | Done (Some (Regular x)) -> "R reg " ^ show_q x ^ " ; D -"
    | Done (Some (Fraction (w, n, d, e) as x)) ->
        "R frac " ^ string_of_n w ^ " " ^ string_of_n n ^ " " ^ string_of_n d ^ " " ^ show_q e
        ^ " ; D " ^ hex_of_str (display fmt0 fmt0 false x))
