(* L-frac model side.
   Case: <f64 bits, 16 hex> <f32 accuracy bits, 8 hex> <max_den> <max_whole> [pert]
   pert = "+" / "-": evaluate the model at v*(1 + 2^-40) / v*(1 - 2^-40) (rounding-tie probe);
   pert = "=num/den": evaluate it at that rational (the comparer checks that it lies in the same interval).
   Output: R <panic site|none|reg num/den|frac w n d num/den> ; D <hex|->
   Sequence: S <mode> <start> <acc bits> <max_den> <max_whole> [<acc bits> <max_den> <max_whole> ...]
     mode n = try_approx_seq; q, f = try_fraction (define <the triple, enabled>) on a number, r on a range
     (f stops at the first call that returns false: the implementation's fit then leaves the unit);
     start = b<f64 bits> | F<whole>,<num>,<den>,<err bits>, `A&B` for r.
   One call from a given state: T <mode> <state> <acc bits> <max_den> <max_whole> [pert]
     state = R<m>:<e> | F<whole>,<num>,<den>,<m>:<e> (exact m*2^e), `A&B` for r; pert = one entry per number,
     separated by commas: 0, + or - (the value handed to new_approx is multiplied by 1 +- 2^-40), or
     =num/den (new_approx is given that rational; the comparer checks that it lies as close).
   Output of both: S <step> | <step> ...   step = <1|0> <number>[ & <number>] | P <site> | X
     number = reg num/den | frac w n d num/den | reg nan
   env FRAC_CFG=found selects the code as found (cfg0), anything else the repaired test (cfgF). *)

(* IEEE-754 decoding: sign, exponent field of [ebits] bits, fraction of [fbits] bits *)
let decode_bits (bits : int64) (ebits : int) (fbits : int) : f64 =
  let open Int64 in
  let frac = logand bits (sub (shift_left 1L fbits) 1L) in
  let ex = to_int (logand (shift_right_logical bits fbits) (sub (shift_left 1L ebits) 1L)) in
  let neg = logand (shift_right_logical bits (ebits + fbits)) 1L = 1L in
  let emax = (1 lsl ebits) - 1 in
  let bias = (1 lsl (ebits - 1)) - 1 in
  if ex = emax then (if frac <> 0L then NaN else if neg then NInf else PInf)
  else begin
    let m, e =
      if ex = 0 then (frac, 1 - bias - fbits)
      else (logor frac (shift_left 1L fbits), ex - bias - fbits) in
    let ms = (if neg then "-" else "") ^ to_string m in
    Fin (q_of_m_e ms e)
  end

let f64_of_hex (s : string) : f64 = decode_bits (Int64.of_string ("0x" ^ s)) 11 52
let f32_of_hex (s : string) : f64 = decode_bits (Int64.of_string ("0x" ^ s)) 8 23

let one_plus_eps = q_of_m_e "1099511627777" (-40)    (* 1 + 2^-40 *)
let one_minus_eps = q_of_m_e "1099511627775" (-40)   (* 1 - 2^-40 *)

let show_q (x : q) : string = string_of_q (qred x)

(* ---------- sequences ---------- *)

type st = Num of number | Odd of f64      (* Odd: Regular(NaN / inf), which [number] cannot hold *)

let show_num (x : number) : string =
  match x with
  | Regular v -> "reg " ^ show_q v
  | Fraction (w, n, d, e) -> "frac " ^ string_of_n w ^ " " ^ string_of_n n ^ " " ^ string_of_n d ^ " " ^ show_q e

let show_st (x : st) : string = match x with Num n -> show_num n | Odd _ -> "reg nan"

let split_on (c : char) (s : string) : string list = String.split_on_char c s

let q_of_me (t : string) : q =
  match split_on ':' t with
  | [m; e] -> q_of_m_e m (int_of_string e)
  | _ -> failwith "m:e"

let parse_start (t : string) : st =
  if t.[0] = 'b' then
    (match f64_of_hex (String.sub t 1 (String.length t - 1)) with Fin q -> Num (Regular q) | o -> Odd o)
  else if t.[0] = 'F' then
    (match split_on ',' (String.sub t 1 (String.length t - 1)) with
     | [w; n; d; e] ->
         (match f64_of_hex e with
          | Fin q -> Num (Fraction (n_of_dec w, n_of_dec n, n_of_dec d, q))
          | _ -> failwith "non-finite err")
     | _ -> failwith "fraction start")
  else if t.[0] = 'R' then Num (Regular (q_of_me (String.sub t 1 (String.length t - 1))))
  else failwith "start token"

let parse_state (t : string) : st =
  if t.[0] = 'F' && String.contains t ':' then
    (match split_on ',' (String.sub t 1 (String.length t - 1)) with
     | [w; n; d; e] -> Num (Fraction (n_of_dec w, n_of_dec n, n_of_dec d, q_of_me e))
     | _ -> failwith "fraction state")
  else parse_start t

let perturb (v : f64) (p : string) : f64 =
  match v with
  | Fin q ->
      if p = "+" then Fin (qmult q one_plus_eps)
      else if p = "-" then Fin (qmult q one_minus_eps)
      else if String.length p > 1 && p.[0] = '=' then Fin (q_of_frac (String.sub p 1 (String.length p - 1)))
      else v
  | _ -> v

(* Number::try_approx with the value handed to new_approx perturbed (tie probe) *)
let try_pert c (x : st) acc md mw (p : string) : (st * bool) outcome =
  match x, p with
  | Num n, "0" ->
      (match try_approx c n acc md mw with Done (y, ok) -> Done (Num y, ok) | Panic s -> Panic s)
  | _ ->
      let v = (match x with Num n -> perturb (value n) p | Odd o -> o) in
      (match new_approx c v acc md mw with
       | Done (Some f) -> Done (Num f, true)
       | Done None -> Done (x, false)
       | Panic s -> Panic s)

let helper acc md mw : frac_helper =
  { fh_enabled = Some true; fh_accuracy = Some acc; fh_max_den = Some md; fh_max_whole = Some mw }

(* one call in the given mode; perts: one entry per number *)
let one_call c (mode : string) (xs : st list) acc md mw (perts : string list) : (st list * bool) outcome =
  let plain = List.for_all (fun p -> p = "0") perts in
  match mode, xs with
  | "n", [x] -> (match try_pert c x acc md mw (List.hd perts) with Done (y, ok) -> Done ([y], ok) | Panic s -> Panic s)
  | ("q" | "f"), [Num n] when plain ->
      (match try_fraction c (define (helper acc md mw)) (VNumber n) with
       | Done (VNumber y, ok) -> Done ([Num y], ok)
       | Done _ -> failwith "try_fraction changed the kind of value"
       | Panic s -> Panic s)
  | "r", [Num a; Num b] when plain ->
      (match try_fraction c (define (helper acc md mw)) (VRange (a, b)) with
       | Done (VRange (y, z), ok) -> Done ([Num y; Num z], ok)
       | Done _ -> failwith "try_fraction changed the kind of value"
       | Panic s -> Panic s)
  | ("q" | "f" | "r"), _ ->
      (* the same with perturbed values (or a start [number] cannot hold): try_fraction spelled out *)
      let fc = define (helper acc md mw) in
      if not fc.fc_enabled then Done (xs, false) else
      let call x p = try_pert c x fc.fc_accuracy fc.fc_max_den fc.fc_max_whole p in
      (match xs, perts with
       | [x], [p] -> (match call x p with Done (y, ok) -> Done ([y], ok) | Panic s -> Panic s)
       | [a; b], [pa; pb] ->
           (match call a pa with
            | Panic s -> Panic s
            | Done (y, true) -> Done ([y; b], true)
            | Done (y, false) ->
                (match call b pb with Panic s -> Panic s | Done (z, ok) -> Done ([y; z], ok)))
       | _ -> failwith "state does not fit the mode")
  | _ -> failwith "mode"

let show_step (xs : st list) (ok : bool) : string =
  (if ok then "1 " else "0 ") ^ String.concat " & " (List.map show_st xs)

let rec triples (l : string list) : (string * string * string) list =
  match l with
  | a :: b :: c :: r -> (a, b, c) :: triples r
  | [] -> []
  | _ -> failwith "parameter triples"

let seq_line c (f : string list) : string =
  let mode = List.nth f 1 in
  let start = List.map parse_start (split_on '&' (List.nth f 2)) in
  let ps = List.map (fun (a, d, w) -> (f32_of_hex a, n_of_dec d, n_of_dec w)) (triples (List.tl (List.tl (List.tl f)))) in
  (* mode n on a representable number: the model's own fold, when nothing panics *)
  let whole =
    (match mode, start with
     | "n", [Num x] ->
         (match try_approx_seq c x (List.map (fun (a, d, w) -> ((a, d), w)) ps) with
          | Done tr -> Some (List.map (fun (y, ok) -> show_step [Num y] ok) tr)
          | Panic _ -> None)
     | _ -> None) in
  let steps =
    match whole with
    | Some l -> l
    | None ->
        let rec go xs ps =
          match ps with
          | [] -> []
          | (a, d, w) :: r ->
              (match one_call c mode xs a d w (List.map (fun _ -> "0") xs) with
               | Panic s -> ["P " ^ string_of_n s]
               | Done (ys, ok) ->
                   if mode = "f" && not ok then ["X"]
                   else show_step ys ok :: go ys r) in
        go start ps in
  "S " ^ String.concat " | " steps

let step_line c (f : string list) : string =
  let mode = List.nth f 1 in
  let xs = List.map parse_state (split_on '&' (List.nth f 2)) in
  let acc = f32_of_hex (List.nth f 3) in
  let md = n_of_dec (List.nth f 4) in
  let mw = n_of_dec (List.nth f 5) in
  let perts =
    if List.length f > 6 then split_on ',' (List.nth f 6)
    else List.map (fun _ -> "0") xs in
  match one_call c mode xs acc md mw perts with
  | Panic s -> "S P " ^ string_of_n s
  | Done (ys, ok) -> if mode = "f" && not ok then "S X" else "S " ^ show_step ys ok

let () =
  let c = match Sys.getenv_opt "FRAC_CFG" with Some "found" -> cfg0 | _ -> cfgF in
  let fmt0 = fun _ -> [n_of_int 48] in
  drive (fun f ->
    if List.hd f = "S" then seq_line c f else
    if List.hd f = "T" then step_line c f else
    let fld i = List.nth f i in
    let v = f64_of_hex (fld 0) in
    let acc = f32_of_hex (fld 1) in
    let md = n_of_dec (fld 2) in
    let mw = n_of_dec (fld 3) in
    let v = match v, (if List.length f > 4 then fld 4 else "0") with
      | Fin q, "+" -> Fin (qmult q one_plus_eps)
      | Fin q, "-" -> Fin (qmult q one_minus_eps)
      | Fin _, s when String.length s > 1 && s.[0] = '=' -> Fin (q_of_frac (String.sub s 1 (String.length s - 1)))
      | x, _ -> x in
    match new_approx c v acc md mw with
    | Panic s -> "R panic " ^ string_of_n s ^ " ; D -"
    | Done None -> "R none ; D -"
    | Done (Some (Regular x)) -> "R reg " ^ show_q x ^ " ; D -"
    | Done (Some (Fraction (w, n, d, e) as x)) ->
        "R frac " ^ string_of_n w ^ " " ^ string_of_n n ^ " " ^ string_of_n d ^ " " ^ show_q e
        ^ " ; D " ^ hex_of_str (display fmt0 fmt0 false x))
