(* L-std model side.
   Case: `<conv> <focus> (<key hex> <yaml term>)+` -- the terms are the values the implementation
   stored (serde_yaml is an oracle), `?` = key absent.
   env: STDMETA_CFG = old|new (behaviour before / after the repairs) optionally followed by
        `,fix_hm` ... to switch single repairs on; STDMETA_BUILD = debug|release;
        STDMETA_CONV = file with lines `<id> U <n> ; <keys> <time> <ratio m e> <diff m e> ; ...`
        (the unit tables dumped from the real converters); STDMETA_ALPHA = non-ASCII alphabetic
        code points (comma separated).
   Prints the same line as the harness up to ` ; V`, then ` ; FV <f64 value of the first string>`
   and ` ; UT <sum of minutes before rounding>`. *)

(* ---- yaml term parser *)
let parse_term (s : string) : yaml =
  let n = String.length s in
  let pos = ref 0 in
  let peek () = if !pos < n then s.[!pos] else '\000' in
  let hexstr () =
    (* at 'x' *)
    let st = !pos in
    incr pos;
    while !pos < n && (match s.[!pos] with '0'..'9' | 'a'..'f' -> true | _ -> false) do incr pos done;
    str_of_hex (String.sub s st (!pos - st)) in
  let rec term () : yaml =
    match peek () with
    | 'n' -> incr pos; YNull
    | 't' -> incr pos; YBool true
    | 'f' -> incr pos; YBool false
    | 'x' -> YStr (hexstr ())
    | '#' ->
        incr pos;
        let st = !pos in
        while peek () <> ':' do incr pos done;
        let u = String.sub s st (!pos - st) in
        incr pos;
        let t = hexstr () in
        YNum ((if u = "-" then None else Some (n_of_dec u)), t)
    | '[' ->
        incr pos;
        let items = ref [] in
        if peek () = ']' then incr pos
        else begin
          let continue = ref true in
          while !continue do
            items := term () :: !items;
            if peek () = ',' then incr pos else (incr pos; continue := false)
          done
        end;
        YSeq (List.rev !items)
    | '{' ->
        incr pos;
        let items = ref [] in
        if peek () = '}' then incr pos
        else begin
          let continue = ref true in
          while !continue do
            let k = term () in
            incr pos; (* = *)
            let v = term () in
            items := (k, v) :: !items;
            if peek () = ',' then incr pos else (incr pos; continue := false)
          done
        end;
        YMap (List.rev !items)
    | '!' ->
        incr pos;
        let t = hexstr () in
        incr pos; (* : *)
        YTagged (t, term ())
    | c -> failwith (Printf.sprintf "bad term at %d in %s" !pos s) in
  term ()

(* ---- converter tables *)
let split_on_string (sep : string) (s : string) : string list =
  let ls = String.length sep and n = String.length s in
  let rec go start i acc =
    if i + ls > n then List.rev (String.sub s start (n - start) :: acc)
    else if String.sub s i ls = sep then go (i + ls) (i + ls) (String.sub s start (i - start) :: acc)
    else go start (i + 1) acc in
  go 0 0 []
let parse_conv (line : string) : tunit list =
  (* `U <n> ; keys time m e m e ; ...` *)
  let parts = split_on_string " ; " line in
  List.map (fun u ->
    match String.split_on_char ' ' u with
    | [keys; time; rm; re; dm; de] ->
        { u_keys = List.map str_of_hex (String.split_on_char ',' keys);
          u_time = (time = "1");
          u_ratio = q_of_m_e rm (int_of_string re);
          u_diff = q_of_m_e dm (int_of_string de) }
    | _ -> failwith ("bad unit: " ^ u)) (List.tl parts)

let convs : (string * tunit list) list ref = ref []

let load_convs () =
  match Sys.getenv_opt "STDMETA_CONV" with
  | None -> ()
  | Some p ->
      let ic = open_in p in
      (try while true do
          let l = input_line ic in
          match String.index_opt l ' ' with
          | Some i -> convs := (String.sub l 0 i, parse_conv (String.sub l (i + 1) (String.length l - i - 1))) :: !convs
          | None -> ()
        done with End_of_file -> ());
      close_in ic

(* ---- printing *)
let on = function None -> "-" | Some x -> string_of_n x
let rt = function
  | TTotal t -> "T" ^ string_of_n t
  | TComposed (p, k) -> "C" ^ on p ^ "/" ^ on k
let ort = function None -> "-" | Some t -> rt t
let olist = function None -> "-" | Some l -> "[" ^ String.concat "," (List.map string_of_n l) ^ "]"
let otags = function None -> "-" | Some l -> "[" ^ String.concat "," (List.map hex_of_str l) ^ "]"
let ostr = function None -> "-" | Some s -> hex_of_str s
let onu = function None -> "-" | Some (a, b) -> ostr a ^ "/" ^ ostr b
let oloc = function None -> "-" | Some (l, d) -> hex_of_str l ^ "/" ^ ostr d
let out_opt f = function Done v -> f v | Panic _ -> "panic"

let () =
  load_convs ();
  let dbg = (match Sys.getenv_opt "STDMETA_BUILD" with Some "release" -> false | _ -> true) in
  let spec = String.split_on_char ',' (match Sys.getenv_opt "STDMETA_CFG" with Some s -> s | None -> "new") in
  let base = if List.mem "old" spec then cfg_old dbg else cfg_new dbg in
  let c = { base with
            fix_hm = base.fix_hm || List.mem "fix_hm" spec;
            fix_cast = base.fix_cast || List.mem "fix_cast" spec;
            fix_total = base.fix_total || List.mem "fix_total" spec;
            fix_url = base.fix_url || List.mem "fix_url" spec;
            fix_blank = base.fix_blank || List.mem "fix_blank" spec } in
  let extra = match Sys.getenv_opt "STDMETA_ALPHA" with
    | Some s when s <> "" -> List.map (fun x -> n_of_int (int_of_string x)) (String.split_on_char ',' s)
    | _ -> [] in
  let alpha = alpha_with extra in
  let pf = parse_f64 in
  drive (fun f ->
    match f with
    | "C" :: id :: _ ->
        (match List.assoc_opt id !convs with
         | Some cv -> "C " ^ (if conv_ok cv then "1" else "0")
         | None -> "C unavailable")
    | id :: focus :: rest ->
        let cv = match List.assoc_opt id !convs with Some cv -> cv | None -> failwith ("no converter " ^ id) in
        let rec pairs = function
          | k :: t :: r -> (k, t) :: pairs r
          | _ -> [] in
        let ents = List.map (fun (k, t) -> (str_of_hex k, t, if t = "?" then None else Some (parse_term t))) (pairs rest) in
        (* parse-time checks, in order *)
        let panicked = ref false in
        let data = ref None in
        let e_out = Buffer.create 64 in
        Buffer.add_string e_out "E";
        List.iter (fun (k, raw, v) ->
          match v with
          | None -> Buffer.add_string e_out (" ? 0")
          | Some v ->
              let warned =
                match stdkey_of k with
                | None -> false
                | Some sk ->
                    (match check_std_entry pf alpha c sk cv v with
                     | Panic _ -> panicked := true; false
                     | Done (err, serv) ->
                         (match serv with Some _ when not err -> data := serv | _ -> ());
                         err) in
              Buffer.add_string e_out (" " ^ raw ^ " " ^ (if warned then "1" else "0"))) ents;
        if !panicked then "E panic"
        else begin
          let first = match ents with (_, _, v) :: _ -> v | [] -> None in
          let meta = List.filter_map (fun (k, _, v) -> match v with Some v -> Some (YStr k, v) | None -> None) ents in
          let has ch = String.contains focus ch in
          let skip = "~" in
          let o = Buffer.create 256 in
          let add k v = Buffer.add_string o (" ; " ^ k ^ " " ^ v) in
          let fcls = ref "~" and fval = ref "-" and ut = ref "-" in
          if has 't' then begin
            (match first with
             | Some v ->
                 add "M" (out_opt on (as_minutes pf c cv v));
                 let t = as_time pf c cv v in
                 add "T" (out_opt ort t);
                 add "O" (match t with
                          | Done (Some t) -> out_opt string_of_n (total c t)
                          | Done None -> "-"
                          | Panic _ -> "panic");
                 (match as_str v with
                  | Some s ->
                      (match pf s with
                       | None -> fcls := "err"
                       | Some FNan -> fcls := "nan"
                       | Some (FInf neg) -> fcls := if neg then "-inf" else "inf"
                       | Some (FFin q) -> fcls := "fin"; fval := string_of_q q);
                      (match units_total pf cv s with
                       | Some (FFin q) -> ut := string_of_q q
                       | Some FNan -> ut := "nan"
                       | Some (FInf _) -> ut := "inf"
                       | None -> ())
                  | None -> ())
             | None -> add "M" skip; add "T" skip; add "O" skip);
            let mt = meta_time pf c cv meta in
            add "MT" (out_opt ort mt);
            add "MO" (match mt with
                      | Done (Some t) -> out_opt string_of_n (total c t)
                      | Done None -> "-"
                      | Panic _ -> "panic")
          end else List.iter (fun k -> add k skip) ["M"; "T"; "O"; "MT"; "MO"];
          if has 's' then begin
            add "S" (match first with Some v -> olist (value_as_servings v) | None -> skip);
            add "MS" (olist (meta_servings meta));
            add "D" (olist !data)
          end else List.iter (fun k -> add k skip) ["S"; "MS"; "D"];
          if has 'g' then begin
            add "G" (match first with Some v -> otags (value_as_tags v) | None -> skip);
            add "MG" (otags (meta_tags meta))
          end else List.iter (fun k -> add k skip) ["G"; "MG"];
          if has 'n' then begin
            add "N" (match first with Some v -> onu (as_name_and_url alpha c v) | None -> skip);
            add "MA" (onu (meta_author alpha c meta));
            add "MU" (onu (meta_source alpha c meta))
          end else List.iter (fun k -> add k skip) ["N"; "MA"; "MU"];
          if has 'l' then begin
            add "L" (match first with Some v -> oloc (value_as_locale v) | None -> skip);
            add "ML" (oloc (meta_locale meta))
          end else List.iter (fun k -> add k skip) ["L"; "ML"];
          Buffer.contents e_out ^ Buffer.contents o ^ " ; F " ^ !fcls ^ " ; FV " ^ !fval ^ " ; UT " ^ !ut
        end
    | _ -> failwith "bad case")
