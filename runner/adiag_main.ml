(* L-diag model side for C07.
   Case: <hex input> <ext bits> <oracles...>  (the oracles exactly as printed after `OR ` by
   harness/src/bin/adiag.rs: K n (name class)* U n (unit class pq)* Y n (text ok idx nbad key* t p c)*
   M n (key value ok)* A n cp* ).
   Prints `D <diags> ;; P <0|1>` in the format of the harness, or `panic`. *)
let toks : string list ref = ref []
let next () : string =
  match !toks with
  | [] -> failwith "case truncated"
  | t :: r -> toks := r; t
let next_int () : int = int_of_string (next ())
let expect (s : string) : unit = if next () <> s then failwith ("expected " ^ s)
let rec repeat (k : int) (f : unit -> 'a) : 'a list =
  if k <= 0 then [] else let a = f () in a :: repeat (k - 1) f

let str_of_ascii (s : string) : n list = List.init (String.length s) (fun i -> n_of_int (Char.code s.[i]))
let s_time = str_of_ascii "time"
let s_prep = str_of_ascii "prep time"
let s_cook = str_of_ascii "cook time"

let () =
  drive (fun f ->
    toks := f;
    let input = str_of_hex (next ()) in
    let ext = n_of_int (next_int ()) in
    expect "K";
    let names = repeat (next_int ()) (fun () -> let n = str_of_hex (next ()) in let c = next_int () in (n, c)) in
    expect "U";
    let units = repeat (next_int ()) (fun () ->
      let u = str_of_hex (next ()) in let c = next_int () in let p = next_int () in (u, (c, p))) in
    expect "Y";
    let yamls = repeat (next_int ()) (fun () ->
      let y = str_of_hex (next ()) in
      let ok = next () = "1" in
      let idx = match next () with "-" -> None | s -> Some (n_of_int (int_of_string s)) in
      let bad = repeat (next_int ()) (fun () -> str_of_hex (next ())) in
      let ht = next () = "1" in let hp = next () = "1" in let hc = next () = "1" in
      (y, (ok, idx, bad, ht, hp, hc))) in
    expect "M";
    let metas = repeat (next_int ()) (fun () ->
      let k = str_of_hex (next ()) in let v = str_of_hex (next ()) in let ok = next () = "1" in ((k, v), ok)) in
    expect "A";
    let alnum = repeat (next_int ()) (fun () -> next_int ()) in
    let names_a = Array.of_list names in
    let ci_key (s : n list) : n list =
      match List.assoc_opt s names with
      | Some c -> fst names_a.(c)
      | None -> s in
    let yaml y = match List.assoc_opt y yamls with
      | Some r -> r
      | None -> (true, None, [], false, false, false) in
    let yaml_ok y = let (ok, _, _, _, _, _) = yaml y in ok in
    let yaml_err y = let (_, i, _, _, _, _) = yaml y in i in
    let yaml_bad y = let (_, _, b, _, _, _) = yaml y in b in
    let yaml_has y k =
      let (_, _, _, ht, hp, hc) = yaml y in
      if k = s_time then ht else if k = s_prep then hp else if k = s_cook then hc else false in
    let unit_class u = match List.assoc_opt u units with Some (c, _) -> n_of_int c | None -> N0 in
    let unit_pq u = match List.assoc_opt u units with
      | Some (_, p) when p > 0 -> Some (n_of_int p)
      | _ -> None in
    let std_check k v = match List.assoc_opt (k, v) metas with Some ok -> ok | None -> true in
    let is_alnum c = List.mem (int_of_n c) alnum in
    match adiag_U ext true ci_key yaml_ok unit_class yaml_err yaml_bad yaml_has std_check is_alnum unit_pq input with
    | None -> "panic"
    | Some (perr, ds) ->
        let one (e, ls) =
          (if e then "e" else "w") ^ ":" ^
          String.concat "," (List.map (fun (a, b) -> string_of_n a ^ "-" ^ string_of_n b) ls) in
        "D " ^ (if ds = [] then "-" else String.concat "|" (List.map one ds)) ^ " ;; P " ^ (if perr then "1" else "0"))
