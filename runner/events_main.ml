(* L-lex + L-ev model side. Case: <hex input> <ext bits>. *)
let () =
  drive (fun f ->
    let input = str_of_hex (List.nth f 0) in
    let ext = n_of_dec (List.nth f 1) in
    let cfg = mkcfg ext in
    let toks = match lex_U input with
      | None -> "panic"
      | Some [] -> "-"
      | Some ts -> String.concat "," (List.map (fun t ->
          kind_name t.kind ^ ":" ^ string_of_n t.tstart ^ "-" ^ string_of_n (tend t)) ts) in
    let evs = match events_U cfg input with Done e -> pevents e | Panic _ -> "panic" in
    let mevs = match meta_events_U cfg input with Done e -> pevents e | Panic _ -> "panic" in
    "T " ^ toks ^ " ;; E " ^ evs ^ " ;; M " ^ mevs)
