(* canonical rendering of model events: token for token the format of harness/src/evcanon.rs *)
let sp ((a, b) : n * n) = string_of_n a ^ "-" ^ string_of_n b

let text_span_ml (t : text) : n * n = text_span t

let ptext (t : text) : string =
  "T" ^ sp (text_span_ml t) ^ "[" ^
  String.concat "," (List.map (fun f ->
    (if f.fsoft then "~" else "") ^ hex_of_str f.ftext ^ "@" ^ string_of_n f.foff) t.frags) ^ "]"

let popt_text (o : text option) = match o with Some t -> ptext t | None -> "-"

let pnum (x : num) : string =
  match x with
  | NReg q -> "q:" ^ string_of_q q
  | NFrac (w, a, b) -> Printf.sprintf "F:%s:%s:%s" (string_of_n w) (string_of_n a) (string_of_n b)

let pvalue (v : value) : string =
  match v with
  | VNum x -> "N(" ^ pnum x ^ ")"
  | VRange (a, b) -> "R(" ^ pnum a ^ ";" ^ pnum b ^ ")"
  | VText s -> "X(" ^ hex_of_str s ^ ")"

let pqvalue (q : qvalue) : string =
  pvalue q.qv ^ "@" ^ sp q.qv_span ^ " lock=" ^ (match q.qlock with Some s -> sp s | None -> "-")

let pquantity (q : quantity) : string =
  "Q[" ^ pqvalue q.q_val ^ " unit=" ^ popt_text q.q_unit ^ " @" ^ sp q.q_span ^ "]"

let pevent (ev : pevent) : string =
  match ev with
  | EvYaml t -> "Y " ^ ptext t
  | EvMetadata (k, v) -> "M " ^ ptext k ^ " " ^ ptext v
  | EvSection o -> "S " ^ popt_text o
  | EvStart true -> "B1" | EvStart false -> "B0"
  | EvEnd true -> "E1" | EvEnd false -> "E0"
  | EvText t -> "X " ^ ptext t
  | EvIngredient i ->
      let inter = match i.i_inter with
        | None -> "-"
        | Some d -> (if d.im_relative then "r" else "n") ^ (if d.im_section then "s" else "t") ^ ":" ^
                    string_of_n d.im_val ^ "@" ^ sp d.im_span in
      Printf.sprintf "I mods=%s@%s inter=%s name=%s alias=%s qty=%s note=%s @%s"
        (string_of_n i.i_mods) (sp i.i_mods_span) inter (ptext i.i_name) (popt_text i.i_alias)
        (match i.i_qty with Some q -> pquantity q | None -> "-") (popt_text i.i_note) (sp i.i_span)
  | EvCookware c ->
      Printf.sprintf "C mods=%s@%s name=%s alias=%s qty=%s note=%s @%s"
        (string_of_n c.c_mods) (sp c.c_mods_span) (ptext c.c_name) (popt_text c.c_alias)
        (match c.c_qty with Some (q, s) -> "V[" ^ pqvalue q ^ " @" ^ sp s ^ "]" | None -> "-")
        (popt_text c.c_note) (sp c.c_span)
  | EvTimer t ->
      Printf.sprintf "R name=%s qty=%s @%s" (popt_text t.t_name)
        (match t.t_qty with Some q -> pquantity q | None -> "-") (sp t.t_span)
  | EvDiag d -> "D " ^ (if d.d_err then "e" else "w") ^ " " ^ String.concat "," (List.map sp d.d_labels)

let pevents (evs : pevent list) : string =
  if evs = [] then "-" else String.concat " | " (List.map pevent evs)

let kind_name (k : tkind) : string =
  match k with
  | KMeta -> "MetadataStart" | KTextStep -> "TextStep" | KColon -> "Colon" | KAt -> "At" | KHash -> "Hash"
  | KTilde -> "Tilde" | KQuestion -> "Question" | KPlus -> "Plus" | KMinus -> "Minus" | KSlash -> "Slash"
  | KStar -> "Star" | KAnd -> "And" | KOr -> "Or" | KEq -> "Eq" | KPercent -> "Percent"
  | KOpenBrace -> "OpenBrace" | KCloseBrace -> "CloseBrace" | KOpenParen -> "OpenParen"
  | KCloseParen -> "CloseParen" | KDot -> "Dot" | KInt -> "Int" | KZeroInt -> "ZeroInt"
  | KPunct -> "Punctuation" | KWord -> "Word" | KEscaped -> "Escaped" | KWs -> "Whitespace"
  | KNewline -> "Newline" | KLineComment -> "LineComment" | KBlockComment -> "BlockComment" | KEof -> "Eof"

(* configuration: `debug` / `release` and the repaired-code switches via PCFG env
   (letters: d = debug assertions, E = strict escape assert (old), N = old note label, F = fm anywhere (old)) *)
let mkcfg (ext : n) : pcfg =
  let s = match Sys.getenv_opt "PCFG" with Some s -> s | None -> "d" in
  let h c = String.contains s c in
  { p_ext = ext; p_debug = h 'd'; p_strict_escape = h 'E'; p_note_label_old = h 'N'; p_fm_anywhere = h 'F' }
