(* comment scanner, model side. Case: <hex input>. *)
let () =
  drive (fun f ->
    let input = str_of_hex (List.nth f 0) in
    let m = mask input in
    let s = String.concat "" (List.map (fun b -> if b then "1" else "0") m) in
    "K " ^ (if s = "" then "-" else s))
