(* L-conv model side; same case lines as harness/src/bin/conv.rs.  Numbers are read as
   `m:e` (m * 2^e) or `num/den`, printed as `num/den` (reduced).
   `RM <system> <recipe dump>`: Model/RecipeConvert.v on the dump the harness printed for an RC case
   (the model has no parser: it converts the recipe value the implementation built);
   output `<recipe dump after> | E <error kinds>`. *)
let q_of_tok (t : string) : q =
  match String.index_opt t ':' with
  | Some i -> q_of_m_e (String.sub t 0 i) (int_of_string (String.sub t (i + 1) (String.length t - i - 1)))
  | None -> q_of_frac t

let tok_of_q (x : q) : string = string_of_q (qred x)

let conv : converter =
  match bundled with
  | Done (Some c) -> c
  | Done None -> failwith "build_file: builder error on the regenerated units.toml"
  | Panic _ -> failwith "build_file: panic site reached"

let pq_name = function Volume -> "volume" | Mass -> "mass" | Length -> "length"
                     | Temperature -> "temperature" | Time -> "time"
let parse_pq = function "volume" -> Volume | "mass" -> Mass | "length" -> Length
                      | "temperature" -> Temperature | "time" -> Time | _ -> failwith "pq"
let sys_name = function Some Metric -> "metric" | Some Imperial -> "imperial" | None -> "none"
let parse_sys = function "metric" -> Metric | "imperial" -> Imperial | _ -> failwith "sys"
let err_name = function ENoUnit -> "nounit" | ETextValue _ -> "text" | EMixed _ -> "mixed"
                      | EBestNotFound _ -> "nobest" | EUnknownUnit _ -> "unknown"
let strs l = String.concat "," (List.map hex_of_str l)
let sym u : string = match symbol u with Done s -> hex_of_str s | Panic _ -> "panic"

let num_dump = function
  | Regular v -> "R(" ^ tok_of_q v ^ ")"
  | Fraction (w, n, d, e) ->
      Printf.sprintf "F(%s,%s,%s,%s)" (string_of_n w) (string_of_n n) (string_of_n d) (tok_of_q e)

let q_dump (q : quantity) : string =
  let v = match q.q_value with
    | VNumber n -> "n " ^ num_dump n
    | VRange (s, e) -> "r " ^ num_dump s ^ " " ^ num_dump e
    | VText t -> "t " ^ hex_of_str t in
  v ^ " " ^ (match q.q_unit with Some u -> hex_of_str u | None -> "-")

let parse_quantity kind a b unit : quantity =
  let value = match kind with
    | "n" -> VNumber (Regular (q_of_tok a))
    | "r" -> VRange (Regular (q_of_tok a), Regular (q_of_tok b))
    | "t" -> VText (str_of_hex a)
    | "f" -> (match String.split_on_char ',' a with
              | [w; n; d; e] -> VNumber (Fraction (n_of_dec w, n_of_dec n, n_of_dec d, q_of_tok e))
              | _ -> failwith "fraction")
    | _ -> failwith "kind" in
  { q_value = value; q_unit = (if unit = "-" then None else Some (str_of_hex unit)) }

let show_cv (r : (cvalue * uref) result outcome) : string =
  match r with
  | Panic _ -> "panic"
  | Done (Err e) -> "err " ^ err_name e
  | Done (Ok (CNum v, (_, u))) -> "ok " ^ tok_of_q v ^ " " ^ sym u
  | Done (Ok (CRange (s, e), (_, u))) -> "ok " ^ tok_of_q s ^ " " ^ tok_of_q e ^ " " ^ sym u

(* ---- ScaledRecipe::convert: the dump of harness/src/bin/conv.rs (recipe_dump), frames kept as strings ---- *)
let parse_number (t : string) : number =
  let n = String.length t in
  if n > 3 && t.[0] = 'R' && t.[1] = '(' then Regular (q_of_tok (String.sub t 2 (n - 3)))
  else if n > 3 && t.[0] = 'F' && t.[1] = '(' then
    (match String.split_on_char ',' (String.sub t 2 (n - 3)) with
     | [w; nu; d; e] -> Fraction (n_of_dec w, n_of_dec nu, n_of_dec d, q_of_tok e)
     | _ -> failwith "fraction token")
  else failwith ("number token: " ^ t)

let opt_unit u = if u = "-" then None else Some (str_of_hex u)

let parse_slot_quantity (l : string list) : quantity option =
  match l with
  | ["-"] -> None
  | ["n"; a; u] -> Some { q_value = VNumber (parse_number a); q_unit = opt_unit u }
  | ["r"; a; b; u] -> Some { q_value = VRange (parse_number a, parse_number b); q_unit = opt_unit u }
  | ["t"; x; u] -> Some { q_value = VText (str_of_hex x); q_unit = opt_unit u }
  | _ -> failwith "quantity slot"

let rec split_slots (toks : string list) (cur : string list) : string list list =
  match toks with
  | [] -> [List.rev cur]
  | "/" :: r -> List.rev cur :: split_slots r []
  | t :: r -> split_slots r (t :: cur)

let parse_recipe_dump (toks : string list) : (string, string, string) recipe =
  let r = ref { r_frame = ""; r_ingredients = []; r_cookware = []; r_timers = []; r_inline = [];
                r_data = DefaultScaling } in
  List.iter (fun slot ->
    match slot with
    | ["M"; h] -> r := { !r with r_frame = h }
    | "I" :: fr :: q ->
        r := { !r with r_ingredients = !r.r_ingredients @ [{ ig_frame = fr; ig_quantity = parse_slot_quantity q }] }
    | ["C"; fr] -> r := { !r with r_cookware = !r.r_cookware @ [{ ck_frame = fr; ck_quantity = None }] }
    | "T" :: nm :: q ->
        r := { !r with r_timers = !r.r_timers @ [{ tm_name = opt_unit nm; tm_quantity = parse_slot_quantity q }] }
    | "Q" :: q ->
        (match parse_slot_quantity q with
         | Some x -> r := { !r with r_inline = !r.r_inline @ [x] }
         | None -> failwith "inline slot")
    | _ -> failwith "recipe dump slot") (split_slots toks []);
  !r

let optq_dump = function None -> "-" | Some q -> q_dump q

let recipe_dump (r : (string, string, string) recipe) : string =
  String.concat " / "
    (("M " ^ r.r_frame)
     :: List.map (fun i -> "I " ^ i.ig_frame ^ " " ^ optq_dump i.ig_quantity) r.r_ingredients
     @ List.map (fun k -> "C " ^ k.ck_frame) r.r_cookware
     @ List.map (fun t -> "T " ^ (match t.tm_name with Some n -> hex_of_str n | None -> "-") ^ " "
                          ^ optq_dump t.tm_quantity) r.r_timers
     @ List.map (fun q -> "Q " ^ q_dump q) r.r_inline)

let () =
  drive (fun f ->
    match f with
    | ["D"; i] ->
        (match List.nth_opt conv.all_units (int_of_string i) with
         | None -> "none"
         | Some u -> Printf.sprintf "unit %s %s %s %s N%s S%s A%s" (pq_name u.u_pq) (sys_name u.u_sys)
                       (tok_of_q u.u_ratio) (tok_of_q u.u_diff) (strs u.u_names) (strs u.u_symbols)
                       (strs u.u_aliases))
    | ["B"; p; s] ->
        let l = conversions (conv.best (parse_pq p)) (parse_sys s) in
        "best " ^ String.concat "," (List.map (fun (_, id) ->
          match unit_at conv id with Done (_, u) -> sym u | Panic _ -> "panic") l)
    | ["C"; v; a; b] ->
        show_cv (conv_convert conv (CNum (q_of_tok v)) (CKey (str_of_hex a)) (ToUnit (CKey (str_of_hex b))))
    | ["R"; s; e; a; b] ->
        show_cv (conv_convert conv (CRange (q_of_tok s, q_of_tok e)) (CKey (str_of_hex a))
                   (ToUnit (CKey (str_of_hex b))))
    | ["T"; v; a; b; d] ->
        let one v x y = match conv_convert conv (CNum v) (CKey (str_of_hex x)) (ToUnit (CKey (str_of_hex y))) with
          | Done (Ok (CNum w, _)) -> Some w | _ -> None in
        let via = match one (q_of_tok v) a b with Some w -> one w b d | None -> None in
        (match via, one (q_of_tok v) a d with
         | Some x, Some y -> "ok " ^ tok_of_q x ^ " " ^ tok_of_q y
         | _ -> "err")
    | ["S"; v; a; s] ->
        show_cv (conv_convert conv (CNum (q_of_tok v)) (CKey (str_of_hex a)) (ToBest (parse_sys s)))
    | ["SR"; s; e; a; sy] ->
        show_cv (conv_convert conv (CRange (q_of_tok s, q_of_tok e)) (CKey (str_of_hex a)) (ToBest (parse_sys sy)))
    | "QC" :: kind :: a :: b :: unit :: [t] ->
        let q = parse_quantity kind a b unit in
        let to_ = if t.[0] = 'u' then ToUnit (CKey (str_of_hex ("x" ^ String.sub t 1 (String.length t - 1))))
                  else ToBest (parse_sys (String.sub t 1 (String.length t - 1))) in
        (match convert_impl new_approx conv q to_ with
         | Panic _ -> "panic"
         | Done (q', Ok _) -> "ok ; " ^ q_dump q'
         | Done (q', Err e) -> "err " ^ err_name e ^ " ; " ^ q_dump q')
    | "QF" :: kind :: a :: b :: [unit] ->
        let q = parse_quantity kind a b unit in
        (match fit new_approx conv q with
         | Panic _ -> "panic"
         | Done (q', Ok _) -> "ok ; " ^ q_dump q'
         | Done (q', Err e) -> "err " ^ err_name e ^ " ; " ^ q_dump q')
    | "RM" :: sy :: dump ->
        (* ScaledRecipe::convert on the recipe the implementation dumped *)
        (match recipe_convert new_approx conv (parse_sys sy) (parse_recipe_dump dump) with
         | Panic site -> "panic " ^ string_of_n site
         | Done (r', errs) ->
             recipe_dump r' ^ " | E " ^
             (if errs = [] then "-" else String.concat "," (List.map err_name errs)))
    | ["ST"; i] ->
        (match List.nth_opt standards_x (int_of_string i) with
         | None -> "none"
         | Some (((name, p), r), d) ->
             Printf.sprintf "std %s %s %s %s" (hex_of_str name) (pq_name p) (tok_of_q r) (tok_of_q d))
    | _ -> failwith "unknown case kind")
