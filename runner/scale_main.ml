(* L-scale model side.  Case line: `<ops> <scalable dump>` with the dump grammar of
   harness/src/bin/scale.rs (frames are opaque tokens, kept as OCaml strings); ops is a comma
   separated list of f<num> (scale; num = m:e or num/den) | s<n> (scale_to_servings) | d.
   `ST <i>` prints entry i of the hand-written standards table.
   Output: the scaled dumps of the operations joined by " ;; "; `nonfinite` for a zero servings
   base, `panic <site>` if the model reaches a panic site.  Numbers are printed as reduced num/den. *)
let q_of_tok (t : string) : q =
  match String.index_opt t ':' with
  | Some i -> q_of_m_e (String.sub t 0 i) (int_of_string (String.sub t (i + 1) (String.length t - i - 1)))
  | None -> q_of_frac t

let tok_of_q (x : q) : string = string_of_q (qred x)

let conv : converter =
  match bundled with
  | Done (Some c) -> c
  | Done None -> failwith "build_file: builder error on the regenerated units.toml"
  | Panic _ -> failwith "build_file: panic site reached"

(* ---- token stream ---- *)
let toks : string array ref = ref [||]
let pos = ref 0
let next () : string =
  if !pos >= Array.length !toks then failwith "dump: unexpected end";
  let t = !toks.(!pos) in incr pos; t
let peek () : string = if !pos >= Array.length !toks then "" else !toks.(!pos)

let parse_number (t : string) : number =
  let n = String.length t in
  if n > 3 && t.[0] = 'R' && t.[1] = '(' then Regular (q_of_tok (String.sub t 2 (n - 3)))
  else if n > 3 && t.[0] = 'F' && t.[1] = '(' then
    (match String.split_on_char ',' (String.sub t 2 (n - 3)) with
     | [w; nu; d; e] -> Fraction (n_of_dec w, n_of_dec nu, n_of_dec d, q_of_tok e)
     | _ -> failwith "fraction token")
  else failwith ("number token: " ^ t)

let parse_value () : value =
  match next () with
  | "n" -> VNumber (parse_number (next ()))
  | "r" -> let s = parse_number (next ()) in let e = parse_number (next ()) in VRange (s, e)
  | "t" -> VText (str_of_hex (next ()))
  | t -> failwith ("value kind: " ^ t)

let parse_opt_str () : str option =
  match next () with "-" -> None | t -> Some (str_of_hex t)

let parse_svalue () : svalue option =
  match next () with
  | "-" -> None
  | "L" -> Some (SLinear (parse_value ()))
  | "F" -> Some (SFixed (parse_value ()))
  | t -> failwith ("svalue kind: " ^ t)

let parse_squantity () : squantity option =
  match parse_svalue () with
  | None -> None
  | Some v -> let u = parse_opt_str () in Some { sq_value = v; sq_unit = u }

let count (letter : char) : int =
  let t = next () in
  if String.length t < 2 || t.[0] <> letter then failwith ("expected count " ^ String.make 1 letter ^ ": " ^ t);
  int_of_string (String.sub t 1 (String.length t - 1))

let rec times k f =
  if k <= 0 then [] else let x = f () in x :: times (k - 1) f

let parse_recipe () : (string, string, string) s_recipe =
  if next () <> "R" then failwith "dump must start with R";
  let servings = match next () with
    | "-" -> None
    | t -> let body = String.sub t 1 (String.length t - 1) in
           Some (if body = "" then [] else List.map n_of_dec (String.split_on_char ',' body)) in
  let mf = next () in
  let ni = count 'I' in
  let ings = times ni (fun () -> let fr = next () in let q = parse_squantity () in
                                 { si_frame = fr; si_quantity = q }) in
  let nc = count 'C' in
  let cws = times nc (fun () -> let fr = next () in let v = parse_svalue () in
                                { sc_frame = fr; sc_quantity = v }) in
  let nt = count 'T' in
  let tms = times nt (fun () -> let nm = parse_opt_str () in let q = parse_squantity () in
                                { st_name = nm; st_quantity = q }) in
  let nq = count 'Q' in
  let inl = times nq (fun () -> let v = parse_value () in let u = parse_opt_str () in
                                { q_value = v; q_unit = u }) in
  { sr_frame = mf; sr_ingredients = ings; sr_cookware = cws; sr_timers = tms; sr_inline = inl;
    sr_servings = servings }

(* ---- printing ---- *)
let num_dump = function
  | Regular v -> "R(" ^ tok_of_q v ^ ")"
  | Fraction (w, n, d, e) ->
      Printf.sprintf "F(%s,%s,%s,%s)" (string_of_n w) (string_of_n n) (string_of_n d) (tok_of_q e)

let value_dump = function
  | VNumber n -> "n " ^ num_dump n
  | VRange (s, e) -> "r " ^ num_dump s ^ " " ^ num_dump e
  | VText t -> "t " ^ hex_of_str t

let opt_hex = function Some u -> hex_of_str u | None -> "-"

let quantity_dump = function
  | None -> "-"
  | Some q -> value_dump q.q_value ^ " " ^ opt_hex q.q_unit

let outcomes l =
  "o" ^ String.concat "" (List.map (function OScaled -> "S" | OFixed -> "F" | ONoQuantity -> "N" | OError -> "E") l)

let scaled_dump (r : (string, string, string) recipe) : string =
  let data = match r.r_data with
    | DefaultScaling -> "default"
    | Scaled (f, oi, oc, ot) ->
        Printf.sprintf "scaled %s %s %s %s" (tok_of_q f) (outcomes oi) (outcomes oc) (outcomes ot) in
  let b = Buffer.create 4096 in
  let add s = Buffer.add_char b ' '; Buffer.add_string b s in
  Buffer.add_string b "D"; add data; add r.r_frame;
  add (Printf.sprintf "I%d" (List.length r.r_ingredients));
  List.iter (fun i -> add i.ig_frame; add (quantity_dump i.ig_quantity)) r.r_ingredients;
  add (Printf.sprintf "C%d" (List.length r.r_cookware));
  List.iter (fun c -> add c.ck_frame; add (match c.ck_quantity with None -> "-" | Some v -> value_dump v))
    r.r_cookware;
  add (Printf.sprintf "T%d" (List.length r.r_timers));
  List.iter (fun t -> add (opt_hex t.tm_name); add (quantity_dump t.tm_quantity)) r.r_timers;
  add (Printf.sprintf "Q%d" (List.length r.r_inline));
  List.iter (fun q -> add (value_dump q.q_value ^ " " ^ opt_hex q.q_unit)) r.r_inline;
  Buffer.contents b

let show = function
  | Done r -> scaled_dump r
  | Panic site -> if int_of_n site = 20 then "nonfinite" else "panic " ^ string_of_n site

let pq_name = function Volume -> "volume" | Mass -> "mass" | Length -> "length"
                     | Temperature -> "temperature" | Time -> "time"

let () =
  drive (fun f ->
    match f with
    | ["ST"; i] ->
        (* entry i of the hand-written standards table (coq/Model/Standards.v), for the monitor *)
        (match List.nth_opt standards_x (int_of_string i) with
         | None -> "none"
         | Some (((name, p), r), d) ->
             Printf.sprintf "std %s %s %s %s" (hex_of_str name) (pq_name p) (tok_of_q r) (tok_of_q d))
    | ops :: rest ->
        toks := Array.of_list rest; pos := 0;
        let r = parse_recipe () in
        if !pos <> Array.length !toks then failwith "dump: trailing tokens";
        String.concat " ;; " (List.map (fun op ->
          let body = String.sub op 1 (String.length op - 1) in
          match op.[0] with
          | 'f' -> show (scale new_approx conv (q_of_tok body) r)
          | 's' -> show (scale_to_servings new_approx conv (n_of_dec body) r)
          | 'd' -> show (Done (default_scale r))
          | _ -> failwith "unknown op") (String.split_on_char ',' ops))
    | _ -> failwith "empty case")
