(* C04 analysis labels, model side.  Case: <hex yaml text> <hex key>
   prints the result of the extracted yaml_find_key_position: `N` (None), the position, or `panic`. *)
let () =
  drive (fun f ->
    match f with
    | [y; k] ->
        (match yaml_find_key_position (str_of_hex y) (str_of_hex k) with
         | Panic _ -> "panic"
         | Done None -> "N"
         | Done (Some p) -> string_of_n p)
    | _ -> failwith "case: <hex yaml> <hex key>")
