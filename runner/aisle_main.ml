(* L-aisle model side. Case: <hex input> [cfgbits]; prints `P .. ; W .. ; L ..` *)
let canon_conf (c : cat list) : string =
  "ok" ^ String.concat "" (List.map (fun k ->
    " C" ^ hex_of_str k.cname ^
    String.concat "" (List.map (fun names ->
      " I" ^ String.concat "," (List.map hex_of_str names)) k.cings)) c)

let strict = ref true
let uni = ref false

let () =
  (match Sys.getenv_opt "AISLE_CFG" with
   | Some "fixed" -> strict := false; uni := true
   | Some "fixed_span" -> strict := false
   | _ -> ());
  drive (fun f ->
    let input = str_of_hex (List.hd f) in
    let c = { strict_end = !strict; uni_line = !uni } in
    match parse c input with
    | Panic _ -> "P panic ; W - ; L -"
    | Done (RErr e) ->
        let p = match e with
          | EParse (s, e) -> Printf.sprintf "eparse %s %s" (string_of_n s) (string_of_n e)
          | EDupCat (n, s1, e1, s2, e2) ->
              Printf.sprintf "edupcat %s %s %s %s %s" (hex_of_str n) (string_of_n s1) (string_of_n e1) (string_of_n s2) (string_of_n e2)
          | EDupIng (n, s1, e1, s2, e2) ->
              Printf.sprintf "eduping %s %s %s %s %s" (hex_of_str n) (string_of_n s1) (string_of_n e1) (string_of_n s2) (string_of_n e2) in
        "P " ^ p ^ " ; W - ; L -"
    | Done (ROk conf) ->
        let w = hex_of_str (write conf) in
        let ents = List.map (fun (k, (cat, common)) ->
          hex_of_str k ^ "=" ^ hex_of_str cat ^ "/" ^ hex_of_str common) (info conf) in
        let ents = List.sort compare ents in
        let l = if ents = [] then "-" else String.concat "," ents in
        "P " ^ canon_conf conf ^ " ; W " ^ w ^ " ; L " ^ l)
