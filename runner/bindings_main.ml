(* L-bind model side (formats: harness/bind/src/bin/bind.rs).  Cases:
     M <K sections> <KI> <KC> <KT> <KM>     a core recipe as dumped by the harness
        -> `B .. ; BI .. ; BC .. ; BT .. ; BM .. ; D .. ; R ..`   the view the model builds and its derefs
     C <ingredients> <indices>
        -> `C <selected> ; <all> ; <sub> ; L <list>`
   Numbers are printed as num/den. *)
let split c s = String.split_on_char c s
let after s i = String.sub s i (String.length s - i)
let list_of sep s = if s = "-" then [] else split sep s
let list_or_dash sep l = if l = [] then "-" else String.concat sep l

let q_of_tok (s : string) : q =
  match String.index_opt s '^' with
  | Some i -> q_of_m_e (String.sub s 0 i) (int_of_string (after s (i + 1)))
  | None -> q_of_frac s

let opt_hex s = if s = "-" then None else Some (str_of_hex s)
let hex_opt = function None -> "-" | Some s -> hex_of_str s

let cvalue_of_tok s =
  match split ':' s with
  | ["n"; a] -> CNum (q_of_tok a)
  | ["r"; a; b] -> CRange (q_of_tok a, q_of_tok b)
  | ["t"; h] -> CTextV (str_of_hex h)
  | _ -> failwith ("bad value " ^ s)

let cqty_of_tok s =
  if s = "-" then None
  else
    let i = String.rindex s '@' in
    Some { cq_val = cvalue_of_tok (String.sub s 0 i); cq_unit = opt_hex (after s (i + 1)) }

let cing_of_tok s =
  match split '|' s with
  | [n; q; note] -> { ci_name = str_of_hex n; ci_qty = cqty_of_tok q; ci_note = opt_hex note }
  | _ -> failwith ("bad ingredient " ^ s)

let ccw_of_tok s =
  match split '|' s with
  | [n; v] -> { cc_name = str_of_hex n; cc_qty = (if v = "-" then None else Some (cvalue_of_tok v)) }
  | _ -> failwith ("bad cookware " ^ s)

let ctm_of_tok s =
  match split '|' s with
  | [n; q] -> { ct_name = opt_hex n; ct_qty = cqty_of_tok q }
  | _ -> failwith ("bad timer " ^ s)

let citem_of_tok s =
  let r = after s 1 in
  match s.[0] with
  | 't' -> CIText (str_of_hex r)
  | 'i' -> CIIng (n_of_dec r)
  | 'c' -> CICw (n_of_dec r)
  | 'm' -> CITm (n_of_dec r)
  | 'q' -> CIInline (n_of_dec r)
  | _ -> failwith ("bad item " ^ s)

let ccontent_of_tok s =
  let r = after s 1 in
  match s.[0] with
  | 'S' -> CStepC (if r = "" then [] else List.map citem_of_tok (split '+' r))
  | 'T' -> CTextC (str_of_hex r)
  | _ -> failwith ("bad content " ^ s)

let csection_of_tok s =
  match split '~' s with
  | [t; c] -> { cs_name = opt_hex t; cs_content = List.map ccontent_of_tok (list_of ',' c) }
  | _ -> failwith ("bad section " ^ s)

let meta_of_tok s =
  match split '=' s with
  | [k; v] -> (opt_hex k, opt_hex v)
  | _ -> failwith ("bad metadata " ^ s)

(* ---- printing the view *)
let tok_of_bvalue = function
  | BNum a -> "n:" ^ string_of_q a
  | BRange (a, b) -> "r:" ^ string_of_q a ^ ":" ^ string_of_q b
  | BText t -> "t:" ^ hex_of_str t
  | BEmpty -> "e"

let tok_of_amount = function
  | None -> "-"
  | Some a -> tok_of_bvalue a.am_q ^ "@" ^ hex_opt a.am_units

let tok_of_bing i = hex_of_str i.bi_name ^ "|" ^ tok_of_amount i.bi_amount ^ "|" ^ hex_opt i.bi_descr
let tok_of_bcw c = hex_of_str c.bc_name ^ "|" ^ tok_of_amount c.bc_amount
let tok_of_btm t = hex_opt t.bt_name ^ "|" ^ tok_of_amount t.bt_amount

let tok_of_bitem = function
  | BIText s -> "t" ^ hex_of_str s
  | BIIng i -> "i" ^ string_of_n i
  | BICw i -> "c" ^ string_of_n i
  | BITm i -> "m" ^ string_of_n i

let refs l = String.concat "." (List.map string_of_n l)

let tok_of_block = function
  | BStepBlock st ->
      "S" ^ String.concat "+" (List.map tok_of_bitem st.bs_items) ^ "/" ^ refs st.bs_irefs ^ "/"
      ^ refs st.bs_crefs ^ "/" ^ refs st.bs_trefs
  | BNoteBlock t -> "T" ^ hex_of_str t

let tok_of_bsection s =
  hex_opt s.bsec_title ^ "~" ^ list_or_dash "," (List.map tok_of_block s.bsec_blocks) ^ "~" ^ refs s.bsec_irefs
  ^ "~" ^ refs s.bsec_crefs ^ "~" ^ refs s.bsec_trefs

let tok_of_component = function
  | BCIng i -> "I" ^ tok_of_bing i
  | BCCw c -> "C" ^ tok_of_bcw c
  | BCTm t -> "M" ^ tok_of_btm t
  | BCText s -> "X" ^ hex_of_str s

let out f = function Done a -> f a | Panic _ -> "P"

let run_m k ki kc kt km =
  let r = { cr_meta = List.map meta_of_tok (list_of ',' km);
            cr_sections = List.map csection_of_tok (list_of '!' k);
            cr_ings = List.map cing_of_tok (list_of ',' ki);
            cr_cws = List.map ccw_of_tok (list_of ',' kc);
            cr_tms = List.map ctm_of_tok (list_of ',' kt) } in
  let b = into_simple_recipe r in
  let meta = List.sort compare (List.map (fun (k, v) -> (hex_of_str k, hex_of_str v)) b.br_meta) in
  let d = List.concat_map (fun s ->
    List.concat_map (function
      | BStepBlock st -> List.map (fun it -> out tok_of_component (deref_component b it)) st.bs_items
      | BNoteBlock _ -> []) s.bsec_blocks) b.br_sections in
  let l = List.concat_map (fun s ->
    List.map (fun i -> out (fun x -> "I" ^ tok_of_bing x) (deref_ingredient b i)) s.bsec_irefs
    @ List.map (fun i -> out (fun x -> "C" ^ tok_of_bcw x) (deref_cookware b i)) s.bsec_crefs
    @ List.map (fun i -> out (fun x -> "M" ^ tok_of_btm x) (deref_timer b i)) s.bsec_trefs) b.br_sections in
  "B " ^ list_or_dash "!" (List.map tok_of_bsection b.br_sections)
  ^ " ; BI " ^ list_or_dash "," (List.map tok_of_bing b.br_ings)
  ^ " ; BC " ^ list_or_dash "," (List.map tok_of_bcw b.br_cws)
  ^ " ; BT " ^ list_or_dash "," (List.map tok_of_btm b.br_tms)
  ^ " ; BM " ^ list_or_dash "," (List.map (fun (k, v) -> k ^ "=" ^ v) meta)
  ^ " ; D " ^ list_or_dash "," d ^ " ; R " ^ list_or_dash "," l

(* ---- combining *)
let kind_char = function QTNumber -> "n" | QTRange -> "r" | QTText -> "t" | QTEmpty -> "e"

let tok_of_ilist (l : (n list * (gkey * bvalue) list) list) =
  let ents = List.sort compare (List.map (fun (n, g) ->
    let ks = List.sort compare (List.map (fun (k, v) -> (hex_of_str k.gk_name, kind_char k.gk_type, tok_of_bvalue v)) g) in
    (hex_of_str n, list_or_dash "," (List.map (fun (u, k, v) -> u ^ "/" ^ k ^ "/" ^ v) ks))) l) in
  list_or_dash "+" (List.map (fun (n, g) -> n ^ "=" ^ g) ents)

let show = function
  | Done l -> tok_of_ilist l
  | Panic s -> if is_type_site s then "panic:type" else "panic:index"

let run_c ings idx =
  let ings = List.map (fun t -> ing_from (cing_of_tok t)) (list_of ',' ings) in
  let idx = List.map int_of_string (list_of '.' idx) in
  let n = List.length ings in
  let sub =
    if List.for_all (fun i -> i < n) idx then show (combine_ingredients (List.map (fun i -> List.nth ings i) idx))
    else "-" in
  "C " ^ show (combine_ingredients_selected ings (List.map n_of_int idx)) ^ " ; " ^ show (combine_ingredients ings)
  ^ " ; " ^ sub ^ " ; L " ^ list_or_dash "," (List.map tok_of_bing ings)

let () =
  drive (fun f ->
    match f with
    | ["M"; k; ki; kc; kt; km] -> run_m k ki kc kt km
    | ["C"; ings; idx] -> run_c ings idx
    | _ -> failwith "bad case")
