(* Trusted glue for models that use Z and Q (appended after common_n.ml).
   The extracted module must define: positive (XI|XO|XH), z (Z0|Zpos|Zneg),
   q ({ qnum : z; qden : positive }).  Arbitrary size, no OCaml int overflow. *)

(* decimal string -> little-endian bit list *)
let bits_of_dec (s : string) : int list =
  let digits = ref (List.init (String.length s) (fun i -> Char.code s.[i] - 48)) in
  let bits = ref [] in
  let is_zero l = List.for_all (fun d -> d = 0) l in
  while not (is_zero !digits) do
    let rem = ref 0 in
    digits := List.map (fun d -> let v = !rem * 10 + d in rem := v mod 2; v / 2) !digits;
    bits := !rem :: !bits
  done;
  List.rev !bits

let rec pos_of_bits (b : int list) : positive =   (* little endian, top bit = 1 *)
  match b with
  | [] -> XH
  | [1] -> XH
  | 0 :: r -> XO (pos_of_bits r)
  | _ :: r -> XI (pos_of_bits r)

let pos_of_dec (s : string) : positive = pos_of_bits (bits_of_dec s)

let z_of_dec (s : string) : z =
  let neg = String.length s > 0 && s.[0] = '-' in
  let body = if neg || (String.length s > 0 && s.[0] = '+') then String.sub s 1 (String.length s - 1) else s in
  let bits = bits_of_dec body in
  if bits = [] then Z0 else if neg then Zneg (pos_of_bits bits) else Zpos (pos_of_bits bits)

let n_of_dec (s : string) : n =
  let bits = bits_of_dec s in if bits = [] then N0 else Npos (pos_of_bits bits)

let string_of_z (x : z) : string =
  match x with Z0 -> "0" | Zpos p -> string_of_pos p | Zneg p -> "-" ^ string_of_pos p

let rec shift_pos (p : positive) (k : int) : positive = if k <= 0 then p else shift_pos (XO p) (k - 1)

(* the exact rational m * 2^e *)
let q_of_m_e (m : string) (e : int) : q =
  let zm = z_of_dec m in
  if e >= 0 then
    { qnum = (match zm with Z0 -> Z0 | Zpos p -> Zpos (shift_pos p e) | Zneg p -> Zneg (shift_pos p e)); qden = XH }
  else { qnum = zm; qden = shift_pos XH (-e) }

(* "num/den" (not normalised; compare as fractions on the other side) *)
let string_of_q (x : q) : string = string_of_z x.qnum ^ "/" ^ string_of_pos x.qden

(* "num/den" or "num" -> q *)
let q_of_frac (s : string) : q =
  match String.index_opt s '/' with
  | None -> { qnum = z_of_dec s; qden = XH }
  | Some i -> { qnum = z_of_dec (String.sub s 0 i);
                qden = pos_of_dec (String.sub s (i + 1) (String.length s - i - 1)) }
