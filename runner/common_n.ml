(* Trusted glue shared by all runner drivers: conversions between OCaml ints /
   bytes and the extracted Coq datatypes (positive, n), hex and UTF-8. *)
let rec pos_of_int (i : int) : positive =
  if i <= 1 then XH
  else if i land 1 = 0 then XO (pos_of_int (i lsr 1))
  else XI (pos_of_int (i lsr 1))

let n_of_int (i : int) : n = if i <= 0 then N0 else Npos (pos_of_int i)

let rec int_of_pos (p : positive) : int =
  match p with XH -> 1 | XO q -> 2 * int_of_pos q | XI q -> 2 * int_of_pos q + 1

let int_of_n (x : n) : int = match x with N0 -> 0 | Npos p -> int_of_pos p

(* decimal string of an arbitrarily large positive / n *)
let rec pos_to_bits (p : positive) : int list =   (* little endian bits *)
  match p with XH -> [1] | XO q -> 0 :: pos_to_bits q | XI q -> 1 :: pos_to_bits q

let dec_of_bits (bits : int list) : string =
  (* digits little endian in base 10^9 would be overkill; simple base-10 array *)
  let digits = ref [0] in
  let double_add b =
    let carry = ref b in
    digits := List.map (fun d -> let v = 2 * d + !carry in carry := v / 10; v mod 10) !digits;
    if !carry > 0 then digits := !digits @ [!carry] in
  List.iter double_add (List.rev bits);
  String.concat "" (List.rev_map string_of_int !digits)

let string_of_pos p = dec_of_bits (pos_to_bits p)
let string_of_n x = match x with N0 -> "0" | Npos p -> string_of_pos p

let hex_digit c =
  match c with
  | '0'..'9' -> Char.code c - 48
  | 'a'..'f' -> Char.code c - 87
  | _ -> failwith "bad hex"

let unhex_bytes (s : string) : int list =
  if String.length s = 0 || s.[0] <> 'x' then failwith "hex field must start with x";
  let n = (String.length s - 1) / 2 in
  List.init n (fun i -> 16 * hex_digit s.[1 + 2 * i] + hex_digit s.[2 + 2 * i])

(* UTF-8 bytes -> code points (input is valid UTF-8 by construction) *)
let rec decode_utf8 (b : int list) : int list =
  match b with
  | [] -> []
  | c :: r when c < 0x80 -> c :: decode_utf8 r
  | c :: c1 :: r when c < 0xe0 -> (((c land 0x1f) lsl 6) lor (c1 land 0x3f)) :: decode_utf8 r
  | c :: c1 :: c2 :: r when c < 0xf0 ->
      (((c land 0x0f) lsl 12) lor ((c1 land 0x3f) lsl 6) lor (c2 land 0x3f)) :: decode_utf8 r
  | c :: c1 :: c2 :: c3 :: r ->
      (((c land 0x07) lsl 18) lor ((c1 land 0x3f) lsl 12) lor ((c2 land 0x3f) lsl 6) lor (c3 land 0x3f))
      :: decode_utf8 r
  | _ -> failwith "truncated UTF-8"

let encode_utf8 (cps : int list) : int list =
  List.concat_map (fun c ->
    if c < 0x80 then [c]
    else if c < 0x800 then [0xc0 lor (c lsr 6); 0x80 lor (c land 0x3f)]
    else if c < 0x10000 then [0xe0 lor (c lsr 12); 0x80 lor ((c lsr 6) land 0x3f); 0x80 lor (c land 0x3f)]
    else [0xf0 lor (c lsr 18); 0x80 lor ((c lsr 12) land 0x3f); 0x80 lor ((c lsr 6) land 0x3f); 0x80 lor (c land 0x3f)])
    cps

let str_of_hex (s : string) : n list = List.map n_of_int (decode_utf8 (unhex_bytes s))

let hex_of_str (s : n list) : string =
  let b = encode_utf8 (List.map int_of_n s) in
  let buf = Buffer.create (1 + 2 * List.length b) in
  Buffer.add_char buf 'x';
  List.iter (fun c -> Buffer.add_string buf (Printf.sprintf "%02x" c)) b;
  Buffer.contents buf

let split_fields (line : string) : string list = String.split_on_char ' ' line

let drive (f : string list -> string) : unit =
  let ic = if Array.length Sys.argv > 1 && Sys.argv.(1) <> "-" then open_in Sys.argv.(1) else stdin in
  (try
     while true do
       let line = input_line ic in
       if line <> "" then print_endline (f (split_fields line))
     done
   with End_of_file -> ());
  flush stdout
