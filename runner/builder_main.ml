(* L-build model side.
   Case: `<n> F ... F ...` (the files exactly as the harness printed them, hash maps in the
   iteration order the implementation saw).  Prints `R <outcome> ; D <dump|->`.
   BUILDER_CFG=old selects the behaviour before the repair of BestConversions::new. *)
let rec nat_of_int (i : int) : nat = if i <= 0 then O else S (nat_of_int (i - 1))
let rec int_of_nat (x : nat) : int = match x with O -> 0 | S y -> 1 + int_of_nat y

let toks : string array ref = ref [||]
let pos = ref 0
let next () = let t = !toks.(!pos) in incr pos; t
let peek () = !toks.(!pos)

let rd_int () = int_of_string (next ())
let rd_q () = let m = next () in let e = rd_int () in q_of_m_e m e
let rd_list (f : unit -> 'a) : 'a list = let n = rd_int () in List.init n (fun _ -> f ())
let rd_str () = str_of_hex (next ())
let rd_strs () = rd_list rd_str
let rd_bool () = next () = "1"
let rd_opt (f : unit -> 'a) : 'a option = if peek () = "-" then (ignore (next ()); None) else Some (f ())
let rd_pq () = match next () with
  | "V" -> Volume | "M" -> Mass | "L" -> Length | "T" -> Temperature | "H" -> Time
  | s -> failwith ("quantity " ^ s)
let rd_prec () = match next () with
  | "b" -> Before | "a" -> After | "o" -> Override | s -> failwith ("precedence " ^ s)

let rd_table () : ptable =
  (match next () with "T" -> () | s -> failwith ("table " ^ s));
  let k = rd_strs () in let h = rd_strs () in let da = rd_strs () in
  let d = rd_strs () in let c = rd_strs () in let m = rd_strs () in
  (fun p -> match p with Kilo -> k | Hecto -> h | Deca -> da | Deci -> d | Centi -> c | Milli -> m)

let rd_fw () : frac_wrapper =
  match next () with
  | "t" -> FToggle (rd_bool ())
  | "c" ->
      let en = rd_opt rd_bool in
      let acc = rd_opt (fun () -> ignore (next ()); rd_q ()) in
      let md = rd_opt (fun () -> n_of_dec (next ())) in
      let mw = rd_opt (fun () -> n_of_dec (next ())) in
      FCustom { fh_enabled = en; fh_accuracy = acc; fh_max_den = md; fh_max_whole = mw }
  | s -> failwith ("fraction wrapper " ^ s)

let rd_oq () = rd_opt (fun () -> ignore (next ()); rd_q ())
let rd_ostrs () = rd_opt (fun () -> ignore (next ()); rd_strs ())

let rd_ue () : unit_entry =
  let ns = rd_strs () in let ss = rd_strs () in let al = rd_strs () in
  let r = rd_q () in let d = rd_q () in let x = rd_bool () in
  { ue_names = ns; ue_symbols = ss; ue_aliases = al; ue_ratio = r; ue_difference = d; ue_expand_si = x }

let rd_file () : units_file =
  (match next () with "F" -> () | s -> failwith ("file " ^ s));
  let ds = rd_opt (fun () -> match next () with "m" -> Metric | _ -> Imperial) in
  let si = rd_opt (fun () ->
    ignore (next ());
    let p = rd_opt rd_table in
    let s = rd_opt rd_table in
    let pr = rd_prec () in
    { si_prefixes = p; si_symbol_prefixes = s; si_prec = pr }) in
  let fr = rd_opt (fun () ->
    ignore (next ());
    let a = rd_opt rd_fw in let m = rd_opt rd_fw in let i = rd_opt rd_fw in
    let qs = rd_list (fun () -> let q = rd_pq () in let w = rd_fw () in (q, w)) in
    let us = rd_list (fun () -> let k = rd_str () in let w = rd_fw () in (k, w)) in
    { fr_all = a; fr_metric = m; fr_imperial = i; fr_quantity = qs; fr_unit = us }) in
  let ex = rd_opt (fun () ->
    ignore (next ());
    let pr = rd_prec () in
    let us = rd_list (fun () ->
      let k = rd_str () in
      let r = rd_oq () in let d = rd_oq () in
      let ns = rd_ostrs () in let ss = rd_ostrs () in let al = rd_ostrs () in
      (k, { xe_ratio = r; xe_difference = d; xe_names = ns; xe_symbols = ss; xe_aliases = al })) in
    { ex_prec = pr; ex_units = us }) in
  let gs = rd_list (fun () ->
    let q = rd_pq () in
    let best = rd_opt (fun () ->
      match next () with
      | "u" -> BUnified (rd_strs ())
      | _ -> let m = rd_strs () in let i = rd_strs () in BBySystem (m, i)) in
    let units = rd_opt (fun () ->
      match next () with
      | "u" -> UUnified (rd_list rd_ue)
      | _ -> let m = rd_list rd_ue in let i = rd_list rd_ue in let u = rd_list rd_ue in UBySystem (m, i, u)) in
    { qg_quantity = q; qg_best = best; qg_units = units }) in
  { uf_default_system = ds; uf_si = si; uf_fractions = fr; uf_extend = ex; uf_quantity = gs }

(* ---- output *)
let pq_code = function Volume -> "V" | Mass -> "M" | Length -> "L" | Temperature -> "T" | Time -> "H"
let pq_rank = function Volume -> 0 | Mass -> 1 | Length -> 2 | Temperature -> 3 | Time -> 4
let out_q (x : q) = string_of_z x.qnum ^ " " ^ string_of_pos x.qden
let out_strs (l : str list) = String.concat " " (string_of_int (List.length l) :: List.map hex_of_str l)
let out_cfg (c : fcfg) =
  Printf.sprintf "%s %s %s %s" (if c.fc_enabled then "1" else "0") (out_q c.fc_accuracy)
    (string_of_n c.fc_max_den) (string_of_n c.fc_max_whole)
let out_ocfg = function None -> "-" | Some c -> "c " ^ out_cfg c
let out_best (l : (q * nat) list) =
  String.concat " " (string_of_int (List.length l) ::
    List.map (fun (th, id) -> out_q th ^ " " ^ string_of_int (int_of_nat id)) l)

let dump (c : converter) : string =
  let b = Buffer.create 4096 in
  let add s = Buffer.add_string b s; Buffer.add_char b ' ' in
  add "U"; add (string_of_int (List.length c.c_units));
  List.iter (fun u ->
    add (out_strs u.names); add (out_strs u.symbols); add (out_strs u.aliases);
    add (out_q u.ratio); add (out_q u.difference); add (pq_code u.quantity);
    add (match u.usystem with None -> "-" | Some Metric -> "m" | Some Imperial -> "i")) c.c_units;
  let ents = List.map (fun (k, id) -> (hex_of_str k, int_of_nat id)) c.c_index in
  (* same order as the harness: byte order of the UTF-8 keys = order of the hex strings *)
  let ents = List.sort compare ents in
  add "I"; add (string_of_int (List.length ents));
  List.iter (fun (k, id) -> add k; add (string_of_int id)) ents;
  add "Q";
  List.iter (fun q ->
    let l = c.c_qindex q in
    add (pq_code q); add (string_of_int (List.length l));
    List.iter (fun i -> add (string_of_int (int_of_nat i))) l) all_pq;
  add "B";
  List.iter (fun q ->
    add (pq_code q);
    match c.c_best q with
    | SUnified l -> add "u"; add (out_best l)
    | SBySystem (m, i) -> add "s"; add (out_best m); add (out_best i)) all_pq;
  let f = c.c_fractions in
  add "R"; add (out_ocfg f.cf_all); add (out_ocfg f.cf_metric); add (out_ocfg f.cf_imperial);
  let qs = List.sort compare (List.map (fun (q, cf) -> (pq_code q, out_cfg cf)) f.cf_quantity) in
  add (string_of_int (List.length qs));
  List.iter (fun (q, s) -> add q; add s) qs;
  let us = List.sort compare (List.map (fun (id, cf) -> (int_of_nat id, out_cfg cf)) f.cf_unit) in
  add (string_of_int (List.length us));
  List.iter (fun (id, s) -> add (string_of_int id); add s) us;
  add "S"; Buffer.add_string b (match c.c_default with Metric -> "m" | Imperial -> "i");
  Buffer.contents b

let err_line (e : berr) : string =
  match e with
  | EDuplicateUnit n -> "err DuplicateUnit " ^ hex_of_str n
  | EDuplicateExtendUnit k -> "err DuplicateExtendUnit " ^ hex_of_str k
  | EInvalidExtendExpanded k -> "err InvalidExtendExpanded " ^ hex_of_str k
  | EUnknownUnit k -> "err UnknownUnit " ^ hex_of_str k
  | EEmptyUnit -> "err EmptyUnit -"
  | EEmptyUnitKey -> "err EmptyUnitKey -"
  | EEmptyBest q -> "err EmptyBest " ^ pq_code q
  | EEmptySIPrefixes -> "err EmptySIPrefixes -"
  | EBestUnitQuantity (k, q) -> "err BestUnitQuantity " ^ hex_of_str k

let () =
  let c = match Sys.getenv_opt "BUILDER_CFG" with Some "old" -> cfg_old | _ -> cfg_new in
  drive (fun f ->
    toks := Array.of_list f;
    pos := 0;
    let n = rd_int () in
    let files = List.init n (fun _ -> rd_file ()) in
    match build c files with
    | Panic s -> "R panic " ^ string_of_n s ^ " ; D -"
    | Done (RErr e) -> "R " ^ err_line e ^ " ; D -"
    | Done (ROk conv) -> "R ok ; D " ^ dump conv)
