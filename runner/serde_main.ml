(* L-serde model side.
   R <S|C> <dump tokens> <json tokens>   dump of the recipe (harness/src/bin/serde.rs) and the JSON tree
                                          serde_json produced for it (`-` when serialisation failed)
     -> W <typed 0|1|unres:why> ;; S <json tokens of ser d v | -> ;; D <acc|rej|-> ;; N <0|1|-> ;; R <0|1|->
        D/N/R: de d (implementation's JSON) accepted; equals norm d v; re-serialises to the same JSON
   M <S|C> <json tokens>                  -> acc <json tokens of ser d (de d j)> | rej
   The dump names struct fields and enum variants by their Rust identifiers; [resolve] puts them in
   the order of the regenerated descriptor (trusted glue). *)
type nv = NU | NO of int | NB of bool | NN of string | NS of string | Nn | Ns of nv | NL of nv list
        | NR of (string * nv) list | NV of string * nv | NF of string list | NY of yaml

exception Unres of string

let toks : string array ref = ref [||]
let pos = ref 0
let next () =
  if !pos >= Array.length !toks then raise (Unres "truncated");
  let t = !toks.(!pos) in incr pos; t
let rest t k = String.sub t k (String.length t - k)
let rec rep k f = if k <= 0 then [] else let x = f () in x :: rep (k - 1) f
let str_of_ascii (s : string) : n list = List.init (String.length s) (fun i -> n_of_int (Char.code s.[i]))
let ascii_of_str (s : n list) : string = String.concat "" (List.map (fun c -> String.make 1 (Char.chr (int_of_n c))) s)
let rec nat_of_int i = if i <= 0 then O else S (nat_of_int (i - 1))

let rec p_yaml () : yaml =
  let t = next () in
  if String.length t < 2 || t.[0] <> 'y' then raise (Unres ("yaml token " ^ t));
  match t.[1] with
  | 'n' -> YNull
  | 'b' -> YBool (t.[2] = '1')
  | 'N' -> YNum (str_of_ascii (rest t 2))
  | 'S' -> YStr (str_of_hex (rest t 2))
  | 'L' -> YSeq (rep (int_of_string (rest t 2)) p_yaml)
  | 'M' -> YMap (rep (int_of_string (rest t 2)) (fun () -> let k = p_yaml () in let v = p_yaml () in (k, v)))
  | 'T' -> let tag = str_of_hex (rest t 2) in let y = p_yaml () in YTag (tag, y)
  | _ -> raise (Unres ("yaml token " ^ t))

let rec p_nv () : nv =
  let t = next () in
  match t.[0] with
  | 'U' -> NU
  | 'O' -> NO (int_of_string (rest t 1))
  | 'B' -> NB (t.[1] = '1')
  | 'N' -> NN (rest t 1)
  | 'S' -> NS (rest t 1)
  | 'n' -> Nn
  | 's' -> Ns (p_nv ())
  | 'L' -> NL (rep (int_of_string (rest t 1)) p_nv)
  | 'R' -> NR (rep (int_of_string (rest t 1)) (fun () -> let name = next () in let v = p_nv () in (name, v)))
  | 'V' -> let v = p_nv () in NV (rest t 1, v)
  | 'F' -> NF (rep (int_of_string (rest t 1)) next)
  | 'Y' -> NY (p_yaml ())
  | _ -> raise (Unres ("token " ^ t))

let rec p_json () : json =
  let t = next () in
  if String.length t < 2 || t.[0] <> 'j' then raise (Unres ("json token " ^ t));
  match t.[1] with
  | 'n' -> JNull
  | 't' -> JBool true
  | 'f' -> JBool false
  | 'N' -> JNum (str_of_ascii (rest t 2))
  | 'S' -> JStr (str_of_hex (rest t 2))
  | 'A' -> JArr (rep (int_of_string (rest t 2)) p_json)
  | 'O' -> JObj (rep (int_of_string (rest t 2)) (fun () -> let k = str_of_hex (next ()) in let v = p_json () in (k, v)))
  | _ -> raise (Unres ("json token " ^ t))

let rec json_tokens (b : Buffer.t) (j : json) : unit =
  let add s = if Buffer.length b > 0 then Buffer.add_char b ' '; Buffer.add_string b s in
  match j with
  | JNull -> add "jn"
  | JBool true -> add "jt"
  | JBool false -> add "jf"
  | JNum a -> add ("jN" ^ ascii_of_str a)
  | JStr s -> add ("jS" ^ hex_of_str s)
  | JArr l -> add ("jA" ^ string_of_int (List.length l)); List.iter (json_tokens b) l
  | JObj m -> add ("jO" ^ string_of_int (List.length m));
      List.iter (fun (k, v) -> add (hex_of_str k); json_tokens b v) m

let show_json j = let b = Buffer.create 256 in json_tokens b j; Buffer.contents b

let rec resolve (d : desc) (v : nv) : val0 =
  match d, v with
  | DUnit, NU -> VUnit
  | DSkip _, NO k -> VOpaque (n_of_int k)
  | DBool, NB b -> VBool b
  | DNum _, NN t -> VNum (str_of_ascii t)
  | DStr, NS h -> VStr (str_of_hex h)
  | DOpt _, Nn -> VNone
  | DOpt d', Ns x -> VSome (resolve d' x)
  | DSeq d', NL l -> VSeq (List.map (resolve d') l)
  | DNew d', x -> resolve d' x
  | DStruct fs, NR l ->
      if List.length fs <> List.length l then raise (Unres "struct arity");
      VRec (List.map (fun (((raw, _), _), d') ->
        let name = ascii_of_str raw in
        match List.assoc_opt name l with
        | Some x -> resolve d' x
        | None -> raise (Unres ("field " ^ name))) fs)
  | DEnum (_, vs), NV (name, p) ->
      let rec find i = function
        | [] -> raise (Unres ("variant " ^ name))
        | ((raw, _), pd) :: r -> if ascii_of_str raw = name then VVar (nat_of_int i, resolve pd p) else find (i + 1) r in
      find 0 vs
  | DFlags fl, NF names ->
      let known = List.map (fun (n, _) -> ascii_of_str n) fl in
      List.iter (fun n -> if not (List.mem n known) then raise (Unres ("flag " ^ n))) names;
      VFlags (List.map (fun k -> List.mem k names) known)
  | DYaml _, NY y -> VYaml y
  | _, _ -> raise (Unres "shape")

let root k = if k = "S" then scalable_recipe else scaled_recipe

let () =
  drive (fun f ->
    toks := Array.of_list f; pos := 0;
    try
      let mode = next () in
      let d = root (next ()) in
      if mode = "M" then begin
        let j = p_json () in
        match de d j with
        | None -> "rej"
        | Some v -> (match ser d v with Some j' -> "acc " ^ show_json j' | None -> "acc -")
      end else begin
        let named = p_nv () in
        let ij = if !toks.(!pos) = "-" then None else Some (p_json ()) in
        match (try Ok (resolve d named) with Unres why -> Error why) with
        | Error why -> "W unres:" ^ why ^ " ;; S - ;; D - ;; N - ;; R -"
        | Ok v ->
            let w = if typedb d v then "1" else "0" in
            let s = match ser d v with Some j -> show_json j | None -> "-" in
            let dd, nn, rr = match ij with
              | None -> "-", "-", "-"
              | Some j ->
                  (match de d j with
                   | None -> "rej", "-", "-"
                   | Some v' ->
                       "acc", (if v' = norm d v then "1" else "0"),
                       (match ser d v' with Some j' -> if j' = j then "1" else "0" | None -> "0")) in
            "W " ^ w ^ " ;; S " ^ s ^ " ;; D " ^ dd ^ " ;; N " ^ nn ^ " ;; R " ^ rr
      end
    with Unres why -> "W unres:" ^ why ^ " ;; S - ;; D - ;; N - ;; R -"
       | Failure why -> "W unres:" ^ why ^ " ;; S - ;; D - ;; N - ;; R -")
