(* L-rec model side for C06.
   Case: <hex input> <ext bits> <cfg 0=before the repairs|1=repaired> <events...> OR <oracles...>
   (events and oracles exactly as printed by harness/src/bin/analysis.rs).
   Prints `R valid=<b> <structure>` | `R none` | `R panic<site>` (a quantity of the structure is one token
   `<t|n><f|l><unit hex or ->:<value>`, value = `n:<m>:<e>` | `r:<m>:<e>:<m>:<e>` | `t:<hex>`), plus ` ;; G <0|1>` = the
   event sequence is parser_shaped, plus ` ;; P <0|1|->` = the decision procedure of the C06
   statement (recipe_ok_b, and valid_tbl_b of both tables when valid; proved equivalent to
   recipe_ok / valid_tbl in Proofs/AnalysisProofs.v) on the model's recipe.
   Second kind of case: D <valid 0|1> <recipe dump of the harness> OR <oracles...>
   prints `P <0|1>` = the same decision procedure on the dumped recipe (what the implementation
   returned, or a damaged copy of it in the monitor self-test). *)
let toks : string list ref = ref []
let next () : string =
  match !toks with
  | [] -> failwith "case truncated"
  | t :: r -> toks := r; t
let next_int () : int = int_of_string (next ())
let next_n () : n = n_of_dec (next ())

let rec nat_of_int (i : int) : nat = if i <= 0 then O else S (nat_of_int (i - 1))
let rec int_of_nat (x : nat) : int = match x with O -> 0 | S y -> 1 + int_of_nat y

let rec repeat (k : int) (f : unit -> 'a) : 'a list =
  if k <= 0 then [] else let a = f () in a :: repeat (k - 1) f

let p_text () : text =
  let off = next_n () in
  let k = next_int () in
  let fr = repeat k (fun () ->
    let soft = next () = "1" in
    let tx = str_of_hex (next ()) in
    let o = next_n () in
    { ftext = tx; foff = o; fsoft = soft }) in
  { toff = off; frags = fr }

let p_opt_text () : text option =
  if next () = "1" then Some (p_text ()) else None

let p_num () : q =
  let m = next () in
  let e = next_int () in
  if m = "nan" || m = "inf" || m = "-inf" then { qnum = Z0; qden = XH } else q_of_m_e m e

let p_qvalue () : pqvalue =
  let v = match next () with
    | "n" -> VNumber (p_num ())
    | "r" -> let a = p_num () in let b = p_num () in VRange (a, b)
    | "t" -> VText (str_of_hex (next ()))
    | _ -> failwith "bad value kind" in
  let lock = next () = "1" in
  { qv_value = v; qv_lock = lock }

let p_quantity () : pquantity option =
  if next () = "1" then
    let v = p_qvalue () in
    let u = p_opt_text () in
    Some { pq_value = v; pq_unit = u }
  else None

let p_kind () : block_kind = if next () = "1" then BKStep else BKText

let p_event () : event =
  match next () with
  | "Y" -> EYaml (p_text ())
  | "M" -> let k = p_text () in let v = p_text () in EMetadata (k, v)
  | "S" -> ESection (p_opt_text ())
  | "B" -> EStart (p_kind ())
  | "E" -> EEnd (p_kind ())
  | "X" -> EText (p_text ())
  | "I" ->
      let a = next_n () in let b = next_n () in
      let mods = mods_of_bits (next_n ()) in
      let inter =
        if next () = "1" then
          let mode = if next () = "1" then RMRelative else RMNumber in
          let kind = if next () = "1" then TKSection else TKStep in
          let v = z_of_dec (next ()) in
          Some { ir_mode = mode; ir_kind = kind; ir_val = v }
        else None in
      let name = p_text () in
      let alias = p_opt_text () in
      let qty = p_quantity () in
      let note = p_opt_text () in
      EIngredient { pi_span = (a, b); pi_mods = mods; pi_inter = inter; pi_name = name;
                    pi_alias = alias; pi_quantity = qty; pi_note = note }
  | "C" ->
      let a = next_n () in let b = next_n () in
      let mods = mods_of_bits (next_n ()) in
      let name = p_text () in
      let alias = p_opt_text () in
      let qty = if next () = "1" then Some (p_qvalue ()) else None in
      let note = p_opt_text () in
      ECookware { pc_span = (a, b); pc_mods = mods; pc_name = name; pc_alias = alias;
                  pc_quantity = qty; pc_note = note }
  | "R" ->
      let a = next_n () in let b = next_n () in
      let name = p_opt_text () in
      let qty = p_quantity () in
      ETimer { pt_span = (a, b); pt_name = name; pt_quantity = qty }
  | "D" -> if next () = "e" then EError N0 else EWarning N0
  | t -> failwith ("bad event tag " ^ t)

(* ---- oracles: association lists keyed by the string ---- *)
let expect (t : string) = if next () <> t then failwith ("expected " ^ t)

let p_oracles () =
  expect "K";
  let k = next_int () in
  let names = repeat k (fun () -> let s = str_of_hex (next ()) in let c = next_int () in (s, c)) in
  expect "Y";
  let k = next_int () in
  let yaml = repeat k (fun () -> let s = str_of_hex (next ()) in let ok = next () = "1" in (s, ok)) in
  expect "Q";
  let k = next_int () in
  let iq = repeat k (fun () ->
    let s = str_of_hex (next ()) in
    if next () = "1" then
      let b = str_of_hex (next ()) in let a = str_of_hex (next ()) in (s, Some (b, a))
    else (s, None)) in
  expect "U";
  let k = next_int () in
  let units = repeat k (fun () -> let s = str_of_hex (next ()) in let c = next_int () in (s, c)) in
  expect "H";
  let _ = next () in
  (names, yaml, iq, units)

(* ---- dump, token for token the format of harness/src/bin/analysis.rs ---- *)
let opt_hex (o : n list option) : string = match o with Some s -> hex_of_str s | None -> "-"

(* a rational m * 2^e as "m:e" with m odd ("0:0" for 0): the form vh::f64_exact gives an f64.  The
   events of a case hold the implementation's f64 values exactly ([p_num]), the collector copies them, so
   every number of the model's recipe has this form; any other rational is printed "num/den" and can
   equal no token of the harness. *)
let rec pos_tz (p : positive) : int * positive =
  match p with XO r -> let (k, m) = pos_tz r in (k + 1, m) | _ -> (0, p)

let m_e_of_q (x : q) : string =
  match x.qnum with
  | Z0 -> "0:0"
  | Zpos p | Zneg p ->
      let sign = (match x.qnum with Zneg _ -> "-" | _ -> "") in
      let (kn, mn) = pos_tz p in
      let (kd, md) = pos_tz x.qden in
      if md = XH then sign ^ string_of_pos mn ^ ":" ^ string_of_int (kn - kd) else string_of_q x

let value_s (v : pvalue) : string =
  match v with
  | VNumber a -> "n:" ^ m_e_of_q a
  | VRange (a, b) -> "r:" ^ m_e_of_q a ^ ":" ^ m_e_of_q b
  | VText t -> "t:" ^ hex_of_str t

let qinfo_s (q : qinfo option) : string =
  match q with
  | None -> "-"
  | Some q ->
      (if q.qi_text then "t" else "n") ^ (if q.qi_fixed then "f" else "l") ^ opt_hex q.qi_unit ^ ":" ^ value_s q.qi_value

let rel_s (r : relation) : string =
  match r with
  | RRef (j, tg) ->
      "r" ^ (match tg with TgComponent -> "c" | TgStep -> "s" | TgSection -> "e") ^ ":" ^ string_of_int (int_of_nat j)
  | RDef (rf, dis) ->
      "d" ^ (if dis then "1" else "0") ^ ":" ^
      (if rf = [] then "-" else String.concat "," (List.map (fun k -> string_of_int (int_of_nat k)) rf))

let comp_s (c : component) : string =
  Printf.sprintf "c %s %s %s %s %d %s %s" (hex_of_str c.c_name) (opt_hex c.c_alias) (qinfo_s c.c_qty)
    (opt_hex c.c_note) (if c.c_rref then 1 else 0) (string_of_n (mods_bits c.c_mods)) (rel_s c.c_rel)

let dump (r : recipe) : string =
  let o = Buffer.create 256 in
  let add s = if Buffer.length o > 0 then Buffer.add_char o ' '; Buffer.add_string o s in
  add (Printf.sprintf "secs %d" (List.length r.r_sections));
  List.iter (fun s ->
    add (Printf.sprintf "sec %s %d" (opt_hex s.sec_name) (List.length s.sec_content));
    List.iter (fun c ->
      match c with
      | CText t -> add ("tx " ^ hex_of_str t)
      | CStep st ->
          add (Printf.sprintf "st %d %d" (int_of_nat st.st_number) (List.length st.st_items));
          List.iter (fun it ->
            add (match it with
              | IText s -> "T " ^ hex_of_str s
              | IIngredient i -> "I " ^ string_of_int (int_of_nat i)
              | ICookware i -> "C " ^ string_of_int (int_of_nat i)
              | ITimer i -> "M " ^ string_of_int (int_of_nat i)
              | IInline i -> "Q " ^ string_of_int (int_of_nat i))) st.st_items) s.sec_content) r.r_sections;
  add (Printf.sprintf "ing %d" (List.length r.r_ingredients));
  List.iter (fun c -> add (comp_s c)) r.r_ingredients;
  add (Printf.sprintf "cw %d" (List.length r.r_cookware));
  List.iter (fun c -> add (comp_s c)) r.r_cookware;
  add (Printf.sprintf "tm %d" (List.length r.r_timers));
  List.iter (fun t -> add (opt_hex t.tm_name ^ " " ^ qinfo_s t.tm_qty)) r.r_timers;
  add (Printf.sprintf "iq %d" (int_of_nat r.r_inline));
  Buffer.contents o

(* ---- the inverse of [dump]: the recipe structure from its dump ---- *)
let p_opt_hex () : n list option = let t = next () in if t = "-" then None else Some (str_of_hex t)

let p_qinfo () : qinfo option =
  let t = next () in
  if t = "-" then None
  else
    let f = Array.of_list (String.split_on_char ':' t) in
    let hd = f.(0) in
    let u = String.sub hd 2 (String.length hd - 2) in
    let nm (i : int) : q =
      if f.(i) = "nan" || f.(i) = "inf" || f.(i) = "-inf" then { qnum = Z0; qden = XH }
      else q_of_m_e f.(i) (int_of_string f.(i + 1)) in
    let v = match f.(1) with
      | "n" -> VNumber (nm 2)
      | "r" -> VRange (nm 2, nm 4)
      | "t" -> VText (str_of_hex f.(2))
      | _ -> failwith "bad recipe value kind" in
    Some { qi_text = (hd.[0] = 't'); qi_fixed = (hd.[1] = 'f');
           qi_unit = (if u = "-" then None else Some (str_of_hex u)); qi_value = v }

let p_rel () : relation =
  let t = next () in
  let k = String.index t ':' in
  let rest = String.sub t (k + 1) (String.length t - k - 1) in
  if t.[0] = 'r' then
    RRef (nat_of_int (int_of_string rest),
          (match t.[1] with 'c' -> TgComponent | 's' -> TgStep | 'e' -> TgSection | _ -> failwith "bad target"))
  else
    RDef ((if rest = "-" then [] else List.map (fun v -> nat_of_int (int_of_string v)) (String.split_on_char ',' rest)),
          t.[1] = '1')

let p_comp () : component =
  expect "c";
  let name = str_of_hex (next ()) in
  let alias = p_opt_hex () in
  let q = p_qinfo () in
  let note = p_opt_hex () in
  let rref = next () = "1" in
  let mods = mods_of_bits (next_n ()) in
  let rel = p_rel () in
  { c_name = name; c_alias = alias; c_qty = q; c_note = note; c_rref = rref; c_mods = mods; c_rel = rel }

let p_recipe () : recipe =
  expect "secs";
  let ns = next_int () in
  let secs = repeat ns (fun () ->
    expect "sec";
    let name = p_opt_hex () in
    let k = next_int () in
    let content = repeat k (fun () ->
      match next () with
      | "tx" -> CText (str_of_hex (next ()))
      | "st" ->
          let num = next_int () in
          let n = next_int () in
          let items = repeat n (fun () ->
            match next () with
            | "T" -> IText (str_of_hex (next ()))
            | "I" -> IIngredient (nat_of_int (next_int ()))
            | "C" -> ICookware (nat_of_int (next_int ()))
            | "M" -> ITimer (nat_of_int (next_int ()))
            | "Q" -> IInline (nat_of_int (next_int ()))
            | t -> failwith ("bad item tag " ^ t)) in
          CStep { st_items = items; st_number = nat_of_int num }
      | t -> failwith ("bad content tag " ^ t)) in
    { sec_name = name; sec_content = content }) in
  expect "ing";
  let ni = next_int () in
  let ings = repeat ni p_comp in
  expect "cw";
  let nc = next_int () in
  let cws = repeat nc p_comp in
  expect "tm";
  let nt = next_int () in
  let tms = repeat nt (fun () -> let name = p_opt_hex () in let q = p_qinfo () in { tm_name = name; tm_qty = q }) in
  expect "iq";
  let nq = next_int () in
  { r_sections = secs; r_ingredients = ings; r_cookware = cws; r_timers = tms; r_inline = nat_of_int nq }

let decide (ci_key : n list -> n list) (r : recipe) (v : bool) : bool =
  recipe_ok_b r && (not v || (valid_tbl_b ci_key r.r_ingredients && valid_tbl_b ci_key r.r_cookware))

let mk_ci_key names : n list -> n list = fun s ->
  match List.assoc_opt s names with
  | Some c -> [n_of_int c]
  | None -> n_of_int 0x10ffff :: s

let () =
  drive (fun f ->
    toks := f;
    if List.hd f = "D" then begin
      let _ = next () in
      let v = next () = "1" in
      let r = p_recipe () in
      expect "OR";
      let (names, _, _, _) = p_oracles () in
      "P " ^ (if decide (mk_ci_key names) r v then "1" else "0")
    end else
    let input = str_of_hex (next ()) in
    let ext = next_int () in
    let cfg = if next () = "1" then cfgF else cfg0 in
    let nev = next_int () in
    let evs = repeat nev p_event in
    expect "OR";
    let (names, yaml, iq, units) = p_oracles () in
    let ci_key = mk_ci_key names in
    let yaml_ok (s : n list) : bool = match List.assoc_opt s yaml with Some b -> b | None -> true in
    let find_iq (s : n list) = match List.assoc_opt s iq with Some r -> r | None -> None in
    let unit_class (s : n list) : n = match List.assoc_opt s units with Some c -> n_of_int c | None -> N0 in
    let x = { x_modes = ext land 64 <> 0; x_inline = ext land 128 <> 0; x_advanced = ext land 32 <> 0 } in
    let shaped = match shape_run POut evs with Some POut -> "1" | _ -> "0" in
    let (r, p) = match analyse ci_key yaml_ok find_iq unit_class input x cfg evs with
      | Panic site -> ("R panic" ^ string_of_n site, "-")
      | Done (None, _) -> ("R none", "-")
      | Done (Some r, v) ->
          let ok = decide ci_key r v in
          ("R valid=" ^ (if v then "1" else "0") ^ " " ^ dump r, if ok then "1" else "0") in
    r ^ " ;; G " ^ shaped ^ " ;; P " ^ p)
