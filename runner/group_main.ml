(* L-group model side.  Cases (first field = kind):
     A <op>..      ops E | M | F | Q<qty>   stack machine over GroupedQuantity   -> `A <gq>`
     V <op>..      ops E | M | Q<val>       stack machine over GroupedValue      -> `V <vals>`
     S <aisle hex> <dump>                   recipes as dumped by the harness     -> `S ok ; G .. ; W .. ; L .. ; C ..`
   The unit table (one line, produced by the harness from the live converter)
   is read from the file named by GROUP_TABLE.  GROUP_FIXD=0 selects the
   categorize of before the repair.  Numbers are printed as num/den. *)
let split c s = String.split_on_char c s
let after s i = String.sub s i (String.length s - i)

let q_of_tok (s : string) : q =
  match String.index_opt s '^' with
  | Some i -> q_of_m_e (String.sub s 0 i) (int_of_string (after s (i + 1)))
  | None -> q_of_frac s

let val_of_tok s =
  match split ':' s with
  | ["n"; a] -> VNum (q_of_tok a)
  | ["r"; a; b] -> VRange (q_of_tok a, q_of_tok b)
  | ["t"; h] -> VText (str_of_hex h)
  | _ -> failwith ("bad value " ^ s)

let qty_of_tok s =
  let i = String.index s '@' in
  let u = after s (i + 1) in
  { qval = val_of_tok (String.sub s 0 i); qunit = if u = "-" then None else Some (str_of_hex u) }

let tok_of_val = function
  | VNum a -> "n:" ^ string_of_q a
  | VRange (a, b) -> "r:" ^ string_of_q a ^ ":" ^ string_of_q b
  | VText t -> "t:" ^ hex_of_str t

let tok_of_qty q = tok_of_val q.qval ^ "@" ^ (match q.qunit with None -> "-" | Some u -> hex_of_str u)

let list_or_dash sep l = if l = [] then "-" else String.concat sep l

let tok_of_gq (g : gq) : string =
  let k = String.concat "|" (List.map (fun p -> match g.known p with Some q -> tok_of_qty q | None -> "-") pq_all) in
  let u = List.sort compare (List.map (fun (k, q) -> (hex_of_str k, tok_of_qty q)) g.unknown) in
  k ^ "&" ^ list_or_dash "," (List.map snd u) ^ "&" ^ list_or_dash "," (List.map tok_of_qty g.other)
  ^ "&" ^ (match g.no_unit with Some q -> tok_of_qty q | None -> "-")

let pq_of_int = function 0 -> Volume | 1 -> Mass | 2 -> Length | 3 -> Temperature | 4 -> Time | _ -> failwith "pq"

let table : (str * uinfo) list Lazy.t = lazy (
  match Sys.getenv_opt "GROUP_TABLE" with
  | None -> failwith "GROUP_TABLE not set"
  | Some p ->
      let ic = open_in p in
      let line = input_line ic in
      close_in ic;
      match split ' ' line with
      | "T" :: ents ->
          List.map (fun e ->
            match split ',' e with
            | [k; id; p; r; d] ->
                (str_of_hex k, { uid = n_of_dec id; ratio = q_of_tok r; difference = q_of_tok d;
                                 upq = pq_of_int (int_of_string p) })
            | _ -> failwith "bad table entry") (List.filter (fun e -> e <> "") ents)
      | _ -> failwith "bad table line")

let fixd = (Sys.getenv_opt "GROUP_FIXD" <> Some "0")
let fitq (q : qty) = Some q
exception Model_panic

let get = function Done a -> a | Panic _ -> raise Model_panic

let run_a ops =
  let t = Lazy.force table in
  let st = ref [] in
  List.iter (fun op ->
    if op = "E" then st := gq_empty :: !st
    else if op = "M" then (match !st with b :: a :: r -> st := get (merge t a b) :: r | _ -> failwith "M")
    else if op = "F" then (match !st with a :: r -> st := fst (fit fitq a) :: r | _ -> failwith "F")
    else if op.[0] = 'Q' then (match !st with a :: r -> st := get (group_add t a (qty_of_tok (after op 1))) :: r | _ -> failwith "Q")
    else failwith ("bad op " ^ op)) ops;
  match !st with g :: _ -> "A " ^ tok_of_gq g | [] -> failwith "empty stack"

let run_v ops =
  let st = ref [] in
  List.iter (fun op ->
    if op = "E" then st := [] :: !st
    else if op = "M" then (match !st with b :: a :: r -> st := get (gv_merge a b) :: r | _ -> failwith "M")
    else if op.[0] = 'Q' then (match !st with a :: r -> st := get (gv_add a (val_of_tok (after op 1))) :: r | _ -> failwith "Q")
    else failwith ("bad op " ^ op)) ops;
  match !st with g :: _ -> "V " ^ list_or_dash "," (List.map tok_of_val g) | [] -> failwith "empty stack"

let opt_hex s = if s = "-" then None else Some (str_of_hex s)

let rel_of_tok s =
  if s.[0] = 'd' then
    RDef (List.map n_of_dec (List.filter (fun x -> x <> "") (split '.' (after s 1))))
  else
    let last = s.[String.length s - 1] in
    RRef (n_of_dec (String.sub s 1 (String.length s - 2)), last = 'i')

let ing_of_tok s =
  match split ',' s with
  | [name; alias; stem; flags; rel; q] ->
      { iname = str_of_hex name; ialias = opt_hex alias; istem = opt_hex stem;
        iqty = (if q = "-" then None else Some (qty_of_tok q));
        ihidden = flags.[0] = '1'; iref = flags.[1] = '1'; irecipe = flags.[2] = '1';
        irel = rel_of_tok rel }
  | _ -> failwith ("bad ingredient " ^ s)

let cw_of_tok s =
  match split ',' s with
  | [rel; v] -> { cqty = (if v = "-" then None else Some (val_of_tok v)); crel = rel_of_tok rel }
  | _ -> failwith ("bad cookware " ^ s)

let recipe_of_tok s =
  match split '~' s with
  | [i; c] ->
      ((if i = "-" then [] else List.map ing_of_tok (split '+' i)),
       (if c = "-" then [] else List.map cw_of_tok (split '+' c)))
  | _ -> failwith "bad recipe"

let tok_of_ilist (l : (str * gq) list) =
  list_or_dash "+" (List.map (fun (n, g) -> hex_of_str n ^ "=" ^ tok_of_gq g) l)

let run_s aisle dump =
  let t = Lazy.force table in
  let recipes = List.map recipe_of_tok (split '!' dump) in
  try
    let g = String.concat "!" (List.map (fun (ings, _) ->
      list_or_dash "+" (List.map (fun ((idx, _), g) -> string_of_n idx ^ "=" ^ tok_of_gq g)
        (get (group_ingredients t fitq ings)))) recipes) in
    let w = String.concat "!" (List.map (fun (_, cws) ->
      list_or_dash "+" (List.map (fun (idx, g) -> string_of_n idx ^ "=" ^ list_or_dash "," (List.map tok_of_val g))
        (get (group_cookware cws)))) recipes) in
    let l = get (add_recipes t fitq [] (List.map fst recipes)) in
    let c =
      match parse { strict_end = false; uni_line = true } (str_of_hex aisle) with
      | Done (ROk conf) ->
          let cl = get (categorize fixd (info conf) l) in
          list_or_dash "!" (List.map (fun (cat, il) -> hex_of_str cat ^ ">" ^ tok_of_ilist il) (c_iter cl))
      | _ -> "noconf" in
    "S ok ; G " ^ g ^ " ; W " ^ w ^ " ; L " ^ tok_of_ilist l ^ " ; C " ^ c
  with Model_panic -> "S panic"

let () =
  drive (fun f ->
    match f with
    | "A" :: ops -> (try run_a ops with Model_panic -> "A panic")
    | "V" :: ops -> (try run_v ops with Model_panic -> "V panic")
    | ["S"; aisle; dump] -> run_s aisle dump
    | ["SANE"] -> if sane (Lazy.force table) then "SANE true" else "SANE false"
    | _ -> failwith "bad case")
