(* Lemmas on strings as lists of code points: byte lengths, located
   sub-slices, equality test. *)
From CL Require Export Base.Chars.

Lemma utf8_len_pos c : 1 <= utf8_len c.
Proof. unfold utf8_len. repeat (destruct (_ <? _)); lia. Qed.

Lemma blen_app a b : blen (a ++ b) = blen a + blen b.
Proof. induction a as [|x a IH]; cbn [blen app]; [reflexivity|]. rewrite IH. lia. Qed.

Lemma blen_zero s : blen s = 0 -> s = [].
Proof. destruct s as [|c r]; cbn [blen]; [reflexivity|]. pose proof (utf8_len_pos c). lia. Qed.

Lemma str_eqb_eq a b : str_eqb a b = true <-> a = b.
Proof.
  revert b. induction a as [|x a IH]; intros [|y b]; cbn [str_eqb]; split; intro H;
    try reflexivity; try discriminate.
  - apply andb_true_iff in H as [H1 H2]. apply N.eqb_eq in H1. apply IH in H2. congruence.
  - inversion H; subst. apply andb_true_iff. split; [apply N.eqb_refl | apply IH; reflexivity].
Qed.

Lemma str_eqb_refl a : str_eqb a a = true.
Proof. apply str_eqb_eq. reflexivity. Qed.

Lemma str_eqb_neq a b : str_eqb a b = false <-> a <> b.
Proof.
  split; intro H.
  - intro E. apply str_eqb_eq in E. congruence.
  - destruct (str_eqb a b) eqn:E; [|reflexivity]. apply str_eqb_eq in E. contradiction.
Qed.

(* [sub s x o]: x occurs in s at byte offset o, on character boundaries *)
Definition sub (s x : str) (o : N) : Prop :=
  exists p q, s = p ++ x ++ q /\ blen p = o.

Definition boundary (s : str) (a : N) : Prop :=
  exists p q, s = p ++ q /\ blen p = a.

Definition span_ok (s : str) (ab : N * N) : Prop :=
  fst ab <= snd ab /\ snd ab <= blen s /\ boundary s (fst ab) /\ boundary s (snd ab).

Lemma sub_refl s : sub s s 0.
Proof. exists [], []. rewrite app_nil_r. split; reflexivity. Qed.

Lemma sub_bound s x o : sub s x o -> o + blen x <= blen s.
Proof. intros (p & q & -> & <-). rewrite !blen_app. lia. Qed.

Lemma sub_span_ok s x o : sub s x o -> span_ok s (o, o + blen x).
Proof.
  intros (p & q & -> & <-). unfold span_ok; cbn [fst snd]. rewrite !blen_app.
  repeat split; try lia.
  - exists p, (x ++ q). split; reflexivity.
  - exists (p ++ x), q. rewrite <- app_assoc, blen_app. split; reflexivity.
Qed.

Lemma sub_inner s x o a y b : sub s x o -> x = a ++ y ++ b -> sub s y (o + blen a).
Proof.
  intros (p & q & -> & <-) ->. exists (p ++ a), (b ++ q).
  rewrite blen_app, <- !app_assoc. split; reflexivity.
Qed.

Lemma sub_prefix s x o y t : sub s x o -> x = y ++ t -> sub s y o.
Proof.
  intros H E. replace o with (o + blen (@nil N)) by (cbn; lia).
  eapply sub_inner; [exact H|]. cbn [app]. exact E.
Qed.
