(* Code points, UTF-8 byte lengths, white-space classes.
   A string is a list of Unicode scalar values (N); byte offsets are computed
   with [utf8_len], exactly as Rust's str indices. *)
From Coq Require Export List NArith Bool Lia.
Export ListNotations.
Open Scope N_scope.

Definition str := list N.

Definition utf8_len (c : N) : N :=
  if c <? 128 then 1 else if c <? 2048 then 2 else if c <? 65536 then 3 else 4.

Fixpoint blen (s : str) : N :=
  match s with
  | [] => 0
  | c :: r => utf8_len c + blen r
  end.

Fixpoint str_eqb (a b : str) : bool :=
  match a, b with
  | [], [] => true
  | x :: a', y :: b' => (x =? y) && str_eqb a' b'
  | _, _ => false
  end.

(* u8::is_ascii_whitespace: TAB LF FF CR SPACE (not VT) *)
Definition ascii_ws (c : N) : bool :=
  (c =? 9) || (c =? 10) || (c =? 12) || (c =? 13) || (c =? 32).

(* char::is_whitespace: the Unicode White_Space property.  Checked against the
   implementation for every scalar value by the L-cls correspondence. *)
Definition uni_ws (c : N) : bool :=
  ((9 <=? c) && (c <=? 13)) || (c =? 32) || (c =? 133) || (c =? 160) || (c =? 5760)
  || ((8192 <=? c) && (c <=? 8202)) || (c =? 8232) || (c =? 8233) || (c =? 8239)
  || (c =? 8287) || (c =? 12288).

(* Outcome of a modelled Rust function: a value, or a panic at a named site. *)
Inductive outcome (A : Type) : Type :=
| Done (a : A)
| Panic (site : N).
Arguments Done {A} a.
Arguments Panic {A} site.

Definition obind {A B} (o : outcome A) (f : A -> outcome B) : outcome B :=
  match o with Done a => f a | Panic s => Panic s end.
