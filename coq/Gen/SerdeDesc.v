(* REGENERATED on every run from /repo/src/{model.rs,quantity.rs,scale.rs,metadata.rs,parser/model.rs,convert/mod.rs,convert/units_file.rs,span.rs,located.rs,text.rs} by gen/gen_serde.py:
   the serde descriptors (Model/Serde.v) of ScalableRecipe, ScaledRecipe and every type they contain,
   read off the struct / enum / bitflags definitions and their #[serde(...)] attributes.
   rename_all is left as a call of rename_variant / rename_field on the Rust identifier.
   This committed copy is a snapshot so that a fresh clone builds. *)
From CL Require Import Model.Serde.

(* Metadata  (src/metadata.rs) *)
Definition d_metadata_Metadata : desc :=
  DStruct [((*map*) [109; 97; 112], (rename_field RnNone (*map*) [109; 97; 112]), FNormal, (DYaml true))].

(* Item  (src/model.rs) *)
Definition d_model_Item : desc :=
  DEnum (RInternal (*type*) [116; 121; 112; 101]) [
      ((*Text*) [84; 101; 120; 116], (rename_variant RnCamel (*Text*) [84; 101; 120; 116]), (DStruct [((*value*) [118; 97; 108; 117; 101], (rename_field RnNone (*value*) [118; 97; 108; 117; 101]), FNormal, DStr)]));
      ((*Ingredient*) [73; 110; 103; 114; 101; 100; 105; 101; 110; 116], (rename_variant RnCamel (*Ingredient*) [73; 110; 103; 114; 101; 100; 105; 101; 110; 116]), (DStruct [((*index*) [105; 110; 100; 101; 120], (rename_field RnNone (*index*) [105; 110; 100; 101; 120]), FNormal, (DNum (NUInt 64)))]));
      ((*Cookware*) [67; 111; 111; 107; 119; 97; 114; 101], (rename_variant RnCamel (*Cookware*) [67; 111; 111; 107; 119; 97; 114; 101]), (DStruct [((*index*) [105; 110; 100; 101; 120], (rename_field RnNone (*index*) [105; 110; 100; 101; 120]), FNormal, (DNum (NUInt 64)))]));
      ((*Timer*) [84; 105; 109; 101; 114], (rename_variant RnCamel (*Timer*) [84; 105; 109; 101; 114]), (DStruct [((*index*) [105; 110; 100; 101; 120], (rename_field RnNone (*index*) [105; 110; 100; 101; 120]), FNormal, (DNum (NUInt 64)))]));
      ((*InlineQuantity*) [73; 110; 108; 105; 110; 101; 81; 117; 97; 110; 116; 105; 116; 121], (rename_variant RnCamel (*InlineQuantity*) [73; 110; 108; 105; 110; 101; 81; 117; 97; 110; 116; 105; 116; 121]), (DStruct [((*index*) [105; 110; 100; 101; 120], (rename_field RnNone (*index*) [105; 110; 100; 101; 120]), FNormal, (DNum (NUInt 64)))]))].

(* Step  (src/model.rs) *)
Definition d_model_Step : desc :=
  DStruct [((*items*) [105; 116; 101; 109; 115], (rename_field RnNone (*items*) [105; 116; 101; 109; 115]), FNormal, (DSeq d_model_Item));
      ((*number*) [110; 117; 109; 98; 101; 114], (rename_field RnNone (*number*) [110; 117; 109; 98; 101; 114]), FNormal, (DNum (NUInt 32)))].

(* Content  (src/model.rs) *)
Definition d_model_Content : desc :=
  DEnum (RAdjacent (*type*) [116; 121; 112; 101] (*value*) [118; 97; 108; 117; 101]) [
      ((*Step*) [83; 116; 101; 112], (rename_variant RnCamel (*Step*) [83; 116; 101; 112]), d_model_Step);
      ((*Text*) [84; 101; 120; 116], (rename_variant RnCamel (*Text*) [84; 101; 120; 116]), DStr)].

(* Section  (src/model.rs) *)
Definition d_model_Section : desc :=
  DStruct [((*name*) [110; 97; 109; 101], (rename_field RnNone (*name*) [110; 97; 109; 101]), FNormal, (DOpt DStr));
      ((*content*) [99; 111; 110; 116; 101; 110; 116], (rename_field RnNone (*content*) [99; 111; 110; 116; 101; 110; 116]), FNormal, (DSeq d_model_Content))].

(* Number  (src/quantity.rs) *)
Definition d_quantity_Number : desc :=
  DEnum (RAdjacent (*type*) [116; 121; 112; 101] (*value*) [118; 97; 108; 117; 101]) [
      ((*Regular*) [82; 101; 103; 117; 108; 97; 114], (rename_variant RnCamel (*Regular*) [82; 101; 103; 117; 108; 97; 114]), (DNum NF64));
      ((*Fraction*) [70; 114; 97; 99; 116; 105; 111; 110], (rename_variant RnCamel (*Fraction*) [70; 114; 97; 99; 116; 105; 111; 110]), (DStruct [((*whole*) [119; 104; 111; 108; 101], (rename_field RnNone (*whole*) [119; 104; 111; 108; 101]), FNormal, (DNum (NUInt 32)));
      ((*num*) [110; 117; 109], (rename_field RnNone (*num*) [110; 117; 109]), FNormal, (DNum (NUInt 32)));
      ((*den*) [100; 101; 110], (rename_field RnNone (*den*) [100; 101; 110]), FNormal, (DNum (NUInt 32)));
      ((*err*) [101; 114; 114], (rename_field RnNone (*err*) [101; 114; 114]), FNormal, (DNum NF64))]))].

(* Value  (src/quantity.rs) *)
Definition d_quantity_Value : desc :=
  DEnum (RAdjacent (*type*) [116; 121; 112; 101] (*value*) [118; 97; 108; 117; 101]) [
      ((*Number*) [78; 117; 109; 98; 101; 114], (rename_variant RnCamel (*Number*) [78; 117; 109; 98; 101; 114]), d_quantity_Number);
      ((*Range*) [82; 97; 110; 103; 101], (rename_variant RnCamel (*Range*) [82; 97; 110; 103; 101]), (DStruct [((*start*) [115; 116; 97; 114; 116], (rename_field RnNone (*start*) [115; 116; 97; 114; 116]), FNormal, d_quantity_Number);
      ((*end*) [101; 110; 100], (rename_field RnNone (*end*) [101; 110; 100]), FNormal, d_quantity_Number)]));
      ((*Text*) [84; 101; 120; 116], (rename_variant RnCamel (*Text*) [84; 101; 120; 116]), DStr)].

(* ScalableValue  (src/quantity.rs) *)
Definition d_quantity_ScalableValue : desc :=
  DEnum (RAdjacent (*type*) [116; 121; 112; 101] (*value*) [118; 97; 108; 117; 101]) [
      ((*Fixed*) [70; 105; 120; 101; 100], (rename_variant RnCamel (*Fixed*) [70; 105; 120; 101; 100]), d_quantity_Value);
      ((*Linear*) [76; 105; 110; 101; 97; 114], (rename_variant RnCamel (*Linear*) [76; 105; 110; 101; 97; 114]), d_quantity_Value)].

(* Quantity<ScalableValue>  (src/quantity.rs) *)
Definition d_quantity_Quantity_ScalableValue : desc :=
  DStruct [((*value*) [118; 97; 108; 117; 101], (rename_field RnNone (*value*) [118; 97; 108; 117; 101]), FNormal, d_quantity_ScalableValue);
      ((*unit*) [117; 110; 105; 116], (rename_field RnNone (*unit*) [117; 110; 105; 116]), FNormal, (DOpt DStr))].

(* RecipeReference  (src/model.rs) *)
Definition d_model_RecipeReference : desc :=
  DStruct [((*name*) [110; 97; 109; 101], (rename_field RnNone (*name*) [110; 97; 109; 101]), FNormal, DStr);
      ((*components*) [99; 111; 109; 112; 111; 110; 101; 110; 116; 115], (rename_field RnNone (*components*) [99; 111; 109; 112; 111; 110; 101; 110; 116; 115]), FNormal, (DSeq DStr))].

(* ComponentRelation  (src/model.rs) *)
Definition d_model_ComponentRelation : desc :=
  DEnum (RInternal (*type*) [116; 121; 112; 101]) [
      ((*Definition*) [68; 101; 102; 105; 110; 105; 116; 105; 111; 110], (rename_variant RnCamel (*Definition*) [68; 101; 102; 105; 110; 105; 116; 105; 111; 110]), (DStruct [((*referenced_from*) [114; 101; 102; 101; 114; 101; 110; 99; 101; 100; 95; 102; 114; 111; 109], (rename_field RnNone (*referenced_from*) [114; 101; 102; 101; 114; 101; 110; 99; 101; 100; 95; 102; 114; 111; 109]), FNormal, (DSeq (DNum (NUInt 64))));
      ((*defined_in_step*) [100; 101; 102; 105; 110; 101; 100; 95; 105; 110; 95; 115; 116; 101; 112], (rename_field RnNone (*defined_in_step*) [100; 101; 102; 105; 110; 101; 100; 95; 105; 110; 95; 115; 116; 101; 112]), FNormal, DBool)]));
      ((*Reference*) [82; 101; 102; 101; 114; 101; 110; 99; 101], (rename_variant RnCamel (*Reference*) [82; 101; 102; 101; 114; 101; 110; 99; 101]), (DStruct [((*references_to*) [114; 101; 102; 101; 114; 101; 110; 99; 101; 115; 95; 116; 111], (rename_field RnNone (*references_to*) [114; 101; 102; 101; 114; 101; 110; 99; 101; 115; 95; 116; 111]), FNormal, (DNum (NUInt 64)))]))].

(* IngredientReferenceTarget  (src/model.rs) *)
Definition d_model_IngredientReferenceTarget : desc :=
  DEnum RExternal [
      ((*Ingredient*) [73; 110; 103; 114; 101; 100; 105; 101; 110; 116], (rename_variant RnCamel (*Ingredient*) [73; 110; 103; 114; 101; 100; 105; 101; 110; 116]), DUnit);
      ((*Step*) [83; 116; 101; 112], (rename_variant RnCamel (*Step*) [83; 116; 101; 112]), DUnit);
      ((*Section*) [83; 101; 99; 116; 105; 111; 110], (rename_variant RnCamel (*Section*) [83; 101; 99; 116; 105; 111; 110]), DUnit)].

(* IngredientRelation  (src/model.rs) *)
Definition d_model_IngredientRelation : desc :=
  DStruct [((*relation*) [114; 101; 108; 97; 116; 105; 111; 110], (rename_field RnNone (*relation*) [114; 101; 108; 97; 116; 105; 111; 110]), FFlatten, d_model_ComponentRelation);
      ((*reference_target*) [114; 101; 102; 101; 114; 101; 110; 99; 101; 95; 116; 97; 114; 103; 101; 116], (rename_field RnNone (*reference_target*) [114; 101; 102; 101; 114; 101; 110; 99; 101; 95; 116; 97; 114; 103; 101; 116]), FNormal, (DOpt d_model_IngredientReferenceTarget))].

(* Modifiers  (src/parser/model.rs) *)
Definition d_parser_model_Modifiers : desc :=
  DFlags [((*RECIPE*) [82; 69; 67; 73; 80; 69], 1); ((*REF*) [82; 69; 70], 2); ((*HIDDEN*) [72; 73; 68; 68; 69; 78], 4); ((*OPT*) [79; 80; 84], 8); ((*NEW*) [78; 69; 87], 16)].

(* Ingredient<ScalableValue>  (src/model.rs) *)
Definition d_model_Ingredient_ScalableValue : desc :=
  DStruct [((*name*) [110; 97; 109; 101], (rename_field RnNone (*name*) [110; 97; 109; 101]), FNormal, DStr);
      ((*alias*) [97; 108; 105; 97; 115], (rename_field RnNone (*alias*) [97; 108; 105; 97; 115]), FNormal, (DOpt DStr));
      ((*quantity*) [113; 117; 97; 110; 116; 105; 116; 121], (rename_field RnNone (*quantity*) [113; 117; 97; 110; 116; 105; 116; 121]), FNormal, (DOpt d_quantity_Quantity_ScalableValue));
      ((*note*) [110; 111; 116; 101], (rename_field RnNone (*note*) [110; 111; 116; 101]), FNormal, (DOpt DStr));
      ((*reference*) [114; 101; 102; 101; 114; 101; 110; 99; 101], (rename_field RnNone (*reference*) [114; 101; 102; 101; 114; 101; 110; 99; 101]), FNormal, (DOpt d_model_RecipeReference));
      ((*relation*) [114; 101; 108; 97; 116; 105; 111; 110], (rename_field RnNone (*relation*) [114; 101; 108; 97; 116; 105; 111; 110]), FNormal, d_model_IngredientRelation);
      ((*modifiers*) [109; 111; 100; 105; 102; 105; 101; 114; 115], (rename_field RnNone (*modifiers*) [109; 111; 100; 105; 102; 105; 101; 114; 115]), FNormal, d_parser_model_Modifiers)].

(* Cookware<ScalableValue>  (src/model.rs) *)
Definition d_model_Cookware_ScalableValue : desc :=
  DStruct [((*name*) [110; 97; 109; 101], (rename_field RnNone (*name*) [110; 97; 109; 101]), FNormal, DStr);
      ((*alias*) [97; 108; 105; 97; 115], (rename_field RnNone (*alias*) [97; 108; 105; 97; 115]), FNormal, (DOpt DStr));
      ((*quantity*) [113; 117; 97; 110; 116; 105; 116; 121], (rename_field RnNone (*quantity*) [113; 117; 97; 110; 116; 105; 116; 121]), FNormal, (DOpt d_quantity_ScalableValue));
      ((*note*) [110; 111; 116; 101], (rename_field RnNone (*note*) [110; 111; 116; 101]), FNormal, (DOpt DStr));
      ((*relation*) [114; 101; 108; 97; 116; 105; 111; 110], (rename_field RnNone (*relation*) [114; 101; 108; 97; 116; 105; 111; 110]), FNormal, d_model_ComponentRelation);
      ((*modifiers*) [109; 111; 100; 105; 102; 105; 101; 114; 115], (rename_field RnNone (*modifiers*) [109; 111; 100; 105; 102; 105; 101; 114; 115]), FNormal, d_parser_model_Modifiers)].

(* Timer<ScalableValue>  (src/model.rs) *)
Definition d_model_Timer_ScalableValue : desc :=
  DStruct [((*name*) [110; 97; 109; 101], (rename_field RnNone (*name*) [110; 97; 109; 101]), FNormal, (DOpt DStr));
      ((*quantity*) [113; 117; 97; 110; 116; 105; 116; 121], (rename_field RnNone (*quantity*) [113; 117; 97; 110; 116; 105; 116; 121]), FNormal, (DOpt d_quantity_Quantity_ScalableValue))].

(* Quantity<Value>  (src/quantity.rs) *)
Definition d_quantity_Quantity_Value : desc :=
  DStruct [((*value*) [118; 97; 108; 117; 101], (rename_field RnNone (*value*) [118; 97; 108; 117; 101]), FNormal, d_quantity_Value);
      ((*unit*) [117; 110; 105; 116], (rename_field RnNone (*unit*) [117; 110; 105; 116]), FNormal, (DOpt DStr))].

(* Servings  (src/scale.rs) *)
Definition d_scale_Servings : desc :=
  DNew (DOpt (DSeq (DNum (NUInt 32)))).

(* Recipe<Servings, ScalableValue>  (src/model.rs) *)
Definition d_model_Recipe_Servings_ScalableValue : desc :=
  DStruct [((*metadata*) [109; 101; 116; 97; 100; 97; 116; 97], (rename_field RnNone (*metadata*) [109; 101; 116; 97; 100; 97; 116; 97]), FNormal, d_metadata_Metadata);
      ((*sections*) [115; 101; 99; 116; 105; 111; 110; 115], (rename_field RnNone (*sections*) [115; 101; 99; 116; 105; 111; 110; 115]), FNormal, (DSeq d_model_Section));
      ((*ingredients*) [105; 110; 103; 114; 101; 100; 105; 101; 110; 116; 115], (rename_field RnNone (*ingredients*) [105; 110; 103; 114; 101; 100; 105; 101; 110; 116; 115]), FNormal, (DSeq d_model_Ingredient_ScalableValue));
      ((*cookware*) [99; 111; 111; 107; 119; 97; 114; 101], (rename_field RnNone (*cookware*) [99; 111; 111; 107; 119; 97; 114; 101]), FNormal, (DSeq d_model_Cookware_ScalableValue));
      ((*timers*) [116; 105; 109; 101; 114; 115], (rename_field RnNone (*timers*) [116; 105; 109; 101; 114; 115]), FNormal, (DSeq d_model_Timer_ScalableValue));
      ((*inline_quantities*) [105; 110; 108; 105; 110; 101; 95; 113; 117; 97; 110; 116; 105; 116; 105; 101; 115], (rename_field RnNone (*inline_quantities*) [105; 110; 108; 105; 110; 101; 95; 113; 117; 97; 110; 116; 105; 116; 105; 101; 115]), FNormal, (DSeq d_quantity_Quantity_Value));
      ((*data*) [100; 97; 116; 97], (rename_field RnNone (*data*) [100; 97; 116; 97]), FNormal, d_scale_Servings)].

(* Ingredient<Value>  (src/model.rs) *)
Definition d_model_Ingredient_Value : desc :=
  DStruct [((*name*) [110; 97; 109; 101], (rename_field RnNone (*name*) [110; 97; 109; 101]), FNormal, DStr);
      ((*alias*) [97; 108; 105; 97; 115], (rename_field RnNone (*alias*) [97; 108; 105; 97; 115]), FNormal, (DOpt DStr));
      ((*quantity*) [113; 117; 97; 110; 116; 105; 116; 121], (rename_field RnNone (*quantity*) [113; 117; 97; 110; 116; 105; 116; 121]), FNormal, (DOpt d_quantity_Quantity_Value));
      ((*note*) [110; 111; 116; 101], (rename_field RnNone (*note*) [110; 111; 116; 101]), FNormal, (DOpt DStr));
      ((*reference*) [114; 101; 102; 101; 114; 101; 110; 99; 101], (rename_field RnNone (*reference*) [114; 101; 102; 101; 114; 101; 110; 99; 101]), FNormal, (DOpt d_model_RecipeReference));
      ((*relation*) [114; 101; 108; 97; 116; 105; 111; 110], (rename_field RnNone (*relation*) [114; 101; 108; 97; 116; 105; 111; 110]), FNormal, d_model_IngredientRelation);
      ((*modifiers*) [109; 111; 100; 105; 102; 105; 101; 114; 115], (rename_field RnNone (*modifiers*) [109; 111; 100; 105; 102; 105; 101; 114; 115]), FNormal, d_parser_model_Modifiers)].

(* Cookware<Value>  (src/model.rs) *)
Definition d_model_Cookware_Value : desc :=
  DStruct [((*name*) [110; 97; 109; 101], (rename_field RnNone (*name*) [110; 97; 109; 101]), FNormal, DStr);
      ((*alias*) [97; 108; 105; 97; 115], (rename_field RnNone (*alias*) [97; 108; 105; 97; 115]), FNormal, (DOpt DStr));
      ((*quantity*) [113; 117; 97; 110; 116; 105; 116; 121], (rename_field RnNone (*quantity*) [113; 117; 97; 110; 116; 105; 116; 121]), FNormal, (DOpt d_quantity_Value));
      ((*note*) [110; 111; 116; 101], (rename_field RnNone (*note*) [110; 111; 116; 101]), FNormal, (DOpt DStr));
      ((*relation*) [114; 101; 108; 97; 116; 105; 111; 110], (rename_field RnNone (*relation*) [114; 101; 108; 97; 116; 105; 111; 110]), FNormal, d_model_ComponentRelation);
      ((*modifiers*) [109; 111; 100; 105; 102; 105; 101; 114; 115], (rename_field RnNone (*modifiers*) [109; 111; 100; 105; 102; 105; 101; 114; 115]), FNormal, d_parser_model_Modifiers)].

(* Timer<Value>  (src/model.rs) *)
Definition d_model_Timer_Value : desc :=
  DStruct [((*name*) [110; 97; 109; 101], (rename_field RnNone (*name*) [110; 97; 109; 101]), FNormal, (DOpt DStr));
      ((*quantity*) [113; 117; 97; 110; 116; 105; 116; 121], (rename_field RnNone (*quantity*) [113; 117; 97; 110; 116; 105; 116; 121]), FNormal, (DOpt d_quantity_Quantity_Value))].

(* ScaleTarget  (src/scale.rs) *)
Definition d_scale_ScaleTarget : desc :=
  DStruct [((*factor*) [102; 97; 99; 116; 111; 114], (rename_field RnNone (*factor*) [102; 97; 99; 116; 111; 114]), FNormal, (DNum NF64))].

(* ScaleOutcome  (src/scale.rs) *)
Definition d_scale_ScaleOutcome : desc :=
  DEnum RExternal [
      ((*Scaled*) [83; 99; 97; 108; 101; 100], (rename_variant RnCamel (*Scaled*) [83; 99; 97; 108; 101; 100]), DUnit);
      ((*Fixed*) [70; 105; 120; 101; 100], (rename_variant RnCamel (*Fixed*) [70; 105; 120; 101; 100]), DUnit);
      ((*NoQuantity*) [78; 111; 81; 117; 97; 110; 116; 105; 116; 121], (rename_variant RnCamel (*NoQuantity*) [78; 111; 81; 117; 97; 110; 116; 105; 116; 121]), DUnit);
      ((*Error*) [69; 114; 114; 111; 114], (rename_variant RnCamel (*Error*) [69; 114; 114; 111; 114]), (DSkip false))].

(* ScaledData  (src/scale.rs) *)
Definition d_scale_ScaledData : desc :=
  DStruct [((*target*) [116; 97; 114; 103; 101; 116], (rename_field RnNone (*target*) [116; 97; 114; 103; 101; 116]), FNormal, d_scale_ScaleTarget);
      ((*ingredients*) [105; 110; 103; 114; 101; 100; 105; 101; 110; 116; 115], (rename_field RnNone (*ingredients*) [105; 110; 103; 114; 101; 100; 105; 101; 110; 116; 115]), FNormal, (DSeq d_scale_ScaleOutcome));
      ((*cookware*) [99; 111; 111; 107; 119; 97; 114; 101], (rename_field RnNone (*cookware*) [99; 111; 111; 107; 119; 97; 114; 101]), FNormal, (DSeq d_scale_ScaleOutcome));
      ((*timers*) [116; 105; 109; 101; 114; 115], (rename_field RnNone (*timers*) [116; 105; 109; 101; 114; 115]), FNormal, (DSeq d_scale_ScaleOutcome))].

(* Scaled  (src/scale.rs) *)
Definition d_scale_Scaled : desc :=
  DEnum (RInternal (*type*) [116; 121; 112; 101]) [
      ((*DefaultScaling*) [68; 101; 102; 97; 117; 108; 116; 83; 99; 97; 108; 105; 110; 103], (rename_variant RnNone (*DefaultScaling*) [68; 101; 102; 97; 117; 108; 116; 83; 99; 97; 108; 105; 110; 103]), DUnit);
      ((*Scaled*) [83; 99; 97; 108; 101; 100], (rename_variant RnNone (*Scaled*) [83; 99; 97; 108; 101; 100]), d_scale_ScaledData)].

(* Recipe<Scaled, Value>  (src/model.rs) *)
Definition d_model_Recipe_Scaled_Value : desc :=
  DStruct [((*metadata*) [109; 101; 116; 97; 100; 97; 116; 97], (rename_field RnNone (*metadata*) [109; 101; 116; 97; 100; 97; 116; 97]), FNormal, d_metadata_Metadata);
      ((*sections*) [115; 101; 99; 116; 105; 111; 110; 115], (rename_field RnNone (*sections*) [115; 101; 99; 116; 105; 111; 110; 115]), FNormal, (DSeq d_model_Section));
      ((*ingredients*) [105; 110; 103; 114; 101; 100; 105; 101; 110; 116; 115], (rename_field RnNone (*ingredients*) [105; 110; 103; 114; 101; 100; 105; 101; 110; 116; 115]), FNormal, (DSeq d_model_Ingredient_Value));
      ((*cookware*) [99; 111; 111; 107; 119; 97; 114; 101], (rename_field RnNone (*cookware*) [99; 111; 111; 107; 119; 97; 114; 101]), FNormal, (DSeq d_model_Cookware_Value));
      ((*timers*) [116; 105; 109; 101; 114; 115], (rename_field RnNone (*timers*) [116; 105; 109; 101; 114; 115]), FNormal, (DSeq d_model_Timer_Value));
      ((*inline_quantities*) [105; 110; 108; 105; 110; 101; 95; 113; 117; 97; 110; 116; 105; 116; 105; 101; 115], (rename_field RnNone (*inline_quantities*) [105; 110; 108; 105; 110; 101; 95; 113; 117; 97; 110; 116; 105; 116; 105; 101; 115]), FNormal, (DSeq d_quantity_Quantity_Value));
      ((*data*) [100; 97; 116; 97], (rename_field RnNone (*data*) [100; 97; 116; 97]), FNormal, d_scale_Scaled)].

Definition scalable_recipe : desc := d_model_Recipe_Servings_ScalableValue.
Definition scaled_recipe : desc := d_model_Recipe_Scaled_Value.
Definition all_descs : list (str * desc) := [
  ((*d_metadata_Metadata*) [100; 95; 109; 101; 116; 97; 100; 97; 116; 97; 95; 77; 101; 116; 97; 100; 97; 116; 97], d_metadata_Metadata);
  ((*d_model_Item*) [100; 95; 109; 111; 100; 101; 108; 95; 73; 116; 101; 109], d_model_Item);
  ((*d_model_Step*) [100; 95; 109; 111; 100; 101; 108; 95; 83; 116; 101; 112], d_model_Step);
  ((*d_model_Content*) [100; 95; 109; 111; 100; 101; 108; 95; 67; 111; 110; 116; 101; 110; 116], d_model_Content);
  ((*d_model_Section*) [100; 95; 109; 111; 100; 101; 108; 95; 83; 101; 99; 116; 105; 111; 110], d_model_Section);
  ((*d_quantity_Number*) [100; 95; 113; 117; 97; 110; 116; 105; 116; 121; 95; 78; 117; 109; 98; 101; 114], d_quantity_Number);
  ((*d_quantity_Value*) [100; 95; 113; 117; 97; 110; 116; 105; 116; 121; 95; 86; 97; 108; 117; 101], d_quantity_Value);
  ((*d_quantity_ScalableValue*) [100; 95; 113; 117; 97; 110; 116; 105; 116; 121; 95; 83; 99; 97; 108; 97; 98; 108; 101; 86; 97; 108; 117; 101], d_quantity_ScalableValue);
  ((*d_quantity_Quantity_ScalableValue*) [100; 95; 113; 117; 97; 110; 116; 105; 116; 121; 95; 81; 117; 97; 110; 116; 105; 116; 121; 95; 83; 99; 97; 108; 97; 98; 108; 101; 86; 97; 108; 117; 101], d_quantity_Quantity_ScalableValue);
  ((*d_model_RecipeReference*) [100; 95; 109; 111; 100; 101; 108; 95; 82; 101; 99; 105; 112; 101; 82; 101; 102; 101; 114; 101; 110; 99; 101], d_model_RecipeReference);
  ((*d_model_ComponentRelation*) [100; 95; 109; 111; 100; 101; 108; 95; 67; 111; 109; 112; 111; 110; 101; 110; 116; 82; 101; 108; 97; 116; 105; 111; 110], d_model_ComponentRelation);
  ((*d_model_IngredientReferenceTarget*) [100; 95; 109; 111; 100; 101; 108; 95; 73; 110; 103; 114; 101; 100; 105; 101; 110; 116; 82; 101; 102; 101; 114; 101; 110; 99; 101; 84; 97; 114; 103; 101; 116], d_model_IngredientReferenceTarget);
  ((*d_model_IngredientRelation*) [100; 95; 109; 111; 100; 101; 108; 95; 73; 110; 103; 114; 101; 100; 105; 101; 110; 116; 82; 101; 108; 97; 116; 105; 111; 110], d_model_IngredientRelation);
  ((*d_parser_model_Modifiers*) [100; 95; 112; 97; 114; 115; 101; 114; 95; 109; 111; 100; 101; 108; 95; 77; 111; 100; 105; 102; 105; 101; 114; 115], d_parser_model_Modifiers);
  ((*d_model_Ingredient_ScalableValue*) [100; 95; 109; 111; 100; 101; 108; 95; 73; 110; 103; 114; 101; 100; 105; 101; 110; 116; 95; 83; 99; 97; 108; 97; 98; 108; 101; 86; 97; 108; 117; 101], d_model_Ingredient_ScalableValue);
  ((*d_model_Cookware_ScalableValue*) [100; 95; 109; 111; 100; 101; 108; 95; 67; 111; 111; 107; 119; 97; 114; 101; 95; 83; 99; 97; 108; 97; 98; 108; 101; 86; 97; 108; 117; 101], d_model_Cookware_ScalableValue);
  ((*d_model_Timer_ScalableValue*) [100; 95; 109; 111; 100; 101; 108; 95; 84; 105; 109; 101; 114; 95; 83; 99; 97; 108; 97; 98; 108; 101; 86; 97; 108; 117; 101], d_model_Timer_ScalableValue);
  ((*d_quantity_Quantity_Value*) [100; 95; 113; 117; 97; 110; 116; 105; 116; 121; 95; 81; 117; 97; 110; 116; 105; 116; 121; 95; 86; 97; 108; 117; 101], d_quantity_Quantity_Value);
  ((*d_scale_Servings*) [100; 95; 115; 99; 97; 108; 101; 95; 83; 101; 114; 118; 105; 110; 103; 115], d_scale_Servings);
  ((*d_model_Recipe_Servings_ScalableValue*) [100; 95; 109; 111; 100; 101; 108; 95; 82; 101; 99; 105; 112; 101; 95; 83; 101; 114; 118; 105; 110; 103; 115; 95; 83; 99; 97; 108; 97; 98; 108; 101; 86; 97; 108; 117; 101], d_model_Recipe_Servings_ScalableValue);
  ((*d_model_Ingredient_Value*) [100; 95; 109; 111; 100; 101; 108; 95; 73; 110; 103; 114; 101; 100; 105; 101; 110; 116; 95; 86; 97; 108; 117; 101], d_model_Ingredient_Value);
  ((*d_model_Cookware_Value*) [100; 95; 109; 111; 100; 101; 108; 95; 67; 111; 111; 107; 119; 97; 114; 101; 95; 86; 97; 108; 117; 101], d_model_Cookware_Value);
  ((*d_model_Timer_Value*) [100; 95; 109; 111; 100; 101; 108; 95; 84; 105; 109; 101; 114; 95; 86; 97; 108; 117; 101], d_model_Timer_Value);
  ((*d_scale_ScaleTarget*) [100; 95; 115; 99; 97; 108; 101; 95; 83; 99; 97; 108; 101; 84; 97; 114; 103; 101; 116], d_scale_ScaleTarget);
  ((*d_scale_ScaleOutcome*) [100; 95; 115; 99; 97; 108; 101; 95; 83; 99; 97; 108; 101; 79; 117; 116; 99; 111; 109; 101], d_scale_ScaleOutcome);
  ((*d_scale_ScaledData*) [100; 95; 115; 99; 97; 108; 101; 95; 83; 99; 97; 108; 101; 100; 68; 97; 116; 97], d_scale_ScaledData);
  ((*d_scale_Scaled*) [100; 95; 115; 99; 97; 108; 101; 95; 83; 99; 97; 108; 101; 100], d_scale_Scaled);
  ((*d_model_Recipe_Scaled_Value*) [100; 95; 109; 111; 100; 101; 108; 95; 82; 101; 99; 105; 112; 101; 95; 83; 99; 97; 108; 101; 100; 95; 86; 97; 108; 117; 101], d_model_Recipe_Scaled_Value)].
