(* REGENERATED on every run of the C04 check from /repo/src/analysis/*.rs by gen/gen_labels.py:
   every expression of the non-test code of the analysis stage that becomes the span of a
   diagnostic label - the span argument of every label!(..), the argument of every .label(..) /
   .add_label(..) that is not itself a label!(..), every Span::new / Span::pos / Span::from
   construction, and every argument at a Span parameter of a function of these files - as
   (enclosing fn, expression text with white space and string literals normalised), in source
   order.  A single identifier is followed by its nearest binder in the same fn.  Line numbers
   are deliberately absent: moving code is harmless, a new or edited label expression changes
   [sites] (obligation C04_label_inventory, Properties/C04.v; classes: Model/AnalysisLabels.v).
   This committed copy is a snapshot so that a fresh clone builds. *)
From Coq Require Import List String.
Import ListNotations.
Local Open Scope string_scope.
Definition sites : list (string * string) := [
  ("parse_events",
   "span <- for span in self.old_style_metadata_used");
  ("process_frontmatter",
   "Span::pos(yaml_text.span().start() + loc.index())");
  ("process_frontmatter",
   "err_span <- let err_span = err.location().map(|loc|Span::pos(yaml_text.span().start() + loc.index())).unwrap_or_else(||yaml_text.span())");
  ("process_frontmatter",
   "Span::pos(yaml_text.span().start() + pos)");
  ("process_frontmatter",
   "Span::pos(yaml_text.span().start() + pos)");
  ("process_frontmatter",
   "Span::pos(yaml_text.span().start() + p)");
  ("process_frontmatter",
   "Span::pos(yaml_text.span().start() + p)");
  ("process_frontmatter",
   "Span::pos(yaml_text.span().start() + p)");
  ("metadata",
   "value.span()");
  ("metadata",
   "key.span()");
  ("metadata",
   "key.span()");
  ("metadata",
   "Span::new(key.span().start(), value.span().end())");
  ("metadata",
   "key.span()");
  ("metadata",
   "value.span()");
  ("metadata",
   "value.span()");
  ("metadata",
   "key.span()");
  ("time_override_check",
   "Span::new(e.0.span().start(), e.1.span().end())");
  ("time_override_check",
   "overriden.next().unwrap()");
  ("time_override_check",
   "e <- for e in overriden");
  ("time_override_check",
   "overrides <- let overrides = locs(&[new])[0]");
  ("in_step",
   "text.span()");
  ("in_text",
   "span <- let (c, span) = match ev{Event::Ingredient(i) => (<str>, i.span()), Event::Cookware(c) => (<str>, c.span()), Event::Timer(t) => (<str>, t.span()), _ => unreachable!(), }");
  ("ingredient",
   "ingredient.modifiers.span()");
  ("ingredient",
   "resolve_reference(location: location <- let (ingredient, location) = ingredient.take_pair())");
  ("ingredient",
   "resolve_reference(modifiers_location: located_ingredient.modifiers.span())");
  ("ingredient",
   "new <- let new = new_q_loc.unit.as_ref().map(|l|l.span()).unwrap_or(new_q_loc.span())");
  ("ingredient",
   "old <- let old = old_q_loc.unit.as_ref().map(|l|l.span()).unwrap_or(old_q_loc.span())");
  ("ingredient",
   "new <- let new = new_q_loc.unit.as_ref().map(|l|l.span()).unwrap_or(new_q_loc.span())");
  ("ingredient",
   "old <- let old = old_q_loc.unit.as_ref().map(|l|l.span()).unwrap_or(old_q_loc.span())");
  ("ingredient",
   "new <- let new = new_q_loc.unit.as_ref().map(|l|l.span()).unwrap_or(new_q_loc.span())");
  ("ingredient",
   "old <- let old = old_q_loc.unit.as_ref().map(|l|l.span()).unwrap_or(old_q_loc.span())");
  ("ingredient",
   "new <- let new = new_q_loc.unit.as_ref().map(|l|l.span()).unwrap_or(new_q_loc.span())");
  ("ingredient",
   "old <- let old = old_q_loc.unit.as_ref().map(|l|l.span()).unwrap_or(old_q_loc.span())");
  ("ingredient",
   "warning!(.., main_label <- let (main_label, support_label) = match &e{crate::quantity::IncompatibleUnits::MissingUnit{lhs, ..} => {let m=<str>;let f=<str>;if *lhs{(label!(new, m), label!(old, f))} else {(label!(new, f), label!(old, m))}}crate::quantity::IncompatibleUnits::DifferentPhysicalQuantities{a:a_q, b:b_q, } => {(label!(new, b_q.to_string()), label!(old, a_q.to_string()))}crate::quantity::IncompatibleUnits::UnknownDifferentUnits{..} => {(label!(new), label!(old))}})");
  ("ingredient",
   ".label(support_label <- let (main_label, support_label) = match &e{crate::quantity::IncompatibleUnits::MissingUnit{lhs, ..} => {let m=<str>;let f=<str>;if *lhs{(label!(new, m), label!(old, f))} else {(label!(new, f), label!(old, m))}}crate::quantity::IncompatibleUnits::DifferentPhysicalQuantities{a:a_q, b:b_q, } => {(label!(new, b_q.to_string()), label!(old, a_q.to_string()))}crate::quantity::IncompatibleUnits::UnknownDifferentUnits{..} => {(label!(new), label!(old))}})");
  ("ingredient",
   "note_reference_error(span: note.span())");
  ("ingredient",
   "note_reference_error(def_span: definition_location.span())");
  ("ingredient",
   "note_reference_error(def_note_span: definition_location.note.as_ref().map(|n|n.span()))");
  ("ingredient",
   "conflicting_reference_quantity_error(ref_quantity_span: ingredient.quantity.unwrap().span())");
  ("ingredient",
   "conflicting_reference_quantity_error(def_span: definition_location.span())");
  ("ingredient",
   "text_val_in_ref_warn(text_quantity_span: text_quantity_span <- let (text_quantity_span, number_quantity_span) = if ref_is_text{(ref_q_loc, def_q_loc)} else {(def_q_loc, ref_q_loc)})");
  ("ingredient",
   "text_val_in_ref_warn(number_quantity_span: number_quantity_span <- let (text_quantity_span, number_quantity_span) = if ref_is_text{(ref_q_loc, def_q_loc)} else {(def_q_loc, ref_q_loc)})");
  ("ingredient",
   "location <- let (ingredient, location) = ingredient.take_pair()");
  ("resolve_intermediate_ref",
   "inter_data.span()");
  ("resolve_intermediate_ref",
   "inter_data.span()");
  ("resolve_intermediate_ref",
   "inter_data.span()");
  ("cookware",
   "resolve_reference(location: location <- let (cookware, location) = cookware.take_pair())");
  ("cookware",
   "resolve_reference(modifiers_location: located_cookware.modifiers.span())");
  ("cookware",
   "note_reference_error(span: note.span())");
  ("cookware",
   "note_reference_error(def_span: definition_location.span())");
  ("cookware",
   "note_reference_error(def_note_span: definition_location.note.as_ref().map(|n|n.span()))");
  ("cookware",
   "conflicting_reference_quantity_error(ref_quantity_span: located_cookware.quantity.as_ref().unwrap().span())");
  ("cookware",
   "conflicting_reference_quantity_error(def_span: definition_location.span())");
  ("cookware",
   "text_val_in_ref_warn(text_quantity_span: text_quantity_span <- let (text_quantity_span, number_quantity_span) = if ref_is_text{(ref_q_loc, def_q_loc)} else {(def_q_loc, ref_q_loc)})");
  ("cookware",
   "text_val_in_ref_warn(number_quantity_span: number_quantity_span <- let (text_quantity_span, number_quantity_span) = if ref_is_text{(ref_q_loc, def_q_loc)} else {(def_q_loc, ref_q_loc)})");
  ("timer",
   "located_quantity.value.span()");
  ("timer",
   "unit_span <- let unit_span = located_quantity.unit.as_ref().unwrap().span()");
  ("timer",
   "unit_span <- let unit_span = located_quantity.unit.as_ref().unwrap().span()");
  ("value",
   "value.span()");
  ("resolve_reference",
   "modifiers_location <- fn parameter");
  ("resolve_reference",
   "modifiers_location <- fn parameter");
  ("resolve_reference",
   "location <- fn parameter");
  ("note_reference_error",
   "span <- fn parameter");
  ("note_reference_error",
   "sp <- if let Some(sp) = def_note_span");
  ("note_reference_error",
   "Span::pos(def_span.end())");
  ("conflicting_reference_quantity_error",
   "ref_quantity_span <- fn parameter");
  ("conflicting_reference_quantity_error",
   "def_span <- fn parameter");
  ("text_val_in_ref_warn",
   "text_quantity_span <- fn parameter");
  ("text_val_in_ref_warn",
   "number_quantity_span <- fn parameter")
].
