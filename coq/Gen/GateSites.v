(* REGENERATED on every run of the C02 check from /repo/src/**/*.rs by gen/gen_gates.py: every place of
   the non-test code where an Extensions value is consulted (.extension(..), .contains(..), a variable
   bound to such a test), passed on (argument of a call, field of a struct literal), declared (struct
   field, fn parameter / return type, impl) or constructed (the bitflags! constants, Extensions::all()),
   as (file below src/, enclosing fn or item, flag names, normalised text), SORTED.  Line numbers are
   deliberately absent: moving code is harmless, a new gate, a different flag at an existing gate or a
   changed constant changes [sites] (obligation C02_gate_inventory, Properties/C02.v; the model
   function and flag test that renders each entry: Model/GateMap.v).
   This committed copy is a snapshot so that a fresh clone builds. *)
From Coq Require Import List String.
Import ListNotations.
Local Open Scope string_scope.
Definition site : Type := (string * string * list string * string)%type.
Definition sites : list site := [
  ("analysis/event_consumer", "RecipeCollector::in_step", ["INLINE_QUANTITIES"],
   "self.extensions.contains(Extensions::INLINE_QUANTITIES)");
  ("analysis/event_consumer", "RecipeCollector::ingredient", ["ADVANCED_UNITS"],
   "self.extensions.contains(Extensions::ADVANCED_UNITS)");
  ("analysis/event_consumer", "RecipeCollector::metadata", ["MODES"],
   "self.extensions.contains(Extensions::MODES)");
  ("analysis/event_consumer", "RecipeCollector::timer", ["ADVANCED_UNITS"],
   "self.extensions.contains(Extensions::ADVANCED_UNITS)");
  ("analysis/event_consumer", "parse_events", [],
   "RecipeCollector{extensions}");
  ("analysis/event_consumer", "parse_events", [],
   "fn(extensions: Extensions)");
  ("analysis/event_consumer", "struct RecipeCollector", [],
   "extensions: Extensions");
  ("lib", "-", [],
   "impl Default for Extensions");
  ("lib", "CooklangParser::canonical", ["empty()"],
   "Self::new(#0: Extensions::empty())");
  ("lib", "CooklangParser::extended", ["all()"],
   "Self::new(#0: Extensions::all())");
  ("lib", "CooklangParser::extensions", [],
   "fn() -> Extensions");
  ("lib", "CooklangParser::extensions", [],
   "self.extensions");
  ("lib", "CooklangParser::new", [],
   "Self{extensions}");
  ("lib", "CooklangParser::new", [],
   "fn(extensions: Extensions)");
  ("lib", "CooklangParser::parse_metadata_with_options", [],
   "analysis::parse_events(#2: self.extensions)");
  ("lib", "CooklangParser::parse_metadata_with_options", [],
   "parser::PullParser::new(#1: self.extensions)");
  ("lib", "CooklangParser::parse_with_options", [],
   "analysis::parse_events(#2: self.extensions)");
  ("lib", "CooklangParser::parse_with_options", [],
   "parser::PullParser::new(#1: self.extensions)");
  ("lib", "Extensions::default", ["all()"],
   "Self::all()");
  ("lib", "Extensions::default", [],
   "fn() -> Self");
  ("lib", "bitflags!", ["ADVANCED_UNITS"],
   "const ADVANCED_UNITS = 1 << 5");
  ("lib", "bitflags!", ["COMPAT"; "COMPONENT_MODIFIERS"; "COMPONENT_ALIAS"; "ADVANCED_UNITS"; "MODES"; "INLINE_QUANTITIES"; "RANGE_VALUES"; "INTERMEDIATE_PREPARATIONS"],
   "const COMPAT = Self::COMPONENT_MODIFIERS.bits() | Self::COMPONENT_ALIAS.bits() | Self::ADVANCED_UNITS.bits() | Self::MODES.bits() | Self::INLINE_QUANTITIES.bits() | Self::RANGE_VALUES.bits() | Self::INTERMEDIATE_PREPARATIONS.bits()");
  ("lib", "bitflags!", ["COMPONENT_ALIAS"],
   "const COMPONENT_ALIAS = 1 << 3");
  ("lib", "bitflags!", ["COMPONENT_MODIFIERS"],
   "const COMPONENT_MODIFIERS = 1 << 1");
  ("lib", "bitflags!", ["INLINE_QUANTITIES"],
   "const INLINE_QUANTITIES = 1 << 7");
  ("lib", "bitflags!", ["INTERMEDIATE_PREPARATIONS"; "COMPONENT_MODIFIERS"],
   "const INTERMEDIATE_PREPARATIONS = 1 << 11 | Self::COMPONENT_MODIFIERS.bits()");
  ("lib", "bitflags!", ["MODES"],
   "const MODES = 1 << 6");
  ("lib", "bitflags!", ["RANGE_VALUES"],
   "const RANGE_VALUES = 1 << 9");
  ("lib", "bitflags!", ["TIMER_REQUIRES_TIME"],
   "const TIMER_REQUIRES_TIME = 1 << 10");
  ("lib", "bitflags!", [],
   "struct Extensions: u32");
  ("lib", "struct CooklangParser", [],
   "extensions: Extensions");
  ("parser/block_parser", "BlockParser::extension", [],
   "fn(ext: Extensions)");
  ("parser/block_parser", "BlockParser::extension", [],
   "self.extensions.contains(ext)");
  ("parser/block_parser", "BlockParser::new", [],
   "Self{extensions}");
  ("parser/block_parser", "BlockParser::new", [],
   "fn(extensions: Extensions)");
  ("parser/block_parser", "struct BlockParser", [],
   "extensions: Extensions");
  ("parser/mod", "PullParser::new", [],
   "Self{extensions}");
  ("parser/mod", "PullParser::new", [],
   "Self{extensions}");
  ("parser/mod", "PullParser::new", [],
   "fn(extensions: Extensions)");
  ("parser/mod", "PullParser::next_block", [],
   "BlockParser::new(#3: self.extensions)");
  ("parser/mod", "PullParser::next_metadata_block", [],
   "BlockParser::new(#3: self.extensions)");
  ("parser/mod", "parse_block", ["MODES"],
   "let modes_active = bp.extension(Extensions::MODES)");
  ("parser/mod", "parse_block", ["MODES"],
   "use modes_active: (is_config_key && modes_active) || old_style_metadata");
  ("parser/mod", "struct PullParser", [],
   "extensions: Extensions");
  ("parser/quantity", "parse_quantity", [],
   "BlockParser::new(#3: bp.extensions)");
  ("parser/quantity", "parse_quantity", ["ADVANCED_UNITS"],
   "bp2.extension(Extensions::ADVANCED_UNITS)");
  ("parser/quantity", "range_value", ["RANGE_VALUES"],
   "!bp.extension(Extensions::RANGE_VALUES)");
  ("parser/step", "check_alias", ["COMPONENT_ALIAS"],
   "!bp.extension(Extensions::COMPONENT_ALIAS)");
  ("parser/step", "modifiers", ["COMPONENT_MODIFIERS"],
   "!bp.extension(Extensions::COMPONENT_MODIFIERS)");
  ("parser/step", "modifiers", ["INTERMEDIATE_PREPARATIONS"],
   "bp.extension(Extensions::INTERMEDIATE_PREPARATIONS)");
  ("parser/step", "parse_alias", ["COMPONENT_ALIAS"],
   "bp.extension(Extensions::COMPONENT_ALIAS)");
  ("parser/step", "parse_modifiers", ["INTERMEDIATE_PREPARATIONS"],
   "bp.extension(Extensions::INTERMEDIATE_PREPARATIONS)");
  ("parser/step", "timer", ["TIMER_REQUIRES_TIME"],
   "bp.extension(Extensions::TIMER_REQUIRES_TIME)")
].
(* what C02_gate_inventory pins: (class, file, fn, detail) - gate: the fn consults the flag [detail];
   carry: the fn / item declares, stores, hands on or constructs a set without testing a flag; const: the
   definition of the type and of each constant with its value.  [sites] above is informative detail. *)
Definition key : Type := (string * string * string * string)%type.
Definition keys : list key := [
  ("carry", "analysis/event_consumer", "parse_events", "");
  ("carry", "analysis/event_consumer", "struct RecipeCollector", "");
  ("carry", "lib", "-", "");
  ("carry", "lib", "CooklangParser::canonical", "");
  ("carry", "lib", "CooklangParser::extended", "");
  ("carry", "lib", "CooklangParser::extensions", "");
  ("carry", "lib", "CooklangParser::new", "");
  ("carry", "lib", "CooklangParser::parse_metadata_with_options", "");
  ("carry", "lib", "CooklangParser::parse_with_options", "");
  ("carry", "lib", "Extensions::default", "");
  ("carry", "lib", "struct CooklangParser", "");
  ("carry", "parser/block_parser", "BlockParser::extension", "");
  ("carry", "parser/block_parser", "BlockParser::new", "");
  ("carry", "parser/block_parser", "struct BlockParser", "");
  ("carry", "parser/mod", "PullParser::new", "");
  ("carry", "parser/mod", "PullParser::next_block", "");
  ("carry", "parser/mod", "PullParser::next_metadata_block", "");
  ("carry", "parser/mod", "struct PullParser", "");
  ("const", "lib", "bitflags!", "const ADVANCED_UNITS = 1 << 5");
  ("const", "lib", "bitflags!", "const COMPAT = Self::COMPONENT_MODIFIERS.bits() | Self::COMPONENT_ALIAS.bits() | Self::ADVANCED_UNITS.bits() | Self::MODES.bits() | Self::INLINE_QUANTITIES.bits() | Self::RANGE_VALUES.bits() | Self::INTERMEDIATE_PREPARATIONS.bits()");
  ("const", "lib", "bitflags!", "const COMPONENT_ALIAS = 1 << 3");
  ("const", "lib", "bitflags!", "const COMPONENT_MODIFIERS = 1 << 1");
  ("const", "lib", "bitflags!", "const INLINE_QUANTITIES = 1 << 7");
  ("const", "lib", "bitflags!", "const INTERMEDIATE_PREPARATIONS = 1 << 11 | Self::COMPONENT_MODIFIERS.bits()");
  ("const", "lib", "bitflags!", "const MODES = 1 << 6");
  ("const", "lib", "bitflags!", "const RANGE_VALUES = 1 << 9");
  ("const", "lib", "bitflags!", "const TIMER_REQUIRES_TIME = 1 << 10");
  ("const", "lib", "bitflags!", "struct Extensions: u32");
  ("gate", "analysis/event_consumer", "RecipeCollector::in_step", "INLINE_QUANTITIES");
  ("gate", "analysis/event_consumer", "RecipeCollector::ingredient", "ADVANCED_UNITS");
  ("gate", "analysis/event_consumer", "RecipeCollector::metadata", "MODES");
  ("gate", "analysis/event_consumer", "RecipeCollector::timer", "ADVANCED_UNITS");
  ("gate", "parser/mod", "parse_block", "MODES");
  ("gate", "parser/quantity", "parse_quantity", "ADVANCED_UNITS");
  ("gate", "parser/quantity", "range_value", "RANGE_VALUES");
  ("gate", "parser/step", "check_alias", "COMPONENT_ALIAS");
  ("gate", "parser/step", "modifiers", "COMPONENT_MODIFIERS");
  ("gate", "parser/step", "modifiers", "INTERMEDIATE_PREPARATIONS");
  ("gate", "parser/step", "parse_alias", "COMPONENT_ALIAS");
  ("gate", "parser/step", "parse_modifiers", "INTERMEDIATE_PREPARATIONS");
  ("gate", "parser/step", "timer", "TIMER_REQUIRES_TIME")
].
