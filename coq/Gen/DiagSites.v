(* REGENERATED on every run of the C07 check from /repo/src/{parser,analysis,lexer}/*.rs, src/metadata.rs,
   src/lib.rs and src/error.rs by gen/gen_diags.py: every place of the non-test code where a diagnostic (a
   SourceDiag with a severity) is made - every error!(..) / warning!(..), SourceDiag::error / ::warning /
   ::unlabeled (the macro definitions), .into_source_diag(..), the struct literals of src/error.rs - and
   every push of a diagnostic made elsewhere (how = "forward"), as
     Site stage file-stem enclosing-fn how severity-of-the-macro [pushes seen] ordinal message
   in source order, files sorted by path; ordinal = position among the entries of that fn of that file.
   The message is the string literal or the format string with its {..} kept, else <expression>; it is
   INFORMATIVE: what is pinned (C07_diag_inventory, Properties/C07.v) and mapped to the constructors of
   the models (Model/DiagMap.v) is [site_key], the entry without it.  Line numbers are deliberately absent:
   moving code and rewording a message are harmless; a new, dropped or moved diagnostic, a changed severity
   and a changed push method change [map site_key sites].
   This committed copy is a snapshot so that a fresh clone builds. *)
From Coq Require Import List String.
Import ListNotations.
Local Open Scope string_scope.
Inductive stage := AtParse | AtAnalysis | AtAny.
(* IsDynamic: the severity is a run-time value at this place *)
Inductive sev := IsError | IsWarning | IsDynamic.
(* BlockParser::error / SourceReport::error (assert an Error), ::warn (assert a Warning), SourceReport::push *)
Inductive push := ByError (receiver : string) | ByWarn (receiver : string) | ByPush (receiver : string).
Record site := Site { site_stage : stage; site_file : string; site_fn : string; site_how : string;
                      site_sev : sev; site_pushes : list push; site_ord : nat; site_ctor : string;
                      site_msg : string }.
Record key := Key { key_stage : stage; key_file : string; key_fn : string; key_how : string;
                    key_sev : sev; key_pushes : list push; key_ord : nat }.
Definition site_key (s : site) : key :=
  Key (site_stage s) (site_file s) (site_fn s) (site_how s) (site_sev s) (site_pushes s) (site_ord s).
Definition sites : list site := [
  Site AtAnalysis "event_consumer" "error!" "SourceDiag::error" IsError [] 0
    "Ctor" "<$msg>";
  Site AtAnalysis "event_consumer" "error!" "SourceDiag::unlabeled" IsError [] 1
    "Ctor" "<$msg>";
  Site AtAnalysis "event_consumer" "warning!" "SourceDiag::warning" IsWarning [] 0
    "Ctor" "<$msg>";
  Site AtAnalysis "event_consumer" "warning!" "SourceDiag::unlabeled" IsWarning [] 1
    "Ctor" "<$msg>";
  Site AtAnalysis "event_consumer" "parse_events" "forward" IsError [ByError "self.ctx"] 0
    "Forward" "<e>";
  Site AtAnalysis "event_consumer" "parse_events" "forward" IsDynamic [ByPush "self.ctx"] 1
    "Forward" "<e>";
  Site AtAnalysis "event_consumer" "parse_events" "forward" IsWarning [ByWarn "self.ctx"] 2
    "Forward" "<w>";
  Site AtAnalysis "event_consumer" "parse_events" "warning!" IsWarning [ByWarn "self.ctx"] 3
    "AKind KDeprecated" "The '>>' syntax for metadata is deprecated, use a YAML frontmatter";
  Site AtAnalysis "event_consumer" "process_frontmatter" "error!" IsError [ByError "self.ctx"] 0
    "AKind KYamlError" "<err.to_string()>";
  Site AtAnalysis "event_consumer" "process_frontmatter" ".into_source_diag" IsDynamic [ByPush "self.ctx"] 1
    "Unmodelled callback_why" "Invalid metadata entry";
  Site AtAnalysis "event_consumer" "process_frontmatter" "warning!" IsWarning [ByWarn "self.ctx"] 2
    "AKind KStdEntryYaml" "Unsupported value for key: '{}'";
  Site AtAnalysis "event_consumer" "process_frontmatter" "warning!" IsWarning [ByWarn "self.ctx"] 3
    "AKind KTimeOverridenYaml" "Time overriden";
  Site AtAnalysis "event_consumer" "metadata" "error!" IsError [ByError "self.ctx"] 0
    "AKind KInvalidConfigValue" "Invalid value for config key '{key_t}': {value_t}";
  Site AtAnalysis "event_consumer" "metadata" "warning!" IsWarning [ByWarn "self.ctx"] 1
    "AKind KUnknownConfigKey" "Unknown config metadata key: {key_t}";
  Site AtAnalysis "event_consumer" "metadata" ".into_source_diag" IsDynamic [ByPush "self.ctx"] 2
    "Unmodelled callback_why" "Invalid metadata entry";
  Site AtAnalysis "event_consumer" "metadata" "warning!" IsWarning [ByWarn "self.ctx"] 3
    "AKind KStdEntryMeta" "Unsupported value for key: '{}'";
  Site AtAnalysis "event_consumer" "time_override_check" "warning!" IsWarning [ByWarn "self.ctx"] 0
    "AKind KTimeOverridden" "Time overridden";
  Site AtAnalysis "event_consumer" "in_step" "warning!" IsWarning [ByWarn "self.ctx"] 0
    "AKind KIgnoredText" "Ignoring text in define components mode";
  Site AtAnalysis "event_consumer" "in_text" "warning!" IsWarning [ByWarn "self.ctx"] 0
    "AKind KIgnoredComponent" "Ignoring {c} in text mode";
  Site AtAnalysis "event_consumer" "ingredient" "error!" IsError [ByError "self.ctx"] 0
    "AKind KInterModifiers" "Conflicting modifiers with intermediate preparation reference";
  Site AtAnalysis "event_consumer" "ingredient" "forward" IsError [ByError "self.ctx"] 1
    "Forward" "<error>";
  Site AtAnalysis "event_consumer" "ingredient" "warning!" IsWarning [ByWarn "self.ctx"] 2
    "AKind KIncompatibleUnits" "Incompatible units prevent calculating total amount";
  Site AtAnalysis "event_consumer" "ingredient" ".into_source_diag" IsDynamic [ByPush "self.ctx"] 3
    "Unmodelled callback_why" "Referenced recipe not found: {}";
  Site AtAnalysis "event_consumer" "resolve_intermediate_ref" "error!" IsError [] 0
    "AKind KInterZero" "{INVALID}: number is 0";
  Site AtAnalysis "event_consumer" "resolve_intermediate_ref" "error!" IsError [] 1
    "AKind KInterZero" "{INVALID}: relative reference to self";
  Site AtAnalysis "event_consumer" "resolve_intermediate_ref" "error!" IsError [] 2
    "AKind KInterBounds" "{INVALID}: value out of bounds";
  Site AtAnalysis "event_consumer" "timer" "error!" IsError [ByError "self.ctx"] 0
    "AKind KTimerValueText" "Timer value is text: {}";
  Site AtAnalysis "event_consumer" "timer" "error!" IsError [ByError "self.ctx"] 1
    "AKind KTimerUnitNotTime" "Timer unit is not time: {unit}";
  Site AtAnalysis "event_consumer" "timer" "error!" IsError [ByError "self.ctx"] 2
    "AKind KTimerUnitUnknown" "Unknown timer unit: {unit_text}";
  Site AtAnalysis "event_consumer" "value" "warning!" IsWarning [ByWarn "self.ctx"] 0
    "AKind KScalingLock" "Unnecessary scaling lock modifier";
  Site AtAnalysis "event_consumer" "resolve_reference" "error!" IsError [ByError "self.ctx"] 0
    "AKind KConflictModifiers" "Unsupported modifier combination with reference: {conflict}";
  Site AtAnalysis "event_consumer" "resolve_reference" "warning!" IsWarning [ByWarn "self.ctx"] 1
    "AKind KRedundantModifier" "Redundant {redundant} modifier";
  Site AtAnalysis "event_consumer" "resolve_reference" "error!" IsError [ByError "self.ctx"] 2
    "AKind KRefNotFound" "Reference not found: {}";
  Site AtAnalysis "event_consumer" "note_reference_error" "error!" IsError [ByError "self.ctx"] 0
    "AKind KNoteOnReference" "Note not allowed in reference";
  Site AtAnalysis "event_consumer" "conflicting_reference_quantity_error" "error!" IsError [ByError "self.ctx"] 0
    "AKind KConflictQuantity" "Conflicting component reference quantities";
  Site AtAnalysis "event_consumer" "text_val_in_ref_warn" "warning!" IsWarning [ByWarn "self.ctx"] 0
    "AKind KTextValueInRef" "Text value may prevent calculating total amount";
  Site AtAnalysis "mod" "into_source_diag" "SourceDiag::unlabeled" IsDynamic [] 0
    "Unmodelled callback_why" "<message()>";
  Site AtAny "error" "error" "SourceDiag{}" IsError [] 0
    "Ctor" "<message.into()>";
  Site AtAny "error" "warning" "SourceDiag{}" IsWarning [] 0
    "Ctor" "<message.into()>";
  Site AtAny "error" "unlabeled" "SourceDiag{}" IsDynamic [] 0
    "Ctor" "<message.into()>";
  Site AtParse "metadata" "metadata_entry" "warning!" IsWarning [ByWarn "block"] 0
    "PCode D_META_INVALID" "A metadata block is invalid and it will be a step";
  Site AtParse "metadata" "metadata_entry" "error!" IsError [ByError "block"] 1
    "PCode D_EMPTY_META_KEY" "Empty metadata key";
  Site AtParse "metadata" "metadata_entry" "warning!" IsWarning [ByWarn "block"] 2
    "PCode D_EMPTY_META_VALUE" "Empty metadata value for key: {}";
  Site AtParse "mod" "error!" "SourceDiag::error" IsError [] 0
    "Ctor" "<$msg>";
  Site AtParse "mod" "warning!" "SourceDiag::warning" IsWarning [] 0
    "Ctor" "<$msg>";
  Site AtParse "quantity" "parse_regular_quantity" "warning!" IsWarning [ByWarn "bp"] 0
    "PCode D_EMPTY_UNIT" "Empty quantity unit";
  Site AtParse "quantity" "parse_advanced_quantity" "forward" IsError [ByError "bp"] 0
    "Forward" "<err>";
  Site AtParse "quantity" "parse_value" "forward" IsError [ByError "bp"] 0
    "Forward" "<err>";
  Site AtParse "quantity" "text_value" "error!" IsError [ByError "bp"] 0
    "PCode D_EMPTY_VALUE" "Empty quantity value";
  Site AtParse "quantity" "frac" "error!" IsError [] 0
    "PCode D_DIV_ZERO" "Division by zero";
  Site AtParse "quantity" "int" "error!" IsError [] 0
    "PCode D_INT_PARSE" "Error parsing integer number";
  Site AtParse "quantity" "float" "error!" IsError [] 0
    "Unmodelled float_why" "Error parsing decimal number";
  Site AtParse "section" "section" "warning!" IsWarning [ByWarn "block"] 0
    "PCode D_SECTION_INVALID" "A section block is invalid and it will be a step";
  Site AtParse "step" "comp_body" "warning!" IsWarning [ByWarn "bp"] 0
    "PCode D_SINGLE_WORD" "Invalid single word name, the component will be ignored";
  Site AtParse "step" "parse_modifiers" "error!" IsError [ByError "bp"] 0
    "PCode D_DUP_MOD" "Duplicate modifier: {}";
  Site AtParse "step" "parse_intermediate_ref_data" "error!" IsError [ByError "bp"] 0
    "PCode D_INTER_EMPTY" "{INVALID}: empty";
  Site AtParse "step" "parse_intermediate_ref_data" "error!" IsError [ByError "bp"] 1
    "PCode D_INTER_ORDER" "{INVALID}: wrong relative section order";
  Site AtParse "step" "parse_intermediate_ref_data" "error!" IsError [ByError "bp"] 2
    "PCode D_INTER_SIGN" "{INVALID}: value sign";
  Site AtParse "step" "parse_intermediate_ref_data" "error!" IsError [ByError "bp"] 3
    "PCode D_INTER_INVALID" "Invalid intermediate preparation reference";
  Site AtParse "step" "parse_intermediate_ref_data" "error!" IsError [ByError "bp"] 4
    "PCode D_INTER_INT" "Error parsing integer number";
  Site AtParse "step" "parse_alias" "error!" IsError [ByError "bp"] 0
    "PCode D_MULTI_ALIAS" "Invalid {container}: multiple aliases";
  Site AtParse "step" "parse_alias" "error!" IsError [ByError "bp"] 1
    "PCode D_EMPTY_ALIAS" "Invalid {container}: empty alias";
  Site AtParse "step" "cookware" "error!" IsError [ByError "bp"] 0
    "PCode D_COOKWARE_UNIT" "Invalid cookware quantity: unit";
  Site AtParse "step" "cookware" "error!" IsError [ByError "bp"] 1
    "PCode D_COOKWARE_RECIPE" "Invalid cookware modifiers: recipe modifier not allowed";
  Site AtParse "step" "timer" "error!" IsError [ByError "bp"] 0
    "PCode D_TIMER_NO_UNIT" "Invalid timer quantity: missing unit";
  Site AtParse "step" "timer" "error!" IsError [ByError "bp"] 1
    "PCode D_TIMER_NO_QTY" "Invalid timer: missing quantity";
  Site AtParse "step" "timer" "error!" IsError [ByError "bp"] 2
    "PCode D_TIMER_NEITHER" "Invalid timer: neither quantity nor name";
  Site AtParse "step" "check_modifiers" "error!" IsError [ByError "bp"] 0
    "PCode D_MODS_NOT_ALLOWED" "Invalid {container}: modifiers not allowed";
  Site AtParse "step" "check_intermediate_data" "error!" IsError [ByError "bp"] 0
    "PCode D_INTER_NOT_ALLOWED" "Invalid {container}: intermediate preparation reference not allowed";
  Site AtParse "step" "check_alias" "error!" IsError [ByError "bp"] 0
    "PCode D_ALIAS_NOT_ALLOWED" "Invalid {container}: alias not allowed";
  Site AtParse "step" "check_note" "warning!" IsWarning [ByWarn "bp"] 0
    "PCode D_NOTE_WARN" "A {container} cannot have a note, it will be text";
  Site AtParse "step" "check_empty_name" "error!" IsError [ByError "bp"] 0
    "PCode D_EMPTY_NAME" "Invalid {container} name: is empty"
].
(* what is pinned (C07_diag_inventory): per (stage, file) the set of (severity, constructor of the models that
   stands for the diagnostic: site_ctor), as sorted rows; "forward" pushes are left out.
   C07_diag_summary_ok: these are exactly the (stage, file, severity, constructor) of [sites]. *)
Definition summary : list (stage * string * sev * string) := [
  (AtAnalysis, "event_consumer", IsDynamic, "Unmodelled callback_why");
  (AtAnalysis, "event_consumer", IsError, "AKind KConflictModifiers");
  (AtAnalysis, "event_consumer", IsError, "AKind KConflictQuantity");
  (AtAnalysis, "event_consumer", IsError, "AKind KInterBounds");
  (AtAnalysis, "event_consumer", IsError, "AKind KInterModifiers");
  (AtAnalysis, "event_consumer", IsError, "AKind KInterZero");
  (AtAnalysis, "event_consumer", IsError, "AKind KInvalidConfigValue");
  (AtAnalysis, "event_consumer", IsError, "AKind KNoteOnReference");
  (AtAnalysis, "event_consumer", IsError, "AKind KRefNotFound");
  (AtAnalysis, "event_consumer", IsError, "AKind KTimerUnitNotTime");
  (AtAnalysis, "event_consumer", IsError, "AKind KTimerUnitUnknown");
  (AtAnalysis, "event_consumer", IsError, "AKind KTimerValueText");
  (AtAnalysis, "event_consumer", IsError, "AKind KYamlError");
  (AtAnalysis, "event_consumer", IsError, "Ctor");
  (AtAnalysis, "event_consumer", IsWarning, "AKind KDeprecated");
  (AtAnalysis, "event_consumer", IsWarning, "AKind KIgnoredComponent");
  (AtAnalysis, "event_consumer", IsWarning, "AKind KIgnoredText");
  (AtAnalysis, "event_consumer", IsWarning, "AKind KIncompatibleUnits");
  (AtAnalysis, "event_consumer", IsWarning, "AKind KRedundantModifier");
  (AtAnalysis, "event_consumer", IsWarning, "AKind KScalingLock");
  (AtAnalysis, "event_consumer", IsWarning, "AKind KStdEntryMeta");
  (AtAnalysis, "event_consumer", IsWarning, "AKind KStdEntryYaml");
  (AtAnalysis, "event_consumer", IsWarning, "AKind KTextValueInRef");
  (AtAnalysis, "event_consumer", IsWarning, "AKind KTimeOverridden");
  (AtAnalysis, "event_consumer", IsWarning, "AKind KTimeOverridenYaml");
  (AtAnalysis, "event_consumer", IsWarning, "AKind KUnknownConfigKey");
  (AtAnalysis, "event_consumer", IsWarning, "Ctor");
  (AtAnalysis, "mod", IsDynamic, "Unmodelled callback_why");
  (AtAny, "error", IsDynamic, "Ctor");
  (AtAny, "error", IsError, "Ctor");
  (AtAny, "error", IsWarning, "Ctor");
  (AtParse, "metadata", IsError, "PCode D_EMPTY_META_KEY");
  (AtParse, "metadata", IsWarning, "PCode D_EMPTY_META_VALUE");
  (AtParse, "metadata", IsWarning, "PCode D_META_INVALID");
  (AtParse, "mod", IsError, "Ctor");
  (AtParse, "mod", IsWarning, "Ctor");
  (AtParse, "quantity", IsError, "PCode D_DIV_ZERO");
  (AtParse, "quantity", IsError, "PCode D_EMPTY_VALUE");
  (AtParse, "quantity", IsError, "PCode D_INT_PARSE");
  (AtParse, "quantity", IsError, "Unmodelled float_why");
  (AtParse, "quantity", IsWarning, "PCode D_EMPTY_UNIT");
  (AtParse, "section", IsWarning, "PCode D_SECTION_INVALID");
  (AtParse, "step", IsError, "PCode D_ALIAS_NOT_ALLOWED");
  (AtParse, "step", IsError, "PCode D_COOKWARE_RECIPE");
  (AtParse, "step", IsError, "PCode D_COOKWARE_UNIT");
  (AtParse, "step", IsError, "PCode D_DUP_MOD");
  (AtParse, "step", IsError, "PCode D_EMPTY_ALIAS");
  (AtParse, "step", IsError, "PCode D_EMPTY_NAME");
  (AtParse, "step", IsError, "PCode D_INTER_EMPTY");
  (AtParse, "step", IsError, "PCode D_INTER_INT");
  (AtParse, "step", IsError, "PCode D_INTER_INVALID");
  (AtParse, "step", IsError, "PCode D_INTER_NOT_ALLOWED");
  (AtParse, "step", IsError, "PCode D_INTER_ORDER");
  (AtParse, "step", IsError, "PCode D_INTER_SIGN");
  (AtParse, "step", IsError, "PCode D_MODS_NOT_ALLOWED");
  (AtParse, "step", IsError, "PCode D_MULTI_ALIAS");
  (AtParse, "step", IsError, "PCode D_TIMER_NEITHER");
  (AtParse, "step", IsError, "PCode D_TIMER_NO_QTY");
  (AtParse, "step", IsError, "PCode D_TIMER_NO_UNIT");
  (AtParse, "step", IsWarning, "PCode D_NOTE_WARN");
  (AtParse, "step", IsWarning, "PCode D_SINGLE_WORD")
].
