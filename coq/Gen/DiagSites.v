(* REGENERATED on every run of the C07 check from /repo/src/{parser,analysis,lexer}/*.rs, src/metadata.rs,
   src/lib.rs and src/error.rs by gen/gen_diags.py: every place of the non-test code where a diagnostic (a
   SourceDiag with a severity) is made - every error!(..) / warning!(..), SourceDiag::error / ::warning /
   ::unlabeled (the macro definitions), .into_source_diag(..), the struct literals of src/error.rs - and
   every push of a diagnostic made elsewhere (how = "forward"), as
     Site stage file-stem enclosing-fn how severity-of-the-macro [pushes seen] ordinal message
   in source order, files sorted by path; ordinal = position among the entries of that fn of that file.
   The message is the string literal or the format string with its {..} kept, else <expression>; it is
   INFORMATIVE: what is pinned (C07_diag_inventory, Properties/C07.v) and mapped to the constructors of
   the models (Model/DiagMap.v) is [site_key], the entry without it.  Line numbers are deliberately absent:
   moving code and rewording a message are harmless; a new, dropped or moved diagnostic, a changed severity
   and a changed push method change [map site_key sites].
   This committed copy is a snapshot so that a fresh clone builds. *)
From Coq Require Import List String.
Import ListNotations.
Local Open Scope string_scope.
Inductive stage := AtParse | AtAnalysis | AtAny.
(* IsDynamic: the severity is a run-time value at this place *)
Inductive sev := IsError | IsWarning | IsDynamic.
(* BlockParser::error / SourceReport::error (assert an Error), ::warn (assert a Warning), SourceReport::push *)
Inductive push := ByError (receiver : string) | ByWarn (receiver : string) | ByPush (receiver : string).
Record site := Site { site_stage : stage; site_file : string; site_fn : string; site_how : string;
                      site_sev : sev; site_pushes : list push; site_ord : nat; site_msg : string }.
Record key := Key { key_stage : stage; key_file : string; key_fn : string; key_how : string;
                    key_sev : sev; key_pushes : list push; key_ord : nat }.
Definition site_key (s : site) : key :=
  Key (site_stage s) (site_file s) (site_fn s) (site_how s) (site_sev s) (site_pushes s) (site_ord s).
Definition sites : list site := [
  Site AtAnalysis "event_consumer" "error!" "SourceDiag::error" IsError [] 0
    "<$msg>";
  Site AtAnalysis "event_consumer" "error!" "SourceDiag::unlabeled" IsError [] 1
    "<$msg>";
  Site AtAnalysis "event_consumer" "warning!" "SourceDiag::warning" IsWarning [] 0
    "<$msg>";
  Site AtAnalysis "event_consumer" "warning!" "SourceDiag::unlabeled" IsWarning [] 1
    "<$msg>";
  Site AtAnalysis "event_consumer" "parse_events" "forward" IsError [ByError "self.ctx"] 0
    "<e>";
  Site AtAnalysis "event_consumer" "parse_events" "forward" IsDynamic [ByPush "self.ctx"] 1
    "<e>";
  Site AtAnalysis "event_consumer" "parse_events" "forward" IsWarning [ByWarn "self.ctx"] 2
    "<w>";
  Site AtAnalysis "event_consumer" "parse_events" "warning!" IsWarning [ByWarn "self.ctx"] 3
    "The '>>' syntax for metadata is deprecated, use a YAML frontmatter";
  Site AtAnalysis "event_consumer" "process_frontmatter" "error!" IsError [ByError "self.ctx"] 0
    "<err.to_string()>";
  Site AtAnalysis "event_consumer" "process_frontmatter" ".into_source_diag" IsDynamic [ByPush "self.ctx"] 1
    "Invalid metadata entry";
  Site AtAnalysis "event_consumer" "process_frontmatter" "warning!" IsWarning [ByWarn "self.ctx"] 2
    "Unsupported value for key: '{}'";
  Site AtAnalysis "event_consumer" "process_frontmatter" "warning!" IsWarning [ByWarn "self.ctx"] 3
    "Time overriden";
  Site AtAnalysis "event_consumer" "metadata" "error!" IsError [ByError "self.ctx"] 0
    "Invalid value for config key '{key_t}': {value_t}";
  Site AtAnalysis "event_consumer" "metadata" "warning!" IsWarning [ByWarn "self.ctx"] 1
    "Unknown config metadata key: {key_t}";
  Site AtAnalysis "event_consumer" "metadata" ".into_source_diag" IsDynamic [ByPush "self.ctx"] 2
    "Invalid metadata entry";
  Site AtAnalysis "event_consumer" "metadata" "warning!" IsWarning [ByWarn "self.ctx"] 3
    "Unsupported value for key: '{}'";
  Site AtAnalysis "event_consumer" "time_override_check" "warning!" IsWarning [ByWarn "self.ctx"] 0
    "Time overridden";
  Site AtAnalysis "event_consumer" "in_step" "warning!" IsWarning [ByWarn "self.ctx"] 0
    "Ignoring text in define components mode";
  Site AtAnalysis "event_consumer" "in_text" "warning!" IsWarning [ByWarn "self.ctx"] 0
    "Ignoring {c} in text mode";
  Site AtAnalysis "event_consumer" "ingredient" "error!" IsError [ByError "self.ctx"] 0
    "Conflicting modifiers with intermediate preparation reference";
  Site AtAnalysis "event_consumer" "ingredient" "forward" IsError [ByError "self.ctx"] 1
    "<error>";
  Site AtAnalysis "event_consumer" "ingredient" "warning!" IsWarning [ByWarn "self.ctx"] 2
    "Incompatible units prevent calculating total amount";
  Site AtAnalysis "event_consumer" "ingredient" ".into_source_diag" IsDynamic [ByPush "self.ctx"] 3
    "Referenced recipe not found: {}";
  Site AtAnalysis "event_consumer" "resolve_intermediate_ref" "error!" IsError [] 0
    "{INVALID}: number is 0";
  Site AtAnalysis "event_consumer" "resolve_intermediate_ref" "error!" IsError [] 1
    "{INVALID}: relative reference to self";
  Site AtAnalysis "event_consumer" "resolve_intermediate_ref" "error!" IsError [] 2
    "{INVALID}: value out of bounds";
  Site AtAnalysis "event_consumer" "timer" "error!" IsError [ByError "self.ctx"] 0
    "Timer value is text: {}";
  Site AtAnalysis "event_consumer" "timer" "error!" IsError [ByError "self.ctx"] 1
    "Timer unit is not time: {unit}";
  Site AtAnalysis "event_consumer" "timer" "error!" IsError [ByError "self.ctx"] 2
    "Unknown timer unit: {unit_text}";
  Site AtAnalysis "event_consumer" "value" "warning!" IsWarning [ByWarn "self.ctx"] 0
    "Unnecessary scaling lock modifier";
  Site AtAnalysis "event_consumer" "resolve_reference" "error!" IsError [ByError "self.ctx"] 0
    "Unsupported modifier combination with reference: {conflict}";
  Site AtAnalysis "event_consumer" "resolve_reference" "warning!" IsWarning [ByWarn "self.ctx"] 1
    "Redundant {redundant} modifier";
  Site AtAnalysis "event_consumer" "resolve_reference" "error!" IsError [ByError "self.ctx"] 2
    "Reference not found: {}";
  Site AtAnalysis "event_consumer" "note_reference_error" "error!" IsError [ByError "self.ctx"] 0
    "Note not allowed in reference";
  Site AtAnalysis "event_consumer" "conflicting_reference_quantity_error" "error!" IsError [ByError "self.ctx"] 0
    "Conflicting component reference quantities";
  Site AtAnalysis "event_consumer" "text_val_in_ref_warn" "warning!" IsWarning [ByWarn "self.ctx"] 0
    "Text value may prevent calculating total amount";
  Site AtAnalysis "mod" "into_source_diag" "SourceDiag::unlabeled" IsDynamic [] 0
    "<message()>";
  Site AtAny "error" "error" "SourceDiag{}" IsError [] 0
    "<message.into()>";
  Site AtAny "error" "warning" "SourceDiag{}" IsWarning [] 0
    "<message.into()>";
  Site AtAny "error" "unlabeled" "SourceDiag{}" IsDynamic [] 0
    "<message.into()>";
  Site AtParse "metadata" "metadata_entry" "warning!" IsWarning [ByWarn "block"] 0
    "A metadata block is invalid and it will be a step";
  Site AtParse "metadata" "metadata_entry" "error!" IsError [ByError "block"] 1
    "Empty metadata key";
  Site AtParse "metadata" "metadata_entry" "warning!" IsWarning [ByWarn "block"] 2
    "Empty metadata value for key: {}";
  Site AtParse "mod" "error!" "SourceDiag::error" IsError [] 0
    "<$msg>";
  Site AtParse "mod" "warning!" "SourceDiag::warning" IsWarning [] 0
    "<$msg>";
  Site AtParse "quantity" "parse_regular_quantity" "warning!" IsWarning [ByWarn "bp"] 0
    "Empty quantity unit";
  Site AtParse "quantity" "parse_advanced_quantity" "forward" IsError [ByError "bp"] 0
    "<err>";
  Site AtParse "quantity" "parse_value" "forward" IsError [ByError "bp"] 0
    "<err>";
  Site AtParse "quantity" "text_value" "error!" IsError [ByError "bp"] 0
    "Empty quantity value";
  Site AtParse "quantity" "frac" "error!" IsError [] 0
    "Division by zero";
  Site AtParse "quantity" "int" "error!" IsError [] 0
    "Error parsing integer number";
  Site AtParse "quantity" "float" "error!" IsError [] 0
    "Error parsing decimal number";
  Site AtParse "section" "section" "warning!" IsWarning [ByWarn "block"] 0
    "A section block is invalid and it will be a step";
  Site AtParse "step" "comp_body" "warning!" IsWarning [ByWarn "bp"] 0
    "Invalid single word name, the component will be ignored";
  Site AtParse "step" "parse_modifiers" "error!" IsError [ByError "bp"] 0
    "Duplicate modifier: {}";
  Site AtParse "step" "parse_intermediate_ref_data" "error!" IsError [ByError "bp"] 0
    "{INVALID}: empty";
  Site AtParse "step" "parse_intermediate_ref_data" "error!" IsError [ByError "bp"] 1
    "{INVALID}: wrong relative section order";
  Site AtParse "step" "parse_intermediate_ref_data" "error!" IsError [ByError "bp"] 2
    "{INVALID}: value sign";
  Site AtParse "step" "parse_intermediate_ref_data" "error!" IsError [ByError "bp"] 3
    "Invalid intermediate preparation reference";
  Site AtParse "step" "parse_intermediate_ref_data" "error!" IsError [ByError "bp"] 4
    "Error parsing integer number";
  Site AtParse "step" "parse_alias" "error!" IsError [ByError "bp"] 0
    "Invalid {container}: multiple aliases";
  Site AtParse "step" "parse_alias" "error!" IsError [ByError "bp"] 1
    "Invalid {container}: empty alias";
  Site AtParse "step" "cookware" "error!" IsError [ByError "bp"] 0
    "Invalid cookware quantity: unit";
  Site AtParse "step" "cookware" "error!" IsError [ByError "bp"] 1
    "Invalid cookware modifiers: recipe modifier not allowed";
  Site AtParse "step" "timer" "error!" IsError [ByError "bp"] 0
    "Invalid timer quantity: missing unit";
  Site AtParse "step" "timer" "error!" IsError [ByError "bp"] 1
    "Invalid timer: missing quantity";
  Site AtParse "step" "timer" "error!" IsError [ByError "bp"] 2
    "Invalid timer: neither quantity nor name";
  Site AtParse "step" "check_modifiers" "error!" IsError [ByError "bp"] 0
    "Invalid {container}: modifiers not allowed";
  Site AtParse "step" "check_intermediate_data" "error!" IsError [ByError "bp"] 0
    "Invalid {container}: intermediate preparation reference not allowed";
  Site AtParse "step" "check_alias" "error!" IsError [ByError "bp"] 0
    "Invalid {container}: alias not allowed";
  Site AtParse "step" "check_note" "warning!" IsWarning [ByWarn "bp"] 0
    "A {container} cannot have a note, it will be text";
  Site AtParse "step" "check_empty_name" "error!" IsError [ByError "bp"] 0
    "Invalid {container} name: is empty"
].
