(* REGENERATED on every run from /repo/src/**/*.rs by gen/gen_shared.py: the inventory of
   process-wide, thread-local and interior-mutable state and of unsafe code, keyed by
   (module area = first path component under src/, kind) and sorted; identifiers and line
   numbers are deliberately absent, so a rename is harmless and a new static / cache / lazily
   built table / Cell|Mutex|Atomic field / unsafe block, and a new read of ambient process state
   (file system, environment, clock, process, randomness; hash-map iteration on the parse path)
   changes [items].
   This committed copy is a snapshot so that a fresh clone builds. *)
From Coq Require Import List String.
Import ListNotations.
Local Open Scope string_scope.
Inductive kind := StaticLazyLock | StaticMut | StaticInterior | StaticPlain | ThreadLocal | MacroLazy | FieldCell | FieldSync | UnsafeBlock | UnsafeFn | UnsafeImpl | AmbientFs | AmbientEnv | AmbientTime | AmbientProcess | AmbientRandom | HashIteration.
Definition kind_eqb (a b : kind) : bool :=
  match a, b with
  | StaticLazyLock, StaticLazyLock | StaticMut, StaticMut | StaticInterior, StaticInterior | StaticPlain, StaticPlain | ThreadLocal, ThreadLocal | MacroLazy, MacroLazy | FieldCell, FieldCell | FieldSync, FieldSync | UnsafeBlock, UnsafeBlock | UnsafeFn, UnsafeFn | UnsafeImpl, UnsafeImpl | AmbientFs, AmbientFs | AmbientEnv, AmbientEnv | AmbientTime, AmbientTime | AmbientProcess, AmbientProcess | AmbientRandom, AmbientRandom | HashIteration, HashIteration => true
  | _, _ => false
  end.
Definition items : list (string * kind) := [
  ("aisle", FieldCell);
  ("aisle", UnsafeBlock);
  ("aisle", UnsafeBlock);
  ("quantity", StaticLazyLock)
].
