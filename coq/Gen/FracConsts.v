(* GENERATED on every run by checks/c12.py (checks/c12_gen.py) from /repo/src/quantity.rs,
   src/convert/mod.rs and src/convert/units_file.rs.  Do not edit: the file is rewritten when a
   constant of the source changes, and the obligations of Proofs/FractionProofs.v are then re-checked. *)
From Coq Require Import List NArith ZArith QArith.
Import ListNotations.

(* FractionLookupTable::DENOMS, FIX_RATIO  (quantity.rs) *)
Definition denoms : list N := [2; 3; 4; 8; 10; 16]%N.
Definition fix_ratio : Q := (10000 # 1).
(* Number::new_approx: `decimal < 1e-10`, the two assertions *)
Definition regular_eps : Q := (1 # 10000000000).
Definition acc_lo : Q := (0 # 1).
Definition acc_hi : Q := (1 # 1).
Definition assert_max_den : N := 64%N.
(* FractionsConfig::default (convert/mod.rs) and the clamps of FractionsConfigHelper::define (units_file.rs) *)
Definition default_accuracy : Q := (1 # 20).
Definition default_max_den : N := 4%N.
Definition default_max_whole : N := 4294967295%N.
Definition clamp_acc_lo : Q := (0 # 1).
Definition clamp_acc_hi : Q := (1 # 1).
Definition clamp_den_lo : N := 1%N.
Definition clamp_den_hi : N := 16%N.
