(* REGENERATED on every run from /repo/src/lib.rs (Extensions bitflags) and
   /repo/src/parser/model.rs (Modifiers bitflags) by gen/gen_consts.py.
   This committed copy is a snapshot so that a fresh clone builds. *)
From Coq Require Import NArith.
Open Scope N_scope.
Definition X_COMPONENT_MODIFIERS : N := 2.
Definition X_COMPONENT_ALIAS : N := 8.
Definition X_ADVANCED_UNITS : N := 32.
Definition X_MODES : N := 64.
Definition X_INLINE_QUANTITIES : N := 128.
Definition X_RANGE_VALUES : N := 512.
Definition X_TIMER_REQUIRES_TIME : N := 1024.
Definition X_INTERMEDIATE_PREPARATIONS : N := 2050.
Definition X_COMPAT : N := 2794.
Definition X_ALL : N := 3818.
Definition M_RECIPE : N := 1.
Definition M_REF : N := 2.
Definition M_HIDDEN : N := 4.
Definition M_OPT : N := 8.
Definition M_NEW : N := 16.
