(* REGENERATED on every run of the C03 check from /repo/src by gen/gen_panics.py: every potential panic
   site of the non-test code of src/lexer/*.rs, src/parser/*.rs, src/analysis/*.rs, src/text.rs,
   src/span.rs, src/located.rs, src/error.rs and src/lib.rs - panic!/unreachable!/todo!/unimplemented!/
   assert*!/debug_assert*! invocations (KMacro), .unwrap() (KUnwrap), .expect(..) (KExpect), index and
   slice expressions E[..] (KIndex), std calls that panic on a bad argument (KCall), compound integer
   updates and subtractions (KArith) - as (file stem, enclosing fn, kind, text with white space and
   string literals normalised), per file in source order.  Line numbers are deliberately absent:
   [sites] is INFORMATION (nothing is proved about it).  PINNED by the obligation C03_panic_inventory
   (Properties/C03.v) is [panic_keys]: per (file stem, fn) the count of sites of each strong kind - macro
   name, unwrap / expect, `call <callee>` - without expression text; index and arithmetic entries are not
   pinned.  Treatment of every pinned group by the models: Model/PanicMap.v.
   [model_sites]: every `Definition site_*` and every literal `Panic <n>` of Model/Lexer.v, Model/PText.v,
   Model/Parser.v, Model/Analysis.v, read from those files on the same run, with its value.
   This committed copy is a snapshot so that a fresh clone builds. *)
From Coq Require Import List String NArith.
From CL Require Model.Lexer Model.PText Model.Parser Model.Analysis.
Import ListNotations.
Local Open Scope string_scope.
Inductive kind := KMacro | KUnwrap | KExpect | KIndex | KCall | KArith.
Definition site := (string * string * kind * string)%type.
Definition sites : list site := [
  ("lexer/cursor", "pos_within_token", KArith,
   "self.len_remaining - self.chars.as_str().len()");
  ("lexer/mod", "line_comment", KMacro,
   "debug_assert!(self.prev()=='-'&&self.first()=='-')");
  ("lexer/mod", "block_comment", KMacro,
   "debug_assert!(self.prev()=='['&&self.first()=='-')");
  ("lexer/mod", "word", KMacro,
   "debug_assert!(self.pos_within_token()>0)");
  ("lexer/mod", "whitespace", KMacro,
   "debug_assert!(is_whitespace(self.prev()))");
  ("lexer/mod", "number", KMacro,
   "debug_assert!(self.prev().is_ascii_digit())");
  ("parser/block_parser", "macro_rules!debug_assert_adjacent", KMacro,
   "debug_assert!($s.windows(2).all(|w|w[0].span.end()==w[1].span.start()))");
  ("parser/block_parser", "macro_rules!debug_assert_adjacent", KCall,
   "s.windows(2)");
  ("parser/block_parser", "macro_rules!debug_assert_adjacent", KIndex,
   "w[0]");
  ("parser/block_parser", "macro_rules!debug_assert_adjacent", KIndex,
   "w[1]");
  ("parser/block_parser", "new", KMacro,
   "assert!(!tokens.is_empty())");
  ("parser/block_parser", "new", KMacro,
   "debug_assert!(tokens.first().unwrap().span.start()<input.len()&&tokens.last().unwrap().span.e...");
  ("parser/block_parser", "new", KUnwrap,
   "tokens.first().unwrap()");
  ("parser/block_parser", "new", KUnwrap,
   "tokens.last().unwrap()");
  ("parser/block_parser", "new", KMacro,
   "debug_assert_adjacent!(tokens)");
  ("parser/block_parser", "base_offset", KUnwrap,
   "self.tokens.first().unwrap()");
  ("parser/block_parser", "finish", KMacro,
   "assert_eq!(self.current, self.tokens.len())");
  ("parser/block_parser", "capture_slice", KIndex,
   "self.tokens[start..end]");
  ("parser/block_parser", "token_str", KIndex,
   "self.input[token.span.range()]");
  ("parser/block_parser", "slice_str", KMacro,
   "debug_assert_adjacent!(s)");
  ("parser/block_parser", "slice_str", KUnwrap,
   "s.first().unwrap()");
  ("parser/block_parser", "slice_str", KUnwrap,
   "s.last().unwrap()");
  ("parser/block_parser", "slice_str", KIndex,
   "self.input[start..end]");
  ("parser/block_parser", "text", KMacro,
   "debug_assert_adjacent!(tokens)");
  ("parser/block_parser", "text", KIndex,
   "tokens[0]");
  ("parser/block_parser", "text", KMacro,
   "assert_eq!(offset, start)");
  ("parser/block_parser", "text", KIndex,
   "tokens[0]");
  ("parser/block_parser", "text", KIndex,
   "self.input[start..end]");
  ("parser/block_parser", "text", KIndex,
   "self.input[token.span.range()]");
  ("parser/block_parser", "text", KIndex,
   "self.input[start..end]");
  ("parser/block_parser", "text", KIndex,
   "self.input[start..end]");
  ("parser/block_parser", "text", KMacro,
   "debug_assert!(self.input[token.span.range()].starts_with('\\'))");
  ("parser/block_parser", "text", KIndex,
   "self.input[token.span.range()]");
  ("parser/block_parser", "text", KIndex,
   "self.input[start..end]");
  ("parser/block_parser", "parsed", KCall,
   "self.tokens.split_at(self.current)");
  ("parser/block_parser", "rest", KCall,
   "self.tokens.split_at(self.current)");
  ("parser/block_parser", "consume_rest", KArith,
   "self.current += r.len()");
  ("parser/block_parser", "next_token", KArith,
   "self.current += 1");
  ("parser/block_parser", "bump_any", KExpect,
   "self.next_token().expect()");
  ("parser/block_parser", "bump", KMacro,
   "assert_eq!(token.kind, expected)");
  ("parser/block_parser", "until", KIndex,
   "rest[..pos]");
  ("parser/block_parser", "until", KArith,
   "self.current += pos");
  ("parser/block_parser", "consume_while", KIndex,
   "rest[..pos]");
  ("parser/block_parser", "consume_while", KArith,
   "self.current += pos");
  ("parser/block_parser", "error", KMacro,
   "debug_assert!(error.is_error())");
  ("parser/block_parser", "warn", KMacro,
   "debug_assert!(warn.is_warning())");
  ("parser/frontmatter", "parse_frontmatter", KIndex,
   "input[..fence_start]");
  ("parser/frontmatter", "parse_frontmatter", KIndex,
   "input[yaml_start..yaml_end]");
  ("parser/frontmatter", "parse_frontmatter", KIndex,
   "input[cooklang_start..]");
  ("parser/frontmatter", "lines_with_offset", KArith,
   "offset += l.len()");
  ("parser/mod", "next_block", KIndex,
   "self.block[end-1]");
  ("parser/mod", "next_block", KArith,
   "end - 1");
  ("parser/mod", "next_block", KArith,
   "end -= 1");
  ("parser/mod", "next_block", KIndex,
   "self.block[start..end]");
  ("parser/mod", "parse_block", KMacro,
   "unreachable!()");
  ("parser/mod", "parse_multiline_block", KMacro,
   "debug_assert!(bp.tokens().last().map(|t|t.kind!=T![newline]).unwrap_or(true))");
  ("parser/mod", "tokens_span", KMacro,
   "debug_assert!(!tokens.is_empty())");
  ("parser/mod", "tokens_span", KUnwrap,
   "tokens.first().unwrap()");
  ("parser/mod", "tokens_span", KUnwrap,
   "tokens.last().unwrap()");
  ("parser/quantity", "parse_quantity", KMacro,
   "assert!(!tokens.is_empty())");
  ("parser/quantity", "parse_regular_quantity", KUnwrap,
   "unit_separator.unwrap()");
  ("parser/quantity", "parse_advanced_quantity", KUnwrap,
   "value_tokens.last().unwrap()");
  ("parser/quantity", "parse_advanced_quantity", KUnwrap,
   "value_tokens.iter().rposition(|t|!matches!(t.kind, T![ws]|T![block comment])).unwrap()");
  ("parser/quantity", "parse_advanced_quantity", KIndex,
   "value_tokens[..=end_pos]");
  ("parser/quantity", "parse_advanced_quantity", KUnwrap,
   "value_tokens.first().unwrap()");
  ("parser/quantity", "parse_advanced_quantity", KUnwrap,
   "value_tokens.last().unwrap()");
  ("parser/quantity", "parse_advanced_quantity", KUnwrap,
   "unit_tokens.first().unwrap()");
  ("parser/quantity", "range_value", KCall,
   "tokens.split_at(mid)");
  ("parser/quantity", "range_value", KUnwrap,
   "end.split_first().unwrap()");
  ("parser/quantity", "macro_rules!unwrap_numeric", KMacro,
   "unreachable!(<str>)");
  ("parser/quantity", "trim_tokens", KIndex,
   "s[0..0]");
  ("parser/quantity", "trim_tokens", KUnwrap,
   "s.iter().rposition(not_ws_comment).unwrap()");
  ("parser/quantity", "trim_tokens", KIndex,
   "s[from..=to]");
  ("parser/quantity", "mixed_num", KMacro,
   "unreachable!()");
  ("parser/quantity", "int", KMacro,
   "assert_eq!(tok.kind, T![int])");
  ("parser/step", "modifiers", KIndex,
   "bp.tokens()[start..bp.current]");
  ("parser/step", "parse_modifiers", KMacro,
   "panic!(<str>)");
  ("parser/step", "parse_intermediate_ref_data", KExpect,
   "tokens.position(|t|t.kind==T![')']).expect()");
  ("parser/step", "parse_intermediate_ref_data", KIndex,
   "slice[..=end_pos]");
  ("parser/step", "parse_intermediate_ref_data", KIndex,
   "slice[1..slice.len()-1]");
  ("parser/step", "parse_intermediate_ref_data", KArith,
   "slice.len() - 1");
  ("parser/step", "parse_alias", KCall,
   "tokens.split_at(alias_sep)");
  ("parser/step", "parse_alias", KUnwrap,
   "alias_tokens.split_first().unwrap()");
  ("parser/step", "cookware", KExpect,
   "modifiers_tokens.iter().find(|t|t.kind==T![@]).map(|t|t.span).expect()");
  ("parser/step", "check_modifiers", KMacro,
   "assert_ne!(container, INGREDIENT)");
  ("parser/step", "check_modifiers", KMacro,
   "assert_ne!(container, COOKWARE)");
  ("parser/step", "check_intermediate_data", KMacro,
   "assert_ne!(container, INGREDIENT)");
  ("parser/step", "check_alias", KMacro,
   "assert_ne!(container, INGREDIENT)");
  ("parser/step", "check_alias", KMacro,
   "assert_ne!(container, COOKWARE)");
  ("parser/step", "check_alias", KIndex,
   "name_tokens[sep]");
  ("parser/step", "check_alias", KUnwrap,
   "name_tokens.last().unwrap()");
  ("parser/step", "check_note", KMacro,
   "assert_ne!(container, INGREDIENT)");
  ("parser/step", "check_note", KMacro,
   "assert_ne!(container, COOKWARE)");
  ("parser/step", "check_note", KMacro,
   "assert!(bp.with_recover(|bp|{let start=bp.consume(T!['('])?.span.start();let _=bp.until(|t|t=...");
  ("parser/token_stream", "offset", KArith,
   "self.consumed += offset");
  ("parser/token_stream", "next", KArith,
   "self.consumed += t.len as usize");
  ("analysis/event_consumer", "parse_events", KMacro,
   "assert_eq!(kind, BlockKind::Step)");
  ("analysis/event_consumer", "parse_events", KMacro,
   "assert!(kind==BlockKind::Text||self.define_mode==DefineMode::Text)");
  ("analysis/event_consumer", "parse_events", KMacro,
   "panic!(<str>)");
  ("analysis/event_consumer", "parse_events", KArith,
   "self.step_counter += 1");
  ("analysis/event_consumer", "parse_events", KMacro,
   "panic!(<str>)");
  ("analysis/event_consumer", "process_frontmatter", KUnwrap,
   "key.as_str().unwrap()");
  ("analysis/event_consumer", "metadata", KIndex,
   "key_t[1..key_t.len()-1]");
  ("analysis/event_consumer", "metadata", KArith,
   "key_t.len() - 1");
  ("analysis/event_consumer", "metadata", KCall,
   "self.content.metadata.map.insert(serde_yaml::Value::String(key_t.into_owned()), serde_yaml::V...");
  ("analysis/event_consumer", "metadata", KCall,
   "self.content.metadata.map.insert(yaml_key, yaml_value)");
  ("analysis/event_consumer", "metadata", KUnwrap,
   "self.content.metadata.map.get(key_t.as_ref()).unwrap()");
  ("analysis/event_consumer", "metadata", KCall,
   "self.locations.metadata.insert(sp_key, (key.clone(), value.clone()))");
  ("analysis/event_consumer", "time_override_check", KMacro,
   "assert!(!keys.is_empty())");
  ("analysis/event_consumer", "time_override_check", KIndex,
   "locs(&[new])[0]");
  ("analysis/event_consumer", "time_override_check", KMacro,
   "panic!(<str>)");
  ("analysis/event_consumer", "time_override_check", KCall,
   "self.locations.metadata.remove(k)");
  ("analysis/event_consumer", "time_override_check", KUnwrap,
   "overriden.next().unwrap()");
  ("analysis/event_consumer", "in_step", KMacro,
   "panic!(<str>)");
  ("analysis/event_consumer", "in_text", KMacro,
   "assert_eq!(self.define_mode, DefineMode::Text)");
  ("analysis/event_consumer", "in_text", KMacro,
   "unreachable!()");
  ("analysis/event_consumer", "in_text", KIndex,
   "self.input[span.range()]");
  ("analysis/event_consumer", "in_text", KIndex,
   "src[pos..end]");
  ("analysis/event_consumer", "in_text", KMacro,
   "panic!(<str>)");
  ("analysis/event_consumer", "ingredient", KMacro,
   "assert!(new_igr.modifiers().contains(Modifiers::REF))");
  ("analysis/event_consumer", "ingredient", KMacro,
   "assert!(ingredient.intermediate_data.is_none())");
  ("analysis/event_consumer", "ingredient", KIndex,
   "self.content.ingredients[references_to]");
  ("analysis/event_consumer", "ingredient", KIndex,
   "self.locations.ingredients[references_to]");
  ("analysis/event_consumer", "ingredient", KMacro,
   "assert!(definition.relation.is_definition())");
  ("analysis/event_consumer", "ingredient", KIndex,
   "self.content.ingredients[index]");
  ("analysis/event_consumer", "ingredient", KIndex,
   "self.locations.ingredients[index]");
  ("analysis/event_consumer", "ingredient", KUnwrap,
   "self.locations.ingredients[index].quantity.as_ref().unwrap()");
  ("analysis/event_consumer", "ingredient", KUnwrap,
   "located_ingredient.quantity.as_ref().unwrap()");
  ("analysis/event_consumer", "ingredient", KExpect,
   "definition.relation.is_defined_in_step().expect()");
  ("analysis/event_consumer", "ingredient", KUnwrap,
   "ingredient.quantity.unwrap()");
  ("analysis/event_consumer", "ingredient", KUnwrap,
   "located_ingredient.quantity.as_ref().unwrap()");
  ("analysis/event_consumer", "ingredient", KUnwrap,
   "definition_location.quantity.as_ref().unwrap()");
  ("analysis/event_consumer", "ingredient", KArith,
   "self.content.ingredients.len() - 1");
  ("analysis/event_consumer", "resolve_intermediate_ref", KMacro,
   "assert!(!inter_data.val.is_negative())");
  ("analysis/event_consumer", "resolve_intermediate_ref", KArith,
   "val - 1");
  ("analysis/event_consumer", "resolve_intermediate_ref", KUnwrap,
   "index.unwrap()");
  ("analysis/event_consumer", "resolve_intermediate_ref", KArith,
   "val - 1");
  ("analysis/event_consumer", "resolve_intermediate_ref", KUnwrap,
   "index.unwrap()");
  ("analysis/event_consumer", "resolve_intermediate_ref", KArith,
   "val - 1");
  ("analysis/event_consumer", "cookware", KIndex,
   "self.content.cookware[references_to]");
  ("analysis/event_consumer", "cookware", KIndex,
   "self.locations.cookware[references_to]");
  ("analysis/event_consumer", "cookware", KMacro,
   "assert!(definition.relation.is_definition())");
  ("analysis/event_consumer", "cookware", KExpect,
   "definition.relation.is_defined_in_step().expect()");
  ("analysis/event_consumer", "cookware", KUnwrap,
   "located_cookware.quantity.as_ref().unwrap()");
  ("analysis/event_consumer", "cookware", KUnwrap,
   "located_cookware.quantity.as_ref().unwrap()");
  ("analysis/event_consumer", "cookware", KUnwrap,
   "definition_location.quantity.as_ref().unwrap()");
  ("analysis/event_consumer", "cookware", KArith,
   "self.content.cookware.len() - 1");
  ("analysis/event_consumer", "timer", KUnwrap,
   "located_timer.quantity.as_ref().unwrap()");
  ("analysis/event_consumer", "timer", KUnwrap,
   "located_quantity.unit.as_ref().unwrap()");
  ("analysis/event_consumer", "timer", KArith,
   "self.content.timers.len() - 1");
  ("analysis/event_consumer", "resolve_reference", KIndex,
   "all[references_to]");
  ("analysis/event_consumer", "resolve_reference", KMacro,
   "assert!(!referenced.modifiers().contains(Modifiers::REF))");
  ("analysis/event_consumer", "set_referenced_from", KIndex,
   "all[references_to]");
  ("analysis/event_consumer", "set_referenced_from", KMacro,
   "panic!(<str>)");
  ("analysis/event_consumer", "set_referenced_from", KIndex,
   "all[references_to]");
  ("analysis/event_consumer", "set_referenced_from", KMacro,
   "panic!(<str>)");
  ("analysis/event_consumer", "eat_word", KIndex,
   "text[*i..]");
  ("analysis/event_consumer", "eat_word", KIndex,
   "s[..offset]");
  ("analysis/event_consumer", "eat_word", KArith,
   "i += offset");
  ("analysis/event_consumer", "eat_whitespace", KIndex,
   "text[*i..]");
  ("analysis/event_consumer", "eat_whitespace", KIndex,
   "text[*i..*i+offset]");
  ("analysis/event_consumer", "eat_whitespace", KArith,
   "i += offset");
  ("analysis/event_consumer", "find_inline_quantity", KIndex,
   "text[i..]");
  ("analysis/event_consumer", "find_inline_quantity", KArith,
   "i += offset");
  ("analysis/event_consumer", "find_inline_quantity", KIndex,
   "text.as_bytes()[i-1]");
  ("analysis/event_consumer", "find_inline_quantity", KArith,
   "i - 1");
  ("analysis/event_consumer", "find_inline_quantity", KIndex,
   "text[..i-1]");
  ("analysis/event_consumer", "find_inline_quantity", KArith,
   "i - 1");
  ("analysis/event_consumer", "find_inline_quantity", KIndex,
   "text[..i]");
  ("analysis/event_consumer", "find_inline_quantity", KCall,
   "w1.split_at(mid)");
  ("analysis/event_consumer", "find_inline_quantity", KMacro,
   "debug_assert!(prev<i)");
  ("analysis/event_consumer", "find_inline_quantity", KIndex,
   "text[i..]");
  ("analysis/event_consumer", "yaml_find_key_position", KArith,
   "offset += line.len()");
  ("analysis/event_consumer", "yaml_find_key_position", KIndex,
   "k[start..]");
  ("analysis/event_consumer", "parse_reference", KUnwrap,
   "components.pop().unwrap()");
  ("text", "span", KUnwrap,
   "fragments.first().unwrap()");
  ("text", "span", KUnwrap,
   "fragments.last().unwrap()");
  ("text", "append_fragment", KMacro,
   "assert!(self.span().end()<=fragment.offset)");
  ("text", "text", KArith,
   "s += text");
  ("text", "fmt", KIndex,
   "fragments[0]");
  ("span", "len", KArith,
   "self.end - self.start");
  ("error", "push", KMacro,
   "debug_assert!(self.severity.is_none()||self.severity.is_some_and(|s|err.severity==s))");
  ("error", "error", KMacro,
   "debug_assert_eq!(w.severity, Severity::Error)");
  ("error", "warn", KMacro,
   "debug_assert_eq!(w.severity, Severity::Warning)");
  ("error", "set_severity", KMacro,
   "debug_assert!(severity.is_none()||severity.is_some_and(|s|self.buf.iter().all(|e|e.severity==...");
  ("error", "into_result", KUnwrap,
   "self.output.unwrap()");
  ("error", "unwrap_output", KUnwrap,
   "self.output.unwrap()");
  ("error", "next", KIndex,
   "Self::COLORS[self.0]");
  ("error", "next", KArith,
   "Self::COLORS.len() - 1");
  ("error", "next", KArith,
   "self.0 += 1");
  ("error", "write_report", KArith,
   "core::cmp::max(w, 1) - sub")
].
(* the pinned part (C03_panic_inventory): per (file stem, fn), the number of sites of every strong kind *)
Definition panic_keys : list (string * string * string * nat) := [
  ("lexer/mod", "block_comment", "debug_assert!", 1);
  ("lexer/mod", "line_comment", "debug_assert!", 1);
  ("lexer/mod", "number", "debug_assert!", 1);
  ("lexer/mod", "whitespace", "debug_assert!", 1);
  ("lexer/mod", "word", "debug_assert!", 1);
  ("parser/block_parser", "base_offset", "unwrap", 1);
  ("parser/block_parser", "bump", "assert_eq!", 1);
  ("parser/block_parser", "bump_any", "expect", 1);
  ("parser/block_parser", "error", "debug_assert!", 1);
  ("parser/block_parser", "finish", "assert_eq!", 1);
  ("parser/block_parser", "macro_rules!debug_assert_adjacent", "call windows", 1);
  ("parser/block_parser", "macro_rules!debug_assert_adjacent", "debug_assert!", 1);
  ("parser/block_parser", "new", "assert!", 1);
  ("parser/block_parser", "new", "debug_assert!", 1);
  ("parser/block_parser", "new", "debug_assert_adjacent!", 1);
  ("parser/block_parser", "new", "unwrap", 2);
  ("parser/block_parser", "parsed", "call split_at", 1);
  ("parser/block_parser", "rest", "call split_at", 1);
  ("parser/block_parser", "slice_str", "debug_assert_adjacent!", 1);
  ("parser/block_parser", "slice_str", "unwrap", 2);
  ("parser/block_parser", "text", "assert_eq!", 1);
  ("parser/block_parser", "text", "debug_assert!", 1);
  ("parser/block_parser", "text", "debug_assert_adjacent!", 1);
  ("parser/block_parser", "warn", "debug_assert!", 1);
  ("parser/mod", "parse_block", "unreachable!", 1);
  ("parser/mod", "parse_multiline_block", "debug_assert!", 1);
  ("parser/mod", "tokens_span", "debug_assert!", 1);
  ("parser/mod", "tokens_span", "unwrap", 2);
  ("parser/quantity", "int", "assert_eq!", 1);
  ("parser/quantity", "macro_rules!unwrap_numeric", "unreachable!", 1);
  ("parser/quantity", "mixed_num", "unreachable!", 1);
  ("parser/quantity", "parse_advanced_quantity", "unwrap", 5);
  ("parser/quantity", "parse_quantity", "assert!", 1);
  ("parser/quantity", "parse_regular_quantity", "unwrap", 1);
  ("parser/quantity", "range_value", "call split_at", 1);
  ("parser/quantity", "range_value", "unwrap", 1);
  ("parser/quantity", "trim_tokens", "unwrap", 1);
  ("parser/step", "check_alias", "assert_ne!", 2);
  ("parser/step", "check_alias", "unwrap", 1);
  ("parser/step", "check_intermediate_data", "assert_ne!", 1);
  ("parser/step", "check_modifiers", "assert_ne!", 2);
  ("parser/step", "check_note", "assert!", 1);
  ("parser/step", "check_note", "assert_ne!", 2);
  ("parser/step", "cookware", "expect", 1);
  ("parser/step", "parse_alias", "call split_at", 1);
  ("parser/step", "parse_alias", "unwrap", 1);
  ("parser/step", "parse_intermediate_ref_data", "expect", 1);
  ("parser/step", "parse_modifiers", "panic!", 1);
  ("analysis/event_consumer", "cookware", "assert!", 1);
  ("analysis/event_consumer", "cookware", "expect", 1);
  ("analysis/event_consumer", "cookware", "unwrap", 3);
  ("analysis/event_consumer", "find_inline_quantity", "call split_at", 1);
  ("analysis/event_consumer", "find_inline_quantity", "debug_assert!", 1);
  ("analysis/event_consumer", "in_step", "panic!", 1);
  ("analysis/event_consumer", "in_text", "assert_eq!", 1);
  ("analysis/event_consumer", "in_text", "panic!", 1);
  ("analysis/event_consumer", "in_text", "unreachable!", 1);
  ("analysis/event_consumer", "ingredient", "assert!", 3);
  ("analysis/event_consumer", "ingredient", "expect", 1);
  ("analysis/event_consumer", "ingredient", "unwrap", 5);
  ("analysis/event_consumer", "metadata", "call insert", 3);
  ("analysis/event_consumer", "metadata", "unwrap", 1);
  ("analysis/event_consumer", "parse_events", "assert!", 1);
  ("analysis/event_consumer", "parse_events", "assert_eq!", 1);
  ("analysis/event_consumer", "parse_events", "panic!", 2);
  ("analysis/event_consumer", "parse_reference", "unwrap", 1);
  ("analysis/event_consumer", "process_frontmatter", "unwrap", 1);
  ("analysis/event_consumer", "resolve_intermediate_ref", "assert!", 1);
  ("analysis/event_consumer", "resolve_intermediate_ref", "unwrap", 2);
  ("analysis/event_consumer", "resolve_reference", "assert!", 1);
  ("analysis/event_consumer", "set_referenced_from", "panic!", 2);
  ("analysis/event_consumer", "time_override_check", "assert!", 1);
  ("analysis/event_consumer", "time_override_check", "call remove", 1);
  ("analysis/event_consumer", "time_override_check", "panic!", 1);
  ("analysis/event_consumer", "time_override_check", "unwrap", 1);
  ("analysis/event_consumer", "timer", "unwrap", 2);
  ("text", "append_fragment", "assert!", 1);
  ("text", "span", "unwrap", 2);
  ("error", "error", "debug_assert_eq!", 1);
  ("error", "into_result", "unwrap", 1);
  ("error", "push", "debug_assert!", 1);
  ("error", "set_severity", "debug_assert!", 1);
  ("error", "unwrap_output", "unwrap", 1);
  ("error", "warn", "debug_assert_eq!", 1)
]%nat.
Definition model_sites : list (string * N) := [
  ("PText.site_text_append", PText.site_text_append);
  ("Parser.site_bp_new", Parser.site_bp_new);
  ("Parser.site_bp_finish", Parser.site_bp_finish);
  ("Parser.site_text_offset", Parser.site_text_offset);
  ("Parser.site_escaped_len", Parser.site_escaped_len);
  ("Parser.site_bump_any", Parser.site_bump_any);
  ("Parser.site_bump", Parser.site_bump);
  ("Parser.site_mod_token", Parser.site_mod_token);
  ("Parser.site_inter_paren", Parser.site_inter_paren);
  ("Parser.site_recipe_tok", Parser.site_recipe_tok);
  ("Parser.site_adv_rposition", Parser.site_adv_rposition);
  ("Parser.site_qty_empty", Parser.site_qty_empty);
  ("Parser.site_trim_index", Parser.site_trim_index);
  ("Parser.site_label_underflow", Parser.site_label_underflow);
  ("Parser.site_fuel", Parser.site_fuel);
  ("Analysis.site_end_without_start", Analysis.site_end_without_start);
  ("Analysis.site_end_kind_step", Analysis.site_end_kind_step);
  ("Analysis.site_end_kind_text", Analysis.site_end_kind_text);
  ("Analysis.site_content_outside_block", Analysis.site_content_outside_block);
  ("Analysis.site_nontext_in_text", Analysis.site_nontext_in_text);
  ("Analysis.site_in_text_slice", Analysis.site_in_text_slice);
  ("Analysis.site_inter_without_ref", Analysis.site_inter_without_ref);
  ("Analysis.site_inter_negative", Analysis.site_inter_negative);
  ("Analysis.site_index_definition", Analysis.site_index_definition);
  ("Analysis.site_assert_is_definition", Analysis.site_assert_is_definition);
  ("Analysis.site_units_index", Analysis.site_units_index);
  ("Analysis.site_assert_target_not_ref", Analysis.site_assert_target_not_ref);
  ("Analysis.site_step_counter_overflow", Analysis.site_step_counter_overflow);
  ("Analysis.site_iq_fuel", Analysis.site_iq_fuel);
  ("Analysis.Panic_547", 547%N);
  ("Analysis.Panic_572", 572%N)
].
