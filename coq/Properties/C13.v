(* C13 - Standard metadata values are interpreted as documented.
   Statements only; proofs live in Proofs/StdMetaProofs.v.
   [cfg_new dbg] is the code as it is now (after the repairs recorded in
   known_findings.json), [cfg_old dbg] the code as found; [dbg] selects the debug
   build (overflow checks panic) or the release build (wrap-around).  [pf] is the
   f64 reader (an oracle: any function), [alpha] the Unicode alphabetic test used
   by the URL scheme check, [cv] any list of time units of a converter. *)
From CL Require Import Base.StrLemmas Model.StdMeta Proofs.StdMetaProofs.

(* the defects of the code as found, kept as refutations of the old model *)
Theorem C13_hm_overflow_refuted_before_fix :
  exists s, parse_time parse_f64 (cfg_old true) [] s = Panic site_hm_mul.
Proof. eexists. exact hm_mul_overflow_debug. Qed.
Print Assumptions C13_hm_overflow_refuted_before_fix.

Theorem C13_wrapped_number_refuted_before_fix :
  exists s n, parse_time parse_f64 (cfg_old false) [] s = Done (Some n) /\ n = 1705032644.
Proof. eexists _, _. split; [exact hm_mul_overflow_release | reflexivity]. Qed.
Print Assumptions C13_wrapped_number_refuted_before_fix.

(* reading a duration never panics or overflows, debug or release, whatever the
   string, the converter's time units and the float reader *)
Theorem C13_time_total :
  forall pf dbg cv s, exists r, parse_time pf (cfg_new dbg) cv s = Done r.
Proof. intros. apply parse_time_total. reflexivity. Qed.
Print Assumptions C13_time_total.

Theorem C13_as_time_total :
  forall pf dbg cv v, exists r, value_as_time pf (cfg_new dbg) cv v = Done r.
Proof. intros. apply value_as_time_total. reflexivity. Qed.
Print Assumptions C13_as_time_total.

(* RecipeTime::total is the sum of prep and cook when it fits a u32, else u32::MAX *)
Theorem C13_total_saturates :
  forall dbg p k,
    total (cfg_new dbg) (TComposed p k)
    = Done (N.min ((match p with Some x => x | None => 0 end) + (match k with Some x => x | None => 0 end)) u32_max).
Proof. intros. apply (total_spec (cfg_new dbg) p k). reflexivity. Qed.
Print Assumptions C13_total_saturates.

(* the parse-time check of a standard key warns exactly when the accessor of that
   key returns nothing; and it hands servings to the scaler only as the accessor
   reads them *)
Theorem C13_warning_iff_none :
  forall pf alpha dbg k cv v,
  exists w r, check_std_entry pf alpha (cfg_new dbg) k cv v = Done (w, r)
              /\ (w = true <-> accessor_none pf alpha (cfg_new dbg) k cv v)
              /\ (r <> None -> k = KServings /\ w = false /\ r = value_as_servings v).
Proof. intros. apply warning_iff_none. reflexivity. Qed.
Print Assumptions C13_warning_iff_none.

(* ====================================================================== documented forms.
   The specification side is Model/StdMetaDoc.v (module [Doc]): abstract forms, their
   documented spellings ([Doc.print_*]) and their meaning, written without reference to the
   code's structure.  Proofs live in Proofs/StdMetaDocProofs.v. *)
From Coq Require Import String.
From CL Require Import Model.StdMetaDoc Proofs.StdMetaDocProofs.

(* ---------------------------------------------------------------------- 1. numerals *)

(* the canonical decimal numeral of n reads back as n exactly when n fits a u32 *)
Theorem C13_u32_roundtrip :
  forall n, n < two32 -> parse_u32 (Doc.print_nat n) = Some n.
Proof. exact parse_u32_print. Qed.
Print Assumptions C13_u32_roundtrip.

Theorem C13_u32_out_of_range :
  forall n, two32 <= n -> parse_u32 (Doc.print_nat n) = None.
Proof. exact parse_u32_print_big. Qed.
Print Assumptions C13_u32_out_of_range.

Example print_nat_ex :
  Doc.print_nat 4294967295 = Doc.lit "4294967295"%string /\ Doc.print_nat 0 = Doc.lit "0"%string
  /\ Doc.print_nat 90 = Doc.lit "90"%string.
Proof. vm_compute. auto. Qed.

(* ---------------------------------------------------------------------- 2. compact form *)

(* `1h`, `30m`, `1h30m` read as 60h+m, for every float reader, converter and build mode *)
Theorem C13_hm_documented :
  forall pf dbg cv x,
    Doc.hm_minutes x < two32 ->
    parse_time pf (cfg_new dbg) cv (Doc.print_hm x) = Done (Some (Doc.hm_minutes x)).
Proof. intros. apply parse_time_hm; [reflexivity|assumption]. Qed.
Print Assumptions C13_hm_documented.

(* beyond the u32 range the compact reader declines (no wrapped number, no panic) *)
Theorem C13_hm_out_of_range :
  forall dbg x,
    two32 <= Doc.hm_minutes x ->
    parse_common (cfg_new dbg) (Doc.print_hm x) = Done None.
Proof.
  intros dbg x H. rewrite parse_common_hm by reflexivity.
  apply N.ltb_ge in H. rewrite H. reflexivity.
Qed.
Print Assumptions C13_hm_out_of_range.

Example hm_ex :
  Doc.print_hm (Doc.HandM 1 30) = Doc.lit "1h30m"%string /\ Doc.hm_minutes (Doc.HandM 1 30) = 90
  /\ Doc.print_hm (Doc.H 2) = Doc.lit "2h"%string /\ Doc.print_hm (Doc.M 45) = Doc.lit "45m"%string
  /\ Doc.hm_minutes (Doc.HandM 71582788 15) < two32
  /\ two32 <= Doc.hm_minutes (Doc.HandM 71582788 16)
  /\ parse_time parse_f64 (cfg_new true) [] (Doc.print_hm (Doc.HandM 71582788 16)) = Done None
  /\ parse_time parse_f64 (cfg_new false) [] (Doc.print_hm (Doc.H 99999999)) = Done None.
Proof. vm_compute. repeat split; congruence. Qed.

(* ---------------------------------------------------------------------- 3. a number of minutes *)

(* a plain natural number reads as that many minutes, provided the float reader reads the
   numeral exactly ([pf_reads]: an oracle hypothesis on str::parse::<f64>, true of every
   integer below 2^53 in IEEE arithmetic) *)
Theorem C13_minutes_number_documented :
  forall pf dbg cv n,
    n < two32 ->
    pf_reads pf (Doc.print_nat n) (inject_Z (Z.of_N n)) ->
    parse_time pf (cfg_new dbg) cv (Doc.print_nat n) = Done (Some n).
Proof. intros. apply parse_time_minutes; [reflexivity|assumption|assumption]. Qed.
Print Assumptions C13_minutes_number_documented.

(* the hypothesis holds of the model's own reader (the one the correspondence runs) *)
Theorem C13_model_reader_exact :
  forall n, n < two64 -> pf_reads parse_f64 (Doc.print_nat n) (inject_Z (Z.of_N n)).
Proof. exact parse_f64_nat. Qed.
Print Assumptions C13_model_reader_exact.

Theorem C13_minutes_number_model :
  forall dbg cv n,
    n < two32 -> parse_time parse_f64 (cfg_new dbg) cv (Doc.print_nat n) = Done (Some n).
Proof.
  intros dbg cv n H. apply parse_time_minutes; [reflexivity|assumption|].
  apply parse_f64_nat. unfold two32, two64 in *. lia.
Qed.
Print Assumptions C13_minutes_number_model.

Example minutes_ex :
  parse_time parse_f64 (cfg_new true) [] (Doc.lit "90"%string) = Done (Some 90)
  /\ parse_time parse_f64 (cfg_new true) [] (Doc.lit "4294967296"%string) = Done None.
Proof. vm_compute. auto. Qed.

(* ---------------------------------------------------------------------- 5. accepted => documented *)

(* whatever string the compact reader accepts is a compact form - up to a `+` and leading
   zeros in the two numbers, [Doc.numeral] - and the number returned is exactly 60h+m, below
   2^32: never a wrapped or otherwise wrong number, for every string *)
Theorem C13_no_wrong_number_hm :
  forall dbg s n,
    parse_common (cfg_new dbg) s = Done (Some n) ->
    exists x, Doc.hm_spelled x s /\ n = Doc.hm_minutes x /\ n < two32.
Proof. intros dbg s n. apply parse_common_accepts. reflexivity. Qed.
Print Assumptions C13_no_wrong_number_hm.

Example no_wrong_number_ex :
  parse_common (cfg_new true) (Doc.lit "+01h05m"%string) = Done (Some 65)
  /\ parse_common (cfg_new true) (Doc.lit "1h 5m"%string) = Done None.
Proof. vm_compute. auto. Qed.

(* ---------------------------------------------------------------------- 4. number-unit pairs *)

(* `1 hour 30 min`, `1hour 30min`, `90 secs`, `1.5 h`: decimal numbers and unit keys, blanks
   from a tape, read as the rounded total - for every float reader [pf] that reads the
   numerals ([pf_reads]) and every converter [cv] under which each key means [per key]
   minutes ([unit_means]: stated on the code's own [to_minutes]; discharged below for the
   hard-coded table and for a converter's Time units).  [pair_ok] also asks that no key looks
   like `h30m` and that `h`/`m` mean 60/1 minutes, because `2h` and `90m` are read by the
   compact reader first. *)
Theorem C13_units_documented :
  forall pf dbg cv per ps t n,
    ps <> [] -> Forall (pair_ok pf cv per) ps -> Doc.tape_ok t = true ->
    minutes_result (Doc.minutes per (Doc.Pairs ps)) = Some n ->
    parse_time pf (cfg_new dbg) cv (Doc.print_form (Doc.Pairs ps) t) = Done (Some n).
Proof. intros. apply (parse_time_pairs pf (cfg_new dbg) cv per); (reflexivity || assumption). Qed.
Print Assumptions C13_units_documented.

(* out of the u32 range the unit reader declines: no saturated number *)
Theorem C13_units_out_of_range :
  forall pf dbg cv per ps t,
    Forall (pair_ok pf cv per) ps -> Doc.tape_ok t = true ->
    minutes_result (Doc.minutes per (Doc.Pairs ps)) = None ->
    parse_with_units pf (cfg_new dbg) cv (Doc.print_form (Doc.Pairs ps) t) = None.
Proof.
  intros pf dbg cv per ps t F T V.
  rewrite <- V. apply (parse_with_units_pairs pf (cfg_new dbg) cv per); (reflexivity || assumption).
Qed.
Print Assumptions C13_units_out_of_range.

(* the empty converter: every key of the hard-coded table, with the documented factors *)
Theorem C13_units_documented_hard :
  forall pf dbg ps t n,
    ps <> [] -> Doc.tape_ok t = true ->
    Forall (fun p => Doc.num_ok (fst p) = true /\ Doc.per_default (snd p) <> None
                     /\ pf_reads pf (Doc.print_num (fst p)) (Doc.num_value (fst p))) ps ->
    minutes_result (Doc.minutes Doc.per_hard (Doc.Pairs ps)) = Some n ->
    parse_time pf (cfg_new dbg) [] (Doc.print_form (Doc.Pairs ps) t) = Done (Some n).
Proof.
  intros pf dbg ps t n NE T F V.
  apply (parse_time_pairs pf (cfg_new dbg) [] Doc.per_hard); try (reflexivity || assumption).
  eapply Forall_impl; [|exact F]. intros p (A & B & C). apply pair_ok_hard; assumption.
Qed.
Print Assumptions C13_units_documented_hard.

(* a non-empty converter: a key of a Time unit of ratio r means r / r0 minutes, r0 the ratio of
   the unit found under `min`, `minute`, `minutes` or `m` (no offsets) *)
Theorem C13_units_converter :
  forall cv k mi mu ui uu,
    cv <> [] ->
    minute_unit cv = Some (mi, mu) -> u_time mu = true ->
    find_unit cv k = Some (ui, uu) -> u_time uu = true ->
    (u_diff uu == 0)%Q -> (u_diff mu == 0)%Q -> ~ (u_ratio mu == 0)%Q ->
    unit_means cv k (u_ratio uu / u_ratio mu).
Proof. exact unit_means_dynamic. Qed.
Print Assumptions C13_units_converter.

(* all documented duration forms at once (the statement planned as C13_minutes_documented) *)
Theorem C13_minutes_documented :
  forall pf dbg cv per f t n,
    form_ok pf cv per f -> Doc.tape_ok t = true ->
    minutes_result (Doc.minutes per f) = Some n ->
    parse_time pf (cfg_new dbg) cv (Doc.print_form f t) = Done (Some n).
Proof. intros. apply (parse_time_form pf (cfg_new dbg) cv per); (reflexivity || assumption). Qed.
Print Assumptions C13_minutes_documented.

Definition ex_pairs : list (Doc.num * str) :=
  [((1, []), Doc.lit "hour"%string); ((30, [5]), Doc.lit "min"%string); ((90, []), Doc.lit "secs"%string)].
Definition ex_tape : Doc.tape := [([32], [32; 32]); ([], [9])].

Example units_ex :
  Doc.print_form (Doc.Pairs ex_pairs) ex_tape = Doc.lit "1 hour  30.5min	90 secs"%string
  /\ Doc.tape_ok ex_tape = true
  /\ minutes_result (Doc.minutes Doc.per_hard (Doc.Pairs ex_pairs)) = Some 92
  /\ parse_time parse_f64 (cfg_new true) [] (Doc.print_form (Doc.Pairs ex_pairs) ex_tape) = Done (Some 92)
  /\ forallb (fun p => Doc.num_ok (fst p)) ex_pairs = true
  /\ forallb (fun p => match Doc.per_default (snd p) with Some _ => true | None => false end) ex_pairs = true.
Proof. vm_compute. repeat split. Qed.

Example units_ex_reader :
  Forall (fun p => pf_reads parse_f64 (Doc.print_num (fst p)) (Doc.num_value (fst p))) ex_pairs.
Proof.
  repeat constructor; (eexists; split; [vm_compute; reflexivity|vm_compute; reflexivity]).
Qed.

Example units_ex_single :
  parse_time parse_f64 (cfg_new true) [] (Doc.print_form (Doc.Pairs [((2, []), Doc.lit "h"%string)]) [([], [32])])
  = Done (Some 120)
  /\ minutes_result (Doc.minutes Doc.per_hard (Doc.Pairs [((2, []), Doc.lit "h"%string)])) = Some 120
  /\ minutes_result (Doc.minutes Doc.per_hard (Doc.Pairs [((99999999999, []), Doc.lit "h"%string)])) = None.
Proof. vm_compute. repeat split. Qed.

(* ---------------------------------------------------------------------- 6. servings *)

(* a number *)
Theorem C13_servings_number :
  forall v n, as_u32 v = Some n -> value_as_servings v = Some [n].
Proof. exact servings_number. Qed.
Print Assumptions C13_servings_number.

(* a `|`-separated string whose entries are blanks, a number, nothing or text that does not
   continue the number (`2 | 4 |8 people`), blanks: the numbers, refused when two are equal *)
Theorem C13_servings_string :
  forall es,
    es <> [] -> Forall sv_ok es -> Doc.no_sep 124 (map sv_print es) ->
    Doc.servings (map sv_num es) (value_as_servings (YStr (Doc.join 124 (map sv_print es)))).
Proof. intros es NE F NS. rewrite servings_string by assumption. apply servings_finish. Qed.
Print Assumptions C13_servings_string.

(* a list of numbers *)
Theorem C13_servings_list :
  forall ns,
    Forall (fun n => n < two32) ns ->
    Doc.servings ns (value_as_servings (YSeq (map (fun n => YNum (Some n) (Doc.print_nat n)) ns))).
Proof. intros ns F. rewrite servings_list by assumption. apply servings_finish. Qed.
Print Assumptions C13_servings_list.

(* whatever the value: servings that are returned never contain a duplicate *)
Theorem C13_servings_nodup :
  forall v l, value_as_servings v = Some l -> NoDup l.
Proof. exact servings_any. Qed.
Print Assumptions C13_servings_nodup.

Definition ex_servings : list sv_entry :=
  [([], 2, [32], []); ([32], 4, [], [32]); ([], 8, Doc.lit " people"%string, [])].
Example servings_ex :
  Doc.join 124 (map sv_print ex_servings) = Doc.lit "2 | 4 |8 people"%string
  /\ value_as_servings (YStr (Doc.lit "2 | 4 |8 people"%string)) = Some [2; 4; 8]
  /\ value_as_servings (YStr (Doc.lit "2|02"%string)) = None
  /\ value_as_servings (YStr (Doc.lit "5cups"%string)) = None.
Proof. vm_compute. repeat split. Qed.
Example servings_ex_ok : Forall sv_ok ex_servings /\ Doc.no_sep 124 (map sv_print ex_servings).
Proof.
  split; [repeat constructor; vm_compute; congruence|].
  intros p I. cbn in I. repeat (destruct I as [<-|I]; [vm_compute; intuition congruence|]). contradiction.
Qed.

(* ---------------------------------------------------------------------- 6. tags *)

(* a comma string: the trimmed pieces, without the empty ones, each once, in order *)
Theorem C13_tags_string :
  forall pieces,
    pieces <> [] -> Doc.no_sep 44 pieces ->
    exists l, value_as_tags (YStr (Doc.join 44 pieces)) = Some l /\ Doc.tags_of (map trim pieces) l.
Proof. exact tags_string. Qed.
Print Assumptions C13_tags_string.

(* a list of strings: the entries, without the empty ones, each once, in order *)
Theorem C13_tags_list :
  forall entries,
    exists l, value_as_tags (YSeq (map YStr entries)) = Some l /\ Doc.tags_of entries l.
Proof. exact tags_list. Qed.
Print Assumptions C13_tags_list.

(* whatever the value: tags that are returned are distinct and not empty *)
Theorem C13_tags_nodup_nonempty :
  forall v l, value_as_tags v = Some l -> NoDup l /\ ~ In [] l.
Proof. exact tags_any. Qed.
Print Assumptions C13_tags_nodup_nonempty.

Example tags_ex :
  Doc.join 44 [Doc.lit "a"%string; Doc.lit " b"%string; []; Doc.lit "a "%string] = Doc.lit "a, b,,a "%string
  /\ value_as_tags (YStr (Doc.lit "a, b,,a "%string)) = Some [Doc.lit "a"%string; Doc.lit "b"%string].
Proof. vm_compute. split; reflexivity. Qed.

(* ---------------------------------------------------------------------- 6. locale *)

(* accepted exactly as `ll` or `ll_CC` with ASCII letters, and split accordingly *)
Theorem C13_locale_iff :
  forall s l d, value_as_locale (YStr s) = Some (l, d) <-> Doc.locale s l d.
Proof. exact locale_iff. Qed.
Print Assumptions C13_locale_iff.

Theorem C13_locale_non_string :
  forall v, as_str v = None -> value_as_locale v = None.
Proof. exact locale_non_string. Qed.
Print Assumptions C13_locale_non_string.

Example locale_ex :
  value_as_locale (YStr (Doc.lit "en_GB"%string)) = Some (Doc.lit "en"%string, Some (Doc.lit "GB"%string))
  /\ value_as_locale (YStr (Doc.lit "e1"%string)) = None.
Proof. vm_compute. split; reflexivity. Qed.

(* ---------------------------------------------------------------------- 6. name and URL *)

(* the URL test of the code is the documented URL shape `scheme://host[/...]` (scheme alphabetic,
   possibly empty; host not empty, no white space).  [alpha] is char::is_alphabetic, an oracle;
   the one fact needed of it: a colon is not alphabetic. *)
Theorem C13_name_url_full :
  forall alpha s, alpha 58 = false -> (is_url alpha s = true <-> Doc.valid_url alpha s).
Proof. intros. apply is_url_iff. assumption. Qed.
Print Assumptions C13_name_url_full.

(* `Name <Url>` and `<Url>` (empty name): name and URL when the bracketed text is a valid
   URL; an invalid URL in brackets makes the whole string a plain one (next theorem) *)
Theorem C13_name_url_bracket :
  forall alpha dbg name url pad,
    ~ In 60 name -> existsb_n is_angle url = false -> forallb ascii_ws pad = true ->
    nu_parse alpha (cfg_new dbg) (Doc.print_bracket name url pad)
    = if is_url alpha (trim url) then nu_new (Some name) (Some url)
      else if is_url alpha (Doc.print_bracket name url pad)
           then nu_new None (Some (Doc.print_bracket name url pad))
           else nu_new (Some (Doc.print_bracket name url pad)) None.
Proof. intros. apply (nu_parse_bracket alpha (cfg_new dbg)); (reflexivity || assumption). Qed.
Print Assumptions C13_name_url_bracket.

(* `Url` and `Name`: a string not ending in `>` is the URL if it is one, else the name *)
Theorem C13_name_url_plain :
  forall alpha dbg s,
    last_is (trim_ascii_end s) 62 = false ->
    nu_parse alpha (cfg_new dbg) s
    = if is_url alpha s then nu_new None (Some s) else nu_new (Some s) None.
Proof. intros. apply nu_parse_plain. assumption. Qed.
Print Assumptions C13_name_url_plain.

(* for EVERY string: NameAndUrl::parse returns (name, url) exactly when that is the documented
   reading [Doc.name_url]: `Name <Url>` / `<Url>` with a valid URL -> trimmed name and URL; any
   other string -> the URL if it is a valid one, else the name, as a whole (so an invalid URL in
   brackets makes everything the name) *)
Theorem C13_name_url_documented :
  forall alpha dbg s n u,
    alpha 58 = false ->
    (nu_parse alpha (cfg_new dbg) s = (n, u) <-> Doc.name_url alpha s n u).
Proof. intros. apply nu_parse_iff; [reflexivity|assumption]. Qed.
Print Assumptions C13_name_url_documented.

Example name_url_documented_ex :
  Doc.name_url is_ascii_alpha (Doc.lit "Rachel <https://rachel.url> "%string)
    (Some (Doc.lit "Rachel"%string)) (Some (Doc.lit "https://rachel.url"%string))
  /\ Doc.name_url is_ascii_alpha (Doc.lit "Rachel <foo>"%string) (Some (Doc.lit "Rachel <foo>"%string)) None
  /\ Doc.name_url is_ascii_alpha (Doc.lit "://x"%string) None (Some (Doc.lit "://x"%string)).
Proof.
  repeat split; apply (nu_parse_iff is_ascii_alpha (cfg_new true)); (reflexivity || (vm_compute; reflexivity)).
Qed.

Example name_url_ex :
  nu_parse is_ascii_alpha (cfg_new true) (Doc.lit "Rachel <https://rachel.url> "%string)
  = (Some (Doc.lit "Rachel"%string), Some (Doc.lit "https://rachel.url"%string))
  /\ nu_parse is_ascii_alpha (cfg_new true) (Doc.lit "<https://rachel.url>"%string)
     = (None, Some (Doc.lit "https://rachel.url"%string))
  /\ nu_parse is_ascii_alpha (cfg_new true) (Doc.lit "Rachel <foo>"%string)
     = (Some (Doc.lit "Rachel <foo>"%string), None)
  /\ nu_parse is_ascii_alpha (cfg_new true) (Doc.lit "https://rachel.url"%string)
     = (None, Some (Doc.lit "https://rachel.url"%string))
  /\ nu_parse is_ascii_alpha (cfg_new true) (Doc.lit "Rachel"%string) = (Some (Doc.lit "Rachel"%string), None)
  /\ Doc.print_bracket (Doc.lit "Rachel "%string) (Doc.lit "https://rachel.url"%string) [32]
     = Doc.lit "Rachel <https://rachel.url> "%string.
Proof. vm_compute. repeat split. Qed.

(* ---------------------------------------------------------------------- accepted => documented,
   every string *)

(* the unit reader: if it answers n, the white-space separated words of the string group into
   number-unit pairs ([Doc.ws_words], [Doc.grouped]), the float reader read each number as a
   finite v, the converter (or the hard-coded table) turned each (v, unit) into finite minutes
   m, and n is the rounded sum, non-negative and within u32 *)
Theorem C13_no_wrong_number_units :
  forall pf dbg cv s n,
    parse_with_units pf (cfg_new dbg) cv s = Some n -> units_reading pf cv s n /\ n < two32.
Proof.
  intros pf dbg cv s n H. pose proof (parse_with_units_inv pf (cfg_new dbg) cv s n eq_refl H) as UR.
  split; [exact UR|]. destruct UR as (ws & items & q & _ & _ & _ & _ & _ & L & ->).
  unfold u32_max, two32 in *. lia.
Qed.
Print Assumptions C13_no_wrong_number_units.

(* what "turned (v, unit) into m minutes" means: with the empty converter the unit is in the
   documented table and m = v * factor *)
Theorem C13_unit_meaning_hard :
  forall v u m, to_minutes [] (FFin v) u = Some (FFin m) ->
    exists r, Doc.per_default u = Some r /\ (m == v * r)%Q.
Proof. exact to_minutes_hard_inv. Qed.
Print Assumptions C13_unit_meaning_hard.

(* with a converter: its minute unit and the unit of the key are Time units, and m is v itself
   (same unit) or the affine conversion by their ratios *)
Theorem C13_unit_meaning_converter :
  forall cv v u m, cv <> [] -> to_minutes cv (FFin v) u = Some (FFin m) ->
    exists mi mu ui uu,
      minute_unit cv = Some (mi, mu) /\ u_time mu = true /\ find_unit cv u = Some (ui, uu) /\ u_time uu = true
      /\ m = if ui =? mi then v else ((v + u_diff uu) * u_ratio uu / u_ratio mu - u_diff mu)%Q.
Proof. exact to_minutes_dynamic_inv. Qed.
Print Assumptions C13_unit_meaning_converter.

(* the clause "never a wrapped or otherwise wrong number" as one theorem: for ALL strings, every
   float reader, converter and build mode, a duration that is read is the number of one of the
   three documented readings - the compact form (exactly 60h+m), number-unit pairs (rounded sum),
   or a plain number (round v of the number read, 0 <= v) - and fits a u32 *)
Theorem C13_no_wrong_number :
  forall pf dbg cv s n,
    parse_time pf (cfg_new dbg) cv s = Done (Some n) ->
    (compact_reading s n \/ units_reading pf cv s n \/ float_reading pf s n) /\ n < two32.
Proof. intros pf dbg cv s n. apply parse_time_inv; reflexivity. Qed.
Print Assumptions C13_no_wrong_number.

(* the float fallback alone: what is returned is round v of the finite, non-negative number read *)
Theorem C13_no_wrong_number_float :
  forall dbg v n, finish_cast (cfg_new dbg) v = Some n ->
    exists q, v = FFin q /\ (0 <= q)%Q /\ (Doc.round q <= Z.of_N u32_max)%Z /\ n = Z.to_N (Doc.round q).
Proof. intros dbg v n H. apply cast_checked_inv. exact H. Qed.
Print Assumptions C13_no_wrong_number_float.

Example no_wrong_number_ex2 :
  parse_time parse_f64 (cfg_new true) [] (Doc.lit "1.5 h 20min"%string) = Done (Some 110)
  /\ parse_time parse_f64 (cfg_new true) [] (Doc.lit "1e3"%string) = Done (Some 1000)
  /\ parse_time parse_f64 (cfg_new true) [] (Doc.lit "-5"%string) = Done None
  /\ parse_time parse_f64 (cfg_new false) [] (Doc.lit "99999999999 h"%string) = Done None.
Proof. vm_compute. repeat split. Qed.

(* ---------------------------------------------------------------------- servings, every entry *)

(* a `|`-string of arbitrary entries: l is returned exactly when every entry has a leading number
   ([Doc.leading_padded]: blanks, digits, then nothing or text not continuing the word) and the
   numbers are distinct *)
Theorem C13_servings_string_iff :
  forall pieces l,
    pieces <> [] -> Doc.no_sep 124 pieces ->
    (value_as_servings (YStr (Doc.join 124 pieces)) = Some l
     <-> Forall2 Doc.leading_padded pieces l /\ NoDup l).
Proof.
  intros pieces l NE NS. rewrite servings_string_eq by assumption.
  apply serv_some. intros a n. apply extract_trim_iff.
Qed.
Print Assumptions C13_servings_string_iff.

(* ... and nothing is returned exactly when some entry has no leading number or two are equal *)
Theorem C13_servings_string_none_iff :
  forall pieces,
    pieces <> [] -> Doc.no_sep 124 pieces ->
    (value_as_servings (YStr (Doc.join 124 pieces)) = None
     <-> (exists e, In e pieces /\ forall n, ~ Doc.leading_padded e n)
         \/ (exists l, Forall2 Doc.leading_padded pieces l /\ ~ NoDup l)).
Proof.
  intros pieces NE NS. rewrite servings_string_eq by assumption.
  apply serv_none. intros a n. apply extract_trim_iff.
Qed.
Print Assumptions C13_servings_string_none_iff.

(* a list of arbitrary entries: an entry gives n when it is the u32 number n, or a string with
   the leading number n ([entry_reads]; not trimmed: the code does not trim list entries) *)
Theorem C13_servings_list_iff :
  forall seq l,
    value_as_servings (YSeq seq) = Some l <-> Forall2 entry_reads seq l /\ NoDup l.
Proof. intros seq l. rewrite servings_list_eq. apply serv_some. exact serving_entry_iff. Qed.
Print Assumptions C13_servings_list_iff.

Theorem C13_servings_list_none_iff :
  forall seq,
    value_as_servings (YSeq seq) = None
    <-> (exists e, In e seq /\ forall n, ~ entry_reads e n)
        \/ (exists l, Forall2 entry_reads seq l /\ ~ NoDup l).
Proof. intros seq. rewrite servings_list_eq. apply serv_none. exact serving_entry_iff. Qed.
Print Assumptions C13_servings_list_none_iff.

Example servings_iff_ex :
  value_as_servings (YSeq [YStr (Doc.lit "5 cups"%string); YNum (Some 6) (Doc.lit "6"%string)]) = Some [5; 6]
  /\ value_as_servings (YSeq [YStr (Doc.lit " 5"%string)]) = None
  /\ value_as_servings (YStr (Doc.lit "12 servings|24 servings"%string)) = Some [12; 24].
Proof. vm_compute. repeat split. Qed.

(* the model's own float reader (the one the correspondence runs against str::parse::<f64>) reads
   the number texts of the unit reader - digits and points, [Doc.grouped] - as their decimal
   value exactly, or not as a finite number at all: `007`, `1.50`, `.5`, `5.` *)
Theorem C13_model_reader_decimal :
  forall s v, forallb Doc.num_char s = true -> parse_f64 s = Some (FFin v) -> Doc.decimal s v.
Proof. exact parse_f64_decimal. Qed.
Print Assumptions C13_model_reader_decimal.

Example reader_decimal_ex :
  parse_f64 (Doc.lit "007.50"%string) = Some (FFin (750 # 100)) /\ parse_f64 (Doc.lit "1.2.3"%string) = None.
Proof. vm_compute. split; reflexivity. Qed.

(* ---------------------------------------------------------------------- the real converters *)
From CL Require Import Proofs.StdMetaGen.

(* Converter::default() and the live build of units.toml + spanish.toml, as dumped into
   Gen/UnitsLive.v on every run of C16: the minute unit is a Time unit of ratio 60, and every key
   of every Time unit (`hora`, `minutos`, `secs`, ...) means ratio/60 minutes to the duration
   reader - the hypothesis [unit_means] of C13_units_documented, discharged on the real tables *)
Theorem C13_time_units_equiv :
  forall cv, In cv live_convs ->
    exists mi mu, minute_unit cv = Some (mi, mu) /\ u_time mu = true /\ (u_ratio mu == 60 # 1)%Q
      /\ forall u k, In u cv -> u_time u = true -> In k (u_keys u) ->
                     unit_means cv k (u_ratio u / u_ratio mu).
Proof. exact live_time_units. Qed.
Print Assumptions C13_time_units_equiv.

Example live_units_ex :
  parse_time parse_f64 (cfg_new true) (conv_of_dump UnitsLive.live_spanish) (Doc.lit "1 hora 30 minutos"%string)
  = Done (Some 90)
  /\ parse_time parse_f64 (cfg_new true) (conv_of_dump UnitsLive.live_default) (Doc.lit "90 secs 1d"%string)
     = Done (Some 1442)
  /\ conv_ok (conv_of_dump UnitsLive.live_default) = true /\ index_agrees UnitsLive.live_spanish = true.
Proof. vm_compute. repeat split. Qed.
