(* C13 - Standard metadata values are interpreted as documented.
   Statements only; proofs live in Proofs/StdMetaProofs.v.
   [cfg_new dbg] is the code as it is now (after the repairs recorded in
   known_findings.json), [cfg_old dbg] the code as found; [dbg] selects the debug
   build (overflow checks panic) or the release build (wrap-around).  [pf] is the
   f64 reader (an oracle: any function), [alpha] the Unicode alphabetic test used
   by the URL scheme check, [cv] any list of time units of a converter. *)
From CL Require Import Base.StrLemmas Model.StdMeta Proofs.StdMetaProofs.

(* the defects of the code as found, kept as refutations of the old model *)
Theorem C13_hm_overflow_refuted_before_fix :
  exists s, parse_time parse_f64 (cfg_old true) [] s = Panic site_hm_mul.
Proof. eexists. exact hm_mul_overflow_debug. Qed.
Print Assumptions C13_hm_overflow_refuted_before_fix.

Theorem C13_wrapped_number_refuted_before_fix :
  exists s n, parse_time parse_f64 (cfg_old false) [] s = Done (Some n) /\ n = 1705032644.
Proof. eexists _, _. split; [exact hm_mul_overflow_release | reflexivity]. Qed.
Print Assumptions C13_wrapped_number_refuted_before_fix.

(* reading a duration never panics or overflows, debug or release, whatever the
   string, the converter's time units and the float reader *)
Theorem C13_time_total :
  forall pf dbg cv s, exists r, parse_time pf (cfg_new dbg) cv s = Done r.
Proof. intros. apply parse_time_total. reflexivity. Qed.
Print Assumptions C13_time_total.

Theorem C13_as_time_total :
  forall pf dbg cv v, exists r, value_as_time pf (cfg_new dbg) cv v = Done r.
Proof. intros. apply value_as_time_total. reflexivity. Qed.
Print Assumptions C13_as_time_total.

(* RecipeTime::total is the sum of prep and cook when it fits a u32, else u32::MAX *)
Theorem C13_total_saturates :
  forall dbg p k,
    total (cfg_new dbg) (TComposed p k)
    = Done (N.min ((match p with Some x => x | None => 0 end) + (match k with Some x => x | None => 0 end)) u32_max).
Proof. intros. apply (total_spec (cfg_new dbg) p k). reflexivity. Qed.
Print Assumptions C13_total_saturates.

(* the parse-time check of a standard key warns exactly when the accessor of that
   key returns nothing; and it hands servings to the scaler only as the accessor
   reads them *)
Theorem C13_warning_iff_none :
  forall pf alpha dbg k cv v,
  exists w r, check_std_entry pf alpha (cfg_new dbg) k cv v = Done (w, r)
              /\ (w = true <-> accessor_none pf alpha (cfg_new dbg) k cv v)
              /\ (r <> None -> k = KServings /\ w = false /\ r = value_as_servings v).
Proof. intros. apply warning_iff_none. reflexivity. Qed.
Print Assumptions C13_warning_iff_none.

(* ====================================================================== documented forms.
   The specification side is Model/StdMetaDoc.v (module [Doc]): abstract forms, their
   documented spellings ([Doc.print_*]) and their meaning, written without reference to the
   code's structure.  Proofs live in Proofs/StdMetaDocProofs.v. *)
From Coq Require Import String.
From CL Require Import Model.StdMetaDoc Proofs.StdMetaDocProofs.

(* ---------------------------------------------------------------------- 1. numerals *)

(* the canonical decimal numeral of n reads back as n exactly when n fits a u32 *)
Theorem C13_u32_roundtrip :
  forall n, n < two32 -> parse_u32 (Doc.print_nat n) = Some n.
Proof. exact parse_u32_print. Qed.
Print Assumptions C13_u32_roundtrip.

Theorem C13_u32_out_of_range :
  forall n, two32 <= n -> parse_u32 (Doc.print_nat n) = None.
Proof. exact parse_u32_print_big. Qed.
Print Assumptions C13_u32_out_of_range.

Example print_nat_ex :
  Doc.print_nat 4294967295 = Doc.lit "4294967295"%string /\ Doc.print_nat 0 = Doc.lit "0"%string
  /\ Doc.print_nat 90 = Doc.lit "90"%string.
Proof. vm_compute. auto. Qed.

(* ---------------------------------------------------------------------- 2. compact form *)

(* `1h`, `30m`, `1h30m` read as 60h+m, for every float reader, converter and build mode *)
Theorem C13_hm_documented :
  forall pf dbg cv x,
    Doc.hm_minutes x < two32 ->
    parse_time pf (cfg_new dbg) cv (Doc.print_hm x) = Done (Some (Doc.hm_minutes x)).
Proof. intros. apply parse_time_hm; [reflexivity|assumption]. Qed.
Print Assumptions C13_hm_documented.

(* beyond the u32 range the compact reader declines (no wrapped number, no panic) *)
Theorem C13_hm_out_of_range :
  forall dbg x,
    two32 <= Doc.hm_minutes x ->
    parse_common (cfg_new dbg) (Doc.print_hm x) = Done None.
Proof.
  intros dbg x H. rewrite parse_common_hm by reflexivity.
  apply N.ltb_ge in H. rewrite H. reflexivity.
Qed.
Print Assumptions C13_hm_out_of_range.

Example hm_ex :
  Doc.print_hm (Doc.HandM 1 30) = Doc.lit "1h30m"%string /\ Doc.hm_minutes (Doc.HandM 1 30) = 90
  /\ Doc.print_hm (Doc.H 2) = Doc.lit "2h"%string /\ Doc.print_hm (Doc.M 45) = Doc.lit "45m"%string
  /\ Doc.hm_minutes (Doc.HandM 71582788 15) < two32
  /\ two32 <= Doc.hm_minutes (Doc.HandM 71582788 16)
  /\ parse_time parse_f64 (cfg_new true) [] (Doc.print_hm (Doc.HandM 71582788 16)) = Done None
  /\ parse_time parse_f64 (cfg_new false) [] (Doc.print_hm (Doc.H 99999999)) = Done None.
Proof. vm_compute. repeat split; congruence. Qed.

(* ---------------------------------------------------------------------- 3. a number of minutes *)

(* a plain natural number reads as that many minutes, provided the float reader reads the
   numeral exactly ([pf_reads]: an oracle hypothesis on str::parse::<f64>, true of every
   integer below 2^53 in IEEE arithmetic) *)
Theorem C13_minutes_number_documented :
  forall pf dbg cv n,
    n < two32 ->
    pf_reads pf (Doc.print_nat n) (inject_Z (Z.of_N n)) ->
    parse_time pf (cfg_new dbg) cv (Doc.print_nat n) = Done (Some n).
Proof. intros. apply parse_time_minutes; [reflexivity|assumption|assumption]. Qed.
Print Assumptions C13_minutes_number_documented.

(* the hypothesis holds of the model's own reader (the one the correspondence runs) *)
Theorem C13_model_reader_exact :
  forall n, n < two64 -> pf_reads parse_f64 (Doc.print_nat n) (inject_Z (Z.of_N n)).
Proof. exact parse_f64_nat. Qed.
Print Assumptions C13_model_reader_exact.

Theorem C13_minutes_number_model :
  forall dbg cv n,
    n < two32 -> parse_time parse_f64 (cfg_new dbg) cv (Doc.print_nat n) = Done (Some n).
Proof.
  intros dbg cv n H. apply parse_time_minutes; [reflexivity|assumption|].
  apply parse_f64_nat. unfold two32, two64 in *. lia.
Qed.
Print Assumptions C13_minutes_number_model.

Example minutes_ex :
  parse_time parse_f64 (cfg_new true) [] (Doc.lit "90"%string) = Done (Some 90)
  /\ parse_time parse_f64 (cfg_new true) [] (Doc.lit "4294967296"%string) = Done None.
Proof. vm_compute. auto. Qed.

(* ---------------------------------------------------------------------- 5. accepted => documented *)

(* whatever string the compact reader accepts is a compact form - up to a `+` and leading
   zeros in the two numbers, [Doc.numeral] - and the number returned is exactly 60h+m, below
   2^32: never a wrapped or otherwise wrong number, for every string *)
Theorem C13_no_wrong_number_hm :
  forall dbg s n,
    parse_common (cfg_new dbg) s = Done (Some n) ->
    exists x, Doc.hm_spelled x s /\ n = Doc.hm_minutes x /\ n < two32.
Proof. intros dbg s n. apply parse_common_accepts. reflexivity. Qed.
Print Assumptions C13_no_wrong_number_hm.

Example no_wrong_number_ex :
  parse_common (cfg_new true) (Doc.lit "+01h05m"%string) = Done (Some 65)
  /\ parse_common (cfg_new true) (Doc.lit "1h 5m"%string) = Done None.
Proof. vm_compute. auto. Qed.

(* ---------------------------------------------------------------------- 4. number-unit pairs *)

(* `1 hour 30 min`, `1hour 30min`, `90 secs`, `1.5 h`: decimal numbers and unit keys, blanks
   from a tape, read as the rounded total - for every float reader [pf] that reads the
   numerals ([pf_reads]) and every converter [cv] under which each key means [per key]
   minutes ([unit_means]: stated on the code's own [to_minutes]; discharged below for the
   hard-coded table and for a converter's Time units).  [pair_ok] also asks that no key looks
   like `h30m` and that `h`/`m` mean 60/1 minutes, because `2h` and `90m` are read by the
   compact reader first. *)
Theorem C13_units_documented :
  forall pf dbg cv per ps t n,
    ps <> [] -> Forall (pair_ok pf cv per) ps -> Doc.tape_ok t = true ->
    minutes_result (Doc.minutes per (Doc.Pairs ps)) = Some n ->
    parse_time pf (cfg_new dbg) cv (Doc.print_form (Doc.Pairs ps) t) = Done (Some n).
Proof. intros. apply (parse_time_pairs pf (cfg_new dbg) cv per); (reflexivity || assumption). Qed.
Print Assumptions C13_units_documented.

(* out of the u32 range the unit reader declines: no saturated number *)
Theorem C13_units_out_of_range :
  forall pf dbg cv per ps t,
    Forall (pair_ok pf cv per) ps -> Doc.tape_ok t = true ->
    minutes_result (Doc.minutes per (Doc.Pairs ps)) = None ->
    parse_with_units pf (cfg_new dbg) cv (Doc.print_form (Doc.Pairs ps) t) = None.
Proof.
  intros pf dbg cv per ps t F T V.
  rewrite <- V. apply (parse_with_units_pairs pf (cfg_new dbg) cv per); (reflexivity || assumption).
Qed.
Print Assumptions C13_units_out_of_range.

(* the empty converter: every key of the hard-coded table, with the documented factors *)
Theorem C13_units_documented_hard :
  forall pf dbg ps t n,
    ps <> [] -> Doc.tape_ok t = true ->
    Forall (fun p => Doc.num_ok (fst p) = true /\ Doc.per_default (snd p) <> None
                     /\ pf_reads pf (Doc.print_num (fst p)) (Doc.num_value (fst p))) ps ->
    minutes_result (Doc.minutes Doc.per_hard (Doc.Pairs ps)) = Some n ->
    parse_time pf (cfg_new dbg) [] (Doc.print_form (Doc.Pairs ps) t) = Done (Some n).
Proof.
  intros pf dbg ps t n NE T F V.
  apply (parse_time_pairs pf (cfg_new dbg) [] Doc.per_hard); try (reflexivity || assumption).
  eapply Forall_impl; [|exact F]. intros p (A & B & C). apply pair_ok_hard; assumption.
Qed.
Print Assumptions C13_units_documented_hard.

(* a non-empty converter: a key of a Time unit of ratio r means r / r0 minutes, r0 the ratio of
   the unit found under `min`, `minute`, `minutes` or `m` (no offsets) *)
Theorem C13_units_converter :
  forall cv k mi mu ui uu,
    cv <> [] ->
    minute_unit cv = Some (mi, mu) -> u_time mu = true ->
    find_unit cv k = Some (ui, uu) -> u_time uu = true ->
    (u_diff uu == 0)%Q -> (u_diff mu == 0)%Q -> ~ (u_ratio mu == 0)%Q ->
    unit_means cv k (u_ratio uu / u_ratio mu).
Proof. exact unit_means_dynamic. Qed.
Print Assumptions C13_units_converter.

(* all documented duration forms at once (the statement planned as C13_minutes_documented) *)
Theorem C13_minutes_documented :
  forall pf dbg cv per f t n,
    form_ok pf cv per f -> Doc.tape_ok t = true ->
    minutes_result (Doc.minutes per f) = Some n ->
    parse_time pf (cfg_new dbg) cv (Doc.print_form f t) = Done (Some n).
Proof. intros. apply (parse_time_form pf (cfg_new dbg) cv per); (reflexivity || assumption). Qed.
Print Assumptions C13_minutes_documented.

Definition ex_pairs : list (Doc.num * str) :=
  [((1, []), Doc.lit "hour"%string); ((30, [5]), Doc.lit "min"%string); ((90, []), Doc.lit "secs"%string)].
Definition ex_tape : Doc.tape := [([32], [32; 32]); ([], [9])].

Example units_ex :
  Doc.print_form (Doc.Pairs ex_pairs) ex_tape = Doc.lit "1 hour  30.5min	90 secs"%string
  /\ Doc.tape_ok ex_tape = true
  /\ minutes_result (Doc.minutes Doc.per_hard (Doc.Pairs ex_pairs)) = Some 92
  /\ parse_time parse_f64 (cfg_new true) [] (Doc.print_form (Doc.Pairs ex_pairs) ex_tape) = Done (Some 92)
  /\ forallb (fun p => Doc.num_ok (fst p)) ex_pairs = true
  /\ forallb (fun p => match Doc.per_default (snd p) with Some _ => true | None => false end) ex_pairs = true.
Proof. vm_compute. repeat split. Qed.

Example units_ex_reader :
  Forall (fun p => pf_reads parse_f64 (Doc.print_num (fst p)) (Doc.num_value (fst p))) ex_pairs.
Proof.
  repeat constructor; (eexists; split; [vm_compute; reflexivity|vm_compute; reflexivity]).
Qed.

Example units_ex_single :
  parse_time parse_f64 (cfg_new true) [] (Doc.print_form (Doc.Pairs [((2, []), Doc.lit "h"%string)]) [([], [32])])
  = Done (Some 120)
  /\ minutes_result (Doc.minutes Doc.per_hard (Doc.Pairs [((2, []), Doc.lit "h"%string)])) = Some 120
  /\ minutes_result (Doc.minutes Doc.per_hard (Doc.Pairs [((99999999999, []), Doc.lit "h"%string)])) = None.
Proof. vm_compute. repeat split. Qed.
