(* C13 - Standard metadata values are interpreted as documented.
   Statements only; proofs live in Proofs/StdMetaProofs.v. *)
From CL Require Import Base.StrLemmas Model.StdMeta Proofs.StdMetaProofs.

Theorem C13_hm_overflow_refuted_before_fix :
  exists s, parse_time parse_f64 (cfg_old true) [] s = Panic site_hm_mul.
Proof. eexists. exact hm_mul_overflow_debug. Qed.
Print Assumptions C13_hm_overflow_refuted_before_fix.
