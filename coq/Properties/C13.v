(* C13 - Standard metadata values are interpreted as documented.
   Statements only; proofs live in Proofs/StdMetaProofs.v.
   [cfg_new dbg] is the code as it is now (after the repairs recorded in
   known_findings.json), [cfg_old dbg] the code as found; [dbg] selects the debug
   build (overflow checks panic) or the release build (wrap-around).  [pf] is the
   f64 reader (an oracle: any function), [alpha] the Unicode alphabetic test used
   by the URL scheme check, [cv] any list of time units of a converter. *)
From CL Require Import Base.StrLemmas Model.StdMeta Proofs.StdMetaProofs.

(* the defects of the code as found, kept as refutations of the old model *)
Theorem C13_hm_overflow_refuted_before_fix :
  exists s, parse_time parse_f64 (cfg_old true) [] s = Panic site_hm_mul.
Proof. eexists. exact hm_mul_overflow_debug. Qed.
Print Assumptions C13_hm_overflow_refuted_before_fix.

Theorem C13_wrapped_number_refuted_before_fix :
  exists s n, parse_time parse_f64 (cfg_old false) [] s = Done (Some n) /\ n = 1705032644.
Proof. eexists _, _. split; [exact hm_mul_overflow_release | reflexivity]. Qed.
Print Assumptions C13_wrapped_number_refuted_before_fix.

(* reading a duration never panics or overflows, debug or release, whatever the
   string, the converter's time units and the float reader *)
Theorem C13_time_total :
  forall pf dbg cv s, exists r, parse_time pf (cfg_new dbg) cv s = Done r.
Proof. intros. apply parse_time_total. reflexivity. Qed.
Print Assumptions C13_time_total.

Theorem C13_as_time_total :
  forall pf dbg cv v, exists r, value_as_time pf (cfg_new dbg) cv v = Done r.
Proof. intros. apply value_as_time_total. reflexivity. Qed.
Print Assumptions C13_as_time_total.

(* RecipeTime::total is the sum of prep and cook when it fits a u32, else u32::MAX *)
Theorem C13_total_saturates :
  forall dbg p k,
    total (cfg_new dbg) (TComposed p k)
    = Done (N.min ((match p with Some x => x | None => 0 end) + (match k with Some x => x | None => 0 end)) u32_max).
Proof. intros. apply (total_spec (cfg_new dbg) p k). reflexivity. Qed.
Print Assumptions C13_total_saturates.

(* the parse-time check of a standard key warns exactly when the accessor of that
   key returns nothing; and it hands servings to the scaler only as the accessor
   reads them *)
Theorem C13_warning_iff_none :
  forall pf alpha dbg k cv v,
  exists w r, check_std_entry pf alpha (cfg_new dbg) k cv v = Done (w, r)
              /\ (w = true <-> accessor_none pf alpha (cfg_new dbg) k cv v)
              /\ (r <> None -> k = KServings /\ w = false /\ r = value_as_servings v).
Proof. intros. apply warning_iff_none. reflexivity. Qed.
Print Assumptions C13_warning_iff_none.
