(* C06 - The recipe model is referentially consistent.

   Model: Model/Analysis.v (RecipeCollector of src/analysis/event_consumer.rs, function by
   function, over the parser's event stream of Model/Events.v); [cfgF] is the code as it is
   now (with the repair c9128f1), [cfg0] the code before it.
   Statement: Model/AnalysisSpec.v - [recipe_ok] on the recipe that is returned, [Inv] the
   same statement on the collector state (extended to the section and block under
   construction), [recipe_valid_ok] the part that only holds for a valid result.
   Quantification: every event sequence the parser can emit ([parser_shaped], the grammar of
   Model/Events.v; prefixes included, so the theorems also cover a stream cut anywhere),
   whether or not analysis reports errors; every extension set ([x]); every converter
   ([unit_class], [find_iq]); every case folding ([ci_key]), YAML acceptance ([yaml_ok]) and
   source text ([input]).  The model may panic (asserts of the code, the u32 step counter):
   the theorems speak about the runs that return ([= Done _]); absence of panics is C03. *)
From Coq Require Import ZArith.
From CL Require Import Model.AnalysisSpec Proofs.AnalysisProofs.
From CL Require Proofs.AnalysisValues.
From CL Require Model.Lexer Model.Parser Model.EventBridge Proofs.ParserShape.

(* the empty collector satisfies the invariant *)
Theorem C06_init : forall ci_key, Inv ci_key init.
Proof. exact Inv_init. Qed.
Print Assumptions C06_init.

(* every event the parser can emit next preserves it ([linked] ties the parser's position
   inside/outside a block to the collector's block buffer) *)
Theorem C06_step :
  forall ci_key yaml_ok find_iq unit_class input x p s e p' s',
    Inv ci_key s -> linked p s -> shape_step p e = Some p' ->
    step ci_key yaml_ok find_iq unit_class input x cfgF s e = Done s' ->
    Inv ci_key s' /\ linked p' s'.
Proof.
  intros ci_key yaml_ok find_iq unit_class input x.
  exact (step_inv ci_key find_iq unit_class input x cfgF yaml_ok eq_refl eq_refl).
Qed.
Print Assumptions C06_step.

(* hence it holds after every stream the parser can emit, complete or cut short, with or
   without analysis errors *)
Theorem C06_reachable :
  forall ci_key yaml_ok find_iq unit_class input x evs s,
    parser_shaped_prefix evs ->
    run ci_key yaml_ok find_iq unit_class input x cfgF init evs = Done s ->
    Inv ci_key s.
Proof.
  intros ci_key yaml_ok find_iq unit_class input x evs s.
  exact (reachable_inv ci_key yaml_ok find_iq unit_class input x cfgF evs s eq_refl eq_refl).
Qed.
Print Assumptions C06_reachable.

(* ... and in particular after every event stream of the pull-parser model (Model/Parser.v),
   carried over by the bridge of Model/EventBridge.v: the shape hypothesis is discharged by
   C03_parser_shaped, for every Unicode classification, every parser configuration (extension set,
   debug or release, old or repaired parser code) and every source text.  [src] is the text the
   parser read; [input] (what in_text slices) is left free, the implementation passes the same text *)
Theorem C06_reachable_from_parser :
  forall (U : N -> Lexer.ucls) (pc : Parser.pcfg) (src : str) (pevs : list Parser.pevent)
         ci_key yaml_ok find_iq unit_class input x st,
    Parser.events U pc src = Done pevs ->
    run ci_key yaml_ok find_iq unit_class input x cfgF init (EventBridge.abstract_events pevs) = Done st ->
    Inv ci_key st.
Proof.
  intros U pc src pevs ci_key yaml_ok find_iq unit_class input x st Ev.
  apply C06_reachable. exists POut. exact (ParserShape.events_shaped U pc src pevs Ev).
Qed.
Print Assumptions C06_reachable_from_parser.

(* the same for a stream cut after n events *)
Theorem C06_reachable_from_parser_prefix :
  forall (U : N -> Lexer.ucls) (pc : Parser.pcfg) (src : str) (pevs : list Parser.pevent) (n : nat)
         ci_key yaml_ok find_iq unit_class input x st,
    Parser.events U pc src = Done pevs ->
    run ci_key yaml_ok find_iq unit_class input x cfgF init (EventBridge.abstract_events (firstn n pevs)) = Done st ->
    Inv ci_key st.
Proof.
  intros U pc src pevs n ci_key yaml_ok find_iq unit_class input x st Ev.
  apply C06_reachable. exact (ParserShape.events_prefix_shaped U pc src pevs n Ev).
Qed.
Print Assumptions C06_reachable_from_parser_prefix.

(* the property on what is returned: whenever there is an output, valid or not, it is
   referentially consistent: indices in range and increasing in document order per kind,
   relations inverse of each other with each back link once and the target an earlier
   definition, step targets earlier steps of the same section, section targets earlier
   sections, steps numbered 1,2,.. per section, no empty section / step / text block / text
   item, every timer with a name or a quantity *)
Theorem C06_output :
  forall ci_key yaml_ok find_iq unit_class input x evs r valid,
    parser_shaped_prefix evs ->
    analyse ci_key yaml_ok find_iq unit_class input x cfgF evs = Done (Some r, valid) ->
    recipe_ok r.
Proof.
  intros ci_key yaml_ok find_iq unit_class input x evs r valid Sh H.
  exact (proj1 (analyse_ok ci_key yaml_ok find_iq unit_class input x cfgF evs r valid eq_refl eq_refl Sh H)).
Qed.
Print Assumptions C06_output.

(* when the result is valid: a component is a reference exactly when it carries REF, and a
   reference has the case-folded name of its definition *)
Theorem C06_valid :
  forall ci_key yaml_ok find_iq unit_class input x evs r,
    parser_shaped_prefix evs ->
    analyse ci_key yaml_ok find_iq unit_class input x cfgF evs = Done (Some r, true) ->
    recipe_valid_ok ci_key r.
Proof.
  intros ci_key yaml_ok find_iq unit_class input x evs r Sh H.
  exact (proj2 (analyse_ok ci_key yaml_ok find_iq unit_class input x cfgF evs r true eq_refl eq_refl Sh H) eq_refl).
Qed.
Print Assumptions C06_valid.

(* the same two statements from the source text: what the analysis of the parser's own event
   stream returns is referentially consistent (no shape hypothesis left) *)
Theorem C06_output_from_parser :
  forall (U : N -> Lexer.ucls) (pc : Parser.pcfg) (src : str) (pevs : list Parser.pevent)
         ci_key yaml_ok find_iq unit_class input x r valid,
    Parser.events U pc src = Done pevs ->
    analyse ci_key yaml_ok find_iq unit_class input x cfgF (EventBridge.abstract_events pevs) = Done (Some r, valid) ->
    recipe_ok r /\ (valid = true -> recipe_valid_ok ci_key r).
Proof.
  intros U pc src pevs ci_key yaml_ok find_iq unit_class input x r valid Ev H.
  assert (Sh : parser_shaped_prefix (EventBridge.abstract_events pevs))
    by (exists POut; exact (ParserShape.events_shaped U pc src pevs Ev)).
  split; [exact (C06_output ci_key yaml_ok find_iq unit_class input x _ r valid Sh H)|].
  intros ->. exact (C06_valid ci_key yaml_ok find_iq unit_class input x _ r Sh H).
Qed.
Print Assumptions C06_output_from_parser.


(* what a consumer that indexes without checking relies on (the playground renderer does
   `section.content[index].unwrap_step()`): every item index, relation index, step target and
   section target of a consistent recipe addresses something of the right kind *)
Theorem C06_blind_indexing : forall r, recipe_ok r -> blind_indexing_ok r.
Proof. exact blind_indexing. Qed.
Print Assumptions C06_blind_indexing.

(* the code before the repair c9128f1 violated "no step or text item is empty": the streams of
   the inputs ">" and "\" gave a valid recipe holding Content::Text("") / a step without items
   (both observed on the implementation before the repair; corpus/C06.cases keeps the inputs) *)
Theorem C06_no_empty_refuted_before_fix :
  forall ci_key yaml_ok find_iq unit_class input x,
    (exists r, parser_shaped ev_blank_text_block /\
       analyse ci_key yaml_ok find_iq unit_class input x cfg0 ev_blank_text_block = Done (Some r, true) /\
       ~ recipe_ok r) /\
    (exists r, parser_shaped ev_lone_escape /\
       analyse ci_key yaml_ok find_iq unit_class input x cfg0 ev_lone_escape = Done (Some r, true) /\
       ~ recipe_ok r).
Proof. exact no_empty_refuted_before_fix. Qed.
Print Assumptions C06_no_empty_refuted_before_fix.

(* the statement is decidable: the boolean twins accept exactly the consistent recipes.  They are
   extracted into the runner, which evaluates them on the recipes the implementation returned (and on
   damaged copies of them in the monitor self-test) next to the Rust monitor of the harness; the check
   requires the two verdicts to agree on every recipe *)
Theorem C06_decidable : forall r, recipe_ok_b r = true <-> recipe_ok r.
Proof. exact recipe_ok_b_spec. Qed.
Print Assumptions C06_decidable.

Theorem C06_valid_decidable :
  forall ci_key tbl, valid_tbl_b ci_key tbl = true <-> valid_tbl ci_key tbl.
Proof. exact valid_tbl_b_spec. Qed.
Print Assumptions C06_valid_decidable.

(* ---- what the tables hold of a quantity (Proofs/AnalysisValues.v).  Not a conjunct of the property: the
   facts that make the recipe of this model carry the VALUES of the events, for every event sequence
   (shaped or not), every extension record, every behaviour switch [cfg] and every oracle.
   [qcols s] = the quantity columns of the three tables of the collector state; [igr_qty] / [cw_qty] /
   [timer_qty] = the quantity of a component event as [quantity_info] / [value_info] read it. *)

(* Quantity<ScalableValue>: the value inside Fixed / Linear is the event's value, the unit its trimmed text *)
Theorem C06_quantity_value :
  (forall b q, qi_value (quantity_info b q) = qv_value (pq_value q) /\
               qi_unit (quantity_info b q) = option_map text_trimmed (pq_unit q)) /\
  (forall b v, qi_value (value_info b v) = qv_value v).
Proof. split; [intros b q; split; reflexivity | reflexivity]. Qed.
Print Assumptions C06_quantity_value.

(* one call of ingredient / cookware / timer: the entry it appends - at the index it returns, the one the
   step item gets - holds the event's quantity whatever reference resolution decided, and no quantity
   stored before changes (a back link is a relation only) *)
Theorem C06_ingredient_value :
  forall ci_key x s ig s' i,
    ingredient ci_key x s ig = Done (s', i) ->
    i = length (a_ingredients s) /\
    AnalysisValues.qcols s'
    = (map c_qty (a_ingredients s) ++ [AnalysisValues.igr_qty ig], map c_qty (a_cookware s), map tm_qty (a_timers s)).
Proof. exact AnalysisValues.ingredient_value. Qed.
Print Assumptions C06_ingredient_value.

Theorem C06_cookware_value :
  forall ci_key s cw s' i,
    cookware ci_key s cw = Done (s', i) ->
    i = length (a_cookware s) /\
    AnalysisValues.qcols s'
    = (map c_qty (a_ingredients s), map c_qty (a_cookware s) ++ [AnalysisValues.cw_qty cw], map tm_qty (a_timers s)).
Proof. exact AnalysisValues.cookware_value. Qed.
Print Assumptions C06_cookware_value.

Theorem C06_timer_value :
  forall unit_class x s t,
    snd (timer unit_class x s t) = length (a_timers s) /\
    AnalysisValues.qcols (fst (timer unit_class x s t))
    = (map c_qty (a_ingredients s), map c_qty (a_cookware s), map tm_qty (a_timers s) ++ [AnalysisValues.timer_qty t]).
Proof. exact AnalysisValues.timer_value. Qed.
Print Assumptions C06_timer_value.

(* every other event leaves the three columns alone *)
Theorem C06_step_values :
  forall ci_key yaml_ok find_iq unit_class input x cfg s e s',
    step ci_key yaml_ok find_iq unit_class input x cfg s e = Done s' ->
    AnalysisValues.qcols_step s e s'.
Proof. exact AnalysisValues.step_values. Qed.
Print Assumptions C06_step_values.

(* hence every quantity of a returned recipe, valid or not, is the quantity - value, unit, fixed or linear -
   of a component event of the stream *)
Theorem C06_values_from_events :
  forall ci_key yaml_ok find_iq unit_class input x cfg evs r v,
    analyse ci_key yaml_ok find_iq unit_class input x cfg evs = Done (Some r, v) ->
    Forall (fun c => exists ig, In (EIngredient ig) evs /\ c_qty c = AnalysisValues.igr_qty ig) (r_ingredients r) /\
    Forall (fun c => exists cw, In (ECookware cw) evs /\ c_qty c = AnalysisValues.cw_qty cw) (r_cookware r) /\
    Forall (fun t => exists pt, In (ETimer pt) evs /\ tm_qty t = AnalysisValues.timer_qty pt) (r_timers r).
Proof. exact AnalysisValues.analyse_values. Qed.
Print Assumptions C06_values_from_events.

(* the statement is not vacuous: it accepts a recipe with a definition and a reference, and rejects a
   recipe for each of its conjuncts (index out of range, out of document order, missing back link,
   back link twice, reference to a reference, step / section reference not earlier, wrong step number,
   empty step, empty text item, timer without name and quantity) *)
Example C06_statement_sensitive :
  recipe_ok (bad_recipe [IIngredient 0; IText [32%N]; IIngredient 1] 1
               [bad_comp mods_empty (RDef [1] true); bad_comp M_ref_only (RRef 0 TgComponent)] []) /\
  ~ recipe_ok (bad_recipe [IIngredient 0] 1 [] []) /\
  ~ recipe_ok (bad_recipe [IText [32%N]] 2 [] []) /\
  ~ recipe_ok (bad_recipe [] 1 [] []).
Proof.
  pose proof recipe_ok_sensitive as H. repeat split; apply H.
Qed.

(* ---- the hypotheses are satisfiable: a stream with a definition, a reference to it, and a
   reference to the first step is parser-shaped and analyses to a valid recipe ---- *)
Definition demo_text (s : str) : text := text_from_str s 0.
Definition demo_ing (m : modifiers) (d : option inter_data) (name : str) : p_ingredient :=
  {| pi_span := (0%N, 0%N); pi_mods := m; pi_inter := d; pi_name := demo_text name;
     pi_alias := None; pi_quantity := None; pi_note := None |}.
Definition demo_events : list event :=
  [ EStart BKStep; EIngredient (demo_ing mods_empty None [97%N]); EText (demo_text [32%N]);
    EIngredient (demo_ing M_ref_only None [65%N]); EEnd BKStep;
    EStart BKStep;
    EIngredient (demo_ing M_ref_only (Some {| ir_mode := RMNumber; ir_kind := TKStep; ir_val := 1%Z |}) [98%N]);
    ETimer {| pt_span := (0%N, 0%N); pt_name := Some (demo_text [99%N]); pt_quantity := None |};
    EEnd BKStep ].
Definition demo_fold (s : str) : str := map (fun c => if N.eqb c 65 then 97%N else c) s.

Example C06_hypotheses_satisfiable :
  parser_shaped demo_events /\
  exists r, analyse demo_fold (fun _ => true) (fun _ => None) (fun _ => 0%N) []
              {| x_modes := true; x_inline := true; x_advanced := true |} cfgF demo_events
            = Done (Some r, true) /\
            length (r_sections r) = 1 /\ length (r_ingredients r) = 3 /\
            option_map c_rel (nth_error (r_ingredients r) 1) = Some (RRef 0 TgComponent) /\
            option_map c_rel (nth_error (r_ingredients r) 2) = Some (RRef 0 TgStep).
Proof. split; [reflexivity|]. eexists. split; [vm_compute; reflexivity|]. repeat split. Qed.
