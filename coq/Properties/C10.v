(* C10 - Grouping and listing ingredients conserves quantities.
   Statements only; proofs live in Proofs/GroupProofs.v.

   [total T g] is the sum (⊕, a commutative monoid; ≡ is its equality: ==
   on every rational, = on every text count) of [contrib T q] over the
   quantities q that [iter g] shows; [contrib] puts a number or a range
   (end-wise) in the bucket of its physical quantity scaled to base units, of
   its unknown unit, or of the unit-less values, and counts a text value
   verbatim with its unit.  [T] is any unit table that is [sane] (ratios
   positive, one unit per unit id); the check evaluates [sane] on the live
   bundled converter on every run. *)
From CL Require Import Base.StrLemmas Model.Aisle Model.Group Proofs.GroupProofs.
From CL Require Model.Convert Proofs.ConvertProofs Proofs.GroupFit.
From Coq Require Import QArith Permutation.

(* adding one quantity adds exactly its contribution - to EVERY group g
   (reachable or not), never panics.  [q_free]: q has no unit, an unknown
   unit, or a unit of a physical quantity without offsets. *)
Theorem C10_add : forall T g q,
  sane T = true -> q_free T q ->
  exists g', add T g q = Done g' /\ total T g' ≡ total T g ⊕ contrib T q.
Proof. intros T g q Hs Hf. apply add_free; auto using agrees_refl. Qed.
Print Assumptions C10_add.

(* with offset units (temperature) the contribution is taken in the unit of the
   stored quantity: [shift_in] is the explicit correction
   (d_q r_q - d_stored r_stored at both ends), zero for offset-free units *)
Theorem C10_add_offsets : forall T g q,
  sane T = true ->
  exists g', add T g q = Done g' /\ total T g' ≡ total T g ⊕ contrib T q ⊕ shift_in T g q.
Proof. intros T g q Hs. apply add_spec; auto using agrees_refl. Qed.
Print Assumptions C10_add_offsets.

Theorem C10_fold : forall T qs,
  sane T = true -> Forall (q_free T) qs ->
  exists g, add_all T gq_empty qs = Done g /\ total T g ≡ sum_contrib T qs.
Proof. exact fold_free. Qed.
Print Assumptions C10_fold.

Theorem C10_order_independent : forall T qs qs',
  sane T = true -> Forall (q_free T) qs -> Permutation qs qs' ->
  exists g g', add_all T gq_empty qs = Done g /\ add_all T gq_empty qs' = Done g' /\
               total T g ≡ total T g'.
Proof. exact order_independent. Qed.
Print Assumptions C10_order_independent.

Theorem C10_merge : forall T a b,
  sane T = true -> Forall (q_free T) (Group.iter b) ->
  exists g, merge T a b = Done g /\ total T g ≡ total T a ⊕ total T b.
Proof. intros T a b Hs Hf. apply merge_free; auto using agrees_refl. Qed.
Print Assumptions C10_merge.

(* fit is a parameter: whatever Quantity::fit does, if it keeps the amount of
   each quantity (property C09) the group keeps its total - also when it
   stops half-way on an error *)
Theorem C10_fit_preserves : forall T (fitq : qty -> option qty),
  (forall q q', fitq q = Some q' -> contrib T q' ≡ contrib T q) ->
  forall g, total T (fst (fit fitq g)) ≡ total T g.
Proof. exact fit_total. Qed.
Print Assumptions C10_fit_preserves.

(* ---- GroupedValue (cookware amounts) --------------------------------------
   [gv_total] is the same summary over the bare values (unit-less bucket and
   the text counts); [gv_wf]: at most one numeric entry and it comes first.
   No hypothesis: the `expect` in GroupedValue::add cannot fail. *)
Theorem C10_cookware : forall g v,
  exists g', gv_add g v = Done g' /\ gv_total g' ≡ gv_total g ⊕ vcontrib v /\ (gv_wf g -> gv_wf g').
Proof. exact gv_add_spec. Qed.
Print Assumptions C10_cookware.

Theorem C10_cookware_merge : forall a b,
  exists g, gv_merge a b = Done g /\ gv_total g ≡ gv_total a ⊕ gv_total b /\ (gv_wf a -> gv_wf g).
Proof. exact gv_merge_spec. Qed.
Print Assumptions C10_cookware_merge.

(* ---- categorize -----------------------------------------------------------
   [entries c] is everything CategorizedIngredientList::iter shows, each group
   with its place (Some category | None = the uncategorized rest, name);
   [rekey inf] sends a listed entry to the place the aisle information gives
   it; [categorize_conserves T inf l c]: under every place the total shown is
   the sum of the listed entries sent there.  [synonym_collision inf l]: two
   listed names are sent to the same (category, common name) - the class of the
   open finding.  Stated for the code as it is ([fixd] = false). *)
Theorem C10_categorize : forall T inf l,
  NoDup (map fst l) -> synonym_collision inf l = false ->
  exists c, categorize false inf l = Done c /\ Permutation (entries c) (map (rekey inf) l)
            /\ categorize_conserves T inf l c.
Proof. exact categorize_conserves_ok. Qed.
Print Assumptions C10_categorize.

Example C10_categorize_hypotheses_satisfiable :
  exists inf l, l <> [] /\ NoDup (map fst l) /\ synonym_collision inf l = false /\ cat_dests inf l <> [].
Proof. exact categorize_hyps_sat. Qed.

(* without the hypothesis the statement is false on the faithful model: the
   recorded witness (tuna 100 g, chicken of the sea 200 g, one aisle line
   tuna|chicken of the sea) shows 100 g under canned/tuna instead of 300 g
   (the list is consumed in key order, tuna comes last and overwrites) *)
Definition C10_categorize_full : Prop := forall T inf l,
  sane T = true -> NoDup (map fst l) ->
  exists c, categorize false inf l = Done c /\ categorize_conserves T inf l c.

Theorem C10_categorize_refuted :
  exists T inf l,
    sane T = true /\ NoDup (map fst l) /\ synonym_collision inf l = true /\
    exists c, categorize false inf l = Done c /\ ~ categorize_conserves T inf l c.
Proof. exact categorize_refuted. Qed.
Print Assumptions C10_categorize_refuted.

(* ---- a definition and its references ---------------------------------------
   [consistent all] is the referential consistency of property C06 as far as
   grouping reads it (referenced_from = the references to the definition, in
   order; a reference to an ingredient points back to a definition); the check
   evaluates it on every recipe the implementation produces.  [owned all i x]:
   x's own quantity, then those of the references to index i, in recipe order.
   [recipe_free]: no written quantity has an offset unit (temperature).
   The hypothesis on [fitq] (Quantity::fit keeps the contribution of offset-free
   quantities and stays offset-free) is a THEOREM for the modelled fit:
   C10_fit_range_preserves below; C10_list_bundled has no oracle left.
   group_ingredients never panics (no index out of range), reports exactly the
   definitions in recipe order ([def_indices]) - references are not entries -
   and the group of each holds exactly what is counted under it. *)
Theorem C10_definition_quantities : forall T (fitq : qty -> option qty) all,
  sane T = true ->
  (forall q q', q_free T q -> fitq q = Some q' -> contrib T q' ≡ contrib T q /\ q_free T q') ->
  consistent all = true -> recipe_free T all ->
  exists es, group_ingredients T fitq all = Done es /\
             map (fun e => fst (fst e)) es = def_indices all 0 /\
             Forall (entry_ok T all) es.
Proof. intros T fitq all Hs Hf. apply group_ingredients_ok; assumption. Qed.
Print Assumptions C10_definition_quantities.

(* exactly once: a reference is among the references of the one definition it
   names, once; it comes after that definition, which is a definition indeed;
   a reference to a step or a section is counted under none *)
Theorem C10_counted_once : forall all i j,
  (In j (refs_to all i) <-> exists y, nth_ing all j = Some y /\ irel y = RRef i true) /\
  NoDup (refs_to all i) /\
  (consistent all = true -> In j (refs_to all i) ->
     (i < j)%N /\ exists x, nth_ing all i = Some x /\ is_definition (irel x) = true).
Proof.
  intros all i j. split; [apply refs_to_spec|]. split; [apply refs_to_nodup | apply refs_after].
Qed.
Print Assumptions C10_counted_once.

(* ---- IngredientList ----------------------------------------------------------
   [name_total T n l]: the total shown under display name n; [recipe_lists T all n]:
   over the ingredients of the recipe in order, everything counted under each
   definition that should be listed (not HIDDEN, not REF) and is displayed as n.
   add_recipe over any sequence of recipes, starting from any list. *)
Theorem C10_list : forall T (fitq : qty -> option qty),
  sane T = true ->
  (forall q q', q_free T q -> fitq q = Some q' -> contrib T q' ≡ contrib T q /\ q_free T q') ->
  forall rs l, recipes_ok T rs ->
  exists l', add_recipes T fitq l rs = Done l' /\
    forall n, name_total T n l' ≡ name_total T n l ⊕ ssum (map (fun all => recipe_lists T all n) rs).
Proof. intros T fitq Hs H1 rs l. apply add_recipes_spec; assumption. Qed.
Print Assumptions C10_list.

Theorem C10_list_order_independent : forall T (fitq : qty -> option qty),
  sane T = true ->
  (forall q q', q_free T q -> fitq q = Some q' -> contrib T q' ≡ contrib T q /\ q_free T q') ->
  forall rs rs', recipes_ok T rs -> Permutation rs rs' ->
  exists l l', add_recipes T fitq [] rs = Done l /\ add_recipes T fitq [] rs' = Done l' /\
               forall n, name_total T n l ≡ name_total T n l'.
Proof. intros T fitq Hs H1 rs rs'. apply add_recipes_order; assumption. Qed.
Print Assumptions C10_list_order_independent.

Example C10_list_hypotheses_satisfiable :
  exists T (fitq : qty -> option qty) all,
    sane T = true /\
    (forall q q', q_free T q -> fitq q = Some q' -> contrib T q' ≡ contrib T q /\ q_free T q') /\
    consistent all = true /\ recipe_free T all /\ refs_to all 0 = [2%N].
Proof. exact list_hyps_sat. Qed.

(* ---- cookware definitions and references -------------------------------------
   The cookware counterpart of C10_definition_quantities: group_cookware never
   panics, reports exactly the definitions in recipe order, and the GroupedValue
   of each holds exactly its own amount plus those of the references to it
   ([cw_owned], recipe order): numbers summed end-wise into one leading entry
   ([gv_wf]), every text counted as often as it is written. *)
Theorem C10_cookware_definition_quantities : forall all,
  cw_consistent all = true ->
  exists es, group_cookware all = Done es /\
             map fst es = cw_def_indices all 0 /\ Forall (cw_entry_ok all) es.
Proof. exact group_cookware_ok. Qed.
Print Assumptions C10_cookware_definition_quantities.

Theorem C10_cookware_counted_once : forall all i j,
  (In j (cw_refs_to all i) <-> exists y, nth_cw all j = Some y /\ crel y = RRef i true) /\
  NoDup (cw_refs_to all i) /\
  (cw_consistent all = true -> In j (cw_refs_to all i) ->
     (i < j)%N /\ exists x, nth_cw all i = Some x /\ is_definition (crel x) = true).
Proof.
  intros all i j. split; [apply cw_refs_to_spec|]. split; [apply cw_refs_to_nodup | apply cw_refs_after].
Qed.
Print Assumptions C10_cookware_counted_once.

(* ---- the keys of an IngredientList ---------------------------------------------
   The BTreeMap model keeps its keys strictly increasing (byte order), hence
   distinct: whatever add_recipes returns - no hypothesis on the recipes - has
   distinct keys, which discharges the NoDup hypothesis of C10_categorize. *)
Theorem C10_list_keys_nodup : forall T (fitq : qty -> option qty) rs l,
  add_recipes T fitq [] rs = Done l -> keys_sorted l /\ NoDup (map fst l).
Proof. exact add_recipes_nodup. Qed.
Print Assumptions C10_list_keys_nodup.

Theorem C10_list_then_categorize : forall T (fitq : qty -> option qty) rs l U inf,
  add_recipes T fitq [] rs = Done l -> synonym_collision inf l = false ->
  exists c, categorize false inf l = Done c /\ Permutation (entries c) (map (rekey inf) l)
            /\ categorize_conserves U inf l c.
Proof. exact list_then_categorize. Qed.
Print Assumptions C10_list_then_categorize.

(* ---- fit, for real ----------------------------------------------------------------
   [GroupFit.fitq_real approx c] is Quantity::fit of Model/Convert.v (fit,
   fit_fraction, try_fraction, convert to the best unit - the C09 model) read as
   the [fitq] parameter; [GroupFit.table_of c] is the unit table of that
   converter.  For every converter with positive ratios and a consistent index
   (C09_bundled_wellformed: the shipped one), every approximation function whose
   recorded error makes the value exact (C12), a fitted quantity keeps its
   contribution - BOTH ends of a range, whatever unit fit moves it to - and
   GroupedQuantity::fit keeps the total.  (Offset-free quantities: with an offset
   unit a change of unit changes the base-unit sum by definition.) *)
Theorem C10_fit_range_preserves :
  forall (approx : Q -> Convert.frac_cfg -> outcome (option Convert.number)) c,
  (forall v cfg n, approx v cfg = Done (Some n) -> Qeq (Convert.num_value n) v) ->
  ConvertProofs.ratios_pos c -> ConvertProofs.index_consistent c ->
  forall q q', q_free (GroupFit.table_of c) q -> GroupFit.fitq_real approx c q = Some q' ->
  contrib (GroupFit.table_of c) q' ≡ contrib (GroupFit.table_of c) q /\ q_free (GroupFit.table_of c) q'.
Proof. intros approx c Ha Hp Hi q q'. apply GroupFit.fitq_real_spec; assumption. Qed.
Print Assumptions C10_fit_range_preserves.

Theorem C10_fit_real_preserves :
  forall (approx : Q -> Convert.frac_cfg -> outcome (option Convert.number)) c,
  (forall v cfg n, approx v cfg = Done (Some n) -> Qeq (Convert.num_value n) v) ->
  ConvertProofs.ratios_pos c -> ConvertProofs.index_consistent c ->
  forall g, gfree (GroupFit.table_of c) g ->
  total (GroupFit.table_of c) (fst (fit (GroupFit.fitq_real approx c) g)) ≡ total (GroupFit.table_of c) g
  /\ gfree (GroupFit.table_of c) (fst (fit (GroupFit.fitq_real approx c) g)).
Proof. intros approx c Ha Hp Hi g. apply GroupFit.fit_real_total; assumption. Qed.
Print Assumptions C10_fit_real_preserves.

(* nothing assumed: the modelled Number::new_approx, the converter built from the
   regenerated units.toml *)
Theorem C10_fit_bundled : forall g,
  gfree (GroupFit.table_of ConvertProofs.bundled_conv) g ->
  total (GroupFit.table_of ConvertProofs.bundled_conv)
        (fst (fit (GroupFit.fitq_real Convert.new_approx ConvertProofs.bundled_conv) g))
    ≡ total (GroupFit.table_of ConvertProofs.bundled_conv) g
  /\ gfree (GroupFit.table_of ConvertProofs.bundled_conv)
           (fst (fit (GroupFit.fitq_real Convert.new_approx ConvertProofs.bundled_conv) g)).
Proof. exact GroupFit.fit_real_bundled. Qed.
Print Assumptions C10_fit_bundled.

(* IngredientList over the shipped converter with the modelled fit: no oracle
   hypothesis left ([sane] of its table is computed, the fit hypothesis is
   C10_fit_range_preserves); what remains is the recipes' consistency and that
   they write no offset (temperature) quantity *)
Theorem C10_list_bundled : forall rs l,
  recipes_ok (GroupFit.table_of ConvertProofs.bundled_conv) rs ->
  exists l', add_recipes (GroupFit.table_of ConvertProofs.bundled_conv)
               (GroupFit.fitq_real Convert.new_approx ConvertProofs.bundled_conv) l rs = Done l' /\
    forall n, name_total (GroupFit.table_of ConvertProofs.bundled_conv) n l'
              ≡ name_total (GroupFit.table_of ConvertProofs.bundled_conv) n l
                ⊕ ssum (map (fun all => recipe_lists (GroupFit.table_of ConvertProofs.bundled_conv) all n) rs).
Proof. exact GroupFit.list_bundled. Qed.
Print Assumptions C10_list_bundled.

From Coq Require Import String.
(* the case of the seeded change C10-4: the total 3-3.5 tsp is moved to tbsp, start
   3 tsp (1 tbsp), end 3.5 tsp expressed in tbsp - not 3.5 *)
Example C10_fit_moves_range :
  q_free (GroupFit.table_of ConvertProofs.bundled_conv) GroupFit.tsp_range /\
  exists s e, GroupFit.fitq_real Convert.new_approx ConvertProofs.bundled_conv GroupFit.tsp_range
              = Some {| qval := VRange s e; qunit := Some (s_of "tbsp"%string) |}
              /\ Qeq s (3 * (4928921 # 1000000000) / (14786764 # 1000000000))
              /\ Qeq e ((7 # 2) * (4928921 # 1000000000) / (14786764 # 1000000000))
              /\ ~ Qeq e (7 # 2).
Proof. split; [exact GroupFit.tsp_range_free | exact GroupFit.fit_moves_range]. Qed.
