(* C10 - Grouping and listing ingredients conserves quantities.
   Statements only; proofs live in Proofs/GroupProofs.v.

   [total T g] is the sum (⊕, a commutative monoid; ≡ is its equality: ==
   on every rational, = on every text count) of [contrib T q] over the
   quantities q that [iter g] shows; [contrib] puts a number or a range
   (end-wise) in the bucket of its physical quantity scaled to base units, of
   its unknown unit, or of the unit-less values, and counts a text value
   verbatim with its unit.  [T] is any unit table that is [sane] (ratios
   positive, one unit per unit id); the check evaluates [sane] on the live
   bundled converter on every run. *)
From CL Require Import Base.StrLemmas Model.Aisle Model.Group Proofs.GroupProofs.
From Coq Require Import QArith Permutation.

(* adding one quantity adds exactly its contribution - to EVERY group g
   (reachable or not), never panics.  [q_free]: q has no unit, an unknown
   unit, or a unit of a physical quantity without offsets. *)
Theorem C10_add : forall T g q,
  sane T = true -> q_free T q ->
  exists g', add T g q = Done g' /\ total T g' ≡ total T g ⊕ contrib T q.
Proof. intros T g q Hs Hf. apply add_free; auto using agrees_refl. Qed.
Print Assumptions C10_add.

(* with offset units (temperature) the contribution is taken in the unit of the
   stored quantity: [shift_in] is the explicit correction
   (d_q r_q - d_stored r_stored at both ends), zero for offset-free units *)
Theorem C10_add_offsets : forall T g q,
  sane T = true ->
  exists g', add T g q = Done g' /\ total T g' ≡ total T g ⊕ contrib T q ⊕ shift_in T g q.
Proof. intros T g q Hs. apply add_spec; auto using agrees_refl. Qed.
Print Assumptions C10_add_offsets.

Theorem C10_fold : forall T qs,
  sane T = true -> Forall (q_free T) qs ->
  exists g, add_all T gq_empty qs = Done g /\ total T g ≡ sum_contrib T qs.
Proof. exact fold_free. Qed.
Print Assumptions C10_fold.

Theorem C10_order_independent : forall T qs qs',
  sane T = true -> Forall (q_free T) qs -> Permutation qs qs' ->
  exists g g', add_all T gq_empty qs = Done g /\ add_all T gq_empty qs' = Done g' /\
               total T g ≡ total T g'.
Proof. exact order_independent. Qed.
Print Assumptions C10_order_independent.

Theorem C10_merge : forall T a b,
  sane T = true -> Forall (q_free T) (Group.iter b) ->
  exists g, merge T a b = Done g /\ total T g ≡ total T a ⊕ total T b.
Proof. intros T a b Hs Hf. apply merge_free; auto using agrees_refl. Qed.
Print Assumptions C10_merge.

(* fit is a parameter: whatever Quantity::fit does, if it keeps the amount of
   each quantity (property C09) the group keeps its total - also when it
   stops half-way on an error *)
Theorem C10_fit_preserves : forall T (fitq : qty -> option qty),
  (forall q q', fitq q = Some q' -> contrib T q' ≡ contrib T q) ->
  forall g, total T (fst (fit fitq g)) ≡ total T g.
Proof. exact fit_total. Qed.
Print Assumptions C10_fit_preserves.
