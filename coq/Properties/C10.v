(* C10 - Grouping and listing ingredients conserves quantities.
   Statements only; proofs live in Proofs/GroupProofs.v.

   [total T g] is the sum (⊕, a commutative monoid; ≡ is its equality: ==
   on every rational, = on every text count) of [contrib T q] over the
   quantities q that [iter g] shows; [contrib] puts a number or a range
   (end-wise) in the bucket of its physical quantity scaled to base units, of
   its unknown unit, or of the unit-less values, and counts a text value
   verbatim with its unit.  [T] is any unit table that is [sane] (ratios
   positive, one unit per unit id); the check evaluates [sane] on the live
   bundled converter on every run. *)
From CL Require Import Base.StrLemmas Model.Aisle Model.Group Proofs.GroupProofs.
From Coq Require Import QArith Permutation.

(* adding one quantity adds exactly its contribution - to EVERY group g
   (reachable or not), never panics.  [q_free]: q has no unit, an unknown
   unit, or a unit of a physical quantity without offsets. *)
Theorem C10_add : forall T g q,
  sane T = true -> q_free T q ->
  exists g', add T g q = Done g' /\ total T g' ≡ total T g ⊕ contrib T q.
Proof. intros T g q Hs Hf. apply add_free; auto using agrees_refl. Qed.
Print Assumptions C10_add.

(* with offset units (temperature) the contribution is taken in the unit of the
   stored quantity: [shift_in] is the explicit correction
   (d_q r_q - d_stored r_stored at both ends), zero for offset-free units *)
Theorem C10_add_offsets : forall T g q,
  sane T = true ->
  exists g', add T g q = Done g' /\ total T g' ≡ total T g ⊕ contrib T q ⊕ shift_in T g q.
Proof. intros T g q Hs. apply add_spec; auto using agrees_refl. Qed.
Print Assumptions C10_add_offsets.

Theorem C10_fold : forall T qs,
  sane T = true -> Forall (q_free T) qs ->
  exists g, add_all T gq_empty qs = Done g /\ total T g ≡ sum_contrib T qs.
Proof. exact fold_free. Qed.
Print Assumptions C10_fold.

Theorem C10_order_independent : forall T qs qs',
  sane T = true -> Forall (q_free T) qs -> Permutation qs qs' ->
  exists g g', add_all T gq_empty qs = Done g /\ add_all T gq_empty qs' = Done g' /\
               total T g ≡ total T g'.
Proof. exact order_independent. Qed.
Print Assumptions C10_order_independent.

Theorem C10_merge : forall T a b,
  sane T = true -> Forall (q_free T) (Group.iter b) ->
  exists g, merge T a b = Done g /\ total T g ≡ total T a ⊕ total T b.
Proof. intros T a b Hs Hf. apply merge_free; auto using agrees_refl. Qed.
Print Assumptions C10_merge.

(* fit is a parameter: whatever Quantity::fit does, if it keeps the amount of
   each quantity (property C09) the group keeps its total - also when it
   stops half-way on an error *)
Theorem C10_fit_preserves : forall T (fitq : qty -> option qty),
  (forall q q', fitq q = Some q' -> contrib T q' ≡ contrib T q) ->
  forall g, total T (fst (fit fitq g)) ≡ total T g.
Proof. exact fit_total. Qed.
Print Assumptions C10_fit_preserves.

(* ---- GroupedValue (cookware amounts) --------------------------------------
   [gv_total] is the same summary over the bare values (unit-less bucket and
   the text counts); [gv_wf]: at most one numeric entry and it comes first.
   No hypothesis: the `expect` in GroupedValue::add cannot fail. *)
Theorem C10_cookware : forall g v,
  exists g', gv_add g v = Done g' /\ gv_total g' ≡ gv_total g ⊕ vcontrib v /\ (gv_wf g -> gv_wf g').
Proof. exact gv_add_spec. Qed.
Print Assumptions C10_cookware.

Theorem C10_cookware_merge : forall a b,
  exists g, gv_merge a b = Done g /\ gv_total g ≡ gv_total a ⊕ gv_total b /\ (gv_wf a -> gv_wf g).
Proof. exact gv_merge_spec. Qed.
Print Assumptions C10_cookware_merge.

(* ---- categorize -----------------------------------------------------------
   [entries c] is everything CategorizedIngredientList::iter shows, each group
   with its place (Some category | None = the uncategorized rest, name);
   [rekey inf] sends a listed entry to the place the aisle information gives
   it; [categorize_conserves T inf l c]: under every place the total shown is
   the sum of the listed entries sent there.  [synonym_collision inf l]: two
   listed names are sent to the same (category, common name) - the class of the
   open finding.  Stated for the code as it is ([fixd] = false). *)
Theorem C10_categorize : forall T inf l,
  NoDup (map fst l) -> synonym_collision inf l = false ->
  exists c, categorize false inf l = Done c /\ Permutation (entries c) (map (rekey inf) l)
            /\ categorize_conserves T inf l c.
Proof. exact categorize_conserves_ok. Qed.
Print Assumptions C10_categorize.

Example C10_categorize_hypotheses_satisfiable :
  exists inf l, l <> [] /\ NoDup (map fst l) /\ synonym_collision inf l = false /\ cat_dests inf l <> [].
Proof. exact categorize_hyps_sat. Qed.

(* without the hypothesis the statement is false on the faithful model: the
   recorded witness (tuna 100 g, chicken of the sea 200 g, one aisle line
   tuna|chicken of the sea) shows 100 g under canned/tuna instead of 300 g
   (the list is consumed in key order, tuna comes last and overwrites) *)
Definition C10_categorize_full : Prop := forall T inf l,
  sane T = true -> NoDup (map fst l) ->
  exists c, categorize false inf l = Done c /\ categorize_conserves T inf l c.

Theorem C10_categorize_refuted :
  exists T inf l,
    sane T = true /\ NoDup (map fst l) /\ synonym_collision inf l = true /\
    exists c, categorize false inf l = Done c /\ ~ categorize_conserves T inf l c.
Proof. exact categorize_refuted. Qed.
Print Assumptions C10_categorize_refuted.

(* ---- a definition and its references ---------------------------------------
   [consistent all] is the referential consistency of property C06 as far as
   grouping reads it (referenced_from = the references to the definition, in
   order; a reference to an ingredient points back to a definition); the check
   evaluates it on every recipe the implementation produces.  [owned all i x]:
   x's own quantity, then those of the references to index i, in recipe order.
   [recipe_free]: no written quantity has an offset unit (temperature).
   group_ingredients never panics (no index out of range), reports exactly the
   definitions in recipe order ([def_indices]) - references are not entries -
   and the group of each holds exactly what is counted under it. *)
Theorem C10_definition_quantities : forall T (fitq : qty -> option qty) all,
  sane T = true -> (forall q q', fitq q = Some q' -> contrib T q' ≡ contrib T q) ->
  consistent all = true -> recipe_free T all ->
  exists es, group_ingredients T fitq all = Done es /\
             map (fun e => fst (fst e)) es = def_indices all 0 /\
             Forall (entry_ok T all) es.
Proof. intros T fitq all Hs Hf. apply group_ingredients_ok; assumption. Qed.
Print Assumptions C10_definition_quantities.

(* exactly once: a reference is among the references of the one definition it
   names, once; it comes after that definition, which is a definition indeed;
   a reference to a step or a section is counted under none *)
Theorem C10_counted_once : forall all i j,
  (In j (refs_to all i) <-> exists y, nth_ing all j = Some y /\ irel y = RRef i true) /\
  NoDup (refs_to all i) /\
  (consistent all = true -> In j (refs_to all i) ->
     (i < j)%N /\ exists x, nth_ing all i = Some x /\ is_definition (irel x) = true).
Proof.
  intros all i j. split; [apply refs_to_spec|]. split; [apply refs_to_nodup | apply refs_after].
Qed.
Print Assumptions C10_counted_once.

(* ---- IngredientList ----------------------------------------------------------
   [name_total T n l]: the total shown under display name n; [recipe_lists T all n]:
   over the ingredients of the recipe in order, everything counted under each
   definition that should be listed (not HIDDEN, not REF) and is displayed as n.
   add_recipe over any sequence of recipes, starting from any list. *)
Theorem C10_list : forall T (fitq : qty -> option qty),
  sane T = true -> (forall q q', fitq q = Some q' -> contrib T q' ≡ contrib T q) ->
  (forall q q', fitq q = Some q' -> q_free T q -> q_free T q') ->
  forall rs l, recipes_ok T rs ->
  exists l', add_recipes T fitq l rs = Done l' /\
    forall n, name_total T n l' ≡ name_total T n l ⊕ ssum (map (fun all => recipe_lists T all n) rs).
Proof. intros T fitq Hs H1 H2 rs l. apply add_recipes_spec; assumption. Qed.
Print Assumptions C10_list.

Theorem C10_list_order_independent : forall T (fitq : qty -> option qty),
  sane T = true -> (forall q q', fitq q = Some q' -> contrib T q' ≡ contrib T q) ->
  (forall q q', fitq q = Some q' -> q_free T q -> q_free T q') ->
  forall rs rs', recipes_ok T rs -> Permutation rs rs' ->
  exists l l', add_recipes T fitq [] rs = Done l /\ add_recipes T fitq [] rs' = Done l' /\
               forall n, name_total T n l ≡ name_total T n l'.
Proof. intros T fitq Hs H1 H2 rs rs'. apply add_recipes_order; assumption. Qed.
Print Assumptions C10_list_order_independent.

Example C10_list_hypotheses_satisfiable :
  exists T (fitq : qty -> option qty) all,
    sane T = true /\ (forall q q', fitq q = Some q' -> contrib T q' ≡ contrib T q) /\
    (forall q q', fitq q = Some q' -> q_free T q -> q_free T q') /\
    consistent all = true /\ recipe_free T all /\ refs_to all 0 = [2%N].
Proof. exact list_hyps_sat. Qed.
