(* C18 - Parsing is deterministic, stateless across calls and thread-safe.
   Statements only; proofs live in Proofs/SharedProofs.v, the state model in Model/Shared.v.

   SCOPE.  These theorems are about the BOOKKEEPING of state, not about the parser: the parse function
   is universally quantified (any [events], [init], [consume], [finish] over any types; a call is
   Begin, one Step per event, End - not atomic).  What they establish is that in a program with the
   shape of this crate - one process-wide table that is installed once with a fixed value and then
   only read; parsers that are immutable values; a collector and a pull parser owned by the call -
   no history and no interleaving can make a call return anything but [pure_parse] of its own parser
   and input.  That the crate HAS this shape is tied to the source by [C18_inventory] (regenerated
   from /repo/src on every run) and explored on the implementation by the L-hist search of
   checks/c18.py.  Memory-level interleavings inside an action, Send/Sync soundness of the types
   involved and the implementation of std::sync::LazyLock are the Rust runtime's, not the model's. *)
From Coq Require Import String List Permutation.
Import ListNotations.
From CL Require Import Gen.SharedState Model.Shared Proofs.SharedProofs.

Section Statements.
  Variables (config input event collector result ftable : Type).
  Variable mk_table : ftable.
  Variable events : config -> input -> list event.
  Variable init : config -> input -> collector.
  Variable consume : config -> ftable -> collector -> event -> collector.
  Variable finish : config -> collector -> result.
  Notation run := (run mk_table events init consume finish).
  Notation pure_parse := (pure_parse mk_table events init consume finish).
  Notation reachable := (reachable mk_table events init consume finish).
  Notation world0 := (world0 config event collector result ftable).
  Notation local0 := (local0 config event collector result).

  (* in every reachable world the table is absent or is the one fixed value *)
  Theorem C18_table_inv :
    forall w, reachable w -> table w = None \/ table w = Some mk_table.
  Proof. exact (@table_inv _ _ _ _ _ _ mk_table events init consume finish). Qed.

  (* ... and once installed it is never written again, whatever runs *)
  Theorem C18_table_write_once :
    forall tr w v, table w = Some v -> table (run w tr) = Some v.
  Proof. exact (@run_table_stable _ _ _ _ _ _ mk_table events init consume finish). Qed.

  (* histories: on one parser p, after ANY earlier activity of any threads on any parsers (w reachable),
     a sequence of calls returns map (pure_parse p) of its inputs - no dependence on earlier calls,
     repetition included *)
  Theorem C18_history :
    forall w k p is_, reachable w ->
      outs (locals (run w (map (fun a => (k, a)) (history events p is_))) k)
      = outs (locals w k) ++ map (pure_parse p) is_.
  Proof. exact (@history_thm _ _ _ _ _ _ mk_table events init consume finish). Qed.

  (* schedules: for every number of threads, every assignment of programs to them and EVERY
     interleaving tr of those programs: if thread k's program is, up to table dereferences by other
     code (Force), the calls cs (each on its own parser), then what k got back is pure_parse of each
     call's own parser and input, in order *)
  Theorem C18_schedule :
    forall ps tr k cs, interleaving ps tr -> no_force (nth k ps []) = calls events cs ->
      outs (locals (run world0 tr) k) = map (fun c => pure_parse (fst c) (snd c)) cs.
  Proof. exact (@schedule_thm _ _ _ _ _ _ mk_table events init consume finish). Qed.

  (* the fact underneath, for arbitrary (also ill-formed) programs: a thread ends exactly as if it had
     run its own actions alone in a world whose table is the fixed value *)
  Theorem C18_noninterference :
    forall tr k,
      locals (run world0 tr) k = run_local mk_table events init consume finish local0 (proj k tr).
  Proof. exact (@noninterference_thm _ _ _ _ _ _ mk_table events init consume finish). Qed.
End Statements.
Print Assumptions C18_table_inv.
Print Assumptions C18_table_write_once.
Print Assumptions C18_history.
Print Assumptions C18_schedule.
Print Assumptions C18_noninterference.

(* hash order cannot leak through a map that is only probed: two association lists holding the same
   entries in different orders answer every probe alike (UnitIndex::get_unit_id, convert/mod.rs:249-256) *)
Theorem C18_order_free_probe :
  forall (K V : Type) (keq : K -> K -> bool), (forall a b, keq a b = true <-> a = b) ->
  forall m m' : list (K * V), NoDup (map fst m) -> Permutation m m' ->
  forall k, lookup keq k m = lookup keq k m'.
Proof. intros K V keq Hk m m' Hn Hp. exact (@perm_same_content K V keq Hk m m' Hn Hp). Qed.
Print Assumptions C18_order_free_probe.

(* ... and the one consumer that reads several entries (time_override_check, event_consumer.rs:455-500:
   probes, removes, sorts the spans it found) gives the same warning labels and leaves maps with the same
   content, whatever the order of the entries *)
Theorem C18_order_free :
  forall (m m' : list (stdkey * span)) new, NoDup (map fst m) -> Permutation m m' ->
    tocheck_same (time_override_check m new) (time_override_check m' new).
Proof.
  intros m m' new Hn Hp. apply time_override_same.
  exact (@perm_same_content _ _ _ stdkey_eqb_spec m m' Hn Hp).
Qed.
Print Assumptions C18_order_free.

(* the shared-state inventory of the source tree as it stands (Gen/SharedState.v is regenerated on every
   run): a new static, thread_local, lazily built table, Cell/Mutex/Atomic field or unsafe block
   anywhere under src/ breaks this obligation, and so does a new READ OF AMBIENT PROCESS STATE in
   non-test code (kinds AmbientFs / AmbientEnv / AmbientTime / AmbientProcess / AmbientRandom: std::fs,
   Path methods that ask the file system, std::env, SystemTime/Instant, std::process, RandomState/rand;
   HashIteration: iterating a std HashMap/HashSet on the parse path - a heuristic, see gen/gen_shared.py).
   The tree as it stands has none of these: a result can depend on nothing but text, extensions,
   converter and the fixed table. *)
Theorem C18_inventory :
  SharedState.items = [
    ("aisle"%string, FieldCell);
    ("aisle"%string, UnsafeBlock);
    ("aisle"%string, UnsafeBlock);
    ("quantity"%string, StaticLazyLock)
  ].
Proof. reflexivity. Qed.
Print Assumptions C18_inventory.

(* every item is accounted for by the model, and the only process-wide one is the table of [world] *)
Theorem C18_inventory_accounted :
  (forall it, In it SharedState.items -> disposition_of it <> Unaccounted) /\
  map disposition_of (filter (fun it => process_wide (snd it)) SharedState.items) = [ModelledAsTable].
Proof.
  split; [| reflexivity].
  intros it H. cbn in H.
  repeat (destruct H as [<- | H]; [cbn; discriminate |]). contradiction.
Qed.
Print Assumptions C18_inventory_accounted.
