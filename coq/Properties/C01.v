(* C01 - Printing a recipe as Cooklang and parsing it returns that recipe.

   Proved here, on the models of the lexer (Model/Lexer.v) and of the pull parser
   (Model/Parser.v), for every Unicode classification U and every extension set:
     - the lexer inverts the concatenation of well-formed tokens under a decidable adjacency
       condition (C01_lexer_roundtrip and the adjacency examples);
     - numbers: naturals, decimals, fractions, mixed numbers, with blanks and comments at the
       optional positions, are read back exactly, incl. the u32 bound (C01_natural_roundtrip,
       C01_number_roundtrip, C01_number_u32_bound);
     - quantities `{ = value % unit }` in every spelling (C01_value_roundtrip);
     - components: ingredient, cookware, timer; braces / blank braces / single word; alias; note
       with modifier characters and `&(..)` data (C01_component_roundtrip);
     - steps: text pieces and components, wrapped and commented (C01_step_roundtrip);
     - blocks: metadata line, section line, step block, `>` text block through parse_block and the end-of-block
       check (C01_block_roundtrip);
     - the block cut: a token stream laid out as blocks separated by empty lines is cut by the
       splitter at exactly those blocks (C01_block_cut);
     - documents: the whole event stream of a text without front matter laid out as printed
       blocks (C01_events_roundtrip_partial, via C14_full_blocks and C01_block_cut), and of the text
       produced by the document printer [print_doc] (blocks; the newline ending each, `\n` or `\r\n`;
       empty or comment-only lines before and between them; final newline or not) under the decidable printer-side
       condition [doc_ok] alone (C01_events_roundtrip);
     - recipes: the analysis model run on the bridged events of such a document returns, valid,
       the denotation [denote] of the document (Model/Denote.v: tables, names, the value of every
       quantity - the decimal written, exactly; `w a/b` as w + a/b; both ends of a range; the text -
       with its scaling kind and lock, units, modifiers, `&` references resolved to the last earlier definition with the
       back link recorded, intermediate references `&(..)` resolved to a step of the section or
       to a closed section, step items/order/numbers, sections, text blocks), for the class
       [adoc_ok] (C01_analyse_roundtrip); composed with the printer through ParseTotal.parse_model
       = analyse . bridge . events (C01_parse_print_partial; with INLINE_QUANTITIES step text is cut at
       the quantities the converter oracle finds);
     - mode switches (MODES): [denote] follows `>> [mode]: ..` / `>> [define]: ..` / `>> [duplicate]: ..`
       entries - components mode (a step block lists components, is no step), steps mode (every component
       without `+` is a reference), duplicate-reference mode (a repeated name is a reference), back to
       all / new - and the two theorems above cover them, text mode included: there the collector copies the
       source range of each component, and C01_events_sources shows that in a printed document this range is
       the printed component (a component event spans exactly the tokens its parser consumed: C05's frame
       lemma), whose copy without comments is the component without its comment tokens (C01_component_copy,
       from the C17 token-run lemma; hypothesis: `-`, `[`, backslash break words and blanks in U, true of the
       implementation's classification);
       C01_modes_example switches four times, C01_text_mode_example reads a commented component in text
       mode; both are replayed on the implementation;
       the metadata map is the `>>` entries that are not mode switches, inserted in order
       (C01_metadata_roundtrip, C01_metadata_entries_plain);
     - front matter: a document printed behind `---` YAML `---` yields the YAML event with exactly
       that text followed by the intended events, the same recipe (valid iff serde_yaml, an
       oracle, accepts the text) and the oracle's mapping as metadata
       (C01_frontmatter_events_roundtrip, C01_parse_print_frontmatter_partial, C01_metadata_frontmatter).
   The printers (Model/Printer.v) and [denote] (Model/Denote.v) are definitions of these statements,
   not models of Rust code. *)
From CL Require Import Base.StrLemmas Model.Lexer Model.Parser Proofs.LexerProofs Model.Printer Proofs.RoundTrip
  Proofs.RoundTripComp Proofs.RoundTripDoc Proofs.RoundTripPrintDoc Model.Denote Model.EventBridge Proofs.RoundTripSpans Proofs.RoundTripAnalysis.
From CL Require Proofs.MetaIterProofs.
From CL Require Gen.CharClass Proofs.MaskProofs Proofs.MaskGen Proofs.EditTextFrame.
From CL Require Model.Events Model.Analysis Model.MetaMap Proofs.ParseTotal.

(* ------------------------------------------------------------------ (a) lexer *)

Theorem C01_lexer_roundtrip :
  forall (U : N -> ucls) (toks : list ptok) (off : N),
    adjacent_ok U toks = true -> lex_at U (unlex toks) off = Some (place off toks).
Proof. exact lex_unlex. Qed.
Print Assumptions C01_lexer_roundtrip.

(* [place] only adds the spans: kinds and texts are the printed ones, spans tile from [off] *)
Theorem C01_place_faithful :
  forall (toks : list ptok) (off : N),
    map (fun t => (kind t, tstr t)) (place off toks) = toks /\ adjacent_from off (place off toks).
Proof.
  induction toks as [|[k s] r IH]; intro off; cbn [place map fst snd kind tstr adjacent_from].
  - split; [reflexivity|exact I].
  - destruct (IH (off + blen s)) as [H1 H2]. split; [rewrite H1; reflexivity|].
    split; [reflexivity|exact H2].
Qed.
Print Assumptions C01_place_faithful.

(* the side condition is exact for a token that stands alone: it is what the lexer returns *)
Theorem C01_token_alone :
  forall (U : N -> ucls) (k : tkind) (c : N) (s : str),
    tok_ok U (k, c :: s) = true <-> lex_one U c s = (k, c :: s, []).
Proof.
  intros U k c s. split.
  - intro H. destruct (tok_ok_inv U _ _ H) as (c' & t' & E & L). inversion E; subst. exact L.
  - intro H. unfold tok_ok; cbn [fst snd]. rewrite H. rewrite tk_eqb_refl. reflexivity.
Qed.
Print Assumptions C01_token_alone.

(* ------------------------------------------------------------------ (b) numbers *)

Theorem C01_natural_roundtrip :
  forall (U : N -> ucls) (n : N) (off : N),
    lex_at U (digits_of n) off = Some [{| kind := KInt; tstr := digits_of n; tstart := off |}] /\
    numeric_value [{| kind := KInt; tstr := digits_of n; tstart := off |}]
      = Some (inr (NReg (dec_q (digits_of n) []))) /\
    digits_val (digits_of n) = n.
Proof.
  intros U n off. split; [|split].
  - pose proof (lex_unlex U [(KInt, digits_of n)] off) as H. unfold unlex in H. cbn [map concat snd] in H.
    rewrite app_nil_r in H. apply H. cbn [adjacent_ok]. rewrite digits_of_tok_ok.
    unfold unlex; cbn [map concat hd_error snd]. destruct (digits_of n); reflexivity.
  - exact (numeric_int [] {| kind := KInt; tstr := digits_of n; tstart := off |} [] eq_refl eq_refl eq_refl).
  - apply digits_of_val.
Qed.
Print Assumptions C01_natural_roundtrip.

Theorem C01_number_roundtrip :
  forall (U : N -> ucls) (n : nspec) (tp : ntape) (a b : list ptok) (off : N),
    adjacent_ok U (a ++ print_num n tp ++ b) = true ->
    num_wf n tp = true -> forallb blank_ok a = true -> forallb blank_ok b = true ->
    exists ts, lex_at U (unlex (a ++ print_num n tp ++ b)) off = Some ts /\
               numeric_value ts = Some (inr (denote_num n)).
Proof.
  intros U n tp a b off Hadj W Ha Hb. exists (place off (a ++ print_num n tp ++ b)). split.
  - apply lex_unlex. exact Hadj.
  - apply numeric_print; assumption.
Qed.
Print Assumptions C01_number_roundtrip.

(* the bound of parse::<u32>(): a fraction part above 4294967295 is an error, never a number *)
Theorem C01_number_u32_bound :
  forall (x y : str) (tp : ntape) (a b : list ptok) (off : N),
    forallb blank_ok (n_bs tp) = true -> forallb blank_ok (n_as tp) = true ->
    forallb blank_ok a = true -> forallb blank_ok b = true ->
    fits_u32 x = false ->
    exists d, numeric_value (place off (a ++ print_num (SFrac x y) tp ++ b)) = Some (inl d) /\
              d_err d = true /\ d_code d = D_INT_PARSE.
Proof. exact numeric_print_overflow. Qed.
Print Assumptions C01_number_u32_bound.

(* ------------------------------------------------------------------ (c) quantities *)

(* Every spelling of `{ = value % unit }`: lock; number, range (RANGE_VALUES on) or text value (any
   token run that is not a number spelling: `a pinch`, `half-way`, `2 big ones`, and `2 - 3` when
   RANGE_VALUES is off - it then denotes the text as written); unit after `%`, or after blanks alone
   under ADVANCED_UNITS (`{1 g}`); blanks and comments at every optional position; every extension
   set.  The quantity is read back without diagnostic and the enclosing parser does not move. *)
Theorem C01_value_roundtrip :
  forall (U : N -> ucls) (cfg : pcfg) (q : qspec) (tp : qtape) (off : N) (s : bp),
    adjacent_ok U (print_qty q tp) = true -> qty_wf cfg q tp = true ->
    exists ts q' sep,
      lex_at U (unlex (print_qty q tp)) off = Some ts /\
      parse_quantity cfg ts s = Done ((q', sep), s) /\
      qproj q' = denote_qty q.
Proof.
  intros U cfg q tp off s Hadj W.
  destruct (parse_quantity_print cfg q tp off s W) as (q' & sep & Hp & Hq).
  exists (place off (print_qty q tp)), q', sep. split; [apply lex_unlex; exact Hadj|]. split; assumption.
Qed.
Print Assumptions C01_value_roundtrip.

(* ------------------------------------------------------------------ (d) components *)

(* Every component form: ingredient `@`, cookware `#` (quantity without unit), timer `~` (with or
   without name, quantity with unit); modifier characters `@ & ? + -` after the marker in any order
   (COMPONENT_MODIFIERS; no `@` on cookware, none on timers), `&` with the data of an
   intermediate-preparation reference `&(~1)`, `&(2)`, `&(=2)`, `&(=~1)`, blanks allowed inside
   (INTERMEDIATE_PREPARATIONS, ingredients); name of any tokens without `{ @ # ~`; alias
   `name|alias` (COMPONENT_ALIAS on; with it off the bar stays in the name); body `{quantity}`,
   `{ }` or nothing (single-word name followed by a non-word token, no `{` before the next
   marker); note `(...)`.  The parser function selected by the marker, run on the tokens of
   `print_comp c ++ k` inside any block state, returns the denoted component (modifier bits and
   reference data included), leaves exactly k, and emits no diagnostic. *)
Theorem C01_component_roundtrip :
  forall (U : N -> ucls) (cfg : pcfg) (c : cspec) (k : list ptok) (off : N) (al dn : list tok) (ev : list pevent),
    adjacent_ok U (print_comp c ++ k) = true -> comp_wf cfg c = true -> comp_follow c k = true ->
    exists ts pe,
      lex_at U (unlex (print_comp c ++ k)) off = Some ts /\
      comp_fn cfg (cs_kind c) {| b_all := al; b_done := dn; b_rest := ts; b_evs := ev |}
      = Done (Some pe, {| b_all := al; b_done := rev (place off (print_comp c)) ++ dn;
                          b_rest := place (off + blen (unlex (print_comp c))) k; b_evs := ev |}) /\
      ev_proj pe = denote_comp c.
Proof.
  intros U cfg c k off al dn ev Hadj W F.
  destruct (comp_print cfg c k off al dn ev W F) as (pe & H & P).
  exists (place off (print_comp c ++ k)), pe. split; [apply lex_unlex; exact Hadj|]. split; [exact H|exact P].
Qed.
Print Assumptions C01_component_roundtrip.

(* ------------------------------------------------------------------ (e) steps *)

(* A step printed as a sequence of items - text pieces (words, blanks, line wraps, comments,
   escapes; no unescaped `@ # ~ {`) alternating with components - is read by parse_step as
   Start, one event per item (the text of a piece is toks_text: comments skipped, a newline is
   one blank, escapes resolved), End; nothing else is emitted and all tokens are consumed. *)
Theorem C01_step_roundtrip :
  forall (U : N -> ucls) (cfg : pcfg) (items : list item) (off : N) (evs : list pevent),
    adjacent_ok U (print_items items) = true ->
    p_strict_escape cfg = false -> items_ok cfg items = true -> print_items items <> [] ->
    exists blk evs',
      lex_at U (unlex (print_items items)) off = Some blk /\
      parse_step cfg {| b_all := blk; b_done := []; b_rest := blk; b_evs := evs |}
      = Done (tt, {| b_all := blk; b_done := rev blk; b_rest := []; b_evs := EvEnd true :: evs' ++ EvStart true :: evs |}) /\
      map ev_proj (rev evs') = map denote_item items.
Proof.
  intros U cfg items off evs Hadj Hs Hok Hne.
  assert (Hi : items <> []) by (intros ->; apply Hne; reflexivity).
  destruct (parse_step_print cfg Hs items off evs Hok Hi Hne) as (evs' & H & P).
  exists (place off (print_items items)), evs'. split; [apply lex_unlex; exact Hadj|]. split; [exact H|exact P].
Qed.
Print Assumptions C01_step_roundtrip.

(* ------------------------------------------------------------------ (f) blocks, documents *)

(* A metadata line `>> key: value`, a section line `=.. name =..`, a step block and a `>` text
   block (one or more lines, continued with or without `>`), each run through parse_block and the
   end-of-block check of the pull parser (run_block), yield exactly their intended events. *)
Theorem C01_block_roundtrip :
  forall (U : N -> ucls) (cfg : pcfg) (b : block) (off : N) (evs : list pevent),
    adjacent_ok U (print_block b) = true -> block_ok cfg b = true -> sec_trail_ok b ->
    exists blk evs',
      lex_at U (unlex (print_block b)) off = Some blk /\
      run_block blk evs (parse_block cfg true) = Done (evs' ++ evs) /\
      map ev_proj (rev evs') = denote_block b.
Proof.
  intros U cfg b off evs Hadj W Hs.
  assert (Hst : p_strict_escape cfg = false).
  { unfold block_ok in W. apply andb_true_iff in W as [W _]. destruct (p_strict_escape cfg); [discriminate|reflexivity]. }
  destruct (block_print cfg Hst b off evs W Hs) as (evs' & H & P).
  exists (place off (print_block b)), evs'. split; [apply lex_unlex; exact Hadj|]. split; [exact H|exact P].
Qed.
Print Assumptions C01_block_roundtrip.

(* The block cut.  [doc_toks ts bs] describes the layout of a token stream declaratively: leading
   empty (blank or comment-only) lines; then either a `>>`/`=` line, which is a block by itself and
   needs no empty line around it, or a multi-line block (step, text: lines that are not empty and
   do not start with `>>` or `=`) that ends at an empty line, at a `>>`/`=` line or at the end of
   the text; and so on.  For such a stream the splitter of the pull parser (next_block iterated)
   returns exactly the blocks bs: wrapped steps stay one block, separator lines belong to no block. *)
Theorem C01_block_cut :
  forall (ts : list tok) (bs : list (list tok)), doc_toks ts bs -> MetaIterProofs.blocks ts = bs.
Proof. intros ts bs H. unfold MetaIterProofs.blocks. apply blocks_doc; [exact H|lia]. Qed.
Print Assumptions C01_block_cut.

(* Document level, on the pull parser (through C14_full_blocks: events = parse_block folded over
   the blocks): a text without front matter whose tokens are laid out as the printed blocks of d
   yields, spans erased, exactly the intended events of d in order - no diagnostics.
   Partial: the layout is a predicate on the lexed tokens (doc_toks + prints), not yet derived from a
   document printer with a decidable side condition, and `parse_frontmatter = None` (no two
   `---` lines with only blanks before the first) is a hypothesis: a comment-only line `---` is a
   legal separator spelling, so it cannot be dropped, only made a condition of the printer. *)
Theorem C01_events_roundtrip_partial :
  forall (U : N -> ucls) (cfg : pcfg) (text : str) (d : list block) (ts : list tok) (bl : list (list tok)),
    p_strict_escape cfg = false ->
    parse_frontmatter cfg text = None -> lex_at U text 0 = Some ts ->
    doc_toks ts bl -> Forall2 prints bl d ->
    Forall (fun b => block_ok cfg b = true /\ sec_trail_ok b) d ->
    exists evs, events U cfg text = Done evs /\ map ev_proj evs = concat (map denote_block d).
Proof. intros U cfg text d ts bl Hs. exact (events_layout cfg Hs U text d ts bl). Qed.
Print Assumptions C01_events_roundtrip_partial.

(* The document printer.  [print_doc d tp] (Model/Printer.v) spells the blocks of d in order, each ended by the
   newline token [dt_nl tp n], preceded ([dt_lead]) and followed ([dt_sep tp n]) by any number of empty lines
   (blanks, block and line comments, then a newline); with [dt_final tp = false] the text ends right after
   the last block, without a newline.  [doc_ok U cfg d tp] is a boolean on the printer's
   input: the current parser code (p_strict_escape off); the tokens keep their identity when concatenated
   (adjacent_ok); no front matter ([fm_free]: not two `---` lines with only blanks before the first - a
   line comment `---` is otherwise a legal empty line); every block well formed (block_ok, sec_trail_okb);
   a `>>`/`=` block has no newline inside; no line of a step or text block is empty or starts with `>>`
   or `=` ([mlines_ok]); the separators are empty lines ([eline_ok]); two multi-line blocks are separated
   by at least one empty line ([sep_ok]).  Under it the event stream of the printed text is, spans
   erased, exactly the intended one ([doc_events d] = the events of each block in order): no
   diagnostic, nothing lost, nothing added. *)
Theorem C01_events_roundtrip :
  forall (U : N -> ucls) (cfg : pcfg) (d : list block) (tp : dtape),
    doc_ok U cfg d tp = true ->
    exists evs, events U cfg (print_doc d tp) = Done evs /\ map ev_proj evs = doc_events d.
Proof. exact events_print_doc. Qed.
Print Assumptions C01_events_roundtrip.

(* a readable sufficient condition for the front-matter conjunct of doc_ok: no line of the text is `---` *)
Theorem C01_no_fence_no_frontmatter :
  forall (cfg : pcfg) (s : str), no_fence_line s = true -> fm_free cfg s = true.
Proof. exact no_fence_fm_free. Qed.
Print Assumptions C01_no_fence_no_frontmatter.

(* ------------------------------------------------------------------ (g) recipes *)

(* The analysis pass.  For every event stream whose projection is the intended stream of d (so in particular
   the stream of C01_events_roundtrip), every case folding [ci], YAML oracle, converter oracles ([find_iq],
   [unit_class]), source text and extension record x of the pass: the collector model with the current code
   returns the recipe [denote ci d] and reports no error.  [adoc_ok] (Model/Denote.v, decidable given the
   oracles) states the class: while MODES is on, a `>> [mode]`/`[define]`/`[duplicate]` entry has one of its
   documented values (anything else is an error diagnostic of the code); outside text mode (where a step block
   is not analysed), with INLINE_QUANTITIES the
   oracle for find_inline_quantity consumes text (it returns a strict suffix in the code; [iq_split] does not
   run out of one unit of fuel per character); with ADVANCED_UNITS every timer quantity is a number
   with a time unit; every `&(..)` is on an ingredient, without `@ - +`, and its target exists; every other
   `&` component has an earlier definition of its name, no `+`, no note and no modifier the definition lacks
   (each of these is an error diagnostic of the code, so outside "parses without errors"); fewer than
   2^32 - 1 steps (the u32 step counter).  What [denote] says is in the header of Model/Denote.v. *)
Theorem C01_analyse_roundtrip :
  forall ci yaml_ok find_iq unit_class input (x : Analysis.aext) (cfg : pcfg) (d : list block) (evs : list pevent),
    map ev_proj evs = doc_events d ->
    (text_reached (Analysis.x_modes x) d mode0 = true -> Forall2 (src_ok input) evs (doc_srcs d) /\ strips d) ->
    Forall (fun b => block_ok cfg b = true) d ->
    adoc_ok ci find_iq unit_class x d = true ->
    Analysis.analyse ci yaml_ok find_iq unit_class input x Analysis.cfgF (abstract_events evs)
    = Done (Some (denote ci find_iq (Analysis.x_inline x) (Analysis.x_modes x) d), true).
Proof. exact analyse_denote. Qed.
Print Assumptions C01_analyse_roundtrip.

(* The source of every component of a printed document: beside the intended events (C01_events_roundtrip), the
   span of the event of each component cuts out of the printed text exactly the printed component
   (`self.input[span.range()]` of in_text).  [doc_srcs d] lists, event by event, the printed tokens of the
   component the event stands for. *)
Theorem C01_events_sources :
  forall (U : N -> ucls) (cfg : pcfg) (d : list block) (tp : dtape),
    doc_ok U cfg d tp = true ->
    exists evs, events U cfg (print_doc d tp) = Done evs /\ map ev_proj evs = doc_events d /\
      Forall2 (src_ok (print_doc d tp)) evs (doc_srcs d).
Proof. exact events_print_doc_src. Qed.
Print Assumptions C01_events_sources.

Theorem C01_frontmatter_events_sources :
  forall (U : N -> ucls) (cfg : pcfg) (y : str) (ft : fmtape) (d : list block) (tp : dtape),
    fm_doc_ok U cfg y ft d tp = true ->
    exists evs, events U cfg (print_fm_doc y ft d tp) = Done evs /\ map ev_proj evs = fm_doc_events y d /\
      Forall2 (src_ok (print_fm_doc y ft d tp)) evs (None :: doc_srcs d).
Proof. exact events_print_fm_doc_src. Qed.
Print Assumptions C01_frontmatter_events_sources.

(* what [src_ok] says *)
Theorem C01_src_ok_spec :
  forall (src : str) (e : pevent) (p : list ptok),
    src_ok src e (Some p) <->
    exists sp, EditTextFrame.comp_span e = Some sp /\ Analysis.byte_slice src sp = Some (unlex p).
Proof. intros. reflexivity. Qed.
Print Assumptions C01_src_ok_spec.

(* The copy without comments (in_text after 200c896 re-lexes the range and drops the comment tokens): for
   adjacent printed tokens it is the text of the tokens that are not comments.  Hypothesis on U: the characters
   `-`, `[` and backslash are neither word characters nor blanks (Proofs/MaskGen.v: true of the classification
   generated from the implementation). *)
Theorem C01_component_copy :
  forall (U : N -> ucls),
    (forall c, MaskProofs.special c = true -> is_word_char U c = false /\ is_lex_ws U c = false) ->
    forall p : list ptok, adjacent_ok U p = true -> Analysis.strip_comments (unlex p) = written p.
Proof. exact strip_printed. Qed.
Print Assumptions C01_component_copy.

(* What [denote] means by "the definition a `&` component refers to" ([find_def], used by [add_comp] and
   [ref_ok]): the entry j is a definition whose folded name equals the folded name looked up, and no later
   entry of the table is. *)
Theorem C01_reference_target :
  forall (ci : str -> str) (tbl : list Analysis.component) (name : str) (j : nat),
    find_def ci tbl name = Some j <->
    (exists def, nth_error tbl j = Some def /\ is_def def = true /\ str_eqb (ci name) (ci (Analysis.c_name def)) = true) /\
    (forall k o, (j < k)%nat -> nth_error tbl k = Some o -> is_def o && str_eqb (ci name) (ci (Analysis.c_name o)) = false).
Proof. exact find_def_spec. Qed.
Print Assumptions C01_reference_target.

(* Print, then parse: the whole pipeline model of CooklangParser::parse on the printed text returns the
   denotation, valid - for every printed document that the code reads without error diagnostic ([adoc_ok]), every
   mode included.  Partial with respect to the statement of C01 only in this: the spellings are those of the
   document printer (front matter: section (h); no blank lines before a front matter, no layout the printer
   does not produce), inline quantities are counted (their values are the converter oracle's), and U satisfies
   the hypothesis of C01_component_copy (needed in text mode only; it holds for the implementation's
   classification: C01_parse_print_shipped). *)
Theorem C01_parse_print_partial :
  forall (U : N -> ucls) (cfg : pcfg) ci yaml_ok find_iq unit_class (x : Analysis.aext) (d : list block) (tp : dtape),
    (forall c, MaskProofs.special c = true -> is_word_char U c = false /\ is_lex_ws U c = false) ->
    doc_ok U cfg d tp = true -> adoc_ok ci find_iq unit_class x d = true ->
    ParseTotal.parse_model U cfg ci yaml_ok find_iq unit_class x (print_doc d tp)
    = Done (Some (denote ci find_iq (Analysis.x_inline x) (Analysis.x_modes x) d), true).
Proof. exact parse_print. Qed.
Print Assumptions C01_parse_print_partial.

(* ... with the classification generated from the implementation (Gen/CharClass.v) the hypothesis on U is met *)
Theorem C01_parse_print_shipped :
  forall (cfg : pcfg) ci yaml_ok find_iq unit_class (x : Analysis.aext) (d : list block) (tp : dtape),
    doc_ok Gen.CharClass.U cfg d tp = true -> adoc_ok ci find_iq unit_class x d = true ->
    ParseTotal.parse_model Gen.CharClass.U cfg ci yaml_ok find_iq unit_class x (print_doc d tp)
    = Done (Some (denote ci find_iq (Analysis.x_inline x) (Analysis.x_modes x) d), true).
Proof. intros cfg ci yaml_ok find_iq unit_class x d tp. exact (parse_print Gen.CharClass.U cfg ci yaml_ok find_iq unit_class x d tp MaskGen.gen_special_breaks). Qed.
Print Assumptions C01_parse_print_shipped.

(* ------------------------------------------------------------------ (h) front matter *)

(* A document printed behind a YAML front matter: `---` (blanks) newline, the YAML text y, `---` (blanks)
   newline, the document ([print_fm_doc]).  y is not interpreted by the parser (serde_yaml is an oracle of
   the analysis pass): any text that is empty or ends with a newline and has no `---` line.  [fm_doc_ok]:
   that, [body_ok] (= doc_ok without its front-matter conjunct) and no `>>` block (behind a front matter a
   `>>` line is step text, the entries live in the YAML).  The event stream is the YAML event carrying
   exactly y, then the intended events of the document. *)
Theorem C01_frontmatter_events_roundtrip :
  forall (U : N -> ucls) (cfg : pcfg) (y : str) (ft : fmtape) (d : list block) (tp : dtape),
    fm_doc_ok U cfg y ft d tp = true ->
    exists evs, events U cfg (print_fm_doc y ft d tp) = Done evs /\ map ev_proj evs = fm_doc_events y d.
Proof. exact events_print_fm_doc. Qed.
Print Assumptions C01_frontmatter_events_roundtrip.

(* ... and the recipe: the same denotation; it is valid exactly when serde_yaml accepts y ([yaml_ok]) *)
Theorem C01_parse_print_frontmatter_partial :
  forall (U : N -> ucls) (cfg : pcfg) ci yaml_ok find_iq unit_class (x : Analysis.aext)
         (y : str) (ft : fmtape) (d : list block) (tp : dtape),
    (forall c, MaskProofs.special c = true -> is_word_char U c = false /\ is_lex_ws U c = false) ->
    fm_doc_ok U cfg y ft d tp = true -> adoc_ok ci find_iq unit_class x d = true ->
    ParseTotal.parse_model U cfg ci yaml_ok find_iq unit_class x (print_fm_doc y ft d tp)
    = Done (Some (denote ci find_iq (Analysis.x_inline x) (Analysis.x_modes x) d), yaml_ok y).
Proof. exact parse_print_fm. Qed.
Print Assumptions C01_parse_print_frontmatter_partial.

(* ... and the metadata map is the mapping serde_yaml made of y (the oracle's answer [yaml y]) *)
Theorem C01_metadata_frontmatter :
  forall (U : N -> ucls) (cfg : pcfg) (Y : Type) (ystr : str -> Y) (yeqb : Y -> Y -> bool)
         (yaml : str -> option (list (Y * Y))) (modes : bool) (y : str) (ft : fmtape) (d : list block) (tp : dtape) m,
    fm_doc_ok U cfg y ft d tp = true -> yaml y = Some m ->
    exists evs, events U cfg (print_fm_doc y ft d tp) = Done evs /\
      MetaMap.metadata_of Y ystr yeqb yaml modes evs = Some m.
Proof.
  intros U cfg Y ystr yeqb yaml modes y ft d tp m Hd Hy. destruct (events_print_fm_doc U cfg y ft d tp Hd) as (evs & He & Hp).
  exists evs. split; [exact He|]. apply (metadata_denote_fm Y ystr yeqb yaml modes y d evs m Hp); [|exact Hy].
  unfold fm_doc_ok in Hd. apply andb_true_iff in Hd as [Hd _]. apply andb_true_iff in Hd as [_ Hd]. exact Hd.
Qed.
Print Assumptions C01_metadata_frontmatter.

(* the full statement: the same for EVERY spelling [s] of the document - [spells s d]: s spells d with the
   documented syntax, any spacing, wrapping, comments and blank lines, not only those the printer produces - and
   with the value of every inline quantity ([den] in place of [denote], which counts them) *)
Definition C01_full_statement (spells : str -> list block -> Prop)
                              (den : (str -> str) -> (str -> option (str * str)) -> (str -> N) -> Analysis.aext ->
                                     list block -> Analysis.recipe) : Prop :=
  forall (U : N -> ucls) (cfg : pcfg) ci yaml_ok find_iq unit_class (x : Analysis.aext) (d : list block) (s : str),
    spells s d -> adoc_ok ci find_iq unit_class x d = true ->
    ParseTotal.parse_model U cfg ci yaml_ok find_iq unit_class x s = Done (Some (den ci find_iq unit_class x d), true).

(* The metadata map (Model/MetaMap.v: the collector projected on content.metadata.map; serde_yaml values are
   an oracle type Y with [ystr] = Value::String and the key equality [yeqb]): for every printed document it is
   the entries [kept_entries modes d] (cleaned key, trimmed value) inserted in document order - a repeated key
   keeps its place and takes the last value.  [kept_entries] (Model/Denote.v) leaves out exactly the mode
   switches: with MODES on, the `[mode]` / `[define]` / `[duplicate]` entries. *)
Theorem C01_metadata_roundtrip :
  forall (U : N -> ucls) (cfg : pcfg) (Y : Type) (ystr : str -> Y) (yeqb : Y -> Y -> bool)
         (yaml : str -> option (list (Y * Y))) (modes : bool) (d : list block) (tp : dtape),
    doc_ok U cfg d tp = true ->
    exists evs, events U cfg (print_doc d tp) = Done evs /\
      MetaMap.metadata_of Y ystr yeqb yaml modes evs = Some (fold_left (ins Y ystr yeqb) (kept_entries modes d) []).
Proof.
  intros U cfg Y ystr yeqb yaml modes d tp Hd. destruct (events_print_doc U cfg d tp Hd) as (evs & He & Hp).
  exists evs. split; [exact He|]. exact (metadata_denote_modes Y ystr yeqb yaml modes d evs Hp).
Qed.
Print Assumptions C01_metadata_roundtrip.

(* ... which is every `>>` entry when no key is a `[..]` key while MODES is on *)
Theorem C01_metadata_entries_plain :
  forall (modes : bool) (d : list block), meta_plain modes d = true -> kept_entries modes d = meta_entries d.
Proof. exact kept_entries_plain. Qed.
Print Assumptions C01_metadata_entries_plain.

(* ------------------------------------------------------------------ examples *)
(* the adjacency exclusions are real (implementation's classes, Gen/CharClass.v): each pair
   below changes under concatenation, so adjacent_ok rejects it *)
Definition Ug := Gen.CharClass.U.
Example C01_adjacency_exclusions :
  map (adjacent_ok Ug)
    [ [(KWord, [97]); (KWord, [98])];            (* a b   -> one word *)
      [(KInt, [49]); (KInt, [50])];              (* 1 2   -> 12 *)
      [(KInt, [49]); (KZeroInt, [48; 49])];      (* 1 01  -> 101 *)
      [(KMinus, [45]); (KMinus, [45])];          (* - -   -> line comment *)
      [(KPunct, [91]); (KMinus, [45])];          (* [ -   -> block comment *)
      [(KTextStep, [62]); (KTextStep, [62])];    (* > >   -> >> *)
      [(KWord, [13]); (KNewline, [10])];         (* CR LF -> one newline *)
      [(KWs, [32]); (KWs, [9])];                 (* blanks merge *)
      [(KLineComment, [45; 45; 97]); (KWord, [98])];   (* a comment runs to the end of the line *)
      [(KEscaped, [92]); (KWord, [97])] ]        (* a lone backslash takes the next character *)
  = [false; false; false; false; false; false; false; false; false; false].
Proof. vm_compute. reflexivity. Qed.

Example C01_adjacency_accepts :
  adjacent_ok Ug [(KWord, [97]); (KWs, [32]); (KInt, [49]); (KSlash, [47]); (KInt, [50]); (KLineComment, [45; 45; 120]);
                  (KNewline, [10]); (KMeta, [62; 62]); (KTextStep, [62]); (KMinus, [45]); (KWord, [98]);
                  (KBlockComment, [91; 45; 32; 45; 93]); (KMinus, [45])] = true.
Proof. vm_compute. reflexivity. Qed.

(* the hypotheses of the quantity theorem are satisfiable: `{ = 1 1/2 [- c -] % g }` and `{a pinch}`,
   `{2 - 3%kg}` under every extension *)
Definition sp : ptok := (KWs, [32]).
Definition tape1 : qtape :=
  {| q_lead := [sp]; q_after_lock := [sp];
     q_ta := {| n_gap := [sp]; n_bs := []; n_as := [] |}; q_tb := {| n_gap := []; n_bs := []; n_as := [] |};
     q_bd := [sp]; q_ad := [sp]; q_trail := [sp; (KBlockComment, [91; 45; 99; 45; 93]); sp];
     q_after_pct := [sp]; q_end := [sp]; q_adv := None |}.
Definition tape_adv : qtape :=
  {| q_lead := []; q_after_lock := []; q_ta := {| n_gap := [sp]; n_bs := []; n_as := [] |};
     q_tb := {| n_gap := []; n_bs := []; n_as := [] |}; q_bd := []; q_ad := []; q_trail := [];
     q_after_pct := []; q_end := []; q_adv := Some [sp] |}.
Definition q1 : qspec := {| qs_val := QNum (SMixed [49] [49] [50]); qs_lock := true; qs_unit := Some [(KWord, [103])] |}.
Definition q2 : qspec := {| qs_val := QText [(KWord, [97]); sp; (KWord, [112; 105; 110; 99; 104])]; qs_lock := false; qs_unit := None |}.
Definition q3 : qspec := {| qs_val := QRange (SInt [50]) (SInt [51]); qs_lock := false; qs_unit := Some [(KWord, [107; 103])] |}.
(* `2 - 3` as a text value (RANGE_VALUES off), `half-way`, `2 big` (a text value unless ADVANCED_UNITS reads a unit) *)
Definition q4 : qspec := {| qs_val := QText (print_value (QRange (SInt [50]) (SInt [51])) tape1); qs_lock := false; qs_unit := None |}.
Definition q5 : qspec := {| qs_val := QText [(KWord, [104; 97; 108; 102]); (KMinus, [45]); (KWord, [119; 97; 121])]; qs_lock := false; qs_unit := None |}.
Definition q6 : qspec := {| qs_val := QText [(KInt, [50]); sp; (KWord, [98; 105; 103])]; qs_lock := false; qs_unit := None |}.
Definition cfg_all : pcfg :=
  {| p_ext := X_ALL; p_debug := true; p_strict_escape := false; p_note_label_old := false; p_fm_anywhere := false |}.
Definition cfg_none : pcfg :=
  {| p_ext := 0; p_debug := true; p_strict_escape := false; p_note_label_old := false; p_fm_anywhere := false |}.
Example C01_value_hypotheses_satisfiable :
  (adjacent_ok Ug (print_qty q1 tape1) && qty_wf cfg_all q1 tape1 && qty_wf cfg_none q1 tape1 &&
   adjacent_ok Ug (print_qty q2 tape1) && qty_wf cfg_all q2 tape1 && qty_wf cfg_none q2 tape1 &&
   adjacent_ok Ug (print_qty q3 tape1) && qty_wf cfg_all q3 tape1 && negb (qty_wf cfg_none q3 tape1) &&
   adjacent_ok Ug (print_qty q4 tape1) && qty_wf cfg_none q4 tape1 && negb (qty_wf cfg_all q4 tape1) &&
   adjacent_ok Ug (print_qty q5 tape1) && qty_wf cfg_all q5 tape1 && qty_wf cfg_none q5 tape1 &&
   adjacent_ok Ug (print_qty q6 tape1) && qty_wf cfg_none q6 tape1 && negb (qty_wf cfg_all q6 tape1) &&
   adjacent_ok Ug (print_qty q1 tape_adv) && qty_wf cfg_all q1 tape_adv && negb (qty_wf cfg_none q1 tape_adv) &&
   adjacent_ok Ug (print_qty q3 tape_adv) && qty_wf cfg_all q3 tape_adv) = true.
Proof. vm_compute. reflexivity. Qed.

Definition wd (s : str) : ptok := (KWord, s).
Definition c_igr : cspec := {| cs_kind := CIgr; cs_mods := [MC KQuestion; MRef {| is_rel := true; is_sec := false; is_val := [49]; is_b1 := []; is_b2 := []; is_b3 := [sp]; is_b4 := [] |}; MC KMinus]; cs_name := [wd [97]; sp; wd [98]]; cs_alias := Some [wd [99]];
                               cs_body := BQty q1 tape1; cs_note := Some [wd [100]] |}.
Definition c_word : cspec := {| cs_kind := CIgr; cs_mods := []; cs_name := [wd [115; 97; 108; 116]]; cs_alias := None;
                                cs_body := BWord; cs_note := None |}.
Definition c_cw : cspec := {| cs_kind := CCw; cs_mods := []; cs_name := [wd [112; 111; 116]]; cs_alias := None;
                              cs_body := BEmpty [sp]; cs_note := None |}.
Definition c_tm : cspec := {| cs_kind := CTm; cs_mods := []; cs_name := []; cs_alias := None;
                              cs_body := BQty {| qs_val := QNum (SInt [53]); qs_lock := false; qs_unit := Some [wd [109; 105; 110]] |} tape1;
                              cs_note := None |}.
Definition step1 : list item := [IText [wd [65; 100; 100]; sp]; IComp c_igr; IText [sp; wd [116; 111]; (KNewline, [10]); wd [97]; sp];
                                 IComp c_word; IText [(KPunct, [44]); sp]; IComp c_cw; IText [sp]; IComp c_tm].
Example C01_component_hypotheses_satisfiable :
  (comp_wf cfg_all c_igr && comp_wf cfg_all c_word && comp_wf cfg_none c_word && comp_wf cfg_all c_cw &&
   comp_wf cfg_all c_tm && comp_wf cfg_none c_tm && negb (comp_wf cfg_none c_igr) &&
   items_ok cfg_all step1 && adjacent_ok Ug (print_items step1) &&
   block_ok cfg_all (BkStep step1) && block_ok cfg_all (BkMeta [sp; wd [107]] [sp; wd [118]]) &&
   block_ok cfg_all (BkSection 1 [sp; wd [65]; sp] 2 [sp])) = true.
Proof. vm_compute. reflexivity. Qed.

(* a two-step document with a metadata line and a section: the splitter cuts it at the blocks *)
Definition doc1 : list block := [BkMeta [sp; wd [107]] [sp; wd [118]]; BkSection 0 [sp; wd [65]] 0 []; BkStep step1;
                                 BkStep [IText [wd [66]]]].
Definition nl : ptok := (KNewline, [10]).
Definition doc1_toks : list ptok :=
  print_block (BkMeta [sp; wd [107]] [sp; wd [118]]) ++ nl :: print_block (BkSection 0 [sp; wd [65]] 0 []) ++ nl ::
  print_block (BkStep step1) ++ nl :: (KLineComment, [45; 45; 120]) :: nl :: print_block (BkStep [IText [wd [66]]]).
Example C01_blocks_example :
  adjacent_ok Ug doc1_toks = true /\
  parse_frontmatter cfg_all (unlex doc1_toks) = None /\
  Forall2 prints (MetaIterProofs.blocks (place 0 doc1_toks)) doc1 /\
  forallb (block_ok cfg_all) doc1 = true.
Proof.
  split; [vm_compute; reflexivity|]. split; [vm_compute; reflexivity|]. split; [|vm_compute; reflexivity].
  assert (E : MetaIterProofs.blocks (place 0 doc1_toks)
              = [place 0 (print_block (BkMeta [sp; wd [107]] [sp; wd [118]]));
                 place 8 (print_block (BkSection 0 [sp; wd [65]] 0 []));
                 place 12 (print_block (BkStep step1));
                 place 98 (print_block (BkStep [IText [wd [66]]]))]) by (vm_compute; reflexivity).
  rewrite E. repeat constructor; eexists; reflexivity.
Qed.

(* the layout hypothesis is satisfiable: `>> k: v`, newline, a one-line step, newline *)
Definition doc2_toks : list ptok := print_block (BkMeta [sp; wd [107]] [sp; wd [118]]) ++ nl :: [wd [66]] ++ [nl].
Example C01_layout_satisfiable :
  doc_toks (place 0 doc2_toks) [place 0 (print_block (BkMeta [sp; wd [107]] [sp; wd [118]])); place 8 [wd [66]]].
Proof.
  apply (dt_single [] (place 0 (print_block (BkMeta [sp; wd [107]] [sp; wd [118]])))
                   {| kind := KNewline; tstr := [10]; tstart := 7 |} (place 8 ([wd [66]] ++ [nl])));
    try (vm_compute; reflexivity); try (split; vm_compute; reflexivity); try (repeat constructor; fail).
  apply (dt_multi [] (place 8 [wd [66]]) {| kind := KNewline; tstr := [10]; tstart := 9 |}
                  (place 8 [wd [66]]) {| kind := KNewline; tstr := [10]; tstart := 9 |} [] [] [] []);
    try (vm_compute; reflexivity); try (split; vm_compute; reflexivity); try (repeat constructor; fail).
Qed.

Example C01_number_hypotheses_satisfiable :
  (adjacent_ok Ug ([sp] ++ print_num (SMixed [49] [49] [50]) (q_ta tape1) ++ [sp]) &&
   num_wf (SMixed [49] [49] [50]) (q_ta tape1) &&
   adjacent_ok Ug (print_num (SDec [] [48; 53]) (q_ta tape1)) && num_wf (SDec [] [48; 53]) (q_ta tape1)) = true.
Proof. vm_compute. reflexivity. Qed.

(* ---- the document printer: a document with a metadata line, a wrapped and commented step, a section,
   a step, a two-line `>` block and a last step; leading comment lines, a CRLF line end, empty and
   comment-only separator lines.  [doc_ok] holds with all extensions; with none it fails (the first step
   uses modifiers). *)
Definition cm : ptok := (KLineComment, [45; 45; 120]).
Definition bcm : ptok := (KBlockComment, [91; 45; 32; 45; 93]).
Definition crlf : ptok := (KNewline, [13; 10]).
Definition tx1 : block :=
  BkText [{| tl_marker := true; tl_ws := [sp]; tl_toks := [wd [110; 111; 116; 101]] |};
          {| tl_marker := false; tl_ws := []; tl_toks := [wd [103; 111]; sp; wd [111; 110]] |}].
Definition doc3 : list block :=
  [BkMeta [sp; wd [107]] [sp; wd [118]]; BkStep step1; BkSection 1 [sp; wd [65]; sp] 2 [sp];
   BkStep [IText [wd [66]; sp]; IComp c_word; IText [(KDot, [46])]]; tx1; BkStep [IText [wd [67]]]].
Definition tape3 : dtape :=
  {| dt_lead := [([sp; bcm], nl); ([cm], nl)];
     dt_nl := fun n => if Nat.eqb n 1 then crlf else nl;
     dt_sep := fun n => match n with
                        | 0 | 1 | 2 => []
                        | 3 => [([], nl); ([bcm], crlf)]
                        | 4 => [([cm], nl)]
                        | _ => [([], nl)]
                        end%nat;
     dt_final := true |}.
Example C01_doc_ok_satisfiable :
  doc_ok Ug cfg_all doc3 tape3 = true /\ doc_ok Ug cfg_none doc3 tape3 = false /\
  no_fence_line (print_doc doc3 tape3) = true.
Proof. vm_compute. repeat split. Qed.

(* ---- the recipe level: `Mix @salt{1%g} and @&salt, then #pot{} ~{5%min}.` / `== A ==` / `Add @?Salt` / `> note`,
   with a case folding that maps `S` to `s`.  The class conditions hold with every extension of the pass
   on; the denotation has the reference resolved (entry 1 refers to entry 0, which records the back link),
   the second step numbered 1 in its section, `Salt` a new definition. *)
Definition ufold (s : str) : str := map (fun c => if N.eqb c 83 then 115 else c) s.
Definition x_all : Analysis.aext := {| Analysis.x_modes := true; Analysis.x_inline := true; Analysis.x_advanced := true |}.
Definition uclass (u : str) : N := if str_eqb u [109; 105; 110] then 1 else 2.
Definition tape0 : qtape :=
  {| q_lead := []; q_after_lock := []; q_ta := {| n_gap := []; n_bs := []; n_as := [] |};
     q_tb := {| n_gap := []; n_bs := []; n_as := [] |}; q_bd := []; q_ad := []; q_trail := [];
     q_after_pct := []; q_end := []; q_adv := None |}.
Definition salt : list ptok := [wd [115; 97; 108; 116]].
Definition c_salt : cspec :=
  {| cs_kind := CIgr; cs_mods := []; cs_name := salt; cs_alias := None;
     cs_body := BQty {| qs_val := QNum (SInt [49]); qs_lock := false; qs_unit := Some [wd [103]] |} tape0; cs_note := None |}.
Definition c_salt_ref : cspec :=
  {| cs_kind := CIgr; cs_mods := [MC KAnd]; cs_name := salt; cs_alias := None; cs_body := BWord; cs_note := None |}.
Definition c_Salt_opt : cspec :=
  {| cs_kind := CIgr; cs_mods := [MC KQuestion]; cs_name := [wd [83; 97; 108; 116]]; cs_alias := None; cs_body := BWord; cs_note := None |}.
Definition c_tm5 : cspec :=
  {| cs_kind := CTm; cs_mods := []; cs_name := []; cs_alias := None;
     cs_body := BQty {| qs_val := QNum (SInt [53]); qs_lock := false; qs_unit := Some [wd [109; 105; 110]] |} tape0; cs_note := None |}.
Definition doc4 : list block :=
  [BkStep [IText [wd [77; 105; 120]; sp]; IComp c_salt; IText [sp; wd [97; 110; 100]; sp]; IComp c_salt_ref;
           IText [(KPunct, [44]); sp; wd [116; 104; 101; 110]; sp]; IComp c_cw; IText [sp]; IComp c_tm5; IText [(KDot, [46])]];
   BkSection 1 [sp; wd [65]; sp] 2 [];
   BkStep [IText [wd [65; 100; 100]; sp]; IComp c_Salt_opt];
   BkText [{| tl_marker := true; tl_ws := [sp]; tl_toks := [wd [110; 111; 116; 101]] |}]].
Definition tape4 : dtape := {| dt_lead := []; dt_nl := fun _ => nl; dt_sep := fun n => match n with 2%nat => [([], nl)] | _ => [] end; dt_final := true |}.
Example C01_parse_print_example :
  doc_ok Ug cfg_all doc4 tape4 = true /\ adoc_ok ufold (fun _ => None) uclass x_all doc4 = true /\
  map Analysis.c_rel (Analysis.r_ingredients (denote ufold (fun _ => None) true true doc4))
  = [Analysis.RDef [1%nat] true; Analysis.RRef 0 Analysis.TgComponent; Analysis.RDef [] true] /\
  map Analysis.sec_name (Analysis.r_sections (denote ufold (fun _ => None) true true doc4)) = [None; Some [65]] /\
  ParseTotal.parse_model Ug cfg_all ufold (fun _ => true) (fun _ => None) uclass x_all (print_doc doc4 tape4)
  = Done (Some (denote ufold (fun _ => None) true true doc4), true).
Proof.
  assert (H1 : doc_ok Ug cfg_all doc4 tape4 = true) by (vm_compute; reflexivity).
  assert (H2 : adoc_ok ufold (fun _ => None) uclass x_all doc4 = true) by (vm_compute; reflexivity).
  split; [exact H1|]. split; [exact H2|]. split; [vm_compute; reflexivity|]. split; [vm_compute; reflexivity|].
  exact (C01_parse_print_shipped cfg_all ufold (fun _ => true) (fun _ => None) uclass x_all doc4 tape4 H1 H2).
Qed.

(* the values the denotation of doc4 holds (`@salt{1%g}`, `~{5%min}`), and what a decimal, a mixed number and a
   range of fractions denote: `12.50`, `1 1/2-7/2`.  A decimal literal with k fraction digits is held as
   (its digits * 10) / 10^(k+1) ([dec_q], the parser model's reading of float()), hence the [Qeq]. *)
Definition value_qeq (a b : Events.pvalue) : Prop :=
  match a, b with
  | Events.VNumber p, Events.VNumber q => Qeq p q
  | Events.VRange p1 p2, Events.VRange q1 q2 => Qeq p1 q1 /\ Qeq p2 q2
  | Events.VText s, Events.VText t => s = t
  | _, _ => False
  end.
Example C01_values_example :
  Forall2 (fun o v => match o, v with Some a, Some b => value_qeq a b | None, None => True | _, _ => False end)
    (map (fun c => option_map Analysis.qi_value (Analysis.c_qty c))
         (Analysis.r_ingredients (denote ufold (fun _ => None) true true doc4)))
    [Some (Events.VNumber (Qmake 1 1)); None; None] /\
  Forall2 (fun o v => match o, v with Some a, Some b => value_qeq a b | None, None => True | _, _ => False end)
    (map (fun t => option_map Analysis.qi_value (Analysis.tm_qty t))
         (Analysis.r_timers (denote ufold (fun _ => None) true true doc4)))
    [Some (Events.VNumber (Qmake 5 1))] /\
  value_qeq (value_of (denote_value (QNum (SDec [49; 50] [53; 48])))) (Events.VNumber (Qmake 25 2)) /\
  value_of (denote_value (QRange (SMixed [49] [49] [50]) (SFrac [55] [50]))) = Events.VRange (Qmake 3 2) (Qmake 7 2).
Proof.
  split; [vm_compute; repeat constructor|]. split; [vm_compute; repeat constructor|].
  split; vm_compute; reflexivity.
Qed.

(* ---- front matter: `---`, `title: x`, `--- ` and the document doc4 *)
Definition yaml1 : str := [116; 105; 116; 108; 101; 58; 32; 120; 10].
Definition ftape1 : fmtape := {| fm_ws1 := []; fm_ws2 := [32] |}.
Example C01_frontmatter_satisfiable :
  fm_doc_ok Ug cfg_all yaml1 ftape1 doc4 tape4 = true /\
  fm_free cfg_all (print_fm_doc yaml1 ftape1 doc4 tape4) = false.
Proof. vm_compute. split; reflexivity. Qed.

(* ---- intermediate references: `Boil @water.` / `> rest` / `Add @&(~1)stock{} to @&(1)base{}.` / `= B` /
   `Use @&(=1)part one{} and @&(=~1)it{}.`: the step references point at content position 0 (the first step;
   position 1 is the text block), the section references at section 0 *)
Definition mref (r s : bool) (v : str) : mitem :=
  MRef {| is_rel := r; is_sec := s; is_val := v; is_b1 := []; is_b2 := []; is_b3 := []; is_b4 := [] |}.
Definition c_inter (r s : bool) (v : str) (name : list ptok) : cspec :=
  {| cs_kind := CIgr; cs_mods := [mref r s v]; cs_name := name; cs_alias := None; cs_body := BEmpty []; cs_note := None |}.
Definition c_water : cspec :=
  {| cs_kind := CIgr; cs_mods := []; cs_name := [wd [119; 97; 116; 101; 114]]; cs_alias := None; cs_body := BWord; cs_note := None |}.
Definition doc5 : list block :=
  [BkStep [IText [wd [66; 111; 105; 108]; sp]; IComp c_water; IText [(KDot, [46])]];
   BkText [{| tl_marker := true; tl_ws := [sp]; tl_toks := [wd [114; 101; 115; 116]] |}];
   BkStep [IText [wd [65; 100; 100]; sp]; IComp (c_inter true false [49] [wd [115; 116; 111; 99; 107]]);
           IText [sp; wd [116; 111]; sp]; IComp (c_inter false false [49] [wd [98; 97; 115; 101]]); IText [(KDot, [46])]];
   BkSection 0 [sp; wd [66]] 0 [];
   BkStep [IText [wd [85; 115; 101]; sp]; IComp (c_inter false true [49] [wd [112; 97; 114; 116]; sp; wd [111; 110; 101]]);
           IText [sp; wd [97; 110; 100]; sp]; IComp (c_inter true true [49] [wd [105; 116]]); IText [(KDot, [46])]]].
(* the text ends right after the last step, without a newline *)
Definition tape5 : dtape := {| dt_lead := []; dt_nl := fun _ => nl; dt_sep := fun n => match n with 0%nat | 1%nat => [([], nl)] | _ => [] end; dt_final := false |}.
Example C01_intermediate_example :
  doc_ok Ug cfg_all doc5 tape5 = true /\ adoc_ok ufold (fun _ => None) uclass x_all doc5 = true /\
  map Analysis.c_rel (Analysis.r_ingredients (denote ufold (fun _ => None) true true doc5))
  = [Analysis.RDef [] true; Analysis.RRef 0 Analysis.TgStep; Analysis.RRef 0 Analysis.TgStep;
     Analysis.RRef 0 Analysis.TgSection; Analysis.RRef 0 Analysis.TgSection].
Proof. vm_compute. repeat split. Qed.

(* ---- inline quantities: a toy converter oracle that takes `!` for a quantity; `Wait a!b` is cut into the
   text before, inline quantity 0, the text after *)
Fixpoint cut33 (s : str) : option (str * str) :=
  match s with
  | [] => None
  | c :: r => if N.eqb c 33 then Some ([], r)
              else match cut33 r with Some (b, a) => Some (c :: b, a) | None => None end
  end.
Definition doc6 : list block := [BkStep [IText [wd [87; 97; 105; 116]; sp; wd [97]; (KPunct, [33]); wd [98]]]].
Definition tape6 : dtape := {| dt_lead := []; dt_nl := fun _ => nl; dt_sep := fun _ => []; dt_final := true |}.
Example C01_inline_example :
  doc_ok Ug cfg_all doc6 tape6 = true /\ adoc_ok ufold cut33 uclass x_all doc6 = true /\
  Analysis.r_sections (denote ufold cut33 true true doc6)
  = [{| Analysis.sec_name := None;
        Analysis.sec_content := [Analysis.CStep {| Analysis.st_items := [Analysis.IText [87; 97; 105; 116; 32; 97]; Analysis.IInline 0;
                                                                         Analysis.IText [98]];
                                                   Analysis.st_number := 1 |}] |}] /\
  Analysis.r_inline (denote ufold cut33 true true doc6) = 1%nat.
Proof. vm_compute. repeat split. Qed.

(* ---- mode switches: four of them in one document
     >> [mode]: components
     @salt{1%g} and #pot{ }

     > note
     >> [define]: steps
     Add @salt, @+pepper and #pot.
     >> [duplicate]: reference
     >> [mode]: default
     Mix @flour{1%g} then @flour{1%g} and @Salt.
   The components-mode line is no step (salt and pot are definitions "not in a step", the text ` and ` is
   omitted), the note stays a text block; in steps mode `@salt` and `#pot` are references, `@+pepper` a new
   definition; after the two last switches the second `@flour` and `@Salt` (folded to `salt`) are references
   because the name was seen, the first `@flour` a definition.  The implementation returns the same recipe for the
   printed text (replayed with /verif/.build/target/debug/recipe, extensions all, bundled units). *)
Definition lb : ptok := (KPunct, [91]).
Definition rb : ptok := (KPunct, [93]).
Definition comma : ptok := (KPunct, [44]).
Definition dot : ptok := (KDot, [46]).
Definition k_mode : list ptok := [sp; lb; wd [109; 111; 100; 101]; rb].
Definition k_define : list ptok := [sp; lb; wd [100; 101; 102; 105; 110; 101]; rb].
Definition k_duplicate : list ptok := [sp; lb; wd [100; 117; 112; 108; 105; 99; 97; 116; 101]; rb].
Definition c_named (k : ckind) (ms : list mitem) (name : str) : cspec :=
  {| cs_kind := k; cs_mods := ms; cs_name := [wd name]; cs_alias := None; cs_body := BWord; cs_note := None |}.
Definition c_flour : cspec :=
  {| cs_kind := CIgr; cs_mods := []; cs_name := [wd [102; 108; 111; 117; 114]]; cs_alias := None;
     cs_body := BQty {| qs_val := QNum (SInt [49]); qs_lock := false; qs_unit := Some [wd [103]] |} tape0; cs_note := None |}.
Definition doc7 : list block :=
  [BkMeta k_mode [sp; wd [99; 111; 109; 112; 111; 110; 101; 110; 116; 115]];
   BkStep [IComp c_salt; IText [sp; wd [97; 110; 100]; sp]; IComp c_cw];
   BkText [{| tl_marker := true; tl_ws := [sp]; tl_toks := [wd [110; 111; 116; 101]] |}];
   BkMeta k_define [sp; wd [115; 116; 101; 112; 115]];
   BkStep [IText [wd [65; 100; 100]; sp]; IComp (c_named CIgr [] [115; 97; 108; 116]); IText [comma; sp];
           IComp (c_named CIgr [MC KPlus] [112; 101; 112; 112; 101; 114]); IText [sp; wd [97; 110; 100]; sp];
           IComp (c_named CCw [] [112; 111; 116]); IText [dot]];
   BkMeta k_duplicate [sp; wd [114; 101; 102; 101; 114; 101; 110; 99; 101]];
   BkMeta k_mode [sp; wd [100; 101; 102; 97; 117; 108; 116]];
   BkStep [IText [wd [77; 105; 120]; sp]; IComp c_flour; IText [sp; wd [116; 104; 101; 110]; sp]; IComp c_flour;
           IText [sp; wd [97; 110; 100]; sp]; IComp (c_named CIgr [] [83; 97; 108; 116]); IText [dot]]].
Definition tape7 : dtape := {| dt_lead := []; dt_nl := fun _ => nl; dt_sep := fun n => match n with 1%nat => [([], nl)] | _ => [] end; dt_final := true |}.
Definition rec7 : Analysis.recipe := denote ufold (fun _ => None) true true doc7.
Example C01_modes_example :
  doc_ok Ug cfg_all doc7 tape7 = true /\ adoc_ok ufold (fun _ => None) uclass x_all doc7 = true /\
  map (fun c => (Analysis.c_name c, Analysis.c_rel c)) (Analysis.r_ingredients rec7)
  = [([115; 97; 108; 116], Analysis.RDef [1%nat; 5%nat] false);
     ([115; 97; 108; 116], Analysis.RRef 0 Analysis.TgComponent);
     ([112; 101; 112; 112; 101; 114], Analysis.RDef [] true);
     ([102; 108; 111; 117; 114], Analysis.RDef [4%nat] true);
     ([102; 108; 111; 117; 114], Analysis.RRef 3 Analysis.TgComponent);
     ([83; 97; 108; 116], Analysis.RRef 0 Analysis.TgComponent)] /\
  map Analysis.c_rel (Analysis.r_cookware rec7) = [Analysis.RDef [1%nat] false; Analysis.RRef 0 Analysis.TgComponent] /\
  map (fun s => map (fun c => match c with Analysis.CStep st => Some (Analysis.st_number st) | Analysis.CText _ => None end)
                    (Analysis.sec_content s)) (Analysis.r_sections rec7) = [[None; Some 1%nat; Some 2%nat]] /\
  ParseTotal.parse_model Ug cfg_all ufold (fun _ => true) (fun _ => None) uclass x_all (print_doc doc7 tape7)
  = Done (Some rec7, true).
Proof.
  assert (H1 : doc_ok Ug cfg_all doc7 tape7 = true) by (vm_compute; reflexivity).
  assert (H2 : adoc_ok ufold (fun _ => None) uclass x_all doc7 = true) by (vm_compute; reflexivity).
  split; [exact H1|]. split; [exact H2|]. split; [vm_compute; reflexivity|]. split; [vm_compute; reflexivity|].
  split; [vm_compute; reflexivity|].
  exact (C01_parse_print_shipped cfg_all ufold (fun _ => true) (fun _ => None) uclass x_all doc7 tape7 H1 H2).
Qed.

(* text mode: `>> [mode]: text` then `Take @salt{1[- -]%g} now.` is one text block holding the step as written,
   the comment left out, and no table entry; the document is in the class, so this is what the pipeline model
   returns for the printed text.  The implementation returns that text (same replay) *)
Definition c_salt_cm : cspec :=
  {| cs_kind := CIgr; cs_mods := []; cs_name := salt; cs_alias := None;
     cs_body := BQty {| qs_val := QNum (SInt [49]); qs_lock := false; qs_unit := Some [wd [103]] |}
                     {| q_lead := []; q_after_lock := []; q_ta := {| n_gap := []; n_bs := []; n_as := [] |};
                        q_tb := {| n_gap := []; n_bs := []; n_as := [] |}; q_bd := []; q_ad := []; q_trail := [bcm];
                        q_after_pct := []; q_end := []; q_adv := None |}; cs_note := None |}.
Definition doc8 : list block :=
  [BkMeta k_mode [sp; wd [116; 101; 120; 116]];
   BkStep [IText [wd [84; 97; 107; 101]; sp]; IComp c_salt_cm; IText [sp; wd [110; 111; 119]; dot]]].
Example C01_text_mode_example :
  doc_ok Ug cfg_all doc8 tape7 = true /\ adoc_ok ufold (fun _ => None) uclass x_all doc8 = true /\
  text_reached true doc8 mode0 = true /\
  unlex (print_block (BkStep [IText [wd [84; 97; 107; 101]; sp]; IComp c_salt_cm; IText [sp; wd [110; 111; 119]; dot]]))
  = [84; 97; 107; 101; 32; 64; 115; 97; 108; 116; 123; 49; 91; 45; 32; 45; 93; 37; 103; 125; 32; 110; 111; 119; 46] /\
  denote ufold (fun _ => None) true true doc8
  = {| Analysis.r_sections := [{| Analysis.sec_name := None;
                                  Analysis.sec_content := [Analysis.CText [84; 97; 107; 101; 32; 64; 115; 97; 108; 116; 123; 49; 37; 103; 125; 32; 110; 111; 119; 46]] |}];
       Analysis.r_ingredients := []; Analysis.r_cookware := []; Analysis.r_timers := []; Analysis.r_inline := 0 |} /\
  ParseTotal.parse_model Ug cfg_all ufold (fun _ => true) (fun _ => None) uclass x_all (print_doc doc8 tape7)
  = Done (Some (denote ufold (fun _ => None) true true doc8), true).
Proof.
  assert (H1 : doc_ok Ug cfg_all doc8 tape7 = true) by (vm_compute; reflexivity).
  assert (H2 : adoc_ok ufold (fun _ => None) uclass x_all doc8 = true) by (vm_compute; reflexivity).
  split; [exact H1|]. split; [exact H2|]. split; [vm_compute; reflexivity|]. split; [vm_compute; reflexivity|].
  split; [vm_compute; reflexivity|].
  exact (C01_parse_print_shipped cfg_all ufold (fun _ => true) (fun _ => None) uclass x_all doc8 tape7 H1 H2).
Qed.
