(* C01 - Printing a recipe as Cooklang and parsing it returns that recipe.

   Proved here, on the models of the lexer (Model/Lexer.v) and of the pull parser
   (Model/Parser.v), for every Unicode classification U and every extension set:
     - the lexer inverts the concatenation of well-formed tokens under a decidable adjacency
       condition (C01_lexer_roundtrip and the adjacency examples);
     - numbers: naturals, decimals, fractions, mixed numbers, with blanks and comments at the
       optional positions, are read back exactly, incl. the u32 bound (C01_natural_roundtrip,
       C01_number_roundtrip, C01_number_u32_bound);
     - quantities `{ = value % unit }` in every spelling (C01_value_roundtrip);
     - components: ingredient, cookware, timer; braces / blank braces / single word; alias; note
       with modifier characters and `&(..)` data (C01_component_roundtrip);
     - steps: text pieces and components, wrapped and commented (C01_step_roundtrip);
     - blocks: metadata line, section line, step block, `>` text block through parse_block and the end-of-block
       check (C01_block_roundtrip);
     - the block cut: a token stream laid out as blocks separated by empty lines is cut by the
       splitter at exactly those blocks (C01_block_cut);
     - documents: the whole event stream of a text without front matter laid out as printed
       blocks (C01_events_roundtrip_partial, via C14_full_blocks and C01_block_cut).
   C01_full_statement (documents printed with separators, no splitting hypothesis) is stated,
   not proved.  The recipe level (analysis pass) is monitored on the implementation by
   checks/c01.py on every run.
   The printers (Model/Printer.v) are definitions of these statements, not models of Rust code. *)
From CL Require Import Base.StrLemmas Model.Lexer Model.Parser Proofs.LexerProofs Model.Printer Proofs.RoundTrip
  Proofs.RoundTripComp Proofs.RoundTripDoc.
From CL Require Proofs.MetaIterProofs.
From CL Require Gen.CharClass.

(* ------------------------------------------------------------------ (a) lexer *)

Theorem C01_lexer_roundtrip :
  forall (U : N -> ucls) (toks : list ptok) (off : N),
    adjacent_ok U toks = true -> lex_at U (unlex toks) off = Some (place off toks).
Proof. exact lex_unlex. Qed.
Print Assumptions C01_lexer_roundtrip.

(* [place] only adds the spans: kinds and texts are the printed ones, spans tile from [off] *)
Theorem C01_place_faithful :
  forall (toks : list ptok) (off : N),
    map (fun t => (kind t, tstr t)) (place off toks) = toks /\ adjacent_from off (place off toks).
Proof.
  induction toks as [|[k s] r IH]; intro off; cbn [place map fst snd kind tstr adjacent_from].
  - split; [reflexivity|exact I].
  - destruct (IH (off + blen s)) as [H1 H2]. split; [rewrite H1; reflexivity|].
    split; [reflexivity|exact H2].
Qed.
Print Assumptions C01_place_faithful.

(* the side condition is exact for a token that stands alone: it is what the lexer returns *)
Theorem C01_token_alone :
  forall (U : N -> ucls) (k : tkind) (c : N) (s : str),
    tok_ok U (k, c :: s) = true <-> lex_one U c s = (k, c :: s, []).
Proof.
  intros U k c s. split.
  - intro H. destruct (tok_ok_inv U _ _ H) as (c' & t' & E & L). inversion E; subst. exact L.
  - intro H. unfold tok_ok; cbn [fst snd]. rewrite H. rewrite tk_eqb_refl. reflexivity.
Qed.
Print Assumptions C01_token_alone.

(* ------------------------------------------------------------------ (b) numbers *)

Theorem C01_natural_roundtrip :
  forall (U : N -> ucls) (n : N) (off : N),
    lex_at U (digits_of n) off = Some [{| kind := KInt; tstr := digits_of n; tstart := off |}] /\
    numeric_value [{| kind := KInt; tstr := digits_of n; tstart := off |}]
      = Some (inr (NReg (dec_q (digits_of n) []))) /\
    digits_val (digits_of n) = n.
Proof.
  intros U n off. split; [|split].
  - pose proof (lex_unlex U [(KInt, digits_of n)] off) as H. unfold unlex in H. cbn [map concat snd] in H.
    rewrite app_nil_r in H. apply H. cbn [adjacent_ok]. rewrite digits_of_tok_ok.
    unfold unlex; cbn [map concat hd_error snd]. destruct (digits_of n); reflexivity.
  - exact (numeric_int [] {| kind := KInt; tstr := digits_of n; tstart := off |} [] eq_refl eq_refl eq_refl).
  - apply digits_of_val.
Qed.
Print Assumptions C01_natural_roundtrip.

Theorem C01_number_roundtrip :
  forall (U : N -> ucls) (n : nspec) (tp : ntape) (a b : list ptok) (off : N),
    adjacent_ok U (a ++ print_num n tp ++ b) = true ->
    num_wf n tp = true -> forallb blank_ok a = true -> forallb blank_ok b = true ->
    exists ts, lex_at U (unlex (a ++ print_num n tp ++ b)) off = Some ts /\
               numeric_value ts = Some (inr (denote_num n)).
Proof.
  intros U n tp a b off Hadj W Ha Hb. exists (place off (a ++ print_num n tp ++ b)). split.
  - apply lex_unlex. exact Hadj.
  - apply numeric_print; assumption.
Qed.
Print Assumptions C01_number_roundtrip.

(* the bound of parse::<u32>(): a fraction part above 4294967295 is an error, never a number *)
Theorem C01_number_u32_bound :
  forall (x y : str) (tp : ntape) (a b : list ptok) (off : N),
    forallb blank_ok (n_bs tp) = true -> forallb blank_ok (n_as tp) = true ->
    forallb blank_ok a = true -> forallb blank_ok b = true ->
    fits_u32 x = false ->
    exists d, numeric_value (place off (a ++ print_num (SFrac x y) tp ++ b)) = Some (inl d) /\
              d_err d = true /\ d_code d = D_INT_PARSE.
Proof. exact numeric_print_overflow. Qed.
Print Assumptions C01_number_u32_bound.

(* ------------------------------------------------------------------ (c) quantities *)

(* Every spelling of `{ = value % unit }`: lock; number, range (RANGE_VALUES on) or text value (any
   token run that is not a number spelling: `a pinch`, `half-way`, `2 big ones`, and `2 - 3` when
   RANGE_VALUES is off - it then denotes the text as written); unit after `%`, or after blanks alone
   under ADVANCED_UNITS (`{1 g}`); blanks and comments at every optional position; every extension
   set.  The quantity is read back without diagnostic and the enclosing parser does not move. *)
Theorem C01_value_roundtrip :
  forall (U : N -> ucls) (cfg : pcfg) (q : qspec) (tp : qtape) (off : N) (s : bp),
    adjacent_ok U (print_qty q tp) = true -> qty_wf cfg q tp = true ->
    exists ts q' sep,
      lex_at U (unlex (print_qty q tp)) off = Some ts /\
      parse_quantity cfg ts s = Done ((q', sep), s) /\
      qproj q' = denote_qty q.
Proof.
  intros U cfg q tp off s Hadj W.
  destruct (parse_quantity_print cfg q tp off s W) as (q' & sep & Hp & Hq).
  exists (place off (print_qty q tp)), q', sep. split; [apply lex_unlex; exact Hadj|]. split; assumption.
Qed.
Print Assumptions C01_value_roundtrip.

(* ------------------------------------------------------------------ (d) components *)

(* Every component form: ingredient `@`, cookware `#` (quantity without unit), timer `~` (with or
   without name, quantity with unit); modifier characters `@ & ? + -` after the marker in any order
   (COMPONENT_MODIFIERS; no `@` on cookware, none on timers), `&` with the data of an
   intermediate-preparation reference `&(~1)`, `&(2)`, `&(=2)`, `&(=~1)`, blanks allowed inside
   (INTERMEDIATE_PREPARATIONS, ingredients); name of any tokens without `{ @ # ~`; alias
   `name|alias` (COMPONENT_ALIAS on; with it off the bar stays in the name); body `{quantity}`,
   `{ }` or nothing (single-word name followed by a non-word token, no `{` before the next
   marker); note `(...)`.  The parser function selected by the marker, run on the tokens of
   `print_comp c ++ k` inside any block state, returns the denoted component (modifier bits and
   reference data included), leaves exactly k, and emits no diagnostic. *)
Theorem C01_component_roundtrip :
  forall (U : N -> ucls) (cfg : pcfg) (c : cspec) (k : list ptok) (off : N) (al dn : list tok) (ev : list pevent),
    adjacent_ok U (print_comp c ++ k) = true -> comp_wf cfg c = true -> comp_follow c k = true ->
    exists ts pe,
      lex_at U (unlex (print_comp c ++ k)) off = Some ts /\
      comp_fn cfg (cs_kind c) {| b_all := al; b_done := dn; b_rest := ts; b_evs := ev |}
      = Done (Some pe, {| b_all := al; b_done := rev (place off (print_comp c)) ++ dn;
                          b_rest := place (off + blen (unlex (print_comp c))) k; b_evs := ev |}) /\
      ev_proj pe = denote_comp c.
Proof.
  intros U cfg c k off al dn ev Hadj W F.
  destruct (comp_print cfg c k off al dn ev W F) as (pe & H & P).
  exists (place off (print_comp c ++ k)), pe. split; [apply lex_unlex; exact Hadj|]. split; [exact H|exact P].
Qed.
Print Assumptions C01_component_roundtrip.

(* ------------------------------------------------------------------ (e) steps *)

(* A step printed as a sequence of items - text pieces (words, blanks, line wraps, comments,
   escapes; no unescaped `@ # ~ {`) alternating with components - is read by parse_step as
   Start, one event per item (the text of a piece is toks_text: comments skipped, a newline is
   one blank, escapes resolved), End; nothing else is emitted and all tokens are consumed. *)
Theorem C01_step_roundtrip :
  forall (U : N -> ucls) (cfg : pcfg) (items : list item) (off : N) (evs : list pevent),
    adjacent_ok U (print_items items) = true ->
    p_strict_escape cfg = false -> items_ok cfg items = true -> print_items items <> [] ->
    exists blk evs',
      lex_at U (unlex (print_items items)) off = Some blk /\
      parse_step cfg {| b_all := blk; b_done := []; b_rest := blk; b_evs := evs |}
      = Done (tt, {| b_all := blk; b_done := rev blk; b_rest := []; b_evs := EvEnd true :: evs' ++ EvStart true :: evs |}) /\
      map ev_proj (rev evs') = map denote_item items.
Proof.
  intros U cfg items off evs Hadj Hs Hok Hne.
  assert (Hi : items <> []) by (intros ->; apply Hne; reflexivity).
  destruct (parse_step_print cfg Hs items off evs Hok Hi Hne) as (evs' & H & P).
  exists (place off (print_items items)), evs'. split; [apply lex_unlex; exact Hadj|]. split; [exact H|exact P].
Qed.
Print Assumptions C01_step_roundtrip.

(* ------------------------------------------------------------------ (f) blocks, documents *)

(* A metadata line `>> key: value`, a section line `=.. name =..`, a step block and a `>` text
   block (one or more lines, continued with or without `>`), each run through parse_block and the
   end-of-block check of the pull parser (run_block), yield exactly their intended events. *)
Theorem C01_block_roundtrip :
  forall (U : N -> ucls) (cfg : pcfg) (b : block) (off : N) (evs : list pevent),
    adjacent_ok U (print_block b) = true -> block_ok cfg b = true -> sec_trail_ok b ->
    exists blk evs',
      lex_at U (unlex (print_block b)) off = Some blk /\
      run_block blk evs (parse_block cfg true) = Done (evs' ++ evs) /\
      map ev_proj (rev evs') = denote_block b.
Proof.
  intros U cfg b off evs Hadj W Hs.
  assert (Hst : p_strict_escape cfg = false).
  { unfold block_ok in W. apply andb_true_iff in W as [W _]. destruct (p_strict_escape cfg); [discriminate|reflexivity]. }
  destruct (block_print cfg Hst b off evs W Hs) as (evs' & H & P).
  exists (place off (print_block b)), evs'. split; [apply lex_unlex; exact Hadj|]. split; [exact H|exact P].
Qed.
Print Assumptions C01_block_roundtrip.

(* The block cut.  [doc_toks ts bs] describes the layout of a token stream declaratively: leading
   empty (blank or comment-only) lines; then either a `>>`/`=` line, which is a block by itself and
   needs no empty line around it, or a multi-line block (step, text: lines that are not empty and
   do not start with `>>` or `=`) that ends at an empty line, at a `>>`/`=` line or at the end of
   the text; and so on.  For such a stream the splitter of the pull parser (next_block iterated)
   returns exactly the blocks bs: wrapped steps stay one block, separator lines belong to no block. *)
Theorem C01_block_cut :
  forall (ts : list tok) (bs : list (list tok)), doc_toks ts bs -> MetaIterProofs.blocks ts = bs.
Proof. intros ts bs H. unfold MetaIterProofs.blocks. apply blocks_doc; [exact H|lia]. Qed.
Print Assumptions C01_block_cut.

(* Document level, on the pull parser (through C14_full_blocks: events = parse_block folded over
   the blocks): a text without front matter whose tokens are laid out as the printed blocks of d
   yields, spans erased, exactly the intended events of d in order - no diagnostics.
   Partial: the layout is a predicate on the lexed tokens (doc_toks + prints), not yet derived from a
   document printer with a decidable side condition, and `parse_frontmatter = None` (no two
   `---` lines with only blanks before the first) is a hypothesis: a comment-only line `---` is a
   legal separator spelling, so it cannot be dropped, only made a condition of the printer. *)
Theorem C01_events_roundtrip_partial :
  forall (U : N -> ucls) (cfg : pcfg) (text : str) (d : list block) (ts : list tok) (bl : list (list tok)),
    p_strict_escape cfg = false ->
    parse_frontmatter cfg text = None -> lex_at U text 0 = Some ts ->
    doc_toks ts bl -> Forall2 prints bl d ->
    Forall (fun b => block_ok cfg b = true /\ sec_trail_ok b) d ->
    exists evs, events U cfg text = Done evs /\ map ev_proj evs = concat (map denote_block d).
Proof. intros U cfg text d ts bl Hs. exact (events_layout cfg Hs U text d ts bl). Qed.
Print Assumptions C01_events_roundtrip_partial.

(* the full statement: the splitting hypothesis replaced by the printer of documents *)
Fixpoint print_doc (d : list block) (sep : nat -> list ptok) (n : nat) : list ptok :=
  match d with
  | [] => []
  | [b] => print_block b
  | b :: r => print_block b ++ (KNewline, [10]) :: sep n ++ print_doc r sep (S n)
  end.
Definition is_step_block (b : block) : bool := match b with BkStep _ => true | _ => false end.
(* separators: blank tokens and newlines; an empty or comment-only line between two step blocks *)
Fixpoint seps_ok (d : list block) (sep : nat -> list ptok) (n : nat) : Prop :=
  match d with
  | b :: ((b2 :: _) as r) =>
      forallb (fun t => blank_ok t || (tk_eqb (fst t) KNewline && shape_ok t)) (sep n) = true /\
      (is_step_block b && is_step_block b2 = true -> kind_in KNewline (sep n) = true) /\
      seps_ok r sep (S n)
  | _ => True
  end.
Definition C01_full_statement : Prop :=
  forall (U : N -> ucls) (cfg : pcfg) (d : list block) (sep : nat -> list ptok),
    p_strict_escape cfg = false ->
    Forall (fun b => block_ok cfg b = true /\ sec_trail_ok b) d -> seps_ok d sep 0 ->
    parse_frontmatter cfg (unlex (print_doc d sep 0)) = None ->
    adjacent_ok U (print_doc d sep 0) = true ->
    exists evs, events U cfg (unlex (print_doc d sep 0)) = Done evs /\
                map ev_proj evs = concat (map denote_block d).

(* ------------------------------------------------------------------ examples *)
(* the adjacency exclusions are real (implementation's classes, Gen/CharClass.v): each pair
   below changes under concatenation, so adjacent_ok rejects it *)
Definition Ug := Gen.CharClass.U.
Example C01_adjacency_exclusions :
  map (adjacent_ok Ug)
    [ [(KWord, [97]); (KWord, [98])];            (* a b   -> one word *)
      [(KInt, [49]); (KInt, [50])];              (* 1 2   -> 12 *)
      [(KInt, [49]); (KZeroInt, [48; 49])];      (* 1 01  -> 101 *)
      [(KMinus, [45]); (KMinus, [45])];          (* - -   -> line comment *)
      [(KPunct, [91]); (KMinus, [45])];          (* [ -   -> block comment *)
      [(KTextStep, [62]); (KTextStep, [62])];    (* > >   -> >> *)
      [(KWord, [13]); (KNewline, [10])];         (* CR LF -> one newline *)
      [(KWs, [32]); (KWs, [9])];                 (* blanks merge *)
      [(KLineComment, [45; 45; 97]); (KWord, [98])];   (* a comment runs to the end of the line *)
      [(KEscaped, [92]); (KWord, [97])] ]        (* a lone backslash takes the next character *)
  = [false; false; false; false; false; false; false; false; false; false].
Proof. vm_compute. reflexivity. Qed.

Example C01_adjacency_accepts :
  adjacent_ok Ug [(KWord, [97]); (KWs, [32]); (KInt, [49]); (KSlash, [47]); (KInt, [50]); (KLineComment, [45; 45; 120]);
                  (KNewline, [10]); (KMeta, [62; 62]); (KTextStep, [62]); (KMinus, [45]); (KWord, [98]);
                  (KBlockComment, [91; 45; 32; 45; 93]); (KMinus, [45])] = true.
Proof. vm_compute. reflexivity. Qed.

(* the hypotheses of the quantity theorem are satisfiable: `{ = 1 1/2 [- c -] % g }` and `{a pinch}`,
   `{2 - 3%kg}` under every extension *)
Definition sp : ptok := (KWs, [32]).
Definition tape1 : qtape :=
  {| q_lead := [sp]; q_after_lock := [sp];
     q_ta := {| n_gap := [sp]; n_bs := []; n_as := [] |}; q_tb := {| n_gap := []; n_bs := []; n_as := [] |};
     q_bd := [sp]; q_ad := [sp]; q_trail := [sp; (KBlockComment, [91; 45; 99; 45; 93]); sp];
     q_after_pct := [sp]; q_end := [sp]; q_adv := None |}.
Definition tape_adv : qtape :=
  {| q_lead := []; q_after_lock := []; q_ta := {| n_gap := [sp]; n_bs := []; n_as := [] |};
     q_tb := {| n_gap := []; n_bs := []; n_as := [] |}; q_bd := []; q_ad := []; q_trail := [];
     q_after_pct := []; q_end := []; q_adv := Some [sp] |}.
Definition q1 : qspec := {| qs_val := QNum (SMixed [49] [49] [50]); qs_lock := true; qs_unit := Some [(KWord, [103])] |}.
Definition q2 : qspec := {| qs_val := QText [(KWord, [97]); sp; (KWord, [112; 105; 110; 99; 104])]; qs_lock := false; qs_unit := None |}.
Definition q3 : qspec := {| qs_val := QRange (SInt [50]) (SInt [51]); qs_lock := false; qs_unit := Some [(KWord, [107; 103])] |}.
(* `2 - 3` as a text value (RANGE_VALUES off), `half-way`, `2 big` (a text value unless ADVANCED_UNITS reads a unit) *)
Definition q4 : qspec := {| qs_val := QText (print_value (QRange (SInt [50]) (SInt [51])) tape1); qs_lock := false; qs_unit := None |}.
Definition q5 : qspec := {| qs_val := QText [(KWord, [104; 97; 108; 102]); (KMinus, [45]); (KWord, [119; 97; 121])]; qs_lock := false; qs_unit := None |}.
Definition q6 : qspec := {| qs_val := QText [(KInt, [50]); sp; (KWord, [98; 105; 103])]; qs_lock := false; qs_unit := None |}.
Definition cfg_all : pcfg :=
  {| p_ext := X_ALL; p_debug := true; p_strict_escape := false; p_note_label_old := false; p_fm_anywhere := false |}.
Definition cfg_none : pcfg :=
  {| p_ext := 0; p_debug := true; p_strict_escape := false; p_note_label_old := false; p_fm_anywhere := false |}.
Example C01_value_hypotheses_satisfiable :
  (adjacent_ok Ug (print_qty q1 tape1) && qty_wf cfg_all q1 tape1 && qty_wf cfg_none q1 tape1 &&
   adjacent_ok Ug (print_qty q2 tape1) && qty_wf cfg_all q2 tape1 && qty_wf cfg_none q2 tape1 &&
   adjacent_ok Ug (print_qty q3 tape1) && qty_wf cfg_all q3 tape1 && negb (qty_wf cfg_none q3 tape1) &&
   adjacent_ok Ug (print_qty q4 tape1) && qty_wf cfg_none q4 tape1 && negb (qty_wf cfg_all q4 tape1) &&
   adjacent_ok Ug (print_qty q5 tape1) && qty_wf cfg_all q5 tape1 && qty_wf cfg_none q5 tape1 &&
   adjacent_ok Ug (print_qty q6 tape1) && qty_wf cfg_none q6 tape1 && negb (qty_wf cfg_all q6 tape1) &&
   adjacent_ok Ug (print_qty q1 tape_adv) && qty_wf cfg_all q1 tape_adv && negb (qty_wf cfg_none q1 tape_adv) &&
   adjacent_ok Ug (print_qty q3 tape_adv) && qty_wf cfg_all q3 tape_adv) = true.
Proof. vm_compute. reflexivity. Qed.

Definition wd (s : str) : ptok := (KWord, s).
Definition c_igr : cspec := {| cs_kind := CIgr; cs_mods := [MC KQuestion; MRef {| is_rel := true; is_sec := false; is_val := [49]; is_b1 := []; is_b2 := []; is_b3 := [sp]; is_b4 := [] |}; MC KMinus]; cs_name := [wd [97]; sp; wd [98]]; cs_alias := Some [wd [99]];
                               cs_body := BQty q1 tape1; cs_note := Some [wd [100]] |}.
Definition c_word : cspec := {| cs_kind := CIgr; cs_mods := []; cs_name := [wd [115; 97; 108; 116]]; cs_alias := None;
                                cs_body := BWord; cs_note := None |}.
Definition c_cw : cspec := {| cs_kind := CCw; cs_mods := []; cs_name := [wd [112; 111; 116]]; cs_alias := None;
                              cs_body := BEmpty [sp]; cs_note := None |}.
Definition c_tm : cspec := {| cs_kind := CTm; cs_mods := []; cs_name := []; cs_alias := None;
                              cs_body := BQty {| qs_val := QNum (SInt [53]); qs_lock := false; qs_unit := Some [wd [109; 105; 110]] |} tape1;
                              cs_note := None |}.
Definition step1 : list item := [IText [wd [65; 100; 100]; sp]; IComp c_igr; IText [sp; wd [116; 111]; (KNewline, [10]); wd [97]; sp];
                                 IComp c_word; IText [(KPunct, [44]); sp]; IComp c_cw; IText [sp]; IComp c_tm].
Example C01_component_hypotheses_satisfiable :
  (comp_wf cfg_all c_igr && comp_wf cfg_all c_word && comp_wf cfg_none c_word && comp_wf cfg_all c_cw &&
   comp_wf cfg_all c_tm && comp_wf cfg_none c_tm && negb (comp_wf cfg_none c_igr) &&
   items_ok cfg_all step1 && adjacent_ok Ug (print_items step1) &&
   block_ok cfg_all (BkStep step1) && block_ok cfg_all (BkMeta [sp; wd [107]] [sp; wd [118]]) &&
   block_ok cfg_all (BkSection 1 [sp; wd [65]; sp] 2 [sp])) = true.
Proof. vm_compute. reflexivity. Qed.

(* a two-step document with a metadata line and a section: the splitter cuts it at the blocks *)
Definition doc1 : list block := [BkMeta [sp; wd [107]] [sp; wd [118]]; BkSection 0 [sp; wd [65]] 0 []; BkStep step1;
                                 BkStep [IText [wd [66]]]].
Definition nl : ptok := (KNewline, [10]).
Definition doc1_toks : list ptok :=
  print_block (BkMeta [sp; wd [107]] [sp; wd [118]]) ++ nl :: print_block (BkSection 0 [sp; wd [65]] 0 []) ++ nl ::
  print_block (BkStep step1) ++ nl :: (KLineComment, [45; 45; 120]) :: nl :: print_block (BkStep [IText [wd [66]]]).
Example C01_blocks_example :
  adjacent_ok Ug doc1_toks = true /\
  parse_frontmatter cfg_all (unlex doc1_toks) = None /\
  Forall2 prints (MetaIterProofs.blocks (place 0 doc1_toks)) doc1 /\
  forallb (block_ok cfg_all) doc1 = true.
Proof.
  split; [vm_compute; reflexivity|]. split; [vm_compute; reflexivity|]. split; [|vm_compute; reflexivity].
  assert (E : MetaIterProofs.blocks (place 0 doc1_toks)
              = [place 0 (print_block (BkMeta [sp; wd [107]] [sp; wd [118]]));
                 place 8 (print_block (BkSection 0 [sp; wd [65]] 0 []));
                 place 12 (print_block (BkStep step1));
                 place 98 (print_block (BkStep [IText [wd [66]]]))]) by (vm_compute; reflexivity).
  rewrite E. repeat constructor; eexists; reflexivity.
Qed.

(* the layout hypothesis is satisfiable: `>> k: v`, newline, a one-line step, newline *)
Definition doc2_toks : list ptok := print_block (BkMeta [sp; wd [107]] [sp; wd [118]]) ++ nl :: [wd [66]] ++ [nl].
Example C01_layout_satisfiable :
  doc_toks (place 0 doc2_toks) [place 0 (print_block (BkMeta [sp; wd [107]] [sp; wd [118]])); place 8 [wd [66]]].
Proof.
  apply (dt_single [] (place 0 (print_block (BkMeta [sp; wd [107]] [sp; wd [118]])))
                   {| kind := KNewline; tstr := [10]; tstart := 7 |} (place 8 ([wd [66]] ++ [nl])));
    try (vm_compute; reflexivity); try (split; vm_compute; reflexivity); try (repeat constructor; fail).
  apply (dt_multi [] (place 8 [wd [66]]) {| kind := KNewline; tstr := [10]; tstart := 9 |}
                  (place 8 [wd [66]]) {| kind := KNewline; tstr := [10]; tstart := 9 |} [] [] [] []);
    try (vm_compute; reflexivity); try (split; vm_compute; reflexivity); try (repeat constructor; fail).
Qed.

Example C01_number_hypotheses_satisfiable :
  (adjacent_ok Ug ([sp] ++ print_num (SMixed [49] [49] [50]) (q_ta tape1) ++ [sp]) &&
   num_wf (SMixed [49] [49] [50]) (q_ta tape1) &&
   adjacent_ok Ug (print_num (SDec [] [48; 53]) (q_ta tape1)) && num_wf (SDec [] [48; 53]) (q_ta tape1)) = true.
Proof. vm_compute. reflexivity. Qed.
