(* C01 - Printing a recipe as Cooklang and parsing it returns that recipe.

   Proved here, on the models of the lexer (Model/Lexer.v) and of the pull parser
   (Model/Parser.v), for every Unicode classification U and every extension set:
     - the lexer inverts the concatenation of well-formed tokens under a decidable adjacency
       condition (C01_lexer_roundtrip and the adjacency examples);
     - numbers: naturals, decimals, fractions, mixed numbers, with blanks and comments at
       the optional positions, are read back exactly, incl. the u32 bound (C01_natural_roundtrip,
       C01_number_roundtrip, C01_number_u32_bound);
     - quantities `{ = value % unit }`: lock, number / range / words, unit, blanks and comments
       at every optional position, are read back without diagnostic and without moving the
       enclosing parser (C01_value_roundtrip_partial; what it leaves out is stated in
       C01_value_full_statement).
   Stated, not proved (monitored on the implementation by checks/c01.py on every run):
   C01_component_statement, C01_full_statement.
   The printers (Model/Printer.v) are definitions of these statements, not models of Rust code. *)
From CL Require Import Base.StrLemmas Model.Lexer Model.Parser Proofs.LexerProofs Model.Printer Proofs.RoundTrip.
From CL Require Gen.CharClass.

(* ------------------------------------------------------------------ (a) lexer *)

Theorem C01_lexer_roundtrip :
  forall (U : N -> ucls) (toks : list ptok) (off : N),
    adjacent_ok U toks = true -> lex_at U (unlex toks) off = Some (place off toks).
Proof. exact lex_unlex. Qed.
Print Assumptions C01_lexer_roundtrip.

(* [place] only adds the spans: kinds and texts are the printed ones, spans tile from [off] *)
Theorem C01_place_faithful :
  forall (toks : list ptok) (off : N),
    map (fun t => (kind t, tstr t)) (place off toks) = toks /\ adjacent_from off (place off toks).
Proof.
  induction toks as [|[k s] r IH]; intro off; cbn [place map fst snd kind tstr adjacent_from].
  - split; [reflexivity|exact I].
  - destruct (IH (off + blen s)) as [H1 H2]. split; [rewrite H1; reflexivity|].
    split; [reflexivity|exact H2].
Qed.
Print Assumptions C01_place_faithful.

(* the side condition is exact for a token that stands alone: it is what the lexer returns *)
Theorem C01_token_alone :
  forall (U : N -> ucls) (k : tkind) (c : N) (s : str),
    tok_ok U (k, c :: s) = true <-> lex_one U c s = (k, c :: s, []).
Proof.
  intros U k c s. split.
  - intro H. destruct (tok_ok_inv U _ _ H) as (c' & t' & E & L). inversion E; subst. exact L.
  - intro H. unfold tok_ok; cbn [fst snd]. rewrite H. rewrite tk_eqb_refl. reflexivity.
Qed.
Print Assumptions C01_token_alone.

(* ------------------------------------------------------------------ (b) numbers *)

Theorem C01_natural_roundtrip :
  forall (U : N -> ucls) (n : N) (off : N),
    lex_at U (digits_of n) off = Some [{| kind := KInt; tstr := digits_of n; tstart := off |}] /\
    numeric_value [{| kind := KInt; tstr := digits_of n; tstart := off |}]
      = Some (inr (NReg (dec_q (digits_of n) []))) /\
    digits_val (digits_of n) = n.
Proof.
  intros U n off. split; [|split].
  - pose proof (lex_unlex U [(KInt, digits_of n)] off) as H. unfold unlex in H. cbn [map concat snd] in H.
    rewrite app_nil_r in H. apply H. cbn [adjacent_ok]. rewrite digits_of_tok_ok.
    unfold unlex; cbn [map concat hd_error snd]. destruct (digits_of n); reflexivity.
  - exact (numeric_int [] {| kind := KInt; tstr := digits_of n; tstart := off |} [] eq_refl eq_refl eq_refl).
  - apply digits_of_val.
Qed.
Print Assumptions C01_natural_roundtrip.

Theorem C01_number_roundtrip :
  forall (U : N -> ucls) (n : nspec) (tp : ntape) (a b : list ptok) (off : N),
    adjacent_ok U (a ++ print_num n tp ++ b) = true ->
    num_wf n tp = true -> forallb blank_ok a = true -> forallb blank_ok b = true ->
    exists ts, lex_at U (unlex (a ++ print_num n tp ++ b)) off = Some ts /\
               numeric_value ts = Some (inr (denote_num n)).
Proof.
  intros U n tp a b off Hadj W Ha Hb. exists (place off (a ++ print_num n tp ++ b)). split.
  - apply lex_unlex. exact Hadj.
  - apply numeric_print; assumption.
Qed.
Print Assumptions C01_number_roundtrip.

(* the bound of parse::<u32>(): a fraction part above 4294967295 is an error, never a number *)
Theorem C01_number_u32_bound :
  forall (x y : str) (tp : ntape) (a b : list ptok) (off : N),
    forallb blank_ok (n_bs tp) = true -> forallb blank_ok (n_as tp) = true ->
    forallb blank_ok a = true -> forallb blank_ok b = true ->
    fits_u32 x = false ->
    exists d, numeric_value (place off (a ++ print_num (SFrac x y) tp ++ b)) = Some (inl d) /\
              d_err d = true /\ d_code d = D_INT_PARSE.
Proof. exact numeric_print_overflow. Qed.
Print Assumptions C01_number_u32_bound.

(* ------------------------------------------------------------------ (c) quantities *)

Theorem C01_value_roundtrip_partial :
  forall (U : N -> ucls) (cfg : pcfg) (q : qspec) (tp : qtape) (off : N) (s : bp),
    adjacent_ok U (print_qty q tp) = true -> qty_wf cfg q tp = true ->
    exists ts q' sep,
      lex_at U (unlex (print_qty q tp)) off = Some ts /\
      parse_quantity cfg ts s = Done ((q', sep), s) /\
      qproj q' = denote_qty q.
Proof.
  intros U cfg q tp off s Hadj W.
  destruct (parse_quantity_print cfg q tp off s W) as (q' & sep & Hp & Hq).
  exists (place off (print_qty q tp)), q', sep. split; [apply lex_unlex; exact Hadj|]. split; assumption.
Qed.
Print Assumptions C01_value_roundtrip_partial.

(* Left out by qty_wf: (1) with RANGE_VALUES off a range spelling is a text value (its blanks are
   then significant); (2) with ADVANCED_UNITS on, `{1 g}` (blank instead of `%`, unit starting
   with a word) is value 1, unit g; (3) text values that do not start with a word token or
   contain `-`.  The full statement over these spellings: *)
Definition denote_value_full (cfg : pcfg) (v : vspec) (tp : qtape) : value :=
  match v with
  | QRange _ _ => if has cfg X_RANGE_VALUES then denote_value v
                  else VText (clean (toks_text (print_value v tp)))
  | _ => denote_value v
  end.
Definition print_qty_adv (q : qspec) (tp : qtape) (gap u : list ptok) : list ptok :=
  q_lead tp ++ (if qs_lock q then eq_p :: q_after_lock tp else []) ++ print_value (qs_val q) tp ++
  gap ++ u ++ q_end tp.
Definition C01_value_full_statement : Prop :=
  forall (U : N -> ucls) (cfg : pcfg) (q : qspec) (tp : qtape) (off : N) (s : bp),
    p_strict_escape cfg = false ->
    (* (1) and (3): any value spelling that is not read as a number *)
    (forall toks, adjacent_ok U toks = true -> toks = print_qty q tp ->
       qty_wf cfg {| qs_val := match qs_val q with QRange a b => QNum a | v => v end;
                     qs_lock := qs_lock q; qs_unit := qs_unit q |} tp = true ->
       exists q' sep, parse_quantity cfg (place off toks) s = Done ((q', sep), s) /\
                      qproj q' = (denote_value_full cfg (qs_val q) tp, qs_lock q,
                                  option_map (fun u => clean (toks_text u)) (qs_unit q))) /\
    (* (2) *)
    (forall gap u, has cfg X_ADVANCED_UNITS = true -> qs_unit q = None ->
       (exists w r, u = (KWord, w) :: r) -> forallb shape_ok u = true ->
       (exists g b, gap = g ++ [(KWs, b)]) -> forallb blank_ok gap = true ->
       (match qs_val q with QText _ => False | _ => True end) ->
       adjacent_ok U (print_qty_adv q tp gap u) = true ->
       qty_wf cfg q tp = true ->
       exists q' sep, parse_quantity cfg (place off (print_qty_adv q tp gap u)) s = Done ((q', sep), s) /\
                      qproj q' = (denote_value_full cfg (qs_val q) tp, qs_lock q, Some (clean (toks_text u)))).

(* ------------------------------------------------------------------ (d) components, documents *)

(* ingredient with braces: `@` name `{` quantity or blanks `}`, followed by any continuation k *)
Record cspec := { cs_name : list ptok; cs_qty : option qspec; cs_note : option (list ptok) }.
Definition print_igr (c : cspec) (tp : qtape) (inner : list ptok) : list ptok :=
  (KAt, [64]) :: cs_name c ++ (KOpenBrace, [123]) ::
  (match cs_qty c with Some q => print_qty q tp | None => inner end) ++ (KCloseBrace, [125]) ::
  match cs_note c with Some n => (KOpenParen, [40]) :: n ++ [(KCloseParen, [41])] | None => [] end.
Definition name_ok (p : list ptok) : bool :=
  forallb shape_ok p && negb (str_blank (toks_text p)) &&
  forallb (fun t => negb (is_marker_or_open (fst t)) && negb (tk_eqb (fst t) KOr)) p.
Definition C01_component_statement : Prop :=
  forall (U : N -> ucls) (cfg : pcfg) (c : cspec) (tp : qtape) (inner k : list ptok) (off : N) (ev : list pevent),
    p_strict_escape cfg = false -> name_ok (cs_name c) = true ->
    (match cs_name c with t :: _ => mod_bit (fst t) = None | [] => False end) ->
    (match cs_qty c with Some q => qty_wf cfg q tp = true | None => forallb blank_ok inner = true end) ->
    (match cs_note c with Some n => forallb shape_ok n = true /\ kind_in KCloseParen n = false | None =>
       match k with t :: _ => fst t <> KOpenParen | [] => True end end) ->
    adjacent_ok U (print_igr c tp inner ++ k) = true ->
    let ts := place off (print_igr c tp inner ++ k) in
    exists i st,
      ingredient_p cfg {| b_all := ts; b_done := []; b_rest := ts; b_evs := ev |} = Done (Some (EvIngredient i), st) /\
      b_rest st = place (off + blen (unlex (print_igr c tp inner))) k /\ b_evs st = ev /\
      text_trimmed (i_name i) = clean (toks_text (cs_name c)) /\ i_alias i = None /\ i_mods i = 0 /\
      i_inter i = None /\
      option_map qproj (i_qty i) = option_map denote_qty (cs_qty c) /\
      option_map text_trimmed (i_note i) = option_map (fun n => clean (toks_text n)) (cs_note c).

(* proved part of the component statement: an ingredient in braces form (name, then a printed
   quantity or blank braces), no modifiers / alias / note, followed by any continuation that does
   not open a note.  The other forms (single word, modifiers, alias, note, cookware, timer) are
   covered by the correspondence and the monitor only. *)
Theorem C01_component_roundtrip_partial :
  forall (U : N -> ucls) (cfg : pcfg) (name : list ptok) (q : option qspec) (tp : qtape)
         (inner k : list ptok) (off : N) (ev : list pevent),
    adjacent_ok U (print_igr_braces name q tp inner ++ k) = true ->
    p_strict_escape cfg = false -> igr_name_ok name = true -> igr_inner_ok cfg q tp inner = true ->
    match k with t :: _ => tk_eqb (fst t) KOpenParen = false | [] => True end ->
    exists ts i st,
      lex_at U (unlex (print_igr_braces name q tp inner ++ k)) off = Some ts /\
      ingredient_p cfg {| b_all := ts; b_done := []; b_rest := ts; b_evs := ev |} = Done (Some (EvIngredient i), st) /\
      b_rest st = place (off + blen (unlex (print_igr_braces name q tp inner))) k /\ b_evs st = ev /\
      text_trimmed (i_name i) = clean (toks_text name) /\ i_alias i = None /\ i_mods i = 0 /\
      i_inter i = None /\ i_note i = None /\
      option_map qproj (i_qty i) = option_map denote_qty q.
Proof.
  intros U cfg name q tp inner k off ev Hadj Hs Hn Hi Hk.
  destruct (ingredient_print cfg name q tp inner k off ev Hs Hn Hi Hk) as (i & st & H).
  exists (place off (print_igr_braces name q tp inner ++ k)), i, st.
  split; [apply lex_unlex; exact Hadj | exact H].
Qed.
Print Assumptions C01_component_roundtrip_partial.

(* document level, on the pull parser: a document is a list of blocks, printed one per line group
   and separated by blank lines; its events, spans erased, are the intended ones.  (The recipe
   level - Model/Analysis.v applied to these events equals the denotation - is what
   checks/c01.py monitors on the implementation for every generated structure and tape.) *)
Inductive item_spec := IText (toks : list ptok) | IIngredient (c : cspec) (tp : qtape) (inner : list ptok).
Inductive block_spec :=
| BMeta (key value : list ptok)
| BSection (name : list ptok)
| BStep (items : list item_spec).
Inductive ev_spec :=
| SMeta (k v : str) | SSection (name : str) | SStart | SEnd | SText (s : str)
| SIngredient (name : str) (q : option (value * bool * option str)) (note : option str).
Definition print_item (i : item_spec) : list ptok :=
  match i with IText toks => toks | IIngredient c tp inner => print_igr c tp inner end.
Definition nl_p : ptok := (KNewline, [10]).
Definition print_block (b : block_spec) : list ptok :=
  match b with
  | BMeta k v => (KMeta, [62; 62]) :: k ++ (KColon, [58]) :: v
  | BSection n => (KEq, [61]) :: n
  | BStep items => concat (map print_item items)
  end.
(* sep n: the blank and comment-only lines between block n and block n+1 (at least one newline) *)
Fixpoint print_doc (d : list block_spec) (sep : nat -> list ptok) (n : nat) : list ptok :=
  match d with
  | [] => []
  | [b] => print_block b
  | b :: r => print_block b ++ nl_p :: sep n ++ print_doc r sep (S n)
  end.
Definition denote_item (i : item_spec) : ev_spec :=
  match i with
  | IText toks => SText (toks_text toks)
  | IIngredient c _ _ => SIngredient (clean (toks_text (cs_name c))) (option_map denote_qty (cs_qty c))
                                     (option_map (fun n => clean (toks_text n)) (cs_note c))
  end.
Definition denote_block (b : block_spec) : list ev_spec :=
  match b with
  | BMeta k v => [SMeta (clean (toks_text k)) (trim (toks_text v))]
  | BSection n => [SSection (clean (toks_text n))]
  | BStep items => SStart :: map denote_item items ++ [SEnd]
  end.
Definition ev_proj (e : pevent) : option ev_spec :=
  match e with
  | EvMetadata k v => Some (SMeta (text_trimmed k) (text_outer_trimmed v))
  | EvSection (Some n) => Some (SSection (text_trimmed n))
  | EvStart true => Some SStart
  | EvEnd true => Some SEnd
  | EvText t => Some (SText (text_str t))
  | EvIngredient i =>
      if (i_mods i =? 0) && match i_alias i, i_inter i with None, None => true | _, _ => false end
      then Some (SIngredient (text_trimmed (i_name i)) (option_map qproj (i_qty i)) (option_map text_trimmed (i_note i)))
      else None
  | _ => None     (* diagnostics, front matter, other components: not intended here *)
  end.
Definition no_kind (ks : list tkind) (p : list ptok) : bool :=
  forallb (fun t => negb (existsb (tk_eqb (fst t)) ks)) p.
Definition item_ok (cfg : pcfg) (i : item_spec) : Prop :=
  match i with
  | IText toks => forallb shape_ok toks = true /\ toks <> [] /\
                  no_kind [KAt; KHash; KTilde; KNewline; KLineComment; KBlockComment] toks = true
  | IIngredient c tp inner =>
      name_ok (cs_name c) = true /\ no_kind [KNewline; KAt; KQuestion; KPlus; KMinus; KAnd] (cs_name c) = true /\
      match cs_qty c with Some q => qty_wf cfg q tp = true | None => forallb blank_ok inner = true end /\
      match cs_note c with Some n => forallb shape_ok n = true /\ no_kind [KCloseParen; KNewline] n = true | None => True end
  end.
Fixpoint alternate (items : list item_spec) : Prop :=
  match items with
  | IText _ :: IText _ :: _ => False        (* adjacent text items are one Text event *)
  | IIngredient c _ _ :: ((IText (t :: _) :: _) as r) =>
      (cs_note c = None -> fst t <> KOpenParen) /\ alternate r
  | _ :: r => alternate r
  | [] => True
  end.
Definition block_ok (cfg : pcfg) (b : block_spec) : Prop :=
  match b with
  | BMeta k v => forallb shape_ok (k ++ v) = true /\ no_kind [KColon; KNewline] k = true /\ no_kind [KNewline] v = true /\
                 str_blank (toks_text k) = false /\ str_blank (toks_text v) = false
  | BSection n => forallb shape_ok n = true /\ no_kind [KEq; KNewline] n = true /\ str_blank (toks_text n) = false
  | BStep items =>
      items <> [] /\ Forall (item_ok cfg) items /\ alternate items /\
      match print_block b with
      | t :: _ => no_kind [KMeta; KEq; KTextStep; KWs; KLineComment; KBlockComment] [t] = true
      | [] => False
      end
  end.
Definition is_step_block (b : block_spec) : bool := match b with BStep _ => true | _ => false end.
(* separators: blank tokens and newlines; an empty or comment-only line between two steps *)
Fixpoint seps_ok (d : list block_spec) (sep : nat -> list ptok) (n : nat) : Prop :=
  match d with
  | b :: ((b2 :: _) as r) =>
      forallb (fun t => blank_ok t || (tk_eqb (fst t) KNewline && shape_ok t)) (sep n) = true /\
      (is_step_block b && is_step_block b2 = true -> kind_in KNewline (sep n) = true) /\
      seps_ok r sep (S n)
  | _ => True
  end.
Definition doc_wf (cfg : pcfg) (d : list block_spec) (sep : nat -> list ptok) : Prop :=
  Forall (block_ok cfg) d /\ seps_ok d sep 0.

Definition C01_full_statement : Prop :=
  forall (U : N -> ucls) (cfg : pcfg) (d : list block_spec) (sep : nat -> list ptok),
    doc_wf cfg d sep -> p_strict_escape cfg = false -> p_fm_anywhere cfg = false ->
    adjacent_ok U (print_doc d sep 0) = true ->
    exists evs, events U cfg (unlex (print_doc d sep 0)) = Done evs /\
                map ev_proj evs = map Some (concat (map denote_block d)).

(* ------------------------------------------------------------------ examples *)
(* the adjacency exclusions are real (implementation's classes, Gen/CharClass.v): each pair
   below changes under concatenation, so adjacent_ok rejects it *)
Definition Ug := Gen.CharClass.U.
Example C01_adjacency_exclusions :
  map (adjacent_ok Ug)
    [ [(KWord, [97]); (KWord, [98])];            (* a b   -> one word *)
      [(KInt, [49]); (KInt, [50])];              (* 1 2   -> 12 *)
      [(KInt, [49]); (KZeroInt, [48; 49])];      (* 1 01  -> 101 *)
      [(KMinus, [45]); (KMinus, [45])];          (* - -   -> line comment *)
      [(KPunct, [91]); (KMinus, [45])];          (* [ -   -> block comment *)
      [(KTextStep, [62]); (KTextStep, [62])];    (* > >   -> >> *)
      [(KWord, [13]); (KNewline, [10])];         (* CR LF -> one newline *)
      [(KWs, [32]); (KWs, [9])];                 (* blanks merge *)
      [(KLineComment, [45; 45; 97]); (KWord, [98])];   (* a comment runs to the end of the line *)
      [(KEscaped, [92]); (KWord, [97])] ]        (* a lone backslash takes the next character *)
  = [false; false; false; false; false; false; false; false; false; false].
Proof. vm_compute. reflexivity. Qed.

Example C01_adjacency_accepts :
  adjacent_ok Ug [(KWord, [97]); (KWs, [32]); (KInt, [49]); (KSlash, [47]); (KInt, [50]); (KLineComment, [45; 45; 120]);
                  (KNewline, [10]); (KMeta, [62; 62]); (KTextStep, [62]); (KMinus, [45]); (KWord, [98]);
                  (KBlockComment, [91; 45; 32; 45; 93]); (KMinus, [45])] = true.
Proof. vm_compute. reflexivity. Qed.

(* the hypotheses of the quantity theorem are satisfiable: `{ = 1 1/2 [- c -] % g }` and `{a pinch}`,
   `{2 - 3%kg}` under every extension *)
Definition sp : ptok := (KWs, [32]).
Definition tape1 : qtape :=
  {| q_lead := [sp]; q_after_lock := [sp];
     q_ta := {| n_gap := [sp]; n_bs := []; n_as := [] |}; q_tb := {| n_gap := []; n_bs := []; n_as := [] |};
     q_bd := [sp]; q_ad := [sp]; q_trail := [sp; (KBlockComment, [91; 45; 99; 45; 93]); sp];
     q_after_pct := [sp]; q_end := [sp] |}.
Definition q1 : qspec := {| qs_val := QNum (SMixed [49] [49] [50]); qs_lock := true; qs_unit := Some [(KWord, [103])] |}.
Definition q2 : qspec := {| qs_val := QText [(KWord, [97]); sp; (KWord, [112; 105; 110; 99; 104])]; qs_lock := false; qs_unit := None |}.
Definition q3 : qspec := {| qs_val := QRange (SInt [50]) (SInt [51]); qs_lock := false; qs_unit := Some [(KWord, [107; 103])] |}.
Definition cfg_all : pcfg :=
  {| p_ext := X_ALL; p_debug := true; p_strict_escape := false; p_note_label_old := false; p_fm_anywhere := false |}.
Definition cfg_none : pcfg :=
  {| p_ext := 0; p_debug := true; p_strict_escape := false; p_note_label_old := false; p_fm_anywhere := false |}.
Example C01_value_hypotheses_satisfiable :
  (adjacent_ok Ug (print_qty q1 tape1) && qty_wf cfg_all q1 tape1 && qty_wf cfg_none q1 tape1 &&
   adjacent_ok Ug (print_qty q2 tape1) && qty_wf cfg_all q2 tape1 && qty_wf cfg_none q2 tape1 &&
   adjacent_ok Ug (print_qty q3 tape1) && qty_wf cfg_all q3 tape1 && negb (qty_wf cfg_none q3 tape1)) = true.
Proof. vm_compute. reflexivity. Qed.

Example C01_component_hypotheses_satisfiable :
  (adjacent_ok Ug (print_igr_braces [(KWord, [97]); sp; (KWord, [98])] (Some q1) tape1 [] ++ [sp; (KWord, [99])]) &&
   igr_name_ok [(KWord, [97]); sp; (KWord, [98])] && igr_inner_ok cfg_all (Some q1) tape1 [] &&
   igr_inner_ok cfg_none None tape1 [sp]) = true.
Proof. vm_compute. reflexivity. Qed.

Example C01_number_hypotheses_satisfiable :
  (adjacent_ok Ug ([sp] ++ print_num (SMixed [49] [49] [50]) (q_ta tape1) ++ [sp]) &&
   num_wf (SMixed [49] [49] [50]) (q_ta tape1) &&
   adjacent_ok Ug (print_num (SDec [] [48; 53]) (q_ta tape1)) && num_wf (SDec [] [48; 53]) (q_ta tape1)) = true.
Proof. vm_compute. reflexivity. Qed.
