(* C19 - The FFI view mirrors the core recipe and combines amounts faithfully.

   Model: Model/Bindings.v (bindings/src/model.rs 84-448 and the exported functions of
   bindings/src/lib.rs 11-117, function by function; the core recipe is abstract: any value of
   [crecipe], not only what the parser produces).  Statement: Model/BindingsSpec.v, written
   without reference to how model.rs computes the view: [recipe_mirrors], [refs_resolve],
   [section_refs_ok]/[step_refs_ok], and for combining [spec_entry] (the per-(name, unit, kind)
   sum of the inputs).  Numbers are exact rationals; [oveq]/[veq] is equality of amounts up to
   the representation of a rational.  [index as u32] is modelled as the reduction modulo 2^32
   that Rust performs; the statements that need an index to survive it say so ([fits_u32],
   [N.of_nat (length _) <= U32]). *)
From Coq Require Import QArith Permutation.
From CL Require Import Base.Chars Model.Bindings Model.BindingsSpec Proofs.BindingsProofs.
From CL Require Model.Analysis Model.AnalysisSpec Proofs.BindingsC06.
Open Scope N_scope.

(* For EVERY core recipe: same sections in the same order with the same titles; in each the same
   blocks in the same order (step -> StepBlock, text -> NoteBlock with the same text); in each step
   the same items in the same order (text -> the same text, component -> reference with the same
   index as u32; documented loss: an inline quantity -> the empty text); the same component tables
   in the same order with name, amount (= value with the same variant and numbers, and unit;
   cookware: no unit) and note (ingredients); documented difference: a nameless timer gets the
   empty name.  Not mirrored at all (absent from the view): alias, relation, modifiers, recipe
   reference, cookware note, step number, inline quantities. *)
Theorem C19_mirror : forall r, recipe_mirrors r (into_simple_recipe r).
Proof. exact mirror. Qed.
Print Assumptions C19_mirror.

(* Under the index-in-range invariant, and tables addressable by u32: every item of the view
   resolves (deref_component, and deref_ingredient / deref_cookware / deref_timer on its index)
   to the image of the component the core item denotes, and every entry of every section
   reference list is a valid index. *)
Theorem C19_refs_resolve :
  forall r, index_inv r -> fits_u32 r -> refs_resolve r (into_simple_recipe r).
Proof. exact resolve. Qed.
Print Assumptions C19_refs_resolve.

(* [index_inv] is what C06 proves of every analysed recipe: a core recipe with the shape of a
   recipe satisfying AnalysisSpec.recipe_ok (theorem C06_output) has it. *)
Theorem C19_refs_invariant_is_C06 :
  forall c r, AnalysisSpec.recipe_ok r -> BindingsC06.same_shape c r -> index_inv c.
Proof. exact BindingsC06.index_inv_from_C06. Qed.
Print Assumptions C19_refs_invariant_is_C06.

(* Each section's ingredient_refs / cookware_refs / timer_refs are the concatenation of its steps'
   lists, and each step's lists are the references among its items in item order. *)
Theorem C19_section_refs :
  forall r, Forall (fun s => section_refs_ok s /\ Forall block_refs_ok (bsec_blocks s))
                   (br_sections (into_simple_recipe r)).
Proof. exact section_refs. Qed.
Print Assumptions C19_section_refs.

(* combine_ingredients_selected on in-range indices returns a map (distinct names, distinct
   (unit, kind) keys, every value of the kind its key says) that holds under (name, unit, kind)
   nothing if no selected input has that key, else the sum of exactly the selected inputs that
   have it - numbers summed, ranges end-wise, texts concatenated in input order, empty stays
   empty - each occurrence of an index counted once. *)
Theorem C19_combine_sum :
  forall ings idx, indices_in_range ings idx ->
    exists l, combine_ingredients_selected ings idx = Done l /\ ilist_wf l /\
      forall name k, oveq (lookup2 l name k) (spec_entry name k (select ings idx)).
Proof. exact combine_sum. Qed.
Print Assumptions C19_combine_sum.

(* the same for combine_ingredients over the whole list *)
Theorem C19_combine_all_sum :
  forall ings, N.of_nat (length ings) <= U32 ->
    exists l, combine_ingredients ings = Done l /\ ilist_wf l /\
      forall name k, oveq (lookup2 l name k) (spec_entry name k ings).
Proof.
  intros ings H. destruct (select_all ings H) as [S R].
  destruct (combine_sum ings _ R) as (l & E & W & L). rewrite S in L. exists l. auto.
Qed.
Print Assumptions C19_combine_all_sum.

(* The numeric part does not depend on the order of the inputs: number, range and empty entries
   are equal, and the same keys are present (text entries are concatenations in input order). *)
Theorem C19_combine_perm :
  forall ings ings' l l', Permutation ings ings' ->
    N.of_nat (length ings) <= U32 ->
    combine_ingredients ings = Done l -> combine_ingredients ings' = Done l' ->
    forall name k,
      (gk_type k <> QTText -> oveq (lookup2 l name k) (lookup2 l' name k)) /\
      (lookup2 l name k = None <-> lookup2 l' name k = None).
Proof. exact combine_perm. Qed.
Print Assumptions C19_combine_perm.

(* Combining a selection is combining the sublist it names (equal as lists, hence as maps). *)
Theorem C19_combine_selected :
  forall ings idx, indices_in_range ings idx -> N.of_nat (length idx) <= U32 ->
    combine_ingredients_selected ings idx = combine_ingredients (select ings idx).
Proof. exact combine_selected. Qed.
Print Assumptions C19_combine_selected.

(* The six panic!("Unexpected type") sites are unreachable from the exported entry points, for
   all ingredients (hand-made ones with Empty amounts and any units included) and all indices,
   in range or not (the only panic left is the unwrap of an out-of-range index). *)
Theorem C19_no_type_panic :
  forall ings idx s,
    (combine_ingredients_selected ings idx = Panic s -> is_type_site s = false) /\
    (combine_ingredients ings = Panic s -> is_type_site s = false).
Proof. exact no_type_panic. Qed.
Print Assumptions C19_no_type_panic.

(* merge_grouped_quantities itself: operands in which every value has the kind of its key merge
   without panic into such a map (the key kind and the value kind both come from
   into_group_quantity) *)
Theorem C19_merge_no_type_panic :
  forall left right, gq_wf left -> Forall (fun kv => type_of (snd kv) = gk_type (fst kv)) right ->
    exists l, merge_grouped_quantities left right = Done l /\ gq_wf l.
Proof. intros left right. exact (merge_typed right left). Qed.
Print Assumptions C19_merge_no_type_panic.

(* ---- the hypotheses are satisfiable; the sites exist ---- *)
Definition demo_recipe : crecipe :=
  {| cr_meta := [(Some [116], Some [84]); (Some [115], None)];
     cr_sections :=
       [ {| cs_name := Some [68];
            cs_content := [ CStepC [CIText [77]; CIIng 0; CICw 0; CITm 0; CIInline 0; CIIng 1]; CTextC [110] ] |} ];
     cr_ings := [ {| ci_name := [102]; ci_qty := Some {| cq_val := CNum 300; cq_unit := Some [103] |}; ci_note := None |};
                  {| ci_name := [115]; ci_qty := None; ci_note := Some [102] |} ];
     cr_cws := [ {| cc_name := [98]; cc_qty := Some (CRange 1 2) |} ];
     cr_tms := [ {| ct_name := None; ct_qty := Some {| cq_val := CNum 5; cq_unit := Some [109] |} |} ] |}.

Example C19_hypotheses_satisfiable :
  index_inv demo_recipe /\ fits_u32 demo_recipe /\
  br_sections (into_simple_recipe demo_recipe) =
    [ {| bsec_title := Some [68];
         bsec_blocks := [ BStepBlock {| bs_items := [BIText [77]; BIIng 0; BICw 0; BITm 0; BIText []; BIIng 1];
                                        bs_irefs := [0; 1]; bs_crefs := [0]; bs_trefs := [0] |};
                          BNoteBlock [110] ];
         bsec_irefs := [0; 1]; bsec_crefs := [0]; bsec_trefs := [0] |} ] /\
  br_tms (into_simple_recipe demo_recipe) =
    [ {| bt_name := Some []; bt_amount := Some {| am_q := BNum 5; am_units := Some [109] |} |} ] /\
  br_meta (into_simple_recipe demo_recipe) = [([116], [84])].
Proof.
  split; [|split; [|split; [|split]]]; try reflexivity.
  - repeat constructor.
  - unfold fits_u32, U32; cbn; repeat split; discriminate.
Qed.

Definition demo_ing (name unit_ : str) (v : bvalue) : bing :=
  {| bi_name := name; bi_amount := Some {| am_q := v; am_units := Some unit_ |}; bi_descr := None |}.
Definition demo_list : list bing :=
  [demo_ing [115] [103] (BNum 5); demo_ing [112] [109] (BNum 5); demo_ing [115] [103] (BNum (1 # 2));
   {| bi_name := [115]; bi_amount := None; bi_descr := None |}].

Example C19_combine_example :
  indices_in_range demo_list [0; 2; 3; 2] /\
  combine_ingredients_selected demo_list [0; 2; 3; 2] =
    Done [([115], [({| gk_name := [103]; gk_type := QTNumber |}, BNum (Qplus (Qplus 5 (1 # 2)) (1 # 2)));
                   ({| gk_name := []; gk_type := QTEmpty |}, BEmpty)])].
Proof. split; [repeat constructor|reflexivity]. Qed.

Example C19_type_sites_exist : exists ings base idx s,
  expand_with_ingredients ings base idx = Panic s /\ is_type_site s = true.
Proof.
  eexists _, _, _, _. split; [exact type_panic_needs_ill_kinded_base|reflexivity].
Qed.
