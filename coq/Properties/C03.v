(* C03 - No input makes a public entry point panic, overflow or hang.
   Theorems proved so far concern the lexer stage (every input, every Unicode
   classification [U]); the whole-pipeline statement is kept visible below and is
   decided at run time by the correspondence (model says Panic <-> implementation
   panics, debug and release) and the monitor (catch_unwind around every consumer). *)
From CL Require Import Base.StrLemmas Model.Lexer Model.Parser Proofs.LexerProofs.

(* the token stream exists for every input: the fuel (one unit per character) never runs out *)
Theorem C03_lexer_total : forall (U : N -> ucls) (s : str) (off : N), exists ts, lex_at U s off = Some ts.
Proof. exact lex_total. Qed.
Print Assumptions C03_lexer_total.

(* every token consumes at least one character (the progress argument of the lexer) *)
Theorem C03_lexer_progress :
  forall (U : N -> ucls) s off ts, lex_at U s off = Some ts -> Forall (fun t => tstr t <> []) ts.
Proof. intros U s off ts H. eapply lex_fuel_nonempty. exact H. Qed.
Print Assumptions C03_lexer_progress.

(* full statement (not yet a theorem): the event stream exists for every input *)
Definition C03_events_total_statement : Prop :=
  forall (U : N -> ucls) (cfg : pcfg) (s : str),
    p_strict_escape cfg = false -> exists evs, events U cfg s = Done evs.
