(* C03 - No input makes a public entry point panic, overflow or hang.
   Proved for the lexer and for the whole pull parser (every input, every Unicode
   classification [U], every extension set, debug assertions on or off): the event stream
   of [events] (PullParser iteration) and of [meta_events] (metadata-only iteration) exists,
   i.e. no [Panic] site is reached and no fuelled loop of the model runs out of fuel.
   The model is tied to the code at run time by the correspondence (model says Panic <->
   implementation panics, debug and release) and the monitor (catch_unwind around every consumer). *)
From CL Require Import Base.StrLemmas Model.Lexer Model.Parser Proofs.LexerProofs
  Proofs.ParserSplit Proofs.ParserTotal Proofs.ParserSpans Model.EventBridge Proofs.ParserShape.
From CL Require Model.Events.
From CL Require Model.Analysis Model.AnalysisSpec Proofs.AnalysisTotal.
From CL Require Import Proofs.ParseTotal.

(* the token stream exists for every input: the fuel (one unit per character) never runs out *)
Theorem C03_lexer_total : forall (U : N -> ucls) (s : str) (off : N), exists ts, lex_at U s off = Some ts.
Proof. exact lex_total. Qed.
Print Assumptions C03_lexer_total.

(* every token consumes at least one character (the progress argument of the lexer) *)
Theorem C03_lexer_progress :
  forall (U : N -> ucls) s off ts, lex_at U s off = Some ts -> Forall (fun t => tstr t <> []) ts.
Proof. intros U s off ts H. eapply lex_fuel_nonempty. exact H. Qed.
Print Assumptions C03_lexer_progress.

(* the event stream exists for every input.  [p_strict_escape cfg = false] selects the code as
   it is now (block_parser.rs:156 no longer asserts the byte length of an escaped token); the
   other fields of [cfg] (extensions, debug assertions, the two other pre-repair switches) are free *)
Definition C03_events_total_statement : Prop :=
  forall (U : N -> ucls) (cfg : pcfg) (s : str),
    p_strict_escape cfg = false -> exists evs, events U cfg s = Done evs.

Theorem C03_events_total : C03_events_total_statement.
Proof. intros U cfg s H. destruct (events_ok U cfg s H) as (evs & E & _). exists evs. exact E. Qed.
Print Assumptions C03_events_total.

(* the same for the metadata-only iterator (PullParser::into_meta_iter) *)
Theorem C03_meta_events_total :
  forall (U : N -> ucls) (cfg : pcfg) (s : str),
    p_strict_escape cfg = false -> exists evs, meta_events U cfg s = Done evs.
Proof. intros U cfg s H. destruct (meta_events_ok U cfg s H) as (evs & E & _). exists evs. exact E. Qed.
Print Assumptions C03_meta_events_total.

(* the hypothesis is satisfiable: the configuration the runner uses for the current code *)
Example C03_current_cfg :
  exists cfg, p_strict_escape cfg = false /\ p_note_label_old cfg = false /\ p_fm_anywhere cfg = false.
Proof.
  exists {| p_ext := 0; p_debug := true; p_strict_escape := false; p_note_label_old := false; p_fm_anywhere := false |}.
  repeat split.
Qed.

(* block splitting: in [next_block]/[more_lines] the model does not distinguish "out of fuel" from
   "no more blocks", so totality alone would not show termination there; the fuel the model
   passes, S (length ts), gives the same result as any larger amount, i.e. it never runs out *)
Theorem C03_block_split_fuel_stable :
  forall fuel ts, (length ts < fuel)%nat -> next_block fuel ts = next_block (S (length ts)) ts.
Proof. exact next_block_fuel. Qed.
Print Assumptions C03_block_split_fuel_stable.

Theorem C03_more_lines_fuel_stable :
  forall fuel ts, (length ts < fuel)%nat -> more_lines fuel ts = more_lines (S (length ts)) ts.
Proof. exact more_lines_fuel. Qed.
Print Assumptions C03_more_lines_fuel_stable.

(* the code before the repair of block_parser.rs:156 (debug_assert on the byte length of an
   escaped token): the statement without its hypothesis is false, witness "\" U+00E9 *)
Theorem C03_events_total_refuted_old :
  exists U cfg s, p_strict_escape cfg = true /\ events U cfg s = Panic site_escaped_len.
Proof. exact strict_escape_old_refuted. Qed.
Print Assumptions C03_events_total_refuted_old.

(* ---- the event stream has the shape the analysis pass relies on ----
   [abstract_events] (Model/EventBridge.v) maps the parser model's events to the events the
   analysis model consumes; [Events.parser_shaped] is the stream grammar of Model/Events.v:
   blocks bracketed by Start k / End k and never nested, text and components only inside a
   block (components only inside a step), front matter / metadata / sections only between blocks,
   no empty text event, intermediate-reference data only together with the REF modifier and
   with a non-negative value, every timer with a name or a quantity.  These are exactly the
   facts behind the `assert!`s and `panic!`s of event_consumer.rs 153-186, 555, 601, 776; the
   analysis theorems of C06 take [parser_shaped] as their hypothesis.  Holds for every
   configuration of the model (old or repaired code, any extension set, debug or release): it is
   a statement about the streams that are returned; that one is returned is C03_events_total. *)
Theorem C03_parser_shaped :
  forall (U : N -> ucls) (cfg : pcfg) (s : str) (evs : list pevent),
    events U cfg s = Done evs -> Events.parser_shaped (abstract_events evs).
Proof. exact events_shaped. Qed.
Print Assumptions C03_parser_shaped.

(* a consumer that stops early has seen a prefix of a shaped stream *)
Theorem C03_parser_shaped_prefix :
  forall (U : N -> ucls) (cfg : pcfg) (s : str) (evs : list pevent) (n : nat),
    events U cfg s = Done evs -> Events.parser_shaped_prefix (abstract_events (firstn n evs)).
Proof. intros U cfg s evs n. exact (events_prefix_shaped U cfg s evs n). Qed.
Print Assumptions C03_parser_shaped_prefix.

(* the metadata-only iterator emits a shaped stream as well (front matter, or metadata
   entries and diagnostics) *)
Theorem C03_meta_parser_shaped :
  forall (U : N -> ucls) (cfg : pcfg) (s : str) (evs : list pevent),
    meta_events U cfg s = Done evs -> Events.parser_shaped (abstract_events evs).
Proof. exact meta_events_shaped. Qed.
Print Assumptions C03_meta_parser_shaped.

(* not vacuous: with the current code every input has a stream, and it is shaped *)
Example C03_parser_shaped_inhabited :
  forall (U : N -> ucls) (cfg : pcfg) (s : str), p_strict_escape cfg = false ->
    exists evs, events U cfg s = Done evs /\ Events.parser_shaped (abstract_events evs).
Proof.
  intros U cfg s H. destruct (events_ok U cfg s H) as (evs & E & _). exists evs.
  split; [exact E|]. exact (events_shaped U cfg s evs E).
Qed.

(* ---- the analysis pass (RecipeCollector, src/analysis/event_consumer.rs) returns ----
   For every stream of the parser's grammar (complete or cut anywhere), every case folding, YAML
   oracle, extension record [x], converter oracle ([unit_class], [find_iq]) and source text, the model
   of the analysis pass with the current code ([cfgF]) reaches no [Panic] site: none of the
   collector's `assert!`/`assert_eq!`, `panic!("End event without Start")`, `panic!("Content outside
   block")`, table indexing, `self.input[span.range()]`, nor the fuel of the inline-quantity loop.
   (Proofs/AnalysisTotal.v lists each site with the reason.)  Three hypotheses remain and are stated:
   [iq_shrinks] - the find_inline_quantity oracle returns a remainder shorter than its argument (the
   real function returns a strict suffix; a model that ran out of fuel would disagree with the
   implementation in the correspondence run of C06); [ev_span_ok] - every component span is a slice
   of the source text (proved of the parser: C04_event_spans_ok, used in C03_parse_total below);
   and the bound: `step_counter += 1` on a u32 (event_consumer.rs:184) overflows in a debug build
   after 2^32 - 1 steps of one section, so the number of End events must stay below 2^32 - 2. *)
Theorem C03_analyse_total :
  forall ci_key yaml_ok find_iq unit_class input x evs,
    AnalysisTotal.iq_shrinks find_iq ->
    Events.parser_shaped_prefix evs ->
    Forall (AnalysisTotal.ev_span_ok input) evs ->
    (N.of_nat (AnalysisTotal.ends evs) < 4294967294)%N ->
    exists r, Analysis.analyse ci_key yaml_ok find_iq unit_class input x Analysis.cfgF evs = Done r.
Proof.
  intros ci_key yaml_ok find_iq unit_class input x evs Hq.
  exact (AnalysisTotal.analyse_total ci_key yaml_ok find_iq unit_class input x Analysis.cfgF
           eq_refl eq_refl Hq evs).
Qed.
Print Assumptions C03_analyse_total.

(* the bound in the form "fewer than 2^32 - 2 events" *)
Theorem C03_analyse_total_by_length :
  forall ci_key yaml_ok find_iq unit_class input x evs,
    AnalysisTotal.iq_shrinks find_iq ->
    Events.parser_shaped_prefix evs ->
    Forall (AnalysisTotal.ev_span_ok input) evs ->
    (N.of_nat (length evs) < 4294967294)%N ->
    exists r, Analysis.analyse ci_key yaml_ok find_iq unit_class input x Analysis.cfgF evs = Done r.
Proof.
  intros ci_key yaml_ok find_iq unit_class input x evs Hq Sh Sp L.
  apply C03_analyse_total; auto. pose proof (AnalysisTotal.ends_le evs). lia.
Qed.
Print Assumptions C03_analyse_total_by_length.

(* ---- the whole pipeline of CooklangParser::parse returns ----
   [parse_model] (Proofs/ParseTotal.v) = analyse . abstract_events . events: PullParser::new(input,
   extensions) piped into analysis::parse_events(events, input, ..).  For every source text [s],
   every Unicode classification, every configuration of the current code (any extension set, debug
   assertions on or off; [p_strict_escape] and [p_note_label_old] false = the two repaired sites), every
   case folding, YAML oracle, converter oracle and extension record of the analysis pass, it returns a
   value: no [Panic] site of the lexer, parser or collector model is reached and no fuelled loop runs
   out.  Composition of C03_events_total, C03_parser_shaped, C04_event_spans_ok and C03_analyse_total;
   the bound of C03_analyse_total is discharged by C03_events_ends_bound (at most one End event per
   block, at most one block per token, at most one token per character), leaving "the source has
   fewer than 2^32 - 3 characters": beyond that the u32 step counter of a debug build could overflow.
   The remaining hypothesis [iq_shrinks] is about the oracle standing for find_inline_quantity. *)
Theorem C03_events_ends_bound :
  forall (U : N -> ucls) (cfg : pcfg) (s : str) (evs : list pevent),
    events U cfg s = Done evs -> (AnalysisTotal.ends (abstract_events evs) <= S (length s))%nat.
Proof. intros U cfg s evs H. rewrite ends_abstract. exact (events_ends_bound U cfg s evs H). Qed.
Print Assumptions C03_events_ends_bound.

Theorem C03_parse_total :
  forall (U : N -> ucls) (cfg : pcfg) ci_key yaml_ok find_iq unit_class (x : Analysis.aext) (s : str),
    p_strict_escape cfg = false -> p_note_label_old cfg = false ->
    AnalysisTotal.iq_shrinks find_iq ->
    (N.of_nat (length s) < 4294967293)%N ->
    exists r, parse_model U cfg ci_key yaml_ok find_iq unit_class x s = Done r.
Proof. exact parse_total. Qed.
Print Assumptions C03_parse_total.

(* the hypotheses are satisfiable: the current configuration and an oracle that finds no inline
   quantity; then every source below the bound has a result *)
Example C03_parse_total_inhabited :
  exists cfg, p_strict_escape cfg = false /\ p_note_label_old cfg = false /\
    AnalysisTotal.iq_shrinks (fun _ => None) /\
    forall U ci_key yaml_ok unit_class x s, (N.of_nat (length s) < 4294967293)%N ->
      exists r, parse_model U cfg ci_key yaml_ok (fun _ => None) unit_class x s = Done r.
Proof.
  exists {| p_ext := 0; p_debug := true; p_strict_escape := false; p_note_label_old := false; p_fm_anywhere := false |}.
  split; [reflexivity|]. split; [reflexivity|].
  assert (Q : AnalysisTotal.iq_shrinks (fun _ => None)) by (intros hay b a H; discriminate).
  split; [exact Q|]. intros U ci_key yaml_ok unit_class x s L.
  apply C03_parse_total; auto.
Qed.
