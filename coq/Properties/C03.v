(* C03 - No input makes a public entry point panic, overflow or hang.
   Proved for the lexer and for the whole pull parser (every input, every Unicode
   classification [U], every extension set, debug assertions on or off): the event stream
   of [events] (PullParser iteration) and of [meta_events] (metadata-only iteration) exists,
   i.e. no [Panic] site is reached and no fuelled loop of the model runs out of fuel.
   The model is tied to the code at run time by the correspondence (model says Panic <->
   implementation panics, debug and release) and the monitor (catch_unwind around every consumer). *)
From CL Require Import Base.StrLemmas Model.Lexer Model.Parser Proofs.LexerProofs
  Proofs.ParserSplit Proofs.ParserTotal Proofs.ParserSpans.

(* the token stream exists for every input: the fuel (one unit per character) never runs out *)
Theorem C03_lexer_total : forall (U : N -> ucls) (s : str) (off : N), exists ts, lex_at U s off = Some ts.
Proof. exact lex_total. Qed.
Print Assumptions C03_lexer_total.

(* every token consumes at least one character (the progress argument of the lexer) *)
Theorem C03_lexer_progress :
  forall (U : N -> ucls) s off ts, lex_at U s off = Some ts -> Forall (fun t => tstr t <> []) ts.
Proof. intros U s off ts H. eapply lex_fuel_nonempty. exact H. Qed.
Print Assumptions C03_lexer_progress.

(* the event stream exists for every input.  [p_strict_escape cfg = false] selects the code as
   it is now (block_parser.rs:156 no longer asserts the byte length of an escaped token); the
   other fields of [cfg] (extensions, debug assertions, the two other pre-repair switches) are free *)
Definition C03_events_total_statement : Prop :=
  forall (U : N -> ucls) (cfg : pcfg) (s : str),
    p_strict_escape cfg = false -> exists evs, events U cfg s = Done evs.

Theorem C03_events_total : C03_events_total_statement.
Proof. intros U cfg s H. destruct (events_ok U cfg s H) as (evs & E & _). exists evs. exact E. Qed.
Print Assumptions C03_events_total.

(* the same for the metadata-only iterator (PullParser::into_meta_iter) *)
Theorem C03_meta_events_total :
  forall (U : N -> ucls) (cfg : pcfg) (s : str),
    p_strict_escape cfg = false -> exists evs, meta_events U cfg s = Done evs.
Proof. intros U cfg s H. destruct (meta_events_ok U cfg s H) as (evs & E & _). exists evs. exact E. Qed.
Print Assumptions C03_meta_events_total.

(* the hypothesis is satisfiable: the configuration the runner uses for the current code *)
Example C03_current_cfg :
  exists cfg, p_strict_escape cfg = false /\ p_note_label_old cfg = false /\ p_fm_anywhere cfg = false.
Proof.
  exists {| p_ext := 0; p_debug := true; p_strict_escape := false; p_note_label_old := false; p_fm_anywhere := false |}.
  repeat split.
Qed.

(* block splitting: in [next_block]/[more_lines] the model does not distinguish "out of fuel" from
   "no more blocks", so totality alone would not show termination there; the fuel the model
   passes, S (length ts), gives the same result as any larger amount, i.e. it never runs out *)
Theorem C03_block_split_fuel_stable :
  forall fuel ts, (length ts < fuel)%nat -> next_block fuel ts = next_block (S (length ts)) ts.
Proof. exact next_block_fuel. Qed.
Print Assumptions C03_block_split_fuel_stable.

Theorem C03_more_lines_fuel_stable :
  forall fuel ts, (length ts < fuel)%nat -> more_lines fuel ts = more_lines (S (length ts)) ts.
Proof. exact more_lines_fuel. Qed.
Print Assumptions C03_more_lines_fuel_stable.

(* the code before the repair of block_parser.rs:156 (debug_assert on the byte length of an
   escaped token): the statement without its hypothesis is false, witness "\" U+00E9 *)
Theorem C03_events_total_refuted_old :
  exists U cfg s, p_strict_escape cfg = true /\ events U cfg s = Panic site_escaped_len.
Proof. exact strict_escape_old_refuted. Qed.
Print Assumptions C03_events_total_refuted_old.
