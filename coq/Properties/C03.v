(* C03 - No input makes a public entry point panic, overflow or hang.
   Proved for the lexer and for the whole pull parser (every input, every Unicode
   classification [U], every extension set, debug assertions on or off): the event stream
   of [events] (PullParser iteration) and of [meta_events] (metadata-only iteration) exists,
   i.e. no [Panic] site is reached and no fuelled loop of the model runs out of fuel.
   The model is tied to the code at run time by the correspondence (model says Panic <->
   implementation panics, debug and release) and the monitor (catch_unwind around every consumer). *)
From CL Require Import Base.StrLemmas Model.Lexer Model.Parser Proofs.LexerProofs
  Proofs.ParserSplit Proofs.ParserTotal Proofs.ParserSpans Model.EventBridge Proofs.ParserShape.
From CL Require Model.Events.
From CL Require Model.Analysis Model.AnalysisSpec Proofs.AnalysisTotal.
From CL Require Import Proofs.ParseTotal.
From CL Require Gen.PanicSites Model.PanicMap.
From Coq Require String.

(* the token stream exists for every input: the fuel (one unit per character) never runs out *)
Theorem C03_lexer_total : forall (U : N -> ucls) (s : str) (off : N), exists ts, lex_at U s off = Some ts.
Proof. exact lex_total. Qed.
Print Assumptions C03_lexer_total.

(* every token consumes at least one character (the progress argument of the lexer) *)
Theorem C03_lexer_progress :
  forall (U : N -> ucls) s off ts, lex_at U s off = Some ts -> Forall (fun t => tstr t <> []) ts.
Proof. intros U s off ts H. eapply lex_fuel_nonempty. exact H. Qed.
Print Assumptions C03_lexer_progress.

(* the event stream exists for every input.  [p_strict_escape cfg = false] selects the code as
   it is now (block_parser.rs:156 no longer asserts the byte length of an escaped token); the
   other fields of [cfg] (extensions, debug assertions, the two other pre-repair switches) are free *)
Definition C03_events_total_statement : Prop :=
  forall (U : N -> ucls) (cfg : pcfg) (s : str),
    p_strict_escape cfg = false -> exists evs, events U cfg s = Done evs.

Theorem C03_events_total : C03_events_total_statement.
Proof. intros U cfg s H. destruct (events_ok U cfg s H) as (evs & E & _). exists evs. exact E. Qed.
Print Assumptions C03_events_total.

(* the same for the metadata-only iterator (PullParser::into_meta_iter) *)
Theorem C03_meta_events_total :
  forall (U : N -> ucls) (cfg : pcfg) (s : str),
    p_strict_escape cfg = false -> exists evs, meta_events U cfg s = Done evs.
Proof. intros U cfg s H. destruct (meta_events_ok U cfg s H) as (evs & E & _). exists evs. exact E. Qed.
Print Assumptions C03_meta_events_total.

(* the hypothesis is satisfiable: the configuration the runner uses for the current code *)
Example C03_current_cfg :
  exists cfg, p_strict_escape cfg = false /\ p_note_label_old cfg = false /\ p_fm_anywhere cfg = false.
Proof.
  exists {| p_ext := 0; p_debug := true; p_strict_escape := false; p_note_label_old := false; p_fm_anywhere := false |}.
  repeat split.
Qed.

(* block splitting: in [next_block]/[more_lines] the model does not distinguish "out of fuel" from
   "no more blocks", so totality alone would not show termination there; the fuel the model
   passes, S (length ts), gives the same result as any larger amount, i.e. it never runs out *)
Theorem C03_block_split_fuel_stable :
  forall fuel ts, (length ts < fuel)%nat -> next_block fuel ts = next_block (S (length ts)) ts.
Proof. exact next_block_fuel. Qed.
Print Assumptions C03_block_split_fuel_stable.

Theorem C03_more_lines_fuel_stable :
  forall fuel ts, (length ts < fuel)%nat -> more_lines fuel ts = more_lines (S (length ts)) ts.
Proof. exact more_lines_fuel. Qed.
Print Assumptions C03_more_lines_fuel_stable.

(* the code before the repair of block_parser.rs:156 (debug_assert on the byte length of an
   escaped token): the statement without its hypothesis is false, witness "\" U+00E9 *)
Theorem C03_events_total_refuted_old :
  exists U cfg s, p_strict_escape cfg = true /\ events U cfg s = Panic site_escaped_len.
Proof. exact strict_escape_old_refuted. Qed.
Print Assumptions C03_events_total_refuted_old.

(* ---- the event stream has the shape the analysis pass relies on ----
   [abstract_events] (Model/EventBridge.v) maps the parser model's events to the events the
   analysis model consumes; [Events.parser_shaped] is the stream grammar of Model/Events.v:
   blocks bracketed by Start k / End k and never nested, text and components only inside a
   block (components only inside a step), front matter / metadata / sections only between blocks,
   no empty text event, intermediate-reference data only together with the REF modifier and
   with a non-negative value, every timer with a name or a quantity.  These are exactly the
   facts behind the `assert!`s and `panic!`s of event_consumer.rs 153-186, 555, 601, 776; the
   analysis theorems of C06 take [parser_shaped] as their hypothesis.  Holds for every
   configuration of the model (old or repaired code, any extension set, debug or release): it is
   a statement about the streams that are returned; that one is returned is C03_events_total. *)
Theorem C03_parser_shaped :
  forall (U : N -> ucls) (cfg : pcfg) (s : str) (evs : list pevent),
    events U cfg s = Done evs -> Events.parser_shaped (abstract_events evs).
Proof. exact events_shaped. Qed.
Print Assumptions C03_parser_shaped.

(* a consumer that stops early has seen a prefix of a shaped stream *)
Theorem C03_parser_shaped_prefix :
  forall (U : N -> ucls) (cfg : pcfg) (s : str) (evs : list pevent) (n : nat),
    events U cfg s = Done evs -> Events.parser_shaped_prefix (abstract_events (firstn n evs)).
Proof. intros U cfg s evs n. exact (events_prefix_shaped U cfg s evs n). Qed.
Print Assumptions C03_parser_shaped_prefix.

(* the metadata-only iterator emits a shaped stream as well (front matter, or metadata
   entries and diagnostics) *)
Theorem C03_meta_parser_shaped :
  forall (U : N -> ucls) (cfg : pcfg) (s : str) (evs : list pevent),
    meta_events U cfg s = Done evs -> Events.parser_shaped (abstract_events evs).
Proof. exact meta_events_shaped. Qed.
Print Assumptions C03_meta_parser_shaped.

(* not vacuous: with the current code every input has a stream, and it is shaped *)
Example C03_parser_shaped_inhabited :
  forall (U : N -> ucls) (cfg : pcfg) (s : str), p_strict_escape cfg = false ->
    exists evs, events U cfg s = Done evs /\ Events.parser_shaped (abstract_events evs).
Proof.
  intros U cfg s H. destruct (events_ok U cfg s H) as (evs & E & _). exists evs.
  split; [exact E|]. exact (events_shaped U cfg s evs E).
Qed.

(* ---- the analysis pass (RecipeCollector, src/analysis/event_consumer.rs) returns ----
   For every stream of the parser's grammar (complete or cut anywhere), every case folding, YAML
   oracle, extension record [x], converter oracle ([unit_class], [find_iq]) and source text, the model
   of the analysis pass with the current code ([cfgF]) reaches no [Panic] site: none of the
   collector's `assert!`/`assert_eq!`, `panic!("End event without Start")`, `panic!("Content outside
   block")`, table indexing, `self.input[span.range()]`, nor the fuel of the inline-quantity loop.
   (Proofs/AnalysisTotal.v lists each site with the reason.)  Three hypotheses remain and are stated:
   [iq_shrinks] - the find_inline_quantity oracle returns a remainder shorter than its argument (the
   real function returns a strict suffix; a model that ran out of fuel would disagree with the
   implementation in the correspondence run of C06); [ev_span_ok] - every component span is a slice
   of the source text (proved of the parser: C04_event_spans_ok, used in C03_parse_total below);
   and the bound: `step_counter += 1` on a u32 (event_consumer.rs:184) overflows in a debug build
   after 2^32 - 1 steps of one section, so the number of End events must stay below 2^32 - 2. *)
Theorem C03_analyse_total :
  forall ci_key yaml_ok find_iq unit_class input x evs,
    AnalysisTotal.iq_shrinks find_iq ->
    Events.parser_shaped_prefix evs ->
    Forall (AnalysisTotal.ev_span_ok input) evs ->
    (N.of_nat (AnalysisTotal.ends evs) < 4294967294)%N ->
    exists r, Analysis.analyse ci_key yaml_ok find_iq unit_class input x Analysis.cfgF evs = Done r.
Proof.
  intros ci_key yaml_ok find_iq unit_class input x evs Hq.
  exact (AnalysisTotal.analyse_total ci_key yaml_ok find_iq unit_class input x Analysis.cfgF
           eq_refl eq_refl Hq evs).
Qed.
Print Assumptions C03_analyse_total.

(* the bound in the form "fewer than 2^32 - 2 events" *)
Theorem C03_analyse_total_by_length :
  forall ci_key yaml_ok find_iq unit_class input x evs,
    AnalysisTotal.iq_shrinks find_iq ->
    Events.parser_shaped_prefix evs ->
    Forall (AnalysisTotal.ev_span_ok input) evs ->
    (N.of_nat (length evs) < 4294967294)%N ->
    exists r, Analysis.analyse ci_key yaml_ok find_iq unit_class input x Analysis.cfgF evs = Done r.
Proof.
  intros ci_key yaml_ok find_iq unit_class input x evs Hq Sh Sp L.
  apply C03_analyse_total; auto. pose proof (AnalysisTotal.ends_le evs). lia.
Qed.
Print Assumptions C03_analyse_total_by_length.

(* ---- the whole pipeline of CooklangParser::parse returns ----
   [parse_model] (Proofs/ParseTotal.v) = analyse . abstract_events . events: PullParser::new(input,
   extensions) piped into analysis::parse_events(events, input, ..).  For every source text [s],
   every Unicode classification, every configuration of the current code (any extension set, debug
   assertions on or off; [p_strict_escape] and [p_note_label_old] false = the two repaired sites), every
   case folding, YAML oracle, converter oracle and extension record of the analysis pass, it returns a
   value: no [Panic] site of the lexer, parser or collector model is reached and no fuelled loop runs
   out.  Composition of C03_events_total, C03_parser_shaped, C04_event_spans_ok and C03_analyse_total;
   the bound of C03_analyse_total is discharged by C03_events_ends_bound (at most one End event per
   block, at most one block per token, at most one token per character), leaving "the source has
   fewer than 2^32 - 3 characters": beyond that the u32 step counter of a debug build could overflow.
   The remaining hypothesis [iq_shrinks] is about the oracle standing for find_inline_quantity. *)
Theorem C03_events_ends_bound :
  forall (U : N -> ucls) (cfg : pcfg) (s : str) (evs : list pevent),
    events U cfg s = Done evs -> (AnalysisTotal.ends (abstract_events evs) <= S (length s))%nat.
Proof. intros U cfg s evs H. rewrite ends_abstract. exact (events_ends_bound U cfg s evs H). Qed.
Print Assumptions C03_events_ends_bound.

Theorem C03_parse_total :
  forall (U : N -> ucls) (cfg : pcfg) ci_key yaml_ok find_iq unit_class (x : Analysis.aext) (s : str),
    p_strict_escape cfg = false -> p_note_label_old cfg = false ->
    AnalysisTotal.iq_shrinks find_iq ->
    (N.of_nat (length s) < 4294967293)%N ->
    exists r, parse_model U cfg ci_key yaml_ok find_iq unit_class x s = Done r.
Proof. exact parse_total. Qed.
Print Assumptions C03_parse_total.

(* the hypotheses are satisfiable: the current configuration and an oracle that finds no inline
   quantity; then every source below the bound has a result *)
Example C03_parse_total_inhabited :
  exists cfg, p_strict_escape cfg = false /\ p_note_label_old cfg = false /\
    AnalysisTotal.iq_shrinks (fun _ => None) /\
    forall U ci_key yaml_ok unit_class x s, (N.of_nat (length s) < 4294967293)%N ->
      exists r, parse_model U cfg ci_key yaml_ok (fun _ => None) unit_class x s = Done r.
Proof.
  exists {| p_ext := 0; p_debug := true; p_strict_escape := false; p_note_label_old := false; p_fm_anywhere := false |}.
  split; [reflexivity|]. split; [reflexivity|].
  assert (Q : AnalysisTotal.iq_shrinks (fun _ => None)) by (intros hay b a H; discriminate).
  split; [exact Q|]. intros U ci_key yaml_ok unit_class x s L.
  apply C03_parse_total; auto.
Qed.

(* ---- the panic sites the theorems above talk about are the panic sites of the source ----
   The models' [Panic site] outcomes were enumerated by hand.  Gen/PanicSites.v is REGENERATED from
   /repo/src on every run of the check (gen/gen_panics.py, token level) from the non-test code of
   src/lexer/*.rs, src/parser/*.rs, src/analysis/*.rs, src/text.rs, src/span.rs, src/located.rs, src/error.rs
   and src/lib.rs.  [panic_keys] is, for every (file stem, enclosing fn), the NUMBER of sites of every strong
   kind: each panic!/unreachable!/todo!/unimplemented!/assert*!/debug_assert*! macro by name, .unwrap(),
   .expect(..), and std calls that panic on a bad argument by callee (`call split_at`).  No expression text, no
   line numbers: the statement below pins that list, so a new (or removed) unwrap / expect / assert / panic /
   panicking call breaks this obligation (reported by the check with file, fn and the sites of the group),
   while moving code, rewording messages and rewriting an expression do not.  Index expressions and integer
   arithmetic are listed in [PanicSites.sites] as information only and are NOT pinned (a token-level list of
   them changes with every harmless rewrite): their panics are the models' own index / overflow sites
   ([PanicMap.unpinned_sites]) and the business of the catch_unwind monitor. *)
Import PanicSites String.
Local Open Scope string_scope.
Theorem C03_panic_inventory : PanicSites.panic_keys = [
  ("lexer/mod", "block_comment", "debug_assert!", 1);
  ("lexer/mod", "line_comment", "debug_assert!", 1);
  ("lexer/mod", "number", "debug_assert!", 1);
  ("lexer/mod", "whitespace", "debug_assert!", 1);
  ("lexer/mod", "word", "debug_assert!", 1);
  ("parser/block_parser", "base_offset", "unwrap", 1);
  ("parser/block_parser", "bump", "assert_eq!", 1);
  ("parser/block_parser", "bump_any", "expect", 1);
  ("parser/block_parser", "error", "debug_assert!", 1);
  ("parser/block_parser", "finish", "assert_eq!", 1);
  ("parser/block_parser", "macro_rules!debug_assert_adjacent", "call windows", 1);
  ("parser/block_parser", "macro_rules!debug_assert_adjacent", "debug_assert!", 1);
  ("parser/block_parser", "new", "assert!", 1);
  ("parser/block_parser", "new", "debug_assert!", 1);
  ("parser/block_parser", "new", "debug_assert_adjacent!", 1);
  ("parser/block_parser", "new", "unwrap", 2);
  ("parser/block_parser", "parsed", "call split_at", 1);
  ("parser/block_parser", "rest", "call split_at", 1);
  ("parser/block_parser", "slice_str", "debug_assert_adjacent!", 1);
  ("parser/block_parser", "slice_str", "unwrap", 2);
  ("parser/block_parser", "text", "assert_eq!", 1);
  ("parser/block_parser", "text", "debug_assert!", 1);
  ("parser/block_parser", "text", "debug_assert_adjacent!", 1);
  ("parser/block_parser", "warn", "debug_assert!", 1);
  ("parser/mod", "parse_block", "unreachable!", 1);
  ("parser/mod", "parse_multiline_block", "debug_assert!", 1);
  ("parser/mod", "tokens_span", "debug_assert!", 1);
  ("parser/mod", "tokens_span", "unwrap", 2);
  ("parser/quantity", "int", "assert_eq!", 1);
  ("parser/quantity", "macro_rules!unwrap_numeric", "unreachable!", 1);
  ("parser/quantity", "mixed_num", "unreachable!", 1);
  ("parser/quantity", "parse_advanced_quantity", "unwrap", 5);
  ("parser/quantity", "parse_quantity", "assert!", 1);
  ("parser/quantity", "parse_regular_quantity", "unwrap", 1);
  ("parser/quantity", "range_value", "call split_at", 1);
  ("parser/quantity", "range_value", "unwrap", 1);
  ("parser/quantity", "trim_tokens", "unwrap", 1);
  ("parser/step", "check_alias", "assert_ne!", 2);
  ("parser/step", "check_alias", "unwrap", 1);
  ("parser/step", "check_intermediate_data", "assert_ne!", 1);
  ("parser/step", "check_modifiers", "assert_ne!", 2);
  ("parser/step", "check_note", "assert!", 1);
  ("parser/step", "check_note", "assert_ne!", 2);
  ("parser/step", "cookware", "expect", 1);
  ("parser/step", "parse_alias", "call split_at", 1);
  ("parser/step", "parse_alias", "unwrap", 1);
  ("parser/step", "parse_intermediate_ref_data", "expect", 1);
  ("parser/step", "parse_modifiers", "panic!", 1);
  ("analysis/event_consumer", "cookware", "assert!", 1);
  ("analysis/event_consumer", "cookware", "expect", 1);
  ("analysis/event_consumer", "cookware", "unwrap", 3);
  ("analysis/event_consumer", "find_inline_quantity", "call split_at", 1);
  ("analysis/event_consumer", "find_inline_quantity", "debug_assert!", 1);
  ("analysis/event_consumer", "in_step", "panic!", 1);
  ("analysis/event_consumer", "in_text", "assert_eq!", 1);
  ("analysis/event_consumer", "in_text", "panic!", 1);
  ("analysis/event_consumer", "in_text", "unreachable!", 1);
  ("analysis/event_consumer", "ingredient", "assert!", 3);
  ("analysis/event_consumer", "ingredient", "expect", 1);
  ("analysis/event_consumer", "ingredient", "unwrap", 5);
  ("analysis/event_consumer", "metadata", "call insert", 3);
  ("analysis/event_consumer", "metadata", "unwrap", 1);
  ("analysis/event_consumer", "parse_events", "assert!", 1);
  ("analysis/event_consumer", "parse_events", "assert_eq!", 1);
  ("analysis/event_consumer", "parse_events", "panic!", 2);
  ("analysis/event_consumer", "parse_reference", "unwrap", 1);
  ("analysis/event_consumer", "process_frontmatter", "unwrap", 1);
  ("analysis/event_consumer", "resolve_intermediate_ref", "assert!", 1);
  ("analysis/event_consumer", "resolve_intermediate_ref", "unwrap", 2);
  ("analysis/event_consumer", "resolve_reference", "assert!", 1);
  ("analysis/event_consumer", "set_referenced_from", "panic!", 2);
  ("analysis/event_consumer", "time_override_check", "assert!", 1);
  ("analysis/event_consumer", "time_override_check", "call remove", 1);
  ("analysis/event_consumer", "time_override_check", "panic!", 1);
  ("analysis/event_consumer", "time_override_check", "unwrap", 1);
  ("analysis/event_consumer", "timer", "unwrap", 2);
  ("text", "append_fragment", "assert!", 1);
  ("text", "span", "unwrap", 2);
  ("error", "error", "debug_assert_eq!", 1);
  ("error", "into_result", "unwrap", 1);
  ("error", "push", "debug_assert!", 1);
  ("error", "set_severity", "debug_assert!", 1);
  ("error", "unwrap_output", "unwrap", 1);
  ("error", "warn", "debug_assert_eq!", 1)
]%nat.
Proof. reflexivity. Qed.
Print Assumptions C03_panic_inventory.
Local Close Scope string_scope.

(* every pinned group has a row in Model/PanicMap.v with one treatment per site: the model site that stands
   for it, or the (documented, not proved) reason why the models have no outcome for it, or that its
   function is outside the models and left to the run-time monitor *)
Theorem C03_panic_table_covers :
  map fst PanicMap.group_table = PanicSites.panic_keys /\ PanicMap.groups_full = true.
Proof. split; [reflexivity | vm_compute; reflexivity]. Qed.
Print Assumptions C03_panic_table_covers.

(* the treatments that name a model site name one that exists, with its value (the list of model sites is read
   from Model/PText.v, Model/Parser.v, Model/Analysis.v on every run and refers to the constants) ... *)
Theorem C03_table_sites_exist : PanicMap.table_sites_exist = true.
Proof. vm_compute. reflexivity. Qed.
Print Assumptions C03_table_sites_exist.

(* ... and conversely every panic site of the models is the image of a pinned site, except the five that
   stand for an index / arithmetic expression ([PanicMap.unpinned_sites]) and the three of
   [PanicMap.model_only] (the fuel of the model's loops, the find_iq fuel, the guard of the pre-repair note
   label) *)
Theorem C03_model_sites_accounted : PanicMap.model_sites_accounted = true.
Proof. vm_compute. reflexivity. Qed.
Print Assumptions C03_model_sites_accounted.

(* the split of the table, measured: groups, pinned sites = model sites + unreachable + unmodelled, sites of
   the models *)
Example C03_panic_table_counts :
  (List.length PanicSites.panic_keys, List.length PanicMap.all_treatments, PanicMap.count_sites,
   PanicMap.count_unreachable, PanicMap.count_unmodelled, List.length PanicSites.model_sites)
  = (84, 109, 26, 61, 22, 31)%nat.
Proof. vm_compute. reflexivity. Qed.
