(* C08 - Scaling multiplies exactly the scalable amounts and nothing else.
   Statements only; proofs live in Proofs/ScaleProofs.v and Proofs/ScaleTotal.v.  The model is Model/Scale.v
   (src/scale.rs 111-336) over Model/Convert.v (fit, src/convert/mod.rs 505-601), exact rational
   arithmetic.  A recipe is ANY value of the model's recipe type (not only parsed ones); the fields
   scaling only moves are opaque frames of arbitrary types IF CF MF.  Every theorem holds for every
   rational factor f (positive or not), every converter with positive ratios whose index resolves
   the symbol of every stored unit (both proved for the shipped table in C09_bundled_wellformed).
   No panic site of the model (Unit::symbol, all_units[id], fractions_config, the assert_eq! of
   convert_f64, the asserts of new_approx) is reachable on a well-formed converter [conv_wf]:
   C08_scale_total; the theorems written `scale ... = Done r' -> ...` merely name the result.
     conv_wf c   index entries point into all_units; every unit has a key; the symbol of a stored unit
                 resolves to it; best lists hold stored units of their own physical quantity; every
                 fractions configuration has accuracy in [0,1] and max_denominator <= 64
                 (what ConverterBuilder::finish establishes, C16; checked for the shipped table here)

   Vocabulary (Proofs/ScaleProofs.v):
     times_amount c f q0 q'   q' is q0 times f as a physical amount: unit known to the converter ->
                              amount(q') expressed in the written unit = f * written value, end-wise,
                              whatever unit fit chose (and amount(q') = f * amount(q0) in base units
                              when the unit has no offset); otherwise q' is q0 with its value times f
     same_amount c q0 q'      amount(q') = amount(q0) (unit known) / q' = q0 (unit unknown, text)
     quantity_rel, cookware_rel, scale_rel   the case analysis of one quantity / the whole recipe *)
From CL Require Import Base.StrLemmas Model.Convert Model.Standards Proofs.ConvertProofs Model.Scale Proofs.ScaleProofs
  Proofs.ScaleTotal.
From CL Require Model.Analysis.
Open Scope Q_scope.

(* Number::new_approx (as modelled in Model/Convert.v) returns a number whose value, recorded error
   included, is exactly its input: the hypothesis the theorems below make about [approx] holds for it *)
Theorem C08_new_approx_exact : forall v cfg n, new_approx v cfg = Done (Some n) -> num_value n == v.
Proof. exact new_approx_exact. Qed.
Print Assumptions C08_new_approx_exact.

(* ... and it never trips its assertions on a clamped configuration (quantity.rs 736-737) *)
Theorem C08_new_approx_total : forall v cfg, cfg_ok cfg -> exists o, new_approx v cfg = Done o.
Proof. exact new_approx_total. Qed.
Print Assumptions C08_new_approx_total.

(* the regenerated shipped table is well formed (boolean reflection of the five clauses) *)
Theorem C08_bundled_wellformed : conv_wf bundled_conv /\ ratios_pos bundled_conv.
Proof. split; [exact bundled_wf|exact bundled_ratios_pos]. Qed.
Print Assumptions C08_bundled_wellformed.

(* scaling never panics: for every recipe value, every factor, every well-formed converter and every
   approximation function that returns on clamped configurations, ScaledQuantity::fit, scale and
   scale_to_servings return (default_scale is a plain function of the model: it cannot panic); the
   only other result of scale_to_servings is the marker of a non-finite factor, for a zero base *)
Theorem C08_scale_total : forall approx c,
  (forall v cfg, cfg_ok cfg -> exists o, approx v cfg = Done o) -> conv_wf c ->
  (forall q, exists r, fit approx c q = Done r) /\
  (forall (IF CF MF : Type) f (r : s_recipe IF CF MF), exists r', scale approx c f r = Done r') /\
  (forall (IF CF MF : Type) n (r : s_recipe IF CF MF),
     (servings_base r <> 0%N -> exists r', scale_to_servings approx c n r = Done r') /\
     (servings_base r = 0%N -> scale_to_servings approx c n r = Panic site_factor_not_finite)).
Proof.
  intros approx c Ha Hwf. split; [exact (fit_total approx Ha c Hwf)|].
  split; [intros IF CF MF f r; exact (scale_total approx Ha c Hwf f r)|].
  intros IF CF MF n r.
  split; [exact (scale_to_servings_total approx Ha c Hwf n r)|exact (scale_to_servings_zero approx c n r)].
Qed.
Print Assumptions C08_scale_total.

Section Scaling.
  Variable approx : Q -> frac_cfg -> outcome (option number).
  Hypothesis approx_exact : forall v cfg n, approx v cfg = Done (Some n) -> num_value n == v.
  Hypothesis approx_total : forall v cfg, cfg_ok cfg -> exists o, approx v cfg = Done o.
  Context {IF CF MF : Type}.

  (* the whole statement at once, with no condition on the result: scaling returns a recipe, and in
     it the frame, the outcomes aligned with the components, and for every ingredient / cookware /
     timer the case that applies (see quantity_rel, cookware_rel) *)
  Theorem C08_components : forall c f (r : s_recipe IF CF MF),
    ratios_pos c -> conv_wf c ->
    exists r', scale approx c f r = Done r' /\ scale_rel c f r r'.
  Proof.
    intros c f r Hp Hwf. destruct (scale_total approx approx_total c Hwf f r) as [r' H].
    exists r'. split; [exact H|]. exact (scale_spec approx approx_exact c f r r' Hp (wf_index c Hwf) H).
  Qed.

  (* a Linear numeric or range ingredient quantity is multiplied by f as a physical amount; the
     outcome at the same index is Scaled *)
  Theorem C08_linear : forall c f (r : s_recipe IF CF MF) r' k i q v,
    ratios_pos c -> index_consistent c ->
    scale approx c f r = Done r' ->
    nth_error (sr_ingredients r) k = Some i -> si_quantity i = Some q ->
    sq_value q = SLinear v -> is_text v = false ->
    exists i' x oi oc ot,
      nth_error (r_ingredients r') k = Some i' /\ ig_frame i' = si_frame i /\ ig_quantity i' = Some x /\
      r_data r' = Scaled f oi oc ot /\ nth_error oi k = Some OScaled /\
      times_amount c f {| q_value := v; q_unit := sq_unit q |} x.
  Proof. exact (scale_linear approx approx_exact). Qed.

  (* what must not be scaled is not: a Fixed (locked, text) ingredient quantity keeps its amount and
     reports Fixed; a Linear text value is kept verbatim and reports Error; no quantity reports
     NoQuantity; a timer behaves like an ingredient (Fixed in every parsed recipe); a cookware
     value is never fitted: Fixed is returned verbatim; inline quantities are returned as they were *)
  Theorem C08_fixed : forall c f (r : s_recipe IF CF MF) r',
    ratios_pos c -> index_consistent c ->
    scale approx c f r = Done r' ->
    exists oi oc ot, r_data r' = Scaled f oi oc ot /\ r_inline r' = sr_inline r /\
    (forall k i, nth_error (sr_ingredients r) k = Some i ->
       exists i', nth_error (r_ingredients r') k = Some i' /\
       match si_quantity i with
       | None => ig_quantity i' = None /\ nth_error oi k = Some ONoQuantity
       | Some q =>
           match sq_value q with
           | SFixed v => exists x, ig_quantity i' = Some x /\ nth_error oi k = Some OFixed /\
                                   same_amount c {| q_value := v; q_unit := sq_unit q |} x
           | SLinear v => is_text v = true ->
                          ig_quantity i' = Some {| q_value := v; q_unit := sq_unit q |} /\
                          nth_error oi k = Some OError
           end
       end) /\
    (forall k t, nth_error (sr_timers r) k = Some t ->
       exists t', nth_error (r_timers r') k = Some t' /\ tm_name t' = st_name t /\
       match st_quantity t with
       | None => tm_quantity t' = None /\ nth_error ot k = Some ONoQuantity
       | Some q =>
           match sq_value q with
           | SFixed v => exists x, tm_quantity t' = Some x /\ nth_error ot k = Some OFixed /\
                                   same_amount c {| q_value := v; q_unit := sq_unit q |} x
           | SLinear v => exists o, nth_error ot k = Some o /\
                                    quantity_rel c f (Some q) (tm_quantity t') o
           end
       end) /\
    (forall k w, nth_error (sr_cookware r) k = Some w ->
       exists w', nth_error (r_cookware r') k = Some w' /\ ck_frame w' = sc_frame w /\
       match sc_quantity w with
       | None => ck_quantity w' = None /\ nth_error oc k = Some ONoQuantity
       | Some (SFixed v) => ck_quantity w' = Some v /\ nth_error oc k = Some OFixed
       | Some (SLinear v) => exists o, nth_error oc k = Some o /\
                                       cookware_rel f (Some (SLinear v)) (ck_quantity w') o
       end).
  Proof. exact (scale_fixed approx approx_exact). Qed.

  (* nothing else moves: metadata and sections (the recipe frame), the frame of every ingredient and
     cookware item (name, alias, note, reference, relation, modifiers) and the timer names are
     identical and in the same order, quantities are present exactly where they were, inline
     quantities are identical, and there is one outcome per component *)
  Theorem C08_frame : forall c f (r : s_recipe IF CF MF) r',
    scale approx c f r = Done r' ->
    r_frame r' = sr_frame r /\ r_inline r' = sr_inline r /\
    map ig_frame (r_ingredients r') = map si_frame (sr_ingredients r) /\
    map ck_frame (r_cookware r') = map sc_frame (sr_cookware r) /\
    map tm_name (r_timers r') = map st_name (sr_timers r) /\
    map (fun i => match ig_quantity i with Some _ => true | None => false end) (r_ingredients r')
      = map (fun i => match si_quantity i with Some _ => true | None => false end) (sr_ingredients r) /\
    map (fun i => match ck_quantity i with Some _ => true | None => false end) (r_cookware r')
      = map (fun i => match sc_quantity i with Some _ => true | None => false end) (sr_cookware r) /\
    map (fun i => match tm_quantity i with Some _ => true | None => false end) (r_timers r')
      = map (fun i => match st_quantity i with Some _ => true | None => false end) (sr_timers r) /\
    exists oi oc ot, r_data r' = Scaled f oi oc ot /\
      length oi = length (r_ingredients r') /\ length oc = length (r_cookware r') /\
      length ot = length (r_timers r').
  Proof. exact (scale_frame approx). Qed.

  (* scaling to n servings is scaling by n / base, the base being the first declared serving
     (1 when none is declared); base 0 makes the factor non-finite and is outside the property *)
  Theorem C08_servings : forall c (n : N) (r : s_recipe IF CF MF),
    (servings_base r <> 0%N ->
       scale_to_servings approx c n r = scale approx c (NQ n / NQ (servings_base r)) r) /\
    (forall b l, sr_servings r = Some (b :: l) -> servings_base r = b) /\
    (sr_servings r = None \/ sr_servings r = Some [] -> servings_base r = 1%N).
  Proof. exact (servings_spec approx). Qed.
End Scaling.
Print Assumptions C08_components.
Print Assumptions C08_linear.
Print Assumptions C08_fixed.
Print Assumptions C08_frame.
Print Assumptions C08_servings.

(* default scaling returns every written value verbatim (Fixed and Linear alike), keeps every
   frame, and says so in the data field *)
Theorem C08_default_identity : forall {IF CF MF : Type} (r : s_recipe IF CF MF),
  r_frame (default_scale r) = sr_frame r /\ r_inline (default_scale r) = sr_inline r /\
  r_data (default_scale r) = DefaultScaling /\
  r_ingredients (default_scale r) =
    map (fun i => {| ig_frame := si_frame i;
                     ig_quantity := option_map quantity_default (si_quantity i) |}) (sr_ingredients r) /\
  r_cookware (default_scale r) =
    map (fun k => {| ck_frame := sc_frame k;
                     ck_quantity := option_map value_default (sc_quantity k) |}) (sr_cookware r) /\
  r_timers (default_scale r) =
    map (fun t => {| tm_name := st_name t;
                     tm_quantity := option_map quantity_default (st_quantity t) |}) (sr_timers r).
Proof. intros IF CF MF r. exact (default_scale_spec r). Qed.
Print Assumptions C08_default_identity.

(* ... where the written quantity is the value inside Fixed / Linear with the unit text as written *)
Theorem C08_written : forall q,
  quantity_default q = {| q_value := match sq_value q with SFixed x => x | SLinear x => x end;
                          q_unit := sq_unit q |}.
Proof. intro q. reflexivity. Qed.
Print Assumptions C08_written.

(* which parsed values are Linear (event_consumer.rs 1042-1059 as modelled in Model/Analysis.v,
   qi_fixed = false being ScalableValue::Linear): exactly the ingredient values that are not text
   and carry no `=` lock; the unit plays no role *)
Theorem C08_which_linear : forall is_ingredient v,
  Analysis.qi_fixed (Analysis.value_info is_ingredient v) = false <->
  is_ingredient = true /\ Events.pvalue_is_text (Events.qv_value v) = false /\ Events.qv_lock v = false.
Proof. exact which_linear. Qed.
Print Assumptions C08_which_linear.

Theorem C08_which_linear_quantity : forall is_ingredient q,
  Analysis.qi_fixed (Analysis.quantity_info is_ingredient q)
    = Analysis.qi_fixed (Analysis.value_info is_ingredient (Events.pq_value q)) /\
  Analysis.qi_text (Analysis.quantity_info is_ingredient q)
    = Events.pvalue_is_text (Events.qv_value (Events.pq_value q)).
Proof. exact which_linear_unit. Qed.
Print Assumptions C08_which_linear_quantity.

(* no hypothesis left: the shipped unit table (regenerated Gen/UnitsToml.v through the model of the
   builder) with the model of Number::new_approx *)
Theorem C08_shipped : forall {IF CF MF : Type} f (r : s_recipe IF CF MF),
  exists r', scale new_approx bundled_conv f r = Done r' /\ scale_rel bundled_conv f r r'.
Proof.
  intros IF CF MF f r. destruct (scale_total new_approx new_approx_total bundled_conv bundled_wf f r) as [r' H].
  exists r'. split; [exact H|].
  exact (scale_spec new_approx new_approx_exact bundled_conv f r r' bundled_ratios_pos bundled_index_consistent H).
Qed.
Print Assumptions C08_shipped.

(* the hypotheses are satisfiable and the model runs: 250 g x 6 is fitted to 1.5 kg (same amount
   x 6), a locked 3 tsp is refitted to 1 tbsp keeping
   its amount (the conversion error is recorded), text is an error kept verbatim, 1/3 cup x 6 is 2 cups *)
From Coq Require Import String.
Definition sq (v : svalue) (u : string) : option squantity := Some {| sq_value := v; sq_unit := Some (s u) |}.
Definition ex_recipe : s_recipe N N N :=
  {| sr_frame := 0%N;
     sr_ingredients := [ {| si_frame := 1%N; si_quantity := sq (SLinear (VNumber (Regular 250))) "g" |};
                         {| si_frame := 2%N; si_quantity := sq (SFixed (VNumber (Regular 3))) "tsp" |};
                         {| si_frame := 3%N; si_quantity := sq (SLinear (VText (s "some"))) "g" |};
                         {| si_frame := 4%N; si_quantity := None |};
                         {| si_frame := 5%N; si_quantity := sq (SLinear (VNumber (Fraction 0 1 3 0))) "cup" |} ];
     sr_cookware := [ {| sc_frame := 6%N; sc_quantity := Some (SFixed (VNumber (Regular 2))) |} ];
     sr_timers := [ {| st_name := None; st_quantity := sq (SFixed (VNumber (Regular 90))) "min" |} ];
     sr_inline := [];
     sr_servings := Some [2%N; 4%N] |}.
Definition shown (q : option quantity) : option (Q * option str) :=
  match q with
  | Some {| q_value := VNumber n; q_unit := u |} => Some (Qred (num_value n), u)
  | _ => None
  end.
Example C08_example_scale :
  exists r', scale new_approx bundled_conv 6 ex_recipe = Done r' /\
    map (fun i => shown (ig_quantity i)) (r_ingredients r') =
      [ Some (3 # 2, Some (s "kg"));
        Some (Qred (3 * (4928921 # 1000000000) / (14786764 # 1000000000)), Some (s "tbsp"));
        None; None;
        Some (2, Some (s "c")) ] /\
    nth_error (r_ingredients r') 2 =
      Some {| ig_frame := 3%N; ig_quantity := Some {| q_value := VText (s "some"); q_unit := Some (s "g") |} |} /\
    r_data r' = Scaled 6 [OScaled; OFixed; OError; ONoQuantity; OScaled] [OFixed] [OFixed].
Proof. eexists. split; [vm_compute; reflexivity|]. repeat split; vm_compute; reflexivity. Qed.
Example C08_example_servings :
  scale_to_servings new_approx bundled_conv 12 ex_recipe = scale new_approx bundled_conv (NQ 12 / NQ 2) ex_recipe.
Proof. reflexivity. Qed.
