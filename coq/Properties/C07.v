(* C07 - Diagnostics are sound, complete and placed on the offending construct.

   Models.  Model/Parser.v (pull parser: every diagnostic with a code, its severity and its label
   spans; tied to the code by the L-ev correspondence of checks/c07.py and checks/c03.py),
   Model/Diag.v (SourceReport, PassResult and the way parse_events combines the parser's
   diagnostics with those of the analysis: error.rs:190-369, event_consumer.rs:116-233),
   Model/Analysis.v (the analysis pass; of its report it keeps the bit "an error was reported"
   and whether a parser error stopped it; tied to the code by the L-rec correspondence of C06),
   Model/AnalysisDiag.v (a decoration of Model/Analysis.v: the 24 diagnostics of
   event_consumer.rs with severity and labels in order; same state transition, proved to have the
   same error bit; its labels proved to be those of the label-site enumeration of C04; tied to the
   code by the L-diag correspondence of checks/c07.py: severity and label spans, in order, of the
   Analysis-stage diagnostics of every generated case).

   Proved here, for every input / event stream / extension set / Unicode classification / oracle:
     - the validity equation, the parse-error short circuit, that an analysis error keeps the
       output - on Model/Diag.v (full reports) and again on Model/Analysis.v (the model that is
       run against the implementation);
     - completeness with severity and label placement, at component level, for the parse-stage
       constructs of the statement: empty name, zero denominator, empty value, unit on cookware,
       timer without unit / without duration / with modifiers / with an alias, duplicate
       modifier, bad alias (empty, multiple);
     - completeness with severity and placement of the FIRST label on the offending part of the
       event, for the analysis-stage constructs ([C07_*_placed], over Model/AnalysisDiag.v):
       dangling reference, forbidden new+ref / intermediate modifiers, out-of-range intermediate
       reference, conflicting reference modifiers / quantities / units, note on a reference,
       non-time timer unit and text duration, bad mode value, malformed front matter (REFUTED for
       the code before 45a4888, where an error that serde_yaml does not locate had no label:
       C07_front_matter_unlabeled_refuted_before_fix); each lifts to the final report
       (C07_placed_reported);
     - severity / validity: Error kinds invalidate, Warning kinds never do, by enumeration of the
       24 kinds (C07_severity_validity*, C07_error_kind_invalidates, C07_report_is_model_trace);
     - soundness of the analysis stage on a decidable class of clean event streams
       (C07_clean_run_sound, C07_analysis_sound_partial);
     - soundness from SOURCE TEXTS: on the text that the document printer of C01 makes of a document in the
       printer class (Printer.doc_ok, Denote.adoc_ok) and in the warning-free class DenoteQuiet.quiet_doc, the
       model of CooklangParser::parse (pull-parser model + decorated collector) returns a valid result, the
       recipe the document denotes, and a report holding nothing but the `>>` deprecation notice - present
       exactly when the document has a `>>` entry that is not a config entry, one label per such entry
       (C07_printed_doc_sound; behind a front matter the report is empty: C07_printed_fm_doc_sound).
   Satisfiability of every hypothesis set and non-triviality of the clean class: the Examples of
   Proofs/DiagExamples.v (parser model run on the catalogue's constructs), collected in
   [C07_examples] at the end.
   Not proved (decided on every run by the monitor of checks/c07.py on the implementation):
   soundness on well-formed recipes outside the printer class of C01 (free layouts; text mode, where the code
   warns "Ignoring .. in text mode" by design), and the lift of the component lemmas to an arbitrary placement
   inside a document - see [C07_full_statement]. *)
From Coq Require Import ZArith.
From CL Require Import Base.StrLemmas Model.Parser Model.Diag Proofs.DiagProofs.
From CL Require Model.Analysis Proofs.DiagAnalysisProofs.
From CL Require Import Model.EventBridge Model.AnalysisLabels Model.AnalysisDiag Proofs.DiagPlaced
  Proofs.DiagLabelSites Proofs.AnalysisSound.
From CL Require Proofs.DiagExamples.
From CL Require Model.Printer Model.Denote Model.DenoteQuiet Proofs.PrintedDocSound.
Open Scope N_scope.

(* ================================================================ validity, short circuit *)

(* PassResult::is_valid is "has an output and no error diagnostic in the report" - the tagged
   fast path of SourceReport::has_errors never applies to a report built by parse_events *)
Theorem C07_validity_def :
  forall St astep afinish dbg (init : St) evs res,
    parse_events St astep afinish dbg init evs = Done res ->
    is_valid res = has_output res && negb (existsb sd_is_error (diags res)).
Proof.
  intros St astep afinish dbg init evs res H. unfold parse_events in H.
  pose proof (collect_tag St astep afinish dbg evs init report_empty res eq_refl H) as Ht.
  unfold is_valid, has_errors, diags. rewrite Ht. reflexivity.
Qed.
Print Assumptions C07_validity_def.

(* a parser error anywhere in the stream: no output, not valid, and the report is exactly the
   parser's diagnostics (all of them, in order, nothing of the analysis) *)
Theorem C07_parse_error_shortcircuit :
  forall St astep afinish dbg (init : St) evs res,
    (forall s e s' ds, astep s e = Done (s', ds) -> Forall (fun d => sd_is_parse d = false) ds) ->
    existsb is_perror evs = true ->
    parse_events St astep afinish dbg init evs = Done res ->
    pr_output res = None /\ is_valid res = false /\
    diags res = map of_pdiag (pdiags evs) /\
    Forall (fun d => sd_stage d = StParse) (diags res).
Proof.
  intros St astep afinish dbg init evs res Hst He H. unfold parse_events in H.
  destruct (collect_error St astep afinish dbg Hst evs init report_empty res eq_refl He H) as [Ho Hd].
  cbn in Hd. split; [exact Ho|]. split; [unfold is_valid, has_output; rewrite Ho; reflexivity|].
  split; [exact Hd|]. rewrite Hd. clear. induction (pdiags evs); cbn; constructor; auto.
Qed.
Print Assumptions C07_parse_error_shortcircuit.

(* no parser error: the output is kept whatever the analysis reports; the report holds the
   parser's warnings and every diagnostic of the analysis, each family in order; the result is
   valid exactly when none of them is an error *)
Theorem C07_analysis_error_keeps_output :
  forall St astep afinish dbg (init : St) evs res,
    (forall s e s' ds, astep s e = Done (s', ds) -> Forall (fun d => sd_is_parse d = false) ds) ->
    (forall s, Forall (fun d => sd_is_parse d = false) (afinish s)) ->
    existsb is_perror evs = false ->
    parse_events St astep afinish dbg init evs = Done res ->
    exists s' t, pr_output res = Some s' /\ atrace St astep afinish init evs = Done t /\
      filter sd_is_parse (diags res) = map of_pdiag (pdiags evs) /\
      filter is_analysis (diags res) = t /\
      is_valid res = negb (existsb sd_is_error (diags res)).
Proof.
  intros St astep afinish dbg init evs res Hst Hfin He H.
  pose proof (C07_validity_def St astep afinish dbg init evs res H) as Hv. unfold parse_events in H.
  destruct (collect_no_error St astep afinish dbg Hst Hfin evs init report_empty res eq_refl He H)
    as (s' & t & Ho & Hat & Hp & Han).
  exists s', t. repeat split; try assumption.
  rewrite Hv. unfold has_output. rewrite Ho. reflexivity.
Qed.
Print Assumptions C07_analysis_error_keeps_output.

(* the same three facts on the analysis model that is run against the implementation *)
Theorem C07_validity_def_analysis :
  forall s, Analysis.is_valid s = Events.is_some (Analysis.output s) && negb (Analysis.a_errors s).
Proof. exact DiagAnalysisProofs.validity_def. Qed.
Print Assumptions C07_validity_def_analysis.

Theorem C07_parse_error_shortcircuit_analysis :
  forall ci_key yaml_ok find_iq unit_class input x cfg evs d o v,
    In (Events.EError d) evs ->
    Analysis.analyse ci_key yaml_ok find_iq unit_class input x cfg evs = Done (o, v) ->
    o = None /\ v = false.
Proof. exact DiagAnalysisProofs.parse_error_no_output. Qed.
Print Assumptions C07_parse_error_shortcircuit_analysis.

Theorem C07_analysis_error_keeps_output_analysis :
  forall ci_key yaml_ok find_iq unit_class input x cfg evs o v,
    (forall d, ~ In (Events.EError d) evs) ->
    Analysis.analyse ci_key yaml_ok find_iq unit_class input x cfg evs = Done (o, v) ->
    exists s r, Analysis.run ci_key yaml_ok find_iq unit_class input x cfg Analysis.init evs = Done s /\
                o = Some r /\ v = negb (Analysis.a_errors s).
Proof. exact DiagAnalysisProofs.no_parse_error_keeps_output. Qed.
Print Assumptions C07_analysis_error_keeps_output_analysis.

(* ================================================================ completeness, parse stage *)

(* empty name: an ingredient / cookware event whose name is blank comes with the EmptyName error,
   labelled with the span of that name (step.rs:569-576) *)
Theorem C07_complete_empty_name :
  forall cfg s i s',
    ingredient_p cfg s = Done (Some (EvIngredient i), s') -> is_text_empty (i_name i) = true ->
    In (mkdiag true D_EMPTY_NAME [text_span (i_name i)]) (b_evs s').
Proof. exact complete_empty_name_ingredient. Qed.
Print Assumptions C07_complete_empty_name.

Theorem C07_complete_empty_name_cookware :
  forall cfg s c s',
    cookware_p cfg s = Done (Some (EvCookware c), s') -> is_text_empty (c_name c) = true ->
    In (mkdiag true D_EMPTY_NAME [text_span (c_name c)]) (b_evs s').
Proof. exact complete_empty_name_cookware. Qed.
Print Assumptions C07_complete_empty_name_cookware.

(* zero denominator: the value tokens spell `a / 0` (blanks and comments allowed around and
   between): DivisionByZero, labelled from the start of a to the end of the 0 (quantity.rs:297-304) *)
Theorem C07_complete_div_zero :
  forall cfg ts a sl b s r s',
    filter not_ws_comment (trim_tokens ts) = [a; sl; b] ->
    kind a = KInt -> kind sl = KSlash -> kind b = KInt ->
    digits_val (tstr a) <= u32_max -> digits_val (tstr b) = 0 ->
    range_value cfg ts = None ->
    parse_value cfg ts s = Done (r, s') ->
    In (mkdiag true D_DIV_ZERO [(tstart a, tend b)]) (b_evs s').
Proof. exact complete_div_zero. Qed.
Print Assumptions C07_complete_div_zero.

(* empty value (`{%unit}`, `{=}`): no value token before the `%` or the end: EmptyValue at the
   position where the value is missing (quantity.rs:193-199) *)
Theorem C07_complete_empty_value :
  forall cfg s r s',
    parse_value cfg [] s = Done (r, s') ->
    In (mkdiag true D_EMPTY_VALUE [(current_offset_of s, current_offset_of s)]) (b_evs s').
Proof. exact complete_empty_value. Qed.
Print Assumptions C07_complete_empty_value.

(* unit on cookware: whenever a cookware event is returned and its braces held a quantity, the
   quantity parser ran on those tokens, and if it found a unit the error is reported, labelled
   from the separator (if any) to the end of the unit (step.rs:379-394) *)
Theorem C07_complete_cookware_unit :
  forall cfg s c s',
    cookware_p cfg s = Done (Some (EvCookware c), s') ->
    exists bd s0 s1, comp_body s0 = Done (Some bd, s1) /\
      match bd_qty bd with
      | None => c_qty c = None
      | Some qts =>
          exists sq q usep sq', parse_quantity cfg qts sq = Done ((q, usep), sq') /\
            c_qty c = Some (q_val q, q_span q) /\
            forall u, q_unit q = Some u ->
              In (mkdiag true D_COOKWARE_UNIT [cookware_unit_label usep u]) (b_evs s')
      end.
Proof. exact complete_cookware_unit. Qed.
Print Assumptions C07_complete_cookware_unit.

(* the timer checks (step.rs:437-486): modifiers and alias are not allowed (label: those tokens);
   a duration needs a unit (label: the position after the value); with TIMER_REQUIRES_TIME a timer
   needs a duration (label: the braces, or the end of the name); neither name nor duration *)
Theorem C07_complete_timer :
  forall cfg s t s',
    timer_p cfg s = Done (Some (EvTimer t), s') ->
    exists mts sm sm' bd s0 s1 name,
      modifiers cfg sm = Done (mts, sm') /\
      comp_body s0 = Done (Some bd, s1) /\
      text_of cfg (current_offset_of s0) (bd_name bd) = Done name /\
      (mts <> [] -> In (mkdiag true D_MODS_NOT_ALLOWED [tokens_span mts]) (b_evs s')) /\
      (has cfg X_COMPONENT_ALIAS = true -> forall sp, timer_alias_label (bd_name bd) = Some sp ->
         In (mkdiag true D_ALIAS_NOT_ALLOWED [sp]) (b_evs s')) /\
      (forall qts, bd_qty bd = Some qts ->
         exists sq q usep sq', parse_quantity cfg qts sq = Done ((q, usep), sq') /\ t_qty t = Some q /\
           (q_unit q = None ->
            In (mkdiag true D_TIMER_NO_UNIT [(snd (qv_span (q_val q)), snd (qv_span (q_val q)))]) (b_evs s'))) /\
      (bd_qty bd = None -> has cfg X_TIMER_REQUIRES_TIME = true ->
         In (mkdiag true D_TIMER_NO_QTY [timer_noqty_label bd name]) (b_evs s')) /\
      (bd_qty bd = None -> has cfg X_TIMER_REQUIRES_TIME = false -> is_text_empty name = true ->
         In (mkdiag true D_TIMER_NEITHER [timer_neither_label bd (current_offset_of s0)]) (b_evs s')).
Proof. exact timer_p_inv. Qed.
Print Assumptions C07_complete_timer.

(* duplicate modifier: a modifier character written twice in a run of modifiers (no `&(..)`
   among them): the error is reported, labelled with the span of the whole run, which is also
   the span the component carries for its modifiers (step.rs:145-177) *)
Theorem C07_complete_dup_modifier :
  forall cfg pre t1 mid t2 post mpos bit s res s',
    let mts := pre ++ t1 :: mid ++ t2 :: post in
    forallb simple_mod mts = true ->
    mod_bit (kind t1) = Some bit -> mod_bit (kind t2) = Some bit ->
    parse_modifiers cfg mts mpos s = Done (res, s') ->
    In (mkdiag true D_DUP_MOD [tokens_span mts]) (b_evs s') /\ snd (fst res) = tokens_span mts.
Proof. exact complete_dup_modifier. Qed.
Print Assumptions C07_complete_dup_modifier.

(* ... and it is still reported when the ingredient is returned *)
Theorem C07_complete_dup_modifier_ingredient :
  forall cfg s i s',
    ingredient_p cfg s = Done (Some (EvIngredient i), s') ->
    exists mts sm sm', modifiers cfg sm = Done (mts, sm') /\
      forall pre t1 mid t2 post bit,
        mts = pre ++ t1 :: mid ++ t2 :: post -> forallb simple_mod mts = true ->
        mod_bit (kind t1) = Some bit -> mod_bit (kind t2) = Some bit ->
        In (mkdiag true D_DUP_MOD [i_mods_span i]) (b_evs s') /\ i_mods_span i = tokens_span mts.
Proof. exact complete_dup_modifier_ingredient. Qed.
Print Assumptions C07_complete_dup_modifier_ingredient.

(* bad alias: with COMPONENT_ALIAS, name tokens with a `|`: more than one `|` => MultipleAliases
   labelled from the first `|` to the end of the name tokens; a blank alias => EmptyAlias labelled
   with the `|` (step.rs:284-316); no alias is returned in either case *)
Theorem C07_complete_alias :
  forall cfg ts off s nt al s' sepi sep alias_ts,
    has cfg X_COMPONENT_ALIAS = true ->
    position (fun k => tk_eqb k KOr) ts = Some sepi -> skipn sepi ts = sep :: alias_ts ->
    parse_alias cfg ts off s = Done ((nt, al), s') ->
    (existsb (fun t => tk_eqb (kind t) KOr) alias_ts = true ->
       al = None /\ In (mkdiag true D_MULTI_ALIAS [(tstart sep, tend (last alias_ts sep))]) (b_evs s')) /\
    (existsb (fun t => tk_eqb (kind t) KOr) alias_ts = false ->
       forall at_, text_of cfg (tend sep) alias_ts = Done at_ -> is_text_empty at_ = true ->
       al = None /\ In (mkdiag true D_EMPTY_ALIAS [tok_span sep]) (b_evs s')).
Proof. exact complete_alias. Qed.
Print Assumptions C07_complete_alias.

(* what an ingredient event was made from, and that whatever its sub-parsers (alias, modifiers,
   quantity) reported is still in the event queue when the component is returned: the lemmas
   above about parse_alias / parse_modifiers / parse_value therefore hold at component level *)
Theorem C07_component_diagnostics_survive :
  forall cfg s i s',
    ingredient_p cfg s = Done (Some (EvIngredient i), s') ->
    exists mts sm sm' bd s0 s1 sa sa' sp sp',
      modifiers cfg sm = Done (mts, sm') /\
      comp_body s0 = Done (Some bd, s1) /\
      parse_alias cfg (bd_name bd) (current_offset_of s0) sa = Done ((i_name i, i_alias i), sa') /\
      incl (b_evs sa') (b_evs s') /\
      parse_modifiers cfg mts (current_offset_of sm) sp = Done ((i_mods i, i_mods_span i, i_inter i), sp') /\
      incl (b_evs sp') (b_evs s') /\
      match bd_qty bd with
      | None => i_qty i = None
      | Some qts => exists sq q usep sq', parse_quantity cfg qts sq = Done ((q, usep), sq') /\
                      i_qty i = Some q /\ incl (b_evs sq') (b_evs s')
      end.
Proof. exact ingredient_p_inv. Qed.
Print Assumptions C07_component_diagnostics_survive.

(* empty metadata key / value of an old-style `>>` line (metadata.rs:25-43).  "Empty" is
   Text::is_text_empty: blanks only - comments contribute no text, so `>>[- k -]: v` has an empty key
   and `>> k: -- later` an empty value.  Key: error labelled with the key position; value (when the
   key is not empty): warning whose first label is the value position, second the key. *)
Theorem C07_empty_metadata_key :
  forall cfg s key v s',
    metadata_entry cfg s = Done (Some (EvMetadata key v), s') -> is_text_empty key = true ->
    In (mkdiag true D_EMPTY_META_KEY [text_span key]) (b_evs s').
Proof. exact complete_empty_metadata_key. Qed.
Print Assumptions C07_empty_metadata_key.

Theorem C07_empty_metadata_value :
  forall cfg s key v s',
    metadata_entry cfg s = Done (Some (EvMetadata key v), s') ->
    is_text_empty key = false -> is_text_empty v = true ->
    In (mkdiag false D_EMPTY_META_VALUE [text_span v; text_span key]) (b_evs s').
Proof. exact complete_empty_metadata_value. Qed.
Print Assumptions C07_empty_metadata_value.

(* for every token list: key tokens (those before the first `:`) that are all comments => the error,
   at the position right after `>>`; value tokens (the rest of the line) that are all comments =>
   the warning, at the position right after the `:` *)
Theorem C07_empty_metadata_key_comment_only :
  forall cfg s key v s',
    metadata_entry cfg s = Done (Some (EvMetadata key v), s') ->
    exists m s1 kts s2,
      consume KMeta s = Done (Some m, s1) /\ until (fun k => tk_eqb k KColon) s1 = Done (Some kts, s2) /\
      (forallb (fun tk => is_comment_kind (kind tk)) kts = true ->
         In (mkdiag true D_EMPTY_META_KEY [(current_offset_of s1, current_offset_of s1)]) (b_evs s')).
Proof. exact complete_comment_only_metadata_key. Qed.
Print Assumptions C07_empty_metadata_key_comment_only.

Theorem C07_empty_metadata_value_comment_only :
  forall cfg s key v s',
    metadata_entry cfg s = Done (Some (EvMetadata key v), s') -> is_text_empty key = false ->
    exists c s3 vts s4,
      consume_rest s3 = Done (vts, s4) /\ current_offset_of s3 = tend c /\ kind c = KColon /\
      (forallb (fun tk => is_comment_kind (kind tk)) vts = true ->
         In (mkdiag false D_EMPTY_META_VALUE [(tend c, tend c); text_span key]) (b_evs s')).
Proof. exact complete_comment_only_metadata_value. Qed.
Print Assumptions C07_empty_metadata_value_comment_only.

(* ================================================================ completeness, analysis stage, error bit
   (Model/Analysis.v: "an error is reported"; the result then keeps its output and is not valid
   by C07_analysis_error_keeps_output_analysis; severity and labels: the next section) *)

(* dangling reference: `&` and no earlier non-reference component of that name *)
Theorem C07_complete_dangling_reference :
  forall ci_key x s ig s1 i,
    Events.pi_inter ig = None -> Events.m_ref (Events.pi_mods ig) = true -> Events.m_new (Events.pi_mods ig) = false ->
    Analysis.same_name ci_key (Analysis.a_ingredients s) (DiagAnalysisProofs.ing_name ig) = None ->
    Analysis.ingredient ci_key x s ig = Done (s1, i) -> Analysis.a_errors s1 = true.
Proof. exact DiagAnalysisProofs.dangling_reference_is_error. Qed.
Print Assumptions C07_complete_dangling_reference.

Theorem C07_complete_dangling_reference_cookware :
  forall ci_key s cw s1 i,
    Events.m_ref (Events.pc_mods cw) = true -> Events.m_new (Events.pc_mods cw) = false ->
    Analysis.same_name ci_key (Analysis.a_cookware s) (PText.text_trimmed (Events.pc_name cw)) = None ->
    Analysis.cookware ci_key s cw = Done (s1, i) -> Analysis.a_errors s1 = true.
Proof. exact DiagAnalysisProofs.dangling_cookware_reference_is_error. Qed.
Print Assumptions C07_complete_dangling_reference_cookware.

(* note on a reference: the link to the definition reports an error whenever the reference has a note *)
Theorem C07_complete_note_on_reference :
  forall tbl new j has_units tbl' e,
    Analysis.link_reference tbl new j true has_units = Done (tbl', e) -> e = true.
Proof. exact DiagAnalysisProofs.note_on_reference_is_error. Qed.
Print Assumptions C07_complete_note_on_reference.

(* intermediate reference: value 0, a step number / distance beyond the steps of the current
   section, a section number / distance beyond the past sections: no relation is found ... *)
Theorem C07_complete_intermediate_zero :
  forall s d, Events.ir_val d = 0%Z -> Analysis.resolve_intermediate_ref s d = Done None.
Proof. exact DiagAnalysisProofs.inter_zero. Qed.
Print Assumptions C07_complete_intermediate_zero.

Theorem C07_complete_intermediate_step_out_of_range :
  forall s d,
    Events.ir_kind d = Events.TKStep -> (0 <= Events.ir_val d)%Z ->
    (length (Analysis.step_indices (Analysis.sec_content (Analysis.a_cur s))) < Z.to_nat (Events.ir_val d))%nat ->
    Analysis.resolve_intermediate_ref s d = Done None.
Proof. exact DiagAnalysisProofs.inter_step_out_of_range. Qed.
Print Assumptions C07_complete_intermediate_step_out_of_range.

Theorem C07_complete_intermediate_section_out_of_range :
  forall s d,
    Events.ir_kind d = Events.TKSection -> (0 <= Events.ir_val d)%Z ->
    (length (Analysis.a_sections s) < Z.to_nat (Events.ir_val d))%nat ->
    Analysis.resolve_intermediate_ref s d = Done None.
Proof. exact DiagAnalysisProofs.inter_section_out_of_range. Qed.
Print Assumptions C07_complete_intermediate_section_out_of_range.

(* ... and then the ingredient is reported as an error *)
Theorem C07_complete_intermediate_reference :
  forall ci_key x s ig d s1 i,
    Events.pi_inter ig = Some d -> Analysis.resolve_intermediate_ref s d = Done None ->
    Analysis.ingredient ci_key x s ig = Done (s1, i) -> Analysis.a_errors s1 = true.
Proof. exact DiagAnalysisProofs.bad_intermediate_reference_is_error. Qed.
Print Assumptions C07_complete_intermediate_reference.

(* non-time timer unit (ADVANCED_UNITS; unit_class: 1 = a time unit of the converter) *)
Theorem C07_complete_timer_unit_not_time :
  forall unit_class x s t q u,
    Analysis.x_advanced x = true -> Events.pt_quantity t = Some q -> Events.pq_unit q = Some u ->
    unit_class (PText.text_trimmed u) <> 1 ->
    Analysis.a_errors (fst (Analysis.timer unit_class x s t)) = true.
Proof. exact DiagAnalysisProofs.timer_unit_not_time_is_error. Qed.
Print Assumptions C07_complete_timer_unit_not_time.

(* malformed front matter (yaml_ok: serde_yaml accepts the text as a mapping) *)
Theorem C07_complete_bad_front_matter :
  forall ci_key yaml_ok find_iq unit_class input x cfg s t s',
    Analysis.a_halted s = false -> yaml_ok (PText.text_str t) = false ->
    Analysis.step ci_key yaml_ok find_iq unit_class input x cfg s (Events.EYaml t) = Done s' ->
    Analysis.a_errors s' = true.
Proof. exact DiagAnalysisProofs.bad_front_matter_is_error. Qed.
Print Assumptions C07_complete_bad_front_matter.

(* bad mode value: `[mode]` with a value that is none of the six accepted spellings *)
Theorem C07_complete_bad_mode_value :
  forall x s k v,
    Analysis.x_modes x = true -> PText.text_trimmed k = 91 :: Analysis.s_mode ++ [93] ->
    let vt := PText.text_outer_trimmed v in
    str_eqb vt Analysis.s_all = false -> str_eqb vt Analysis.s_default = false ->
    str_eqb vt Analysis.s_components = false -> str_eqb vt Analysis.s_ingredients = false ->
    str_eqb vt Analysis.s_steps = false -> str_eqb vt Analysis.s_text = false ->
    Analysis.a_errors (Analysis.metadata x s k v) = true.
Proof. exact DiagAnalysisProofs.bad_mode_value_is_error. Qed.
Print Assumptions C07_complete_bad_mode_value.

(* ================================================================ analysis stage: severity, placement,
   soundness - over Model/AnalysisDiag.v.
   [dstep .. dc .. st ev]: the collector's transition on one event ([Analysis.step] on the bridged
   event) and the diagnostics it pushes meanwhile; [drun] a stream; [astep]/[afinish] the same as the
   two parameters of [Diag.parse_events]; [dc] selects the code as it is now ([dcfg_now]) or before a
   repair.  [placed ds sev sp]: ds holds a diagnostic of severity sev and stage Analysis whose FIRST
   label lies inside the span sp.  [in_step_block st]: inside a step, not in text mode.
   [refers_to .. j]: treated as a reference (1160-1162) to the definition at index j.
   Line numbers: event_consumer.rs as of 17e6a01 (the numbering of AnalysisLabels.label_sites). *)

(* the decorated run is a run of Model/Analysis.v (the model compared with the implementation by the
   L-rec correspondence of C06) on the bridged stream: decorating changes no state *)
Theorem C07_analysis_model_refines :
  forall (ci_key : str -> str) (yaml_ok : str -> bool) (find_iq : str -> option (str * str))
    (unit_class : str -> N) (input : str) (x : Analysis.aext) (cfg : Analysis.acfg) 
    (dc : dcfg) (yaml_err_index : str -> option N) (yaml_std_bad : str -> list str)
    (yaml_has_key std_check : str -> str -> bool) (is_alnum : N -> bool) (unit_pq : str -> option N)
    (evs : list pevent) (st st' : dstate) (ds : list adiag),
  drun ci_key yaml_ok find_iq unit_class input x cfg dc yaml_err_index yaml_std_bad yaml_has_key
    std_check is_alnum unit_pq st evs = Done (st', ds) ->
  Analysis.run ci_key yaml_ok find_iq unit_class input x cfg (ds_a st) (abstract_events evs) =
  Done (ds_a st').
Proof. exact drun_run. Qed.
Print Assumptions C07_analysis_model_refines.

(* one event: the error bit of Model/Analysis.v after it is the bit before it or "one of the diagnostics
   pushed for this event has severity Error" - for every event kind, state, extension record and oracle *)
Theorem C07_severity_validity_step :
  forall (ci_key : str -> str) (yaml_ok : str -> bool) (find_iq : str -> option (str * str))
    (unit_class : str -> N) (input : str) (x : Analysis.aext) (cfg : Analysis.acfg) 
    (dc : dcfg) (yaml_err_index : str -> option N) (yaml_std_bad : str -> list str)
    (yaml_has_key std_check : str -> str -> bool) (is_alnum : N -> bool) (unit_pq : str -> option N)
    (st : dstate) (ev : pevent) (st' : dstate) (ds : list adiag),
  Analysis.a_halted (ds_a st) = false ->
  dstep ci_key yaml_ok find_iq unit_class input x cfg dc yaml_err_index yaml_std_bad yaml_has_key
    std_check is_alnum unit_pq st ev = Done (st', ds) ->
  Analysis.a_errors (ds_a st') = Analysis.a_errors (ds_a st) || errs ds.
Proof. exact dstep_errors. Qed.
Print Assumptions C07_severity_validity_step.

(* a whole stream without parser error: the result is valid exactly when no diagnostic of severity Error
   was pushed; whatever Warning-severity diagnostics were pushed play no part *)
Theorem C07_severity_validity :
  forall (ci_key : str -> str) (yaml_ok : str -> bool) (find_iq : str -> option (str * str))
    (unit_class : str -> N) (input : str) (x : Analysis.aext) (cfg : Analysis.acfg) 
    (dc : dcfg) (yaml_err_index : str -> option N) (yaml_std_bad : str -> list str)
    (yaml_has_key std_check : str -> str -> bool) (is_alnum : N -> bool) (unit_pq : str -> option N)
    (evs : list pevent) (st : dstate) (ds : list adiag),
  existsb is_perror evs = false ->
  drun ci_key yaml_ok find_iq unit_class input x cfg dc yaml_err_index yaml_std_bad yaml_has_key
    std_check is_alnum unit_pq dinit evs = Done (st, ds) ->
  Analysis.is_valid (ds_a st) = negb (errs ds).
Proof. exact drun_valid_no_parse_error. Qed.
Print Assumptions C07_severity_validity.

(* the 24 kinds of analysis diagnostics (one per error!/warning! expression of event_consumer.rs): the
   enumeration [all_kinds] is complete *)
Theorem C07_kinds_enumerated :
  forall k : akind, In k all_kinds.
Proof. exact all_kinds_complete. Qed.
Print Assumptions C07_kinds_enumerated.

(* ... twelve are built with error!/ctx.error, twelve with warning!/ctx.warn *)
Theorem C07_kinds_partition :
  forall k : akind,
  (kind_is_error k = true <-> In k error_kinds) /\ (kind_is_error k = false <-> In k warning_kinds).
Proof. exact kinds_partition. Qed.
Print Assumptions C07_kinds_partition.

(* ... and that is the severity (and the stage is Analysis) of the SourceDiag *)
Theorem C07_kind_severity :
  forall d : adiag,
  sd_is_error (to_sdiag d) = kind_is_error (ad_kind d) /\ sd_stage (to_sdiag d) = StAnalysis.
Proof. exact to_sdiag_severity. Qed.
Print Assumptions C07_kind_severity.

(* severity / validity by kind: a stream without parser error is invalid exactly when a diagnostic of one of
   the twelve Error kinds was pushed; diagnostics of the twelve Warning kinds never invalidate *)
Theorem C07_error_kind_invalidates :
  forall (ci_key : str -> str) (yaml_ok : str -> bool) (find_iq : str -> option (str * str))
    (unit_class : str -> N) (input : str) (x : Analysis.aext) (cfg : Analysis.acfg) 
    (dc : dcfg) (yaml_err_index : str -> option N) (yaml_std_bad : str -> list str)
    (yaml_has_key std_check : str -> str -> bool) (is_alnum : N -> bool) (unit_pq : str -> option N)
    (evs : list pevent) (st : dstate) (ds : list adiag),
  existsb is_perror evs = false ->
  drun ci_key yaml_ok find_iq unit_class input x cfg dc yaml_err_index yaml_std_bad yaml_has_key
    std_check is_alnum unit_pq dinit evs = Done (st, ds) ->
  (Analysis.is_valid (ds_a st) = false <-> (exists d : adiag, In d ds /\ In (ad_kind d) error_kinds)) /\
  (Forall (fun d : adiag => In (ad_kind d) warning_kinds) ds -> Analysis.is_valid (ds_a st) = true).
Proof. exact error_kind_invalidates. Qed.
Print Assumptions C07_error_kind_invalidates.

(* what parse_events (Model/Diag.v) reports with this collector: the parser's warnings and the trace of
   the decorated collector followed by the `>>` notice, each in order; PassResult::is_valid is "no Error
   in the trace" and agrees with the validity of Model/Analysis.v *)
Theorem C07_report_is_model_trace :
  forall (ci_key : str -> str) (yaml_ok : str -> bool) (find_iq : str -> option (str * str))
    (unit_class : str -> N) (input : str) (x : Analysis.aext) (cfg : Analysis.acfg) 
    (dc : dcfg) (yaml_err_index : str -> option N) (yaml_std_bad : str -> list str)
    (yaml_has_key std_check : str -> str -> bool) (is_alnum : N -> bool) (unit_pq : str -> option N)
    (dbg : bool) (evs : list pevent) (res : pass_result dstate),
  existsb is_perror evs = false ->
  parse_events dstate
    (astep ci_key yaml_ok find_iq unit_class input x cfg dc yaml_err_index yaml_std_bad yaml_has_key
       std_check is_alnum unit_pq) afinish dbg dinit evs = Done res ->
  exists (st : dstate) (ds : list adiag),
    drun ci_key yaml_ok find_iq unit_class input x cfg dc yaml_err_index yaml_std_bad yaml_has_key
      std_check is_alnum unit_pq dinit evs = Done (st, ds) /\
    filter is_analysis (diags res) = map to_sdiag (ds ++ dfinish st) /\
    filter sd_is_parse (diags res) = map of_pdiag (pdiags evs) /\
    is_valid res = negb (errs ds) /\ is_valid res = Analysis.is_valid (ds_a st).
Proof. exact report_is_trace. Qed.
Print Assumptions C07_report_is_model_trace.

(* a diagnostic placed on a construct by the step that processes the offending event is in the final
   report, with the same severity and first label (stream without parser error, any position) *)
Theorem C07_placed_reported :
  forall (ci_key : str -> str) (yaml_ok : str -> bool) (find_iq : str -> option (str * str))
    (unit_class : str -> N) (input : str) (x : Analysis.aext) (cfg : Analysis.acfg) 
    (dc : dcfg) (yaml_err_index : str -> option N) (yaml_std_bad : str -> list str)
    (yaml_has_key std_check : str -> str -> bool) (is_alnum : N -> bool) (unit_pq : str -> option N)
    (dbg : bool) (pre : list pevent) (ev : pevent) (post : list pevent) (res : pass_result dstate)
    (st : dstate) (d0 : list adiag) (st' : dstate) (ds : list adiag) (sev : severity) 
    (sp : span),
  existsb is_perror (pre ++ ev :: post) = false ->
  parse_events dstate
    (astep ci_key yaml_ok find_iq unit_class input x cfg dc yaml_err_index yaml_std_bad yaml_has_key
       std_check is_alnum unit_pq) afinish dbg dinit (pre ++ ev :: post) = 
  Done res ->
  drun ci_key yaml_ok find_iq unit_class input x cfg dc yaml_err_index yaml_std_bad yaml_has_key
    std_check is_alnum unit_pq dinit pre = Done (st, d0) ->
  dstep ci_key yaml_ok find_iq unit_class input x cfg dc yaml_err_index yaml_std_bad yaml_has_key
    std_check is_alnum unit_pq st ev = Done (st', ds) ->
  placed ds sev sp ->
  exists (d : sdiag) (l : span),
    In d (diags res) /\
    sd_sev d = sev /\ sd_stage d = StAnalysis /\ hd_error (sd_labels d) = Some l /\ span_within l sp.
Proof. exact placed_reported. Qed.
Print Assumptions C07_placed_reported.

(* dangling reference (1212-1225): an ingredient treated as a reference (`&`, or every ingredient in steps
   mode) whose name matches no earlier non-reference ingredient.  Error; first label: the component *)
Theorem C07_dangling_reference_placed :
  forall (ci_key : str -> str) (yaml_ok : str -> bool) (find_iq : str -> option (str * str))
    (unit_class : str -> N) (input : str) (x : Analysis.aext) (cfg : Analysis.acfg) 
    (dc : dcfg) (yaml_err_index : str -> option N) (yaml_std_bad : str -> list str)
    (yaml_has_key std_check : str -> str -> bool) (is_alnum : N -> bool) (unit_pq : str -> option N)
    (st : dstate) (i : ingredient) (st' : dstate) (ds : list adiag),
  Analysis.a_halted (ds_a st) = false ->
  in_step_block st ->
  i_inter i = None ->
  treated_as_ref ci_key (ds_a st) (Analysis.a_ingredients (ds_a st)) (imods i) (iname i) = true ->
  Analysis.same_name ci_key (Analysis.a_ingredients (ds_a st)) (iname i) = None ->
  dstep ci_key yaml_ok find_iq unit_class input x cfg dc yaml_err_index yaml_std_bad yaml_has_key
    std_check is_alnum unit_pq st (EvIngredient i) = Done (st', ds) -> placed ds SevError (i_span i).
Proof. exact dangling_reference_placed. Qed.
Print Assumptions C07_dangling_reference_placed.

(* ... cookware *)
Theorem C07_dangling_reference_cookware_placed :
  forall (ci_key : str -> str) (yaml_ok : str -> bool) (find_iq : str -> option (str * str))
    (unit_class : str -> N) (input : str) (x : Analysis.aext) (cfg : Analysis.acfg) 
    (dc : dcfg) (yaml_err_index : str -> option N) (yaml_std_bad : str -> list str)
    (yaml_has_key std_check : str -> str -> bool) (is_alnum : N -> bool) (unit_pq : str -> option N)
    (st : dstate) (c : cookware) (st' : dstate) (ds : list adiag),
  Analysis.a_halted (ds_a st) = false ->
  in_step_block st ->
  treated_as_ref ci_key (ds_a st) (Analysis.a_cookware (ds_a st)) (cmods c) (cname c) = true ->
  Analysis.same_name ci_key (Analysis.a_cookware (ds_a st)) (cname c) = None ->
  dstep ci_key yaml_ok find_iq unit_class input x cfg dc yaml_err_index yaml_std_bad yaml_has_key
    std_check is_alnum unit_pq st (EvCookware c) = Done (st', ds) -> placed ds SevError (c_span c).
Proof. exact dangling_reference_cookware_placed. Qed.
Print Assumptions C07_dangling_reference_cookware_placed.

(* forbidden modifiers: new (+) with ref (&) (1122-1129; with intermediate data 613-625).  Error; first
   label: the modifiers *)
Theorem C07_new_ref_modifiers_placed :
  forall (ci_key : str -> str) (yaml_ok : str -> bool) (find_iq : str -> option (str * str))
    (unit_class : str -> N) (input : str) (x : Analysis.aext) (cfg : Analysis.acfg) 
    (dc : dcfg) (yaml_err_index : str -> option N) (yaml_std_bad : str -> list str)
    (yaml_has_key std_check : str -> str -> bool) (is_alnum : N -> bool) (unit_pq : str -> option N)
    (st : dstate) (i : ingredient) (st' : dstate) (ds : list adiag),
  Analysis.a_halted (ds_a st) = false ->
  in_step_block st ->
  Events.m_new (imods i) && Events.m_ref (imods i) = true ->
  dstep ci_key yaml_ok find_iq unit_class input x cfg dc yaml_err_index yaml_std_bad yaml_has_key
    std_check is_alnum unit_pq st (EvIngredient i) = Done (st', ds) ->
  placed ds SevError (i_mods_span i).
Proof. exact new_ref_modifiers_placed. Qed.
Print Assumptions C07_new_ref_modifiers_placed.

(* ... cookware *)
Theorem C07_new_ref_modifiers_cookware_placed :
  forall (ci_key : str -> str) (yaml_ok : str -> bool) (find_iq : str -> option (str * str))
    (unit_class : str -> N) (input : str) (x : Analysis.aext) (cfg : Analysis.acfg) 
    (dc : dcfg) (yaml_err_index : str -> option N) (yaml_std_bad : str -> list str)
    (yaml_has_key std_check : str -> str -> bool) (is_alnum : N -> bool) (unit_pq : str -> option N)
    (st : dstate) (c : cookware) (st' : dstate) (ds : list adiag),
  Analysis.a_halted (ds_a st) = false ->
  in_step_block st ->
  Events.m_new (cmods c) && Events.m_ref (cmods c) = true ->
  dstep ci_key yaml_ok find_iq unit_class input x cfg dc yaml_err_index yaml_std_bad yaml_has_key
    std_check is_alnum unit_pq st (EvCookware c) = Done (st', ds) ->
  placed ds SevError (c_mods_span c).
Proof. exact new_ref_modifiers_cookware_placed. Qed.
Print Assumptions C07_new_ref_modifiers_cookware_placed.

(* forbidden modifiers: an intermediate reference with RECIPE, HIDDEN or NEW (613-625).  Error; first
   label: the modifiers *)
Theorem C07_intermediate_modifiers_placed :
  forall (ci_key : str -> str) (yaml_ok : str -> bool) (find_iq : str -> option (str * str))
    (unit_class : str -> N) (input : str) (x : Analysis.aext) (cfg : Analysis.acfg) 
    (dc : dcfg) (yaml_err_index : str -> option N) (yaml_std_bad : str -> list str)
    (yaml_has_key std_check : str -> str -> bool) (is_alnum : N -> bool) (unit_pq : str -> option N)
    (st : dstate) (i : ingredient) (d : interdata) (st' : dstate) (ds : list adiag),
  Analysis.a_halted (ds_a st) = false ->
  in_step_block st ->
  i_inter i = Some d ->
  Events.mods_intersects (imods i) Analysis.inter_invalid = true ->
  dstep ci_key yaml_ok find_iq unit_class input x cfg dc yaml_err_index yaml_std_bad yaml_has_key
    std_check is_alnum unit_pq st (EvIngredient i) = Done (st', ds) ->
  placed ds SevError (i_mods_span i).
Proof. exact intermediate_modifiers_placed. Qed.
Print Assumptions C07_intermediate_modifiers_placed.

(* out-of-range intermediate reference: the value resolves to nothing ([resolve_intermediate_ref] = None:
   0, beyond the steps of the section, beyond the past sections - C07_complete_intermediate_zero /
   _step_out_of_range / _section_out_of_range give that from the shape).  Error; first label: the `(..)` data *)
Theorem C07_intermediate_reference_placed :
  forall (ci_key : str -> str) (yaml_ok : str -> bool) (find_iq : str -> option (str * str))
    (unit_class : str -> N) (input : str) (x : Analysis.aext) (cfg : Analysis.acfg) 
    (dc : dcfg) (yaml_err_index : str -> option N) (yaml_std_bad : str -> list str)
    (yaml_has_key std_check : str -> str -> bool) (is_alnum : N -> bool) (unit_pq : str -> option N)
    (st : dstate) (i : ingredient) (d : interdata) (st' : dstate) (ds : list adiag),
  Analysis.a_halted (ds_a st) = false ->
  in_step_block st ->
  i_inter i = Some d ->
  Analysis.resolve_intermediate_ref (ds_a st) (abstract_inter d) = Done None ->
  dstep ci_key yaml_ok find_iq unit_class input x cfg dc yaml_err_index yaml_std_bad yaml_has_key
    std_check is_alnum unit_pq st (EvIngredient i) = Done (st', ds) -> placed ds SevError (im_span d).
Proof. exact intermediate_reference_placed. Qed.
Print Assumptions C07_intermediate_reference_placed.

(* conflicting reference, modifiers: a reference carrying a modifier (other than &) that its definition does
   not have among the inheritable ones (1176-1207).  Error; first label: the modifiers *)
Theorem C07_conflicting_modifiers_placed :
  forall (ci_key : str -> str) (yaml_ok : str -> bool) (find_iq : str -> option (str * str))
    (unit_class : str -> N) (input : str) (x : Analysis.aext) (cfg : Analysis.acfg) 
    (dc : dcfg) (yaml_err_index : str -> option N) (yaml_std_bad : str -> list str)
    (yaml_has_key std_check : str -> str -> bool) (is_alnum : N -> bool) (unit_pq : str -> option N)
    (st : dstate) (i : ingredient) (j : nat) (def : Analysis.component) (st' : dstate)
    (ds : list adiag),
  Analysis.a_halted (ds_a st) = false ->
  in_step_block st ->
  i_inter i = None ->
  refers_to ci_key (ds_a st) (Analysis.a_ingredients (ds_a st)) (imods i) (iname i) j ->
  nth_error (Analysis.a_ingredients (ds_a st)) j = Some def ->
  Events.mods_is_empty
    (Events.mods_diff
       (Events.mods_diff (imods i) (Events.mods_and (Analysis.c_mods def) Analysis.inherit_ingredient))
       Events.M_ref_only) = false ->
  dstep ci_key yaml_ok find_iq unit_class input x cfg dc yaml_err_index yaml_std_bad yaml_has_key
    std_check is_alnum unit_pq st (EvIngredient i) = Done (st', ds) ->
  placed ds SevError (i_mods_span i).
Proof. exact conflicting_modifiers_placed. Qed.
Print Assumptions C07_conflicting_modifiers_placed.

(* ... cookware *)
Theorem C07_conflicting_modifiers_cookware_placed :
  forall (ci_key : str -> str) (yaml_ok : str -> bool) (find_iq : str -> option (str * str))
    (unit_class : str -> N) (input : str) (x : Analysis.aext) (cfg : Analysis.acfg) 
    (dc : dcfg) (yaml_err_index : str -> option N) (yaml_std_bad : str -> list str)
    (yaml_has_key std_check : str -> str -> bool) (is_alnum : N -> bool) (unit_pq : str -> option N)
    (st : dstate) (c : cookware) (j : nat) (def : Analysis.component) (st' : dstate) 
    (ds : list adiag),
  Analysis.a_halted (ds_a st) = false ->
  in_step_block st ->
  refers_to ci_key (ds_a st) (Analysis.a_cookware (ds_a st)) (cmods c) (cname c) j ->
  nth_error (Analysis.a_cookware (ds_a st)) j = Some def ->
  Events.mods_is_empty
    (Events.mods_diff
       (Events.mods_diff (cmods c) (Events.mods_and (Analysis.c_mods def) Analysis.inherit_cookware))
       Events.M_ref_only) = false ->
  dstep ci_key yaml_ok find_iq unit_class input x cfg dc yaml_err_index yaml_std_bad yaml_has_key
    std_check is_alnum unit_pq st (EvCookware c) = Done (st', ds) ->
  placed ds SevError (c_mods_span c).
Proof. exact conflicting_modifiers_cookware_placed. Qed.
Print Assumptions C07_conflicting_modifiers_cookware_placed.

(* note on a reference (701-708, 1426-1447): a component that refers to a definition and has a note.
   Error; first label: the note text *)
Theorem C07_note_on_reference_placed :
  forall (ci_key : str -> str) (yaml_ok : str -> bool) (find_iq : str -> option (str * str))
    (unit_class : str -> N) (input : str) (x : Analysis.aext) (cfg : Analysis.acfg) 
    (dc : dcfg) (yaml_err_index : str -> option N) (yaml_std_bad : str -> list str)
    (yaml_has_key std_check : str -> str -> bool) (is_alnum : N -> bool) (unit_pq : str -> option N)
    (st : dstate) (i : ingredient) (j : nat) (n : text) (st' : dstate) (ds : list adiag),
  Analysis.a_halted (ds_a st) = false ->
  in_step_block st ->
  i_inter i = None ->
  refers_to ci_key (ds_a st) (Analysis.a_ingredients (ds_a st)) (imods i) (iname i) j ->
  i_note i = Some n ->
  dstep ci_key yaml_ok find_iq unit_class input x cfg dc yaml_err_index yaml_std_bad yaml_has_key
    std_check is_alnum unit_pq st (EvIngredient i) = Done (st', ds) ->
  placed ds SevError (text_span n).
Proof. exact note_on_reference_placed. Qed.
Print Assumptions C07_note_on_reference_placed.

(* ... cookware (926-933) *)
Theorem C07_note_on_reference_cookware_placed :
  forall (ci_key : str -> str) (yaml_ok : str -> bool) (find_iq : str -> option (str * str))
    (unit_class : str -> N) (input : str) (x : Analysis.aext) (cfg : Analysis.acfg) 
    (dc : dcfg) (yaml_err_index : str -> option N) (yaml_std_bad : str -> list str)
    (yaml_has_key std_check : str -> str -> bool) (is_alnum : N -> bool) (unit_pq : str -> option N)
    (st : dstate) (c : cookware) (j : nat) (n : text) (st' : dstate) (ds : list adiag),
  Analysis.a_halted (ds_a st) = false ->
  in_step_block st ->
  refers_to ci_key (ds_a st) (Analysis.a_cookware (ds_a st)) (cmods c) (cname c) j ->
  c_note c = Some n ->
  dstep ci_key yaml_ok find_iq unit_class input x cfg dc yaml_err_index yaml_std_bad yaml_has_key
    std_check is_alnum unit_pq st (EvCookware c) = Done (st', ds) -> placed ds SevError (text_span n).
Proof. exact note_on_reference_cookware_placed. Qed.
Print Assumptions C07_note_on_reference_cookware_placed.

(* conflicting reference, quantities (720-732): a reference with a quantity to a definition that has a
   quantity and was made outside a step (components mode).  Error; first label: the quantity of the reference *)
Theorem C07_conflicting_quantity_placed :
  forall (ci_key : str -> str) (yaml_ok : str -> bool) (find_iq : str -> option (str * str))
    (unit_class : str -> N) (input : str) (x : Analysis.aext) (cfg : Analysis.acfg) 
    (dc : dcfg) (yaml_err_index : str -> option N) (yaml_std_bad : str -> list str)
    (yaml_has_key std_check : str -> str -> bool) (is_alnum : N -> bool) (unit_pq : str -> option N)
    (st : dstate) (i : ingredient) (j : nat) (def : Analysis.component) (q : quantity) 
    (st' : dstate) (ds : list adiag),
  Analysis.a_halted (ds_a st) = false ->
  in_step_block st ->
  i_inter i = None ->
  refers_to ci_key (ds_a st) (Analysis.a_ingredients (ds_a st)) (imods i) (iname i) j ->
  nth_error (Analysis.a_ingredients (ds_a st)) j = Some def ->
  Events.is_some (Analysis.c_qty def) = true ->
  def_in_step def = false ->
  i_qty i = Some q ->
  dstep ci_key yaml_ok find_iq unit_class input x cfg dc yaml_err_index yaml_std_bad yaml_has_key
    std_check is_alnum unit_pq st (EvIngredient i) = Done (st', ds) -> placed ds SevError (q_span q).
Proof. exact conflicting_quantity_placed. Qed.
Print Assumptions C07_conflicting_quantity_placed.

(* ... cookware (936-948) *)
Theorem C07_conflicting_quantity_cookware_placed :
  forall (ci_key : str -> str) (yaml_ok : str -> bool) (find_iq : str -> option (str * str))
    (unit_class : str -> N) (input : str) (x : Analysis.aext) (cfg : Analysis.acfg) 
    (dc : dcfg) (yaml_err_index : str -> option N) (yaml_std_bad : str -> list str)
    (yaml_has_key std_check : str -> str -> bool) (is_alnum : N -> bool) (unit_pq : str -> option N)
    (st : dstate) (c : cookware) (j : nat) (def : Analysis.component) (v : qvalue) 
    (qsp : span) (st' : dstate) (ds : list adiag),
  Analysis.a_halted (ds_a st) = false ->
  in_step_block st ->
  refers_to ci_key (ds_a st) (Analysis.a_cookware (ds_a st)) (cmods c) (cname c) j ->
  nth_error (Analysis.a_cookware (ds_a st)) j = Some def ->
  Events.is_some (Analysis.c_qty def) = true ->
  def_in_step def = false ->
  c_qty c = Some (v, qsp) ->
  dstep ci_key yaml_ok find_iq unit_class input x cfg dc yaml_err_index yaml_std_bad yaml_has_key
    std_check is_alnum unit_pq st (EvCookware c) = Done (st', ds) -> placed ds SevError qsp.
Proof. exact conflicting_quantity_cookware_placed. Qed.
Print Assumptions C07_conflicting_quantity_cookware_placed.

(* conflicting reference, units (ADVANCED_UNITS, 639-699): the unit of the reference cannot be added to that
   of the definition or of one of its earlier references.  Warning (ctx.warn; extensions.md: "checks that
   units between references are compatible"); first label: the unit of the reference, or its quantity when
   it has no unit ([uq_span]) *)
Theorem C07_incompatible_units_placed :
  forall (ci_key : str -> str) (yaml_ok : str -> bool) (find_iq : str -> option (str * str))
    (unit_class : str -> N) (input : str) (x : Analysis.aext) (cfg : Analysis.acfg) 
    (dc : dcfg) (yaml_err_index : str -> option N) (yaml_std_bad : str -> list str)
    (yaml_has_key std_check : str -> str -> bool) (is_alnum : N -> bool) (unit_pq : str -> option N)
    (st : dstate) (i : ingredient) (j : nat) (def : Analysis.component) (rf : list nat) 
    (b : bool) (q : quantity) (k : nat) (c : Analysis.component) (qi : Analysis.qinfo) 
    (st' : dstate) (ds : list adiag),
  Analysis.a_halted (ds_a st) = false ->
  in_step_block st ->
  i_inter i = None ->
  Analysis.x_advanced x = true ->
  refers_to ci_key (ds_a st) (Analysis.a_ingredients (ds_a st)) (imods i) (iname i) j ->
  nth_error (Analysis.a_ingredients (ds_a st)) j = Some def ->
  Analysis.c_rel def = Analysis.RDef rf b ->
  i_qty i = Some q ->
  In k (j :: rf) ->
  nth_error (Analysis.a_ingredients (ds_a st)) k = Some c ->
  Analysis.c_qty c = Some qi ->
  compatible_unit unit_pq (Analysis.qi_unit qi) (option_map text_trimmed (q_unit q)) <> IcOk ->
  dstep ci_key yaml_ok find_iq unit_class input x cfg dc yaml_err_index yaml_std_bad yaml_has_key
    std_check is_alnum unit_pq st (EvIngredient i) = Done (st', ds) ->
  placed ds SevWarning (uq_span q).
Proof. exact incompatible_units_placed. Qed.
Print Assumptions C07_incompatible_units_placed.

(* non-time timer unit (ADVANCED_UNITS, 996-1016): the unit is unknown to the converter (class 0) or not a
   time unit (class 2).  Error; first label: the unit text *)
Theorem C07_timer_unit_placed :
  forall (ci_key : str -> str) (yaml_ok : str -> bool) (find_iq : str -> option (str * str))
    (unit_class : str -> N) (input : str) (x : Analysis.aext) (cfg : Analysis.acfg) 
    (dc : dcfg) (yaml_err_index : str -> option N) (yaml_std_bad : str -> list str)
    (yaml_has_key std_check : str -> str -> bool) (is_alnum : N -> bool) (unit_pq : str -> option N)
    (st : dstate) (t : timer) (q : quantity) (u : text) (st' : dstate) (ds : list adiag),
  Analysis.a_halted (ds_a st) = false ->
  in_step_block st ->
  Analysis.x_advanced x = true ->
  t_qty t = Some q ->
  q_unit q = Some u ->
  unit_class (text_trimmed u) <> 1 ->
  dstep ci_key yaml_ok find_iq unit_class input x cfg dc yaml_err_index yaml_std_bad yaml_has_key
    std_check is_alnum unit_pq st (EvTimer t) = Done (st', ds) -> placed ds SevError (text_span u).
Proof. exact timer_unit_placed. Qed.
Print Assumptions C07_timer_unit_placed.

(* ... and a timer whose duration is text (990-995).  Error; first label: the value *)
Theorem C07_timer_text_value_placed :
  forall (ci_key : str -> str) (yaml_ok : str -> bool) (find_iq : str -> option (str * str))
    (unit_class : str -> N) (input : str) (x : Analysis.aext) (cfg : Analysis.acfg) 
    (dc : dcfg) (yaml_err_index : str -> option N) (yaml_std_bad : str -> list str)
    (yaml_has_key std_check : str -> str -> bool) (is_alnum : N -> bool) (unit_pq : str -> option N)
    (st : dstate) (t : timer) (q : quantity) (st' : dstate) (ds : list adiag),
  Analysis.a_halted (ds_a st) = false ->
  in_step_block st ->
  Analysis.x_advanced x = true ->
  t_qty t = Some q ->
  Events.pvalue_is_text (abstract_value (qv (q_val q))) = true ->
  dstep ci_key yaml_ok find_iq unit_class input x cfg dc yaml_err_index yaml_std_bad yaml_has_key
    std_check is_alnum unit_pq st (EvTimer t) = Done (st', ds) ->
  placed ds SevError (qv_span (q_val q)).
Proof. exact timer_text_value_placed. Qed.
Print Assumptions C07_timer_text_value_placed.

(* bad mode value (356-371): `[mode]` / `[define]` with none of the six spellings, `[duplicate]` with none
   of the four ([bad_config_value]).  Error; first label: the value text *)
Theorem C07_bad_mode_value_placed :
  forall (ci_key : str -> str) (yaml_ok : str -> bool) (find_iq : str -> option (str * str))
    (unit_class : str -> N) (input : str) (x : Analysis.aext) (cfg : Analysis.acfg) 
    (dc : dcfg) (yaml_err_index : str -> option N) (yaml_std_bad : str -> list str)
    (yaml_has_key std_check : str -> str -> bool) (is_alnum : N -> bool) (unit_pq : str -> option N)
    (st : dstate) (k v : text) (ck : list N) (st' : dstate) (ds : list adiag),
  Analysis.a_halted (ds_a st) = false ->
  Analysis.x_modes x = true ->
  text_trimmed k = 91 :: ck ++ [93] ->
  bad_config_value ck (text_outer_trimmed v) = true ->
  dstep ci_key yaml_ok find_iq unit_class input x cfg dc yaml_err_index yaml_std_bad yaml_has_key
    std_check is_alnum unit_pq st (EvMetadata k v) = Done (st', ds) ->
  placed ds SevError (text_span v).
Proof. exact bad_mode_value_placed. Qed.
Print Assumptions C07_bad_mode_value_placed.

(* malformed front matter (238-252): exactly one diagnostic, of severity Error, labelled with the position
   serde_yaml reports; when it reports none: with the whole front matter text ([fm_fallback], the code as it
   is now: 45a4888), with nothing before that repair *)
Theorem C07_bad_front_matter_error :
  forall (ci_key : str -> str) (yaml_ok : str -> bool) (find_iq : str -> option (str * str))
    (unit_class : str -> N) (input : str) (x : Analysis.aext) (cfg : Analysis.acfg) 
    (dc : dcfg) (yaml_err_index : str -> option N) (yaml_std_bad : str -> list str)
    (yaml_has_key std_check : str -> str -> bool) (is_alnum : N -> bool) (unit_pq : str -> option N)
    (st : dstate) (t : text) (st' : dstate) (ds : list adiag),
  Analysis.a_halted (ds_a st) = false ->
  yaml_ok (text_str t) = false ->
  dstep ci_key yaml_ok find_iq unit_class input x cfg dc yaml_err_index yaml_std_bad yaml_has_key
    std_check is_alnum unit_pq st (EvYaml t) = Done (st', ds) ->
  ds =
  [mk KYamlError
     match yaml_err_index (text_str t) with
     | Some i => [(248, pos (fst (text_span t) + i))]
     | None => if fm_fallback dc then [(248, text_span t)] else []
     end].
Proof. exact bad_front_matter_error. Qed.
Print Assumptions C07_bad_front_matter_error.

(* ... the code as it is now: whatever serde_yaml answers - no location, or a location inside the text it
   was given (C04's oracle hypothesis yaml_index_ok implies that) - the first label lies in the front matter
   text *)
Theorem C07_bad_front_matter_placed :
  forall (ci_key : str -> str) (yaml_ok : str -> bool) (find_iq : str -> option (str * str))
    (unit_class : str -> N) (input : str) (x : Analysis.aext) (cfg : Analysis.acfg) 
    (dc : dcfg) (yaml_err_index : str -> option N) (yaml_std_bad : str -> list str)
    (yaml_has_key std_check : str -> str -> bool) (is_alnum : N -> bool) (unit_pq : str -> option N)
    (st : dstate) (t : text) (st' : dstate) (ds : list adiag),
  fm_fallback dc = true ->
  Analysis.a_halted (ds_a st) = false ->
  ev_fact (EvYaml t) ->
  yaml_ok (text_str t) = false ->
  (forall idx : N, yaml_err_index (text_str t) = Some idx -> idx <= blen (text_str t)) ->
  dstep ci_key yaml_ok find_iq unit_class input x cfg dc yaml_err_index yaml_std_bad yaml_has_key
    std_check is_alnum unit_pq st (EvYaml t) = Done (st', ds) -> placed ds SevError (text_span t).
Proof. exact bad_front_matter_placed. Qed.
Print Assumptions C07_bad_front_matter_placed.

(* the code before 45a4888: when serde_yaml gives no location (Error::location() = None, e.g. "more than
   one document": `---\na: 1\n...\nb: 2\n---`) the Error diagnostic has no label at all, so no label
   lies on anything *)
Theorem C07_bad_front_matter_unlabeled_before_fix :
  forall (ci_key : str -> str) (yaml_ok : str -> bool) (find_iq : str -> option (str * str))
    (unit_class : str -> N) (input : str) (x : Analysis.aext) (cfg : Analysis.acfg) 
    (dc : dcfg) (yaml_err_index : str -> option N) (yaml_std_bad : str -> list str)
    (yaml_has_key std_check : str -> str -> bool) (is_alnum : N -> bool) (unit_pq : str -> option N)
    (st : dstate) (t : text) (st' : dstate) (ds : list adiag),
  fm_fallback dc = false ->
  Analysis.a_halted (ds_a st) = false ->
  yaml_ok (text_str t) = false ->
  yaml_err_index (text_str t) = None ->
  dstep ci_key yaml_ok find_iq unit_class input x cfg dc yaml_err_index yaml_std_bad yaml_has_key
    std_check is_alnum unit_pq st (EvYaml t) = Done (st', ds) ->
  errs ds = true /\ (forall (sev : severity) (sp : span), ~ placed ds sev sp).
Proof. exact bad_front_matter_unlabeled_before_fix. Qed.
Print Assumptions C07_bad_front_matter_unlabeled_before_fix.

(* ... and that happens: the placement statement was FALSE on the code before 45a4888.  Witness: the
   parser model on "---\na: 1\n...\nb: 2\n---\nhi\n" ([DiagExamples.t_fm_multi]) with an oracle that, like
   serde_yaml, rejects it without a location; the implementation of 17e6a01 / 200c896 agreed (recipe
   harness: ["e","Analysis",[]]); found here, repaired in /repo by 45a4888 *)
Theorem C07_front_matter_unlabeled_refuted_before_fix :
  exists
    (ci_key : str -> str) (yaml_ok : str -> bool) (find_iq : str -> option (str * str)) 
  (unit_class : str -> N) (input : str) (x : Analysis.aext) (cfg : Analysis.acfg) 
  (yaml_err_index : str -> option N) (yaml_std_bad : str -> list str) (yaml_has_key
                                                                       std_check : 
                                                                       str -> str -> bool) 
  (is_alnum : N -> bool) (unit_pq : str -> option N) (st : dstate) (t : text) 
  (st' : dstate) (ds : list adiag),
    DiagExamples.ex_at DiagExamples.t_fm_multi 0 = Some (st, EvYaml t) /\
    Analysis.a_halted (ds_a st) = false /\
    ev_fact (EvYaml t) /\
    yaml_ok (text_str t) = false /\
    dstep ci_key yaml_ok find_iq unit_class input x cfg dcfg_before_45a4888 yaml_err_index
      yaml_std_bad yaml_has_key std_check is_alnum unit_pq st (EvYaml t) = 
    Done (st', ds) /\
    map to_sdiag ds = [DiagExamples.err []] /\
    (forall (sev : severity) (sp : span), ~ placed ds sev sp).
Proof. exact DiagExamples.front_matter_unlabeled_refuted_before_fix. Qed.
Print Assumptions C07_front_matter_unlabeled_refuted_before_fix.

(* every label of every diagnostic of the model (and of the `>>` notice) is produced by a site of the
   enumeration of Model/AnalysisLabels.v with the same source line, on the events seen so far ([from_site];
   the one label that enumeration of 17e6a01 does not have yet is the whole front matter text of 45a4888, the
   span of a parser event); with C04_analysis_labels_ok / C04_event_spans_ok: in bounds and on character
   boundaries *)
Theorem C07_labels_from_sites :
  forall (ci_key : str -> str) (yaml_ok : str -> bool) (find_iq : str -> option (str * str))
    (unit_class : str -> N) (input : str) (x : Analysis.aext) (cfg : Analysis.acfg) 
    (dc : dcfg) (yaml_err_index : str -> option N) (yaml_std_bad : str -> list str)
    (yaml_has_key std_check : str -> str -> bool) (is_alnum : N -> bool) (unit_pq : str -> option N)
    (evs : list pevent) (st : dstate) (seen : list pevent) (st' : dstate) 
    (ds : list adiag),
  locs_in st seen ->
  drun ci_key yaml_ok find_iq unit_class input x cfg dc yaml_err_index yaml_std_bad yaml_has_key
    std_check is_alnum unit_pq st evs = Done (st', ds) ->
  all_from_sites yaml_err_index (seen ++ evs) (ds ++ dfinish st') /\ locs_in st' (seen ++ evs).
Proof. exact drun_labels_from_sites. Qed.
Print Assumptions C07_labels_from_sites.

(* soundness over the analysis model: on a clean stream ([clean_run]: decidable, see Proofs/AnalysisSound.v)
   the collector does not panic and pushes NO diagnostic, for every extension record and oracle *)
Theorem C07_clean_run_sound :
  forall (ci_key : str -> str) (yaml_ok : str -> bool) (find_iq : str -> option (str * str))
    (unit_class : str -> N) (input : str) (x : Analysis.aext) (cfg : Analysis.acfg) 
    (dc : dcfg) (yaml_err_index : str -> option N) (yaml_std_bad : str -> list str)
    (yaml_has_key std_check : str -> str -> bool) (is_alnum : N -> bool) (unit_pq : str -> option N)
    (evs : list pevent) (st : dstate),
  Analysis.a_halted (ds_a st) = false ->
  clean_run ci_key yaml_ok find_iq unit_class input x cfg dc yaml_err_index yaml_std_bad yaml_has_key
    std_check is_alnum unit_pq st evs = true ->
  exists st' : dstate,
    drun ci_key yaml_ok find_iq unit_class input x cfg dc yaml_err_index yaml_std_bad yaml_has_key
      std_check is_alnum unit_pq st evs = Done (st', []) /\
    Analysis.a_halted (ds_a st') = false /\ existsb is_perror evs = false.
Proof. exact clean_run_sound. Qed.
Print Assumptions C07_clean_run_sound.

(* ... and through parse_events: the report of a clean stream holds nothing but the `>>` deprecation
   notice (one Warning, present exactly when a non-config `>>` entry was seen), and the result is valid.
   Partial with respect to [C07_full_statement]: clean streams instead of the event streams of all
   well-formed recipes (no link to the printer of C01, no parser-stage part) *)
Theorem C07_analysis_sound_partial :
  forall (ci_key : str -> str) (yaml_ok : str -> bool) (find_iq : str -> option (str * str))
    (unit_class : str -> N) (input : str) (x : Analysis.aext) (cfg : Analysis.acfg) 
    (dc : dcfg) (yaml_err_index : str -> option N) (yaml_std_bad : str -> list str)
    (yaml_has_key std_check : str -> str -> bool) (is_alnum : N -> bool) (unit_pq : str -> option N)
    (dbg : bool) (evs : list pevent) (res : pass_result dstate),
  clean_run ci_key yaml_ok find_iq unit_class input x cfg dc yaml_err_index yaml_std_bad yaml_has_key
    std_check is_alnum unit_pq dinit evs = true ->
  parse_events dstate
    (astep ci_key yaml_ok find_iq unit_class input x cfg dc yaml_err_index yaml_std_bad yaml_has_key
       std_check is_alnum unit_pq) afinish dbg dinit evs = Done res ->
  exists st : dstate,
    drun ci_key yaml_ok find_iq unit_class input x cfg dc yaml_err_index yaml_std_bad yaml_has_key
      std_check is_alnum unit_pq dinit evs = Done (st, []) /\
    diags res = map to_sdiag (dfinish st) /\
    is_valid res = true /\
    (forall d : sdiag, In d (diags res) -> sd_sev d = SevWarning /\ sd_stage d = StAnalysis) /\
    (ds_used st = [] -> diags res = []).
Proof. exact analysis_sound. Qed.
Print Assumptions C07_analysis_sound_partial.

(* soundness from source texts.  [d] is a document (Model/Printer.v: `>>` lines, section lines, step blocks,
   `>` blocks), [tp] its layout tape; [Printer.print_doc d tp] the text.  Hypotheses, all decidable on the printer's
   input given the oracles:
     Printer.doc_ok        the printer class of C01 (tokens keep their identity, blocks well formed, layout);
     Denote.adoc_ok        the class of C01_parse_print_partial: nothing the analysis reports as an ERROR (bad mode
                           value, dangling / conflicting reference, note or second quantity on a reference, bad
                           intermediate reference, timer unit under ADVANCED_UNITS);
     DenoteQuiet.quiet_doc nothing it reports as a WARNING: no switch to text mode, unknown `[..]` config key, unaccepted value of a standard
                           key / time override in a `>>` entry, alphanumeric text omitted in components mode,
                           scaling lock without effect, redundant `+` / `&`, text against number between a
                           reference and its definition, incompatible units between references (ADVANCED_UNITS).
   Text mode is excluded by construction: there every component makes the code warn "Ignoring .. in text mode".
   Conclusion, for every Unicode classification, extension set of the parser, extension record of the pass,
   oracle and source text [input] given to the collector (in particular the printed text itself): the pipeline
   model returns [res] with an output, the output is the recipe [Denote.denote] of the document, [res] is valid,
   and the report is [notice_only n]: empty when no `>>` entry is an ordinary entry (n = 0), otherwise exactly
   one diagnostic, a Warning of the analysis stage with n labels (the deprecation notice). *)
Theorem C07_printed_doc_sound :
  forall (ci_key : str -> str) (yaml_ok : str -> bool) (find_iq : str -> option (str * str))
    (unit_class : str -> N) (input : str) (x : Analysis.aext)
    (dc : dcfg) (yaml_err_index : str -> option N) (yaml_std_bad : str -> list str)
    (yaml_has_key std_check : str -> str -> bool) (is_alnum : N -> bool) (unit_pq : str -> option N)
    (U : N -> Lexer.ucls) (cfg : pcfg) (d : list Printer.block) (tp : Printer.dtape),
  Printer.doc_ok U cfg d tp = true ->
  Denote.adoc_ok ci_key find_iq unit_class x d = true ->
  DenoteQuiet.quiet_doc ci_key x std_check is_alnum unit_pq d = true ->
  exists (res : pass_result dstate) (st : dstate),
    parse U cfg dstate
      (astep ci_key yaml_ok find_iq unit_class input x Analysis.cfgF dc yaml_err_index yaml_std_bad yaml_has_key
         std_check is_alnum unit_pq) afinish dinit (Printer.print_doc d tp) = Done res /\
    pr_output res = Some st /\
    Analysis.output (ds_a st) = Some (Denote.denote ci_key find_iq (Analysis.x_inline x) (Analysis.x_modes x) d) /\
    is_valid res = true /\
    PrintedDocSound.notice_only (length (DenoteQuiet.plain_metas x d)) (diags res).
Proof. exact PrintedDocSound.printed_doc_sound. Qed.
Print Assumptions C07_printed_doc_sound.

(* ... and behind a YAML front matter ([Printer.print_fm_doc]: no `>>` entry in the document): with a front
   matter that serde_yaml accepts, whose standard keys have accepted values and where `time` does not meet
   `prep time` / `cook time` ([PrintedDocSound.fm_quiet], on the three YAML oracles), the report is empty *)
Theorem C07_printed_fm_doc_sound :
  forall (ci_key : str -> str) (yaml_ok : str -> bool) (find_iq : str -> option (str * str))
    (unit_class : str -> N) (input : str) (x : Analysis.aext)
    (dc : dcfg) (yaml_err_index : str -> option N) (yaml_std_bad : str -> list str)
    (yaml_has_key std_check : str -> str -> bool) (is_alnum : N -> bool) (unit_pq : str -> option N)
    (U : N -> Lexer.ucls) (cfg : pcfg) (y : str) (ft : Printer.fmtape) (d : list Printer.block) (tp : Printer.dtape),
  Printer.fm_doc_ok U cfg y ft d tp = true ->
  Denote.adoc_ok ci_key find_iq unit_class x d = true ->
  DenoteQuiet.quiet_doc ci_key x std_check is_alnum unit_pq d = true ->
  PrintedDocSound.fm_quiet yaml_ok yaml_std_bad yaml_has_key y = true ->
  exists (res : pass_result dstate) (st : dstate),
    parse U cfg dstate
      (astep ci_key yaml_ok find_iq unit_class input x Analysis.cfgF dc yaml_err_index yaml_std_bad yaml_has_key
         std_check is_alnum unit_pq) afinish dinit (Printer.print_fm_doc y ft d tp) = Done res /\
    pr_output res = Some st /\
    Analysis.output (ds_a st) = Some (Denote.denote ci_key find_iq (Analysis.x_inline x) (Analysis.x_modes x) d) /\
    is_valid res = true /\ diags res = [].
Proof. exact PrintedDocSound.printed_fm_doc_sound. Qed.
Print Assumptions C07_printed_fm_doc_sound.

(* what [notice_only] says, spelled out *)
Theorem C07_notice_only_spec :
  forall (n : nat) (ds : list sdiag),
    PrintedDocSound.notice_only n ds <->
    (n = 0%nat /\ ds = []) \/
    (n <> 0%nat /\ exists w, ds = [w] /\ sd_sev w = SevWarning /\ sd_stage w = StAnalysis /\ length (sd_labels w) = n).
Proof.
  intros n ds. unfold PrintedDocSound.notice_only. destruct n as [|n']; split.
  - intro H. left. auto.
  - intros [[_ H]|[H _]]; [exact H|contradiction].
  - intro H. right. split; [discriminate|exact H].
  - intros [[H _]|[_ H]]; [discriminate|exact H].
Qed.
Print Assumptions C07_notice_only_spec.

(* the hypotheses of the placement theorems are satisfiable and the clean class is not trivial: for
   each family the parser model is run on the construct of the catalogue, the collector on the events
   before it, and the state reached and the offending event satisfy the hypotheses (with the
   diagnostic that results, e.g. `@&zznowhere{}` -> Error [(0, 13)]); a 26-event recipe with front
   matter, config entry, two sections, definitions, references, cookware and timers is clean; a document
   with four mode switches and one ordinary `>>` entry is in the three classes of C07_printed_doc_sound
   (its printed text was replayed on the implementation: valid, the notice with one label), and each of
   two documents with a redundant `+` / a letter omitted in components mode is in the class of C01 but
   not in [quiet_doc] (the implementation warns) *)
Definition C07_examples :=
  (DiagExamples.ex_dangling_reference, DiagExamples.ex_dangling_reference_cookware,
   DiagExamples.ex_new_ref_modifiers, DiagExamples.ex_intermediate_modifiers,
   DiagExamples.ex_intermediate_reference, DiagExamples.ex_conflicting_modifiers,
   DiagExamples.ex_conflicting_modifiers_cookware, DiagExamples.ex_note_on_reference,
   DiagExamples.ex_note_on_reference_cookware, DiagExamples.ex_conflicting_quantity,
   DiagExamples.ex_conflicting_quantity_cookware, DiagExamples.ex_incompatible_units,
   DiagExamples.ex_timer_unit, DiagExamples.ex_timer_text_value, DiagExamples.ex_bad_mode_value,
   DiagExamples.ex_bad_front_matter, DiagExamples.ex_bad_front_matter_unlocated,
   DiagExamples.ex_clean_stream, DiagExamples.ex_clean_stream_notice, DiagExamples.ex_unclean_stream,
   PrintedDocSound.Ex.ex_printed_doc, PrintedDocSound.Ex.ex_not_quiet).

(* ================================================================ the full statement
   (not a theorem: decided per run by the monitor of checks/c07.py on the implementation, and -
   for the parser's diagnostics - by the L-ev correspondence on the same inputs; its first conjunct is
   C07_printed_doc_sound / C07_printed_fm_doc_sound when [wf] is the class of those theorems).
   [wf cfg s]: s is a well-formed recipe for the extensions of cfg (the image of the printer of
   C01); [placed cfg s err sp]: s is a well-formed recipe into which one construct of the
   catalogue with documented severity [err] was spliced at byte span [sp]; [notice s d]: d is the
   `>>` deprecation notice of s. *)
Definition label_touches (l sp : span) : Prop :=
  if fst l =? snd l then fst sp <= fst l <= snd sp else fst l < snd sp /\ fst sp < snd l.

Definition C07_full_statement
    (wf : pcfg -> str -> Prop) (placed : pcfg -> str -> bool -> span -> Prop) (notice : str -> sdiag -> Prop) : Prop :=
  forall U cfg St astep afinish (init : St) s res,
    parse U cfg St astep afinish init s = Done res ->
    (wf cfg s -> is_valid res = true /\ forall d, In d (diags res) -> sd_is_error d = false /\ notice s d) /\
    (forall err sp, placed cfg s err sp ->
       exists d l, In d (diags res) /\ sd_is_error d = err /\ hd_error (sd_labels d) = Some l /\ label_touches l sp) /\
    is_valid res = has_output res && negb (existsb sd_is_error (diags res)).

(* ================================================================ the diagnostics of the CODE and the constructors
   of the models.  The theorems above quantify over the diagnostics of the models: the codes D_.. the parser model
   builds with [error] / [warn], the 24 kinds of Model/AnalysisDiag.v.  gen/gen_diags.py reads, on every run of the
   check, every place of the non-test code of src/parser, src/analysis, src/lexer, src/metadata.rs, src/lib.rs and
   src/error.rs where a diagnostic is made (error!(..), warning!(..), SourceDiag::error / ::warning / ::unlabeled,
   .into_source_diag(..), the struct literals of error.rs) or a diagnostic made elsewhere is pushed, into
   Gen/DiagSites.v - (stage, file, enclosing fn, how, severity of the macro, the push methods seen, ordinal in the
   fn, constructor of the models, message), no line numbers.  The constructor is named by the generator from the
   dictionary of Model/DiagMap.v (by key and message, else message, else key, else position; else "unknown").
   What is PINNED is coarse: per (stage, file) the set of (severity, constructor).  Moving a diagnostic to another
   function, reordering, regrouping, building or pushing it another way, rewording it: harmless.  A diagnostic
   nobody can name, a constructor that loses its last site in a file, a changed severity: the rows change. *)
From Coq Require Import String.
From CL Require Import Gen.DiagSites Model.DiagMap.
From CL Require Proofs.DiagMapProofs Proofs.DiagSeverity.
Local Open Scope string_scope.

Theorem C07_diag_inventory : DiagSites.summary = [
  (AtAnalysis, "event_consumer", IsDynamic, "Unmodelled callback_why");
  (AtAnalysis, "event_consumer", IsError, "AKind KConflictModifiers");
  (AtAnalysis, "event_consumer", IsError, "AKind KConflictQuantity");
  (AtAnalysis, "event_consumer", IsError, "AKind KInterBounds");
  (AtAnalysis, "event_consumer", IsError, "AKind KInterModifiers");
  (AtAnalysis, "event_consumer", IsError, "AKind KInterZero");
  (AtAnalysis, "event_consumer", IsError, "AKind KInvalidConfigValue");
  (AtAnalysis, "event_consumer", IsError, "AKind KNoteOnReference");
  (AtAnalysis, "event_consumer", IsError, "AKind KRefNotFound");
  (AtAnalysis, "event_consumer", IsError, "AKind KTimerUnitNotTime");
  (AtAnalysis, "event_consumer", IsError, "AKind KTimerUnitUnknown");
  (AtAnalysis, "event_consumer", IsError, "AKind KTimerValueText");
  (AtAnalysis, "event_consumer", IsError, "AKind KYamlError");
  (AtAnalysis, "event_consumer", IsError, "Ctor");
  (AtAnalysis, "event_consumer", IsWarning, "AKind KDeprecated");
  (AtAnalysis, "event_consumer", IsWarning, "AKind KIgnoredComponent");
  (AtAnalysis, "event_consumer", IsWarning, "AKind KIgnoredText");
  (AtAnalysis, "event_consumer", IsWarning, "AKind KIncompatibleUnits");
  (AtAnalysis, "event_consumer", IsWarning, "AKind KRedundantModifier");
  (AtAnalysis, "event_consumer", IsWarning, "AKind KScalingLock");
  (AtAnalysis, "event_consumer", IsWarning, "AKind KStdEntryMeta");
  (AtAnalysis, "event_consumer", IsWarning, "AKind KStdEntryYaml");
  (AtAnalysis, "event_consumer", IsWarning, "AKind KTextValueInRef");
  (AtAnalysis, "event_consumer", IsWarning, "AKind KTimeOverridden");
  (AtAnalysis, "event_consumer", IsWarning, "AKind KTimeOverridenYaml");
  (AtAnalysis, "event_consumer", IsWarning, "AKind KUnknownConfigKey");
  (AtAnalysis, "event_consumer", IsWarning, "Ctor");
  (AtAnalysis, "mod", IsDynamic, "Unmodelled callback_why");
  (AtAny, "error", IsDynamic, "Ctor");
  (AtAny, "error", IsError, "Ctor");
  (AtAny, "error", IsWarning, "Ctor");
  (AtParse, "metadata", IsError, "PCode D_EMPTY_META_KEY");
  (AtParse, "metadata", IsWarning, "PCode D_EMPTY_META_VALUE");
  (AtParse, "metadata", IsWarning, "PCode D_META_INVALID");
  (AtParse, "mod", IsError, "Ctor");
  (AtParse, "mod", IsWarning, "Ctor");
  (AtParse, "quantity", IsError, "PCode D_DIV_ZERO");
  (AtParse, "quantity", IsError, "PCode D_EMPTY_VALUE");
  (AtParse, "quantity", IsError, "PCode D_INT_PARSE");
  (AtParse, "quantity", IsError, "Unmodelled float_why");
  (AtParse, "quantity", IsWarning, "PCode D_EMPTY_UNIT");
  (AtParse, "section", IsWarning, "PCode D_SECTION_INVALID");
  (AtParse, "step", IsError, "PCode D_ALIAS_NOT_ALLOWED");
  (AtParse, "step", IsError, "PCode D_COOKWARE_RECIPE");
  (AtParse, "step", IsError, "PCode D_COOKWARE_UNIT");
  (AtParse, "step", IsError, "PCode D_DUP_MOD");
  (AtParse, "step", IsError, "PCode D_EMPTY_ALIAS");
  (AtParse, "step", IsError, "PCode D_EMPTY_NAME");
  (AtParse, "step", IsError, "PCode D_INTER_EMPTY");
  (AtParse, "step", IsError, "PCode D_INTER_INT");
  (AtParse, "step", IsError, "PCode D_INTER_INVALID");
  (AtParse, "step", IsError, "PCode D_INTER_NOT_ALLOWED");
  (AtParse, "step", IsError, "PCode D_INTER_ORDER");
  (AtParse, "step", IsError, "PCode D_INTER_SIGN");
  (AtParse, "step", IsError, "PCode D_MODS_NOT_ALLOWED");
  (AtParse, "step", IsError, "PCode D_MULTI_ALIAS");
  (AtParse, "step", IsError, "PCode D_TIMER_NEITHER");
  (AtParse, "step", IsError, "PCode D_TIMER_NO_QTY");
  (AtParse, "step", IsError, "PCode D_TIMER_NO_UNIT");
  (AtParse, "step", IsWarning, "PCode D_NOTE_WARN");
  (AtParse, "step", IsWarning, "PCode D_SINGLE_WORD")
].
Proof. reflexivity. Qed.
Print Assumptions C07_diag_inventory.

(* the rows are exactly the (stage, file, severity, constructor) of the sites that are not "forward" pushes *)
Theorem C07_diag_summary_ok : summary_ok DiagSites.sites DiagSites.summary = true.
Proof. exact DiagMapProofs.summary_is_ok. Qed.
Print Assumptions C07_diag_summary_ok.

(* every site is given a constructor ("unknown" is none) and agrees with it: [site_ok] *)
Theorem C07_diag_sites_ok : forall s, In s DiagSites.sites -> site_ok s = true.
Proof. exact DiagMapProofs.sites_ok. Qed.
Print Assumptions C07_diag_sites_ok.

(* a site that stands for a kind of the analysis model is of the Analysis stage, has the severity [kind_is_error]
   gives that kind (C07_kind_severity: the severity of the model's SourceDiag), and no push method it is handed to
   asserts the other severity *)
Theorem C07_diag_kind_severity :
  forall s k, In s DiagSites.sites -> site_target s = Some (AKind k) ->
  site_stage s = AtAnalysis /\ site_sev s = sev_of_bool (kind_is_error k) /\
  forallb (push_ok (site_sev s)) (site_pushes s) = true.
Proof. exact DiagMapProofs.site_kind_severity. Qed.
Print Assumptions C07_diag_kind_severity.

(* a site that stands for a parse-stage code is of the Parse stage, the code is one of the 27 of
   [DiagMap.all_pcodes], and the site has the severity the parser model builds that code with *)
Theorem C07_diag_pcode_severity :
  forall s c, In s DiagSites.sites -> site_target s = Some (PCode c) ->
  site_stage s = AtParse /\ pcode_sev c = Some (pcode_is_error c) /\ site_sev s = sev_of_bool (pcode_is_error c) /\
  forallb (push_ok (site_sev s)) (site_pushes s) = true.
Proof. exact DiagMapProofs.site_pcode_severity. Qed.
Print Assumptions C07_diag_pcode_severity.

(* the constructors SourceDiag::error / ::warning / ::unlabeled and the bodies of the macros error! / warning! give
   the severity their name says *)
Theorem C07_diag_ctor_severity :
  forall s, In s DiagSites.sites -> site_target s = Some Ctor -> ctor_ok (site_key s) = true.
Proof. exact DiagMapProofs.site_ctor_ok. Qed.
Print Assumptions C07_diag_ctor_severity.

(* [pcode_sev] IS the severity of the parser model: every diagnostic it emits, for every source, extension set and
   Unicode classification, has one of the 27 codes and was built with [error] exactly when the table says so *)
Theorem C07_parse_severity_by_code :
  forall U cfg s evs d,
  events U cfg s = Done evs -> In (EvDiag d) evs -> pcode_sev (d_code d) = Some (d_err d).
Proof. exact DiagSeverity.events_code_severity. Qed.
Print Assumptions C07_parse_severity_by_code.

(* no constructor of the models is without a place in the code: every kind of C07_kinds_enumerated and every
   parse-stage code is the constructor of a site *)
Theorem C07_diag_kinds_covered :
  forall k : akind, exists s, In s DiagSites.sites /\ site_target s = Some (AKind k).
Proof. exact DiagMapProofs.kinds_covered. Qed.
Print Assumptions C07_diag_kinds_covered.

Theorem C07_diag_pcodes_covered :
  forall c : N, In c DiagMap.all_pcodes -> exists s, In s DiagSites.sites /\ site_target s = Some (PCode c).
Proof. exact DiagMapProofs.pcodes_covered. Qed.
Print Assumptions C07_diag_pcodes_covered.

(* together: a diagnostic of the parser model / of the analysis model is made at a listed place of the code, of
   its stage, whose macro has its severity *)
Theorem C07_parse_diag_has_site :
  forall U cfg s evs d,
  events U cfg s = Done evs -> In (EvDiag d) evs ->
  exists st, In st DiagSites.sites /\ site_target st = Some (PCode (d_code d)) /\
             site_stage st = AtParse /\ site_sev st = sev_of_bool (d_err d).
Proof. exact DiagMapProofs.parse_diag_has_site. Qed.
Print Assumptions C07_parse_diag_has_site.

Theorem C07_analysis_diag_has_site :
  forall d : adiag,
  exists st, In st DiagSites.sites /\ site_target st = Some (AKind (ad_kind d)) /\
             site_stage st = AtAnalysis /\ site_sev st = sev_of_bool (sd_is_error (to_sdiag d)).
Proof. exact DiagMapProofs.analysis_diag_has_site. Qed.
Print Assumptions C07_analysis_diag_has_site.

(* the converse fails for the rows of C07_diag_inventory whose constructor is `Unmodelled ..`: diagnostics of the code
   that NO constructor of the models stands for, so that every theorem of this file quantifies over fewer diagnostics
   than the code has.  `Unmodelled callback_why` (event_consumer, analysis/mod.rs): the callbacks of ParseOptions
   (metadata_validator, recipe_ref_check: a CheckResult turned into a diagnostic of the severity the callback chose;
   the models are those of the default options, which have none); `Unmodelled float_why` (quantity): the error of
   float() of quantity.rs for a failing f64 parse of a float token (float() of Model/Parser.v is total). *)
