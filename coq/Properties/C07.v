(* C07 - Diagnostics are sound, complete and placed on the offending construct.

   Models.  Model/Parser.v (pull parser: every diagnostic with a code, its severity and its label
   spans; tied to the code by the L-ev correspondence of checks/c07.py and checks/c03.py),
   Model/Diag.v (SourceReport, PassResult and the way parse_events combines the parser's
   diagnostics with those of the analysis: error.rs:190-369, event_consumer.rs:116-233),
   Model/Analysis.v (the analysis pass; of its report it keeps the bit "an error was reported"
   and whether a parser error stopped it; tied to the code by the L-rec correspondence of C06).

   Proved here, for every input / event stream / extension set / Unicode classification:
     - the validity equation, the parse-error short circuit, that an analysis error keeps the
       output - on Model/Diag.v (full reports) and again on Model/Analysis.v (the model that is
       run against the implementation);
     - completeness with severity and label placement, at component level, for the parse-stage
       constructs of the statement: empty name, zero denominator, empty value, unit on cookware,
       timer without unit / without duration / with modifiers / with an alias, duplicate
       modifier, bad alias (empty, multiple);
     - completeness as "an error is reported" (the analysis model has no labels) for: dangling
       reference, note on a reference, intermediate reference 0 / out of range, non-time timer
       unit, malformed front matter, bad mode value.
   Not proved (decided on every run by the monitor of checks/c07.py on the implementation):
   soundness on well-formed recipes (needs the printer/well-formedness of C01), the labels of
   analysis diagnostics, and the lift of the component lemmas to an arbitrary placement inside a
   document - see [C07_full_statement] at the end. *)
From Coq Require Import ZArith.
From CL Require Import Base.StrLemmas Model.Parser Model.Diag Proofs.DiagProofs.
From CL Require Model.Analysis Proofs.DiagAnalysisProofs.
Open Scope N_scope.

(* ================================================================ validity, short circuit *)

(* PassResult::is_valid is "has an output and no error diagnostic in the report" - the tagged
   fast path of SourceReport::has_errors never applies to a report built by parse_events *)
Theorem C07_validity_def :
  forall St astep afinish dbg (init : St) evs res,
    parse_events St astep afinish dbg init evs = Done res ->
    is_valid res = has_output res && negb (existsb sd_is_error (diags res)).
Proof.
  intros St astep afinish dbg init evs res H. unfold parse_events in H.
  pose proof (collect_tag St astep afinish dbg evs init report_empty res eq_refl H) as Ht.
  unfold is_valid, has_errors, diags. rewrite Ht. reflexivity.
Qed.
Print Assumptions C07_validity_def.

(* a parser error anywhere in the stream: no output, not valid, and the report is exactly the
   parser's diagnostics (all of them, in order, nothing of the analysis) *)
Theorem C07_parse_error_shortcircuit :
  forall St astep afinish dbg (init : St) evs res,
    (forall s e s' ds, astep s e = Done (s', ds) -> Forall (fun d => sd_is_parse d = false) ds) ->
    existsb is_perror evs = true ->
    parse_events St astep afinish dbg init evs = Done res ->
    pr_output res = None /\ is_valid res = false /\
    diags res = map of_pdiag (pdiags evs) /\
    Forall (fun d => sd_stage d = StParse) (diags res).
Proof.
  intros St astep afinish dbg init evs res Hst He H. unfold parse_events in H.
  destruct (collect_error St astep afinish dbg Hst evs init report_empty res eq_refl He H) as [Ho Hd].
  cbn in Hd. split; [exact Ho|]. split; [unfold is_valid, has_output; rewrite Ho; reflexivity|].
  split; [exact Hd|]. rewrite Hd. clear. induction (pdiags evs); cbn; constructor; auto.
Qed.
Print Assumptions C07_parse_error_shortcircuit.

(* no parser error: the output is kept whatever the analysis reports; the report holds the
   parser's warnings and every diagnostic of the analysis, each family in order; the result is
   valid exactly when none of them is an error *)
Theorem C07_analysis_error_keeps_output :
  forall St astep afinish dbg (init : St) evs res,
    (forall s e s' ds, astep s e = Done (s', ds) -> Forall (fun d => sd_is_parse d = false) ds) ->
    (forall s, Forall (fun d => sd_is_parse d = false) (afinish s)) ->
    existsb is_perror evs = false ->
    parse_events St astep afinish dbg init evs = Done res ->
    exists s' t, pr_output res = Some s' /\ atrace St astep afinish init evs = Done t /\
      filter sd_is_parse (diags res) = map of_pdiag (pdiags evs) /\
      filter is_analysis (diags res) = t /\
      is_valid res = negb (existsb sd_is_error (diags res)).
Proof.
  intros St astep afinish dbg init evs res Hst Hfin He H.
  pose proof (C07_validity_def St astep afinish dbg init evs res H) as Hv. unfold parse_events in H.
  destruct (collect_no_error St astep afinish dbg Hst Hfin evs init report_empty res eq_refl He H)
    as (s' & t & Ho & Hat & Hp & Han).
  exists s', t. repeat split; try assumption.
  rewrite Hv. unfold has_output. rewrite Ho. reflexivity.
Qed.
Print Assumptions C07_analysis_error_keeps_output.

(* the same three facts on the analysis model that is run against the implementation *)
Theorem C07_validity_def_analysis :
  forall s, Analysis.is_valid s = Events.is_some (Analysis.output s) && negb (Analysis.a_errors s).
Proof. exact DiagAnalysisProofs.validity_def. Qed.
Print Assumptions C07_validity_def_analysis.

Theorem C07_parse_error_shortcircuit_analysis :
  forall ci_key yaml_ok find_iq unit_class input x cfg evs d o v,
    In (Events.EError d) evs ->
    Analysis.analyse ci_key yaml_ok find_iq unit_class input x cfg evs = Done (o, v) ->
    o = None /\ v = false.
Proof. exact DiagAnalysisProofs.parse_error_no_output. Qed.
Print Assumptions C07_parse_error_shortcircuit_analysis.

Theorem C07_analysis_error_keeps_output_analysis :
  forall ci_key yaml_ok find_iq unit_class input x cfg evs o v,
    (forall d, ~ In (Events.EError d) evs) ->
    Analysis.analyse ci_key yaml_ok find_iq unit_class input x cfg evs = Done (o, v) ->
    exists s r, Analysis.run ci_key yaml_ok find_iq unit_class input x cfg Analysis.init evs = Done s /\
                o = Some r /\ v = negb (Analysis.a_errors s).
Proof. exact DiagAnalysisProofs.no_parse_error_keeps_output. Qed.
Print Assumptions C07_analysis_error_keeps_output_analysis.

(* ================================================================ completeness, parse stage *)

(* empty name: an ingredient / cookware event whose name is blank comes with the EmptyName error,
   labelled with the span of that name (step.rs:569-576) *)
Theorem C07_complete_empty_name :
  forall cfg s i s',
    ingredient_p cfg s = Done (Some (EvIngredient i), s') -> is_text_empty (i_name i) = true ->
    In (mkdiag true D_EMPTY_NAME [text_span (i_name i)]) (b_evs s').
Proof. exact complete_empty_name_ingredient. Qed.
Print Assumptions C07_complete_empty_name.

Theorem C07_complete_empty_name_cookware :
  forall cfg s c s',
    cookware_p cfg s = Done (Some (EvCookware c), s') -> is_text_empty (c_name c) = true ->
    In (mkdiag true D_EMPTY_NAME [text_span (c_name c)]) (b_evs s').
Proof. exact complete_empty_name_cookware. Qed.
Print Assumptions C07_complete_empty_name_cookware.

(* zero denominator: the value tokens spell `a / 0` (blanks and comments allowed around and
   between): DivisionByZero, labelled from the start of a to the end of the 0 (quantity.rs:297-304) *)
Theorem C07_complete_div_zero :
  forall cfg ts a sl b s r s',
    filter not_ws_comment (trim_tokens ts) = [a; sl; b] ->
    kind a = KInt -> kind sl = KSlash -> kind b = KInt ->
    digits_val (tstr a) <= u32_max -> digits_val (tstr b) = 0 ->
    range_value cfg ts = None ->
    parse_value cfg ts s = Done (r, s') ->
    In (mkdiag true D_DIV_ZERO [(tstart a, tend b)]) (b_evs s').
Proof. exact complete_div_zero. Qed.
Print Assumptions C07_complete_div_zero.

(* empty value (`{%unit}`, `{=}`): no value token before the `%` or the end: EmptyValue at the
   position where the value is missing (quantity.rs:193-199) *)
Theorem C07_complete_empty_value :
  forall cfg s r s',
    parse_value cfg [] s = Done (r, s') ->
    In (mkdiag true D_EMPTY_VALUE [(current_offset_of s, current_offset_of s)]) (b_evs s').
Proof. exact complete_empty_value. Qed.
Print Assumptions C07_complete_empty_value.

(* unit on cookware: whenever a cookware event is returned and its braces held a quantity, the
   quantity parser ran on those tokens, and if it found a unit the error is reported, labelled
   from the separator (if any) to the end of the unit (step.rs:379-394) *)
Theorem C07_complete_cookware_unit :
  forall cfg s c s',
    cookware_p cfg s = Done (Some (EvCookware c), s') ->
    exists bd s0 s1, comp_body s0 = Done (Some bd, s1) /\
      match bd_qty bd with
      | None => c_qty c = None
      | Some qts =>
          exists sq q usep sq', parse_quantity cfg qts sq = Done ((q, usep), sq') /\
            c_qty c = Some (q_val q, q_span q) /\
            forall u, q_unit q = Some u ->
              In (mkdiag true D_COOKWARE_UNIT [cookware_unit_label usep u]) (b_evs s')
      end.
Proof. exact complete_cookware_unit. Qed.
Print Assumptions C07_complete_cookware_unit.

(* the timer checks (step.rs:437-486): modifiers and alias are not allowed (label: those tokens);
   a duration needs a unit (label: the position after the value); with TIMER_REQUIRES_TIME a timer
   needs a duration (label: the braces, or the end of the name); neither name nor duration *)
Theorem C07_complete_timer :
  forall cfg s t s',
    timer_p cfg s = Done (Some (EvTimer t), s') ->
    exists mts sm sm' bd s0 s1 name,
      modifiers cfg sm = Done (mts, sm') /\
      comp_body s0 = Done (Some bd, s1) /\
      text_of cfg (current_offset_of s0) (bd_name bd) = Done name /\
      (mts <> [] -> In (mkdiag true D_MODS_NOT_ALLOWED [tokens_span mts]) (b_evs s')) /\
      (has cfg X_COMPONENT_ALIAS = true -> forall sp, timer_alias_label (bd_name bd) = Some sp ->
         In (mkdiag true D_ALIAS_NOT_ALLOWED [sp]) (b_evs s')) /\
      (forall qts, bd_qty bd = Some qts ->
         exists sq q usep sq', parse_quantity cfg qts sq = Done ((q, usep), sq') /\ t_qty t = Some q /\
           (q_unit q = None ->
            In (mkdiag true D_TIMER_NO_UNIT [(snd (qv_span (q_val q)), snd (qv_span (q_val q)))]) (b_evs s'))) /\
      (bd_qty bd = None -> has cfg X_TIMER_REQUIRES_TIME = true ->
         In (mkdiag true D_TIMER_NO_QTY [timer_noqty_label bd name]) (b_evs s')) /\
      (bd_qty bd = None -> has cfg X_TIMER_REQUIRES_TIME = false -> is_text_empty name = true ->
         In (mkdiag true D_TIMER_NEITHER [timer_neither_label bd (current_offset_of s0)]) (b_evs s')).
Proof. exact timer_p_inv. Qed.
Print Assumptions C07_complete_timer.

(* duplicate modifier: a modifier character written twice in a run of modifiers (no `&(..)`
   among them): the error is reported, labelled with the span of the whole run, which is also
   the span the component carries for its modifiers (step.rs:145-177) *)
Theorem C07_complete_dup_modifier :
  forall cfg pre t1 mid t2 post mpos bit s res s',
    let mts := pre ++ t1 :: mid ++ t2 :: post in
    forallb simple_mod mts = true ->
    mod_bit (kind t1) = Some bit -> mod_bit (kind t2) = Some bit ->
    parse_modifiers cfg mts mpos s = Done (res, s') ->
    In (mkdiag true D_DUP_MOD [tokens_span mts]) (b_evs s') /\ snd (fst res) = tokens_span mts.
Proof. exact complete_dup_modifier. Qed.
Print Assumptions C07_complete_dup_modifier.

(* ... and it is still reported when the ingredient is returned *)
Theorem C07_complete_dup_modifier_ingredient :
  forall cfg s i s',
    ingredient_p cfg s = Done (Some (EvIngredient i), s') ->
    exists mts sm sm', modifiers cfg sm = Done (mts, sm') /\
      forall pre t1 mid t2 post bit,
        mts = pre ++ t1 :: mid ++ t2 :: post -> forallb simple_mod mts = true ->
        mod_bit (kind t1) = Some bit -> mod_bit (kind t2) = Some bit ->
        In (mkdiag true D_DUP_MOD [i_mods_span i]) (b_evs s') /\ i_mods_span i = tokens_span mts.
Proof. exact complete_dup_modifier_ingredient. Qed.
Print Assumptions C07_complete_dup_modifier_ingredient.

(* bad alias: with COMPONENT_ALIAS, name tokens with a `|`: more than one `|` => MultipleAliases
   labelled from the first `|` to the end of the name tokens; a blank alias => EmptyAlias labelled
   with the `|` (step.rs:284-316); no alias is returned in either case *)
Theorem C07_complete_alias :
  forall cfg ts off s nt al s' sepi sep alias_ts,
    has cfg X_COMPONENT_ALIAS = true ->
    position (fun k => tk_eqb k KOr) ts = Some sepi -> skipn sepi ts = sep :: alias_ts ->
    parse_alias cfg ts off s = Done ((nt, al), s') ->
    (existsb (fun t => tk_eqb (kind t) KOr) alias_ts = true ->
       al = None /\ In (mkdiag true D_MULTI_ALIAS [(tstart sep, tend (last alias_ts sep))]) (b_evs s')) /\
    (existsb (fun t => tk_eqb (kind t) KOr) alias_ts = false ->
       forall at_, text_of cfg (tend sep) alias_ts = Done at_ -> is_text_empty at_ = true ->
       al = None /\ In (mkdiag true D_EMPTY_ALIAS [tok_span sep]) (b_evs s')).
Proof. exact complete_alias. Qed.
Print Assumptions C07_complete_alias.

(* what an ingredient event was made from, and that whatever its sub-parsers (alias, modifiers,
   quantity) reported is still in the event queue when the component is returned: the lemmas
   above about parse_alias / parse_modifiers / parse_value therefore hold at component level *)
Theorem C07_component_diagnostics_survive :
  forall cfg s i s',
    ingredient_p cfg s = Done (Some (EvIngredient i), s') ->
    exists mts sm sm' bd s0 s1 sa sa' sp sp',
      modifiers cfg sm = Done (mts, sm') /\
      comp_body s0 = Done (Some bd, s1) /\
      parse_alias cfg (bd_name bd) (current_offset_of s0) sa = Done ((i_name i, i_alias i), sa') /\
      incl (b_evs sa') (b_evs s') /\
      parse_modifiers cfg mts (current_offset_of sm) sp = Done ((i_mods i, i_mods_span i, i_inter i), sp') /\
      incl (b_evs sp') (b_evs s') /\
      match bd_qty bd with
      | None => i_qty i = None
      | Some qts => exists sq q usep sq', parse_quantity cfg qts sq = Done ((q, usep), sq') /\
                      i_qty i = Some q /\ incl (b_evs sq') (b_evs s')
      end.
Proof. exact ingredient_p_inv. Qed.
Print Assumptions C07_component_diagnostics_survive.

(* ================================================================ completeness, analysis stage
   (Model/Analysis.v: "an error is reported"; the result then keeps its output and is not valid
   by C07_analysis_error_keeps_output_analysis) *)

(* dangling reference: `&` and no earlier non-reference component of that name *)
Theorem C07_complete_dangling_reference :
  forall ci_key x s ig s1 i,
    Events.pi_inter ig = None -> Events.m_ref (Events.pi_mods ig) = true -> Events.m_new (Events.pi_mods ig) = false ->
    Analysis.same_name ci_key (Analysis.a_ingredients s) (DiagAnalysisProofs.ing_name ig) = None ->
    Analysis.ingredient ci_key x s ig = Done (s1, i) -> Analysis.a_errors s1 = true.
Proof. exact DiagAnalysisProofs.dangling_reference_is_error. Qed.
Print Assumptions C07_complete_dangling_reference.

Theorem C07_complete_dangling_reference_cookware :
  forall ci_key s cw s1 i,
    Events.m_ref (Events.pc_mods cw) = true -> Events.m_new (Events.pc_mods cw) = false ->
    Analysis.same_name ci_key (Analysis.a_cookware s) (PText.text_trimmed (Events.pc_name cw)) = None ->
    Analysis.cookware ci_key s cw = Done (s1, i) -> Analysis.a_errors s1 = true.
Proof. exact DiagAnalysisProofs.dangling_cookware_reference_is_error. Qed.
Print Assumptions C07_complete_dangling_reference_cookware.

(* note on a reference: the link to the definition reports an error whenever the reference has a note *)
Theorem C07_complete_note_on_reference :
  forall tbl new j has_units tbl' e,
    Analysis.link_reference tbl new j true has_units = Done (tbl', e) -> e = true.
Proof. exact DiagAnalysisProofs.note_on_reference_is_error. Qed.
Print Assumptions C07_complete_note_on_reference.

(* intermediate reference: value 0, a step number / distance beyond the steps of the current
   section, a section number / distance beyond the past sections: no relation is found ... *)
Theorem C07_complete_intermediate_zero :
  forall s d, Events.ir_val d = 0%Z -> Analysis.resolve_intermediate_ref s d = Done None.
Proof. exact DiagAnalysisProofs.inter_zero. Qed.
Print Assumptions C07_complete_intermediate_zero.

Theorem C07_complete_intermediate_step_out_of_range :
  forall s d,
    Events.ir_kind d = Events.TKStep -> (0 <= Events.ir_val d)%Z ->
    (length (Analysis.step_indices (Analysis.sec_content (Analysis.a_cur s))) < Z.to_nat (Events.ir_val d))%nat ->
    Analysis.resolve_intermediate_ref s d = Done None.
Proof. exact DiagAnalysisProofs.inter_step_out_of_range. Qed.
Print Assumptions C07_complete_intermediate_step_out_of_range.

Theorem C07_complete_intermediate_section_out_of_range :
  forall s d,
    Events.ir_kind d = Events.TKSection -> (0 <= Events.ir_val d)%Z ->
    (length (Analysis.a_sections s) < Z.to_nat (Events.ir_val d))%nat ->
    Analysis.resolve_intermediate_ref s d = Done None.
Proof. exact DiagAnalysisProofs.inter_section_out_of_range. Qed.
Print Assumptions C07_complete_intermediate_section_out_of_range.

(* ... and then the ingredient is reported as an error *)
Theorem C07_complete_intermediate_reference :
  forall ci_key x s ig d s1 i,
    Events.pi_inter ig = Some d -> Analysis.resolve_intermediate_ref s d = Done None ->
    Analysis.ingredient ci_key x s ig = Done (s1, i) -> Analysis.a_errors s1 = true.
Proof. exact DiagAnalysisProofs.bad_intermediate_reference_is_error. Qed.
Print Assumptions C07_complete_intermediate_reference.

(* non-time timer unit (ADVANCED_UNITS; unit_class: 1 = a time unit of the converter) *)
Theorem C07_complete_timer_unit_not_time :
  forall unit_class x s t q u,
    Analysis.x_advanced x = true -> Events.pt_quantity t = Some q -> Events.pq_unit q = Some u ->
    unit_class (PText.text_trimmed u) <> 1 ->
    Analysis.a_errors (fst (Analysis.timer unit_class x s t)) = true.
Proof. exact DiagAnalysisProofs.timer_unit_not_time_is_error. Qed.
Print Assumptions C07_complete_timer_unit_not_time.

(* malformed front matter (yaml_ok: serde_yaml accepts the text as a mapping) *)
Theorem C07_complete_bad_front_matter :
  forall ci_key yaml_ok find_iq unit_class input x cfg s t s',
    Analysis.a_halted s = false -> yaml_ok (PText.text_str t) = false ->
    Analysis.step ci_key yaml_ok find_iq unit_class input x cfg s (Events.EYaml t) = Done s' ->
    Analysis.a_errors s' = true.
Proof. exact DiagAnalysisProofs.bad_front_matter_is_error. Qed.
Print Assumptions C07_complete_bad_front_matter.

(* bad mode value: `[mode]` with a value that is none of the six accepted spellings *)
Theorem C07_complete_bad_mode_value :
  forall x s k v,
    Analysis.x_modes x = true -> PText.text_trimmed k = 91 :: Analysis.s_mode ++ [93] ->
    let vt := PText.text_outer_trimmed v in
    str_eqb vt Analysis.s_all = false -> str_eqb vt Analysis.s_default = false ->
    str_eqb vt Analysis.s_components = false -> str_eqb vt Analysis.s_ingredients = false ->
    str_eqb vt Analysis.s_steps = false -> str_eqb vt Analysis.s_text = false ->
    Analysis.a_errors (Analysis.metadata x s k v) = true.
Proof. exact DiagAnalysisProofs.bad_mode_value_is_error. Qed.
Print Assumptions C07_complete_bad_mode_value.

(* ================================================================ the full statement
   (not a theorem: decided per run by the monitor of checks/c07.py on the implementation, and -
   for the parser's diagnostics - by the L-ev correspondence on the same inputs).
   [wf cfg s]: s is a well-formed recipe for the extensions of cfg (the image of the printer of
   C01); [placed cfg s err sp]: s is a well-formed recipe into which one construct of the
   catalogue with documented severity [err] was spliced at byte span [sp]; [notice s d]: d is the
   `>>` deprecation notice of s. *)
Definition label_touches (l sp : span) : Prop :=
  if fst l =? snd l then fst sp <= fst l <= snd sp else fst l < snd sp /\ fst sp < snd l.

Definition C07_full_statement
    (wf : pcfg -> str -> Prop) (placed : pcfg -> str -> bool -> span -> Prop) (notice : str -> sdiag -> Prop) : Prop :=
  forall U cfg St astep afinish (init : St) s res,
    parse U cfg St astep afinish init s = Done res ->
    (wf cfg s -> is_valid res = true /\ forall d, In d (diags res) -> sd_is_error d = false /\ notice s d) /\
    (forall err sp, placed cfg s err sp ->
       exists d l, In d (diags res) /\ sd_is_error d = err /\ hd_error (sd_labels d) = Some l /\ label_touches l sp) /\
    is_valid res = has_output res && negb (existsb sd_is_error (diags res)).
