(* C14 - Metadata-only parsing agrees with full parsing.
   For every input on which both succeed, the metadata returned by the metadata-only parse
   equals the metadata of the full parse, for `>>` entries and YAML front matter alike,
   under every extension set.

   About: Model/Parser.v ([events] = PullParser::next until exhaustion, [meta_events] =
   into_meta_iter()) and Model/MetaMap.v (the metadata map built by RecipeCollector).
   Every theorem is for all inputs [s], all Unicode classifications [U] and all parser
   configurations [cfg] (extension set, debug/release, repaired or unrepaired code);
   C14_agree is moreover for every serde_yaml oracle.  Panics of the model are values
   ([Panic]); "succeeds" is [= Done _]. *)
From CL Require Import Base.StrLemmas Model.Parser Model.MetaMap Proofs.MetaIterProofs Gen.CharClass.

(* [tlines ts]: the token lines of a token stream, newline tokens excluded *)
Theorem C14_lines_have_no_newline :
  forall ts, Forall (Forall (fun t => tk_eqb (kind t) KNewline = false)) (tlines ts).
Proof. exact tlines_no_newline. Qed.
Print Assumptions C14_lines_have_no_newline.

(* The blocks the metadata-only iterator hands to metadata_entry are exactly the token lines
   whose first token is `>>` ([meta_lines ts = filter head_meta (tlines ts)]), in order;
   [meta_block_step] is the body of next_metadata_block on one block.  With a front matter it
   yields only the YAML event. *)
Theorem C14_meta_lines :
  forall (U : N -> ucls) (cfg : pcfg) (s : str),
    meta_events U cfg s =
      match parse_frontmatter cfg s with
      | Some fm => Done [yaml_event fm]
      | None =>
          match lex_at U s 0 with
          | None => Panic site_fuel
          | Some ts => obind (fold_blocks (meta_block_step cfg) (meta_lines ts) []) (fun evs => Done (rev evs))
          end
      end.
Proof. exact meta_events_lines. Qed.
Print Assumptions C14_meta_lines.

(* The full event stream is parse_block run over [blocks ts] (next_block iterated); the fuel of
   the model never runs out. *)
Theorem C14_full_blocks :
  forall (U : N -> ucls) (cfg : pcfg) (s : str),
    events U cfg s =
      match parse_frontmatter cfg s with
      | Some fm =>
          match lex_at U (cook_text fm) (cook_off fm) with
          | None => Panic site_fuel
          | Some ts => obind (fold_blocks (full_block_step cfg false) (blocks ts) [yaml_event fm])
                             (fun evs => Done (rev evs))
          end
      | None =>
          match lex_at U s 0 with
          | None => Panic site_fuel
          | Some ts => obind (fold_blocks (full_block_step cfg true) (blocks ts) []) (fun evs => Done (rev evs))
          end
      end.
Proof. exact events_blocks. Qed.
Print Assumptions C14_full_blocks.

(* In the full parser every line starting with `>>` is a block of its own with the same tokens,
   in the same order, and no other block starts with `>>`. *)
Theorem C14_full_lines :
  forall ts : list tok,
    filter head_meta (blocks ts) = meta_lines ts /\ Forall (fun b => b <> []) (blocks ts).
Proof. exact full_lines. Qed.
Print Assumptions C14_full_lines.

(* Whenever the full parser terminates without a panic, so does the metadata-only iterator, and
   - without front matter the Metadata events of the two streams are equal, in order
     (no hypothesis on Error events is needed);
   - with a front matter the metadata-only stream is the YAML event alone, and the full stream
     has that YAML event followed only by Metadata events whose key is bracketed
     ([is_config_key], the filter of parse_block, mod.rs 361-371) while MODES is on. *)
Theorem C14_same_entries :
  forall (U : N -> ucls) (cfg : pcfg) (s : str) (evs : list pevent),
    events U cfg s = Done evs ->
    exists mevs,
      meta_events U cfg s = Done mevs /\
      match parse_frontmatter cfg s with
      | None => filter is_meta_ev evs = filter is_meta_ev mevs
      | Some fm =>
          mevs = [yaml_event fm] /\
          exists cfgs, filter is_meta_ev evs = mevs ++ cfgs /\ Forall (config_entry cfg) cfgs
      end.
Proof. exact same_entries. Qed.
Print Assumptions C14_same_entries.

(* The analysis of Metadata/YAML events does not depend on anything the other events do: a pass
   that has an output is the pass over the Metadata/YAML events alone. *)
Theorem C14_analysis_frame :
  forall (Y : Type) (ystr : str -> Y) (yeqb : Y -> Y -> bool) (yaml : str -> option (list (Y * Y)))
         (modes : bool) (evs : list pevent) (st : mstate Y),
    mm_halted Y (mm_run Y ystr yeqb yaml modes st evs) = false ->
    mm_run Y ystr yeqb yaml modes st evs = mm_run Y ystr yeqb yaml modes st (filter is_meta_ev evs).
Proof. exact run_filter. Qed.
Print Assumptions C14_analysis_frame.

(* The exception of C14_same_entries is harmless: once a front matter was seen, a bracketed key
   under MODES switches modes or warns, and never touches the map (event_consumer.rs 352-390). *)
Theorem C14_config_frame :
  forall (Y : Type) (ystr : str -> Y) (yeqb : Y -> Y -> bool) (yaml : str -> option (list (Y * Y)))
         (modes : bool) (cfg : pcfg) (st : mstate Y) (ev : pevent),
    modes = has cfg X_MODES -> mm_old Y st = false -> config_entry cfg ev ->
    mm_step Y ystr yeqb yaml modes st ev = st.
Proof. exact config_frame. Qed.
Print Assumptions C14_config_frame.

(* The property: if both passes have an output, the maps are equal. *)
Theorem C14_agree :
  forall (Y : Type) (ystr : str -> Y) (yeqb : Y -> Y -> bool) (yaml : str -> option (list (Y * Y)))
         (modes : bool) (U : N -> ucls) (cfg : pcfg) (s : str) (evs mevs : list pevent)
         (m1 m2 : list (Y * Y)),
    modes = has cfg X_MODES ->
    events U cfg s = Done evs -> meta_events U cfg s = Done mevs ->
    metadata_of Y ystr yeqb yaml modes evs = Some m1 ->
    metadata_of Y ystr yeqb yaml modes mevs = Some m2 ->
    m1 = m2.
Proof. exact agree. Qed.
Print Assumptions C14_agree.

(* ---- the hypotheses are satisfiable, and the exception is real ---------------------------- *)

Definition ex_cfg (ext : N) : pcfg :=
  {| p_ext := ext; p_debug := true; p_strict_escape := false; p_note_label_old := false; p_fm_anywhere := false |}.

(* ">> a: b\nx": one entry in both streams *)
Definition ex_old : str := [62;62;32;97;58;32;98;10;120].
(* "---\na: 1\n---\n>> [mode]: steps\n>> k: v\n" *)
Definition ex_fm : str :=
  [45;45;45;10;97;58;32;49;10;45;45;45;10;62;62;32;91;109;111;100;101;93;58;32;115;116;101;112;115;10;
   62;62;32;107;58;32;118;10].

Definition count_meta (o : outcome (list pevent)) : option nat :=
  match o with Done evs => Some (length (filter is_meta_ev evs)) | Panic _ => None end.

Example C14_ex_old_style :
  count_meta (events U (ex_cfg 0) ex_old) = Some 1%nat /\ count_meta (meta_events U (ex_cfg 0) ex_old) = Some 1%nat.
Proof. vm_compute. split; reflexivity. Qed.

(* with MODES the full stream keeps `[mode]` (and drops `k`); the metadata-only stream has the YAML event only *)
Example C14_ex_front_matter_modes :
  count_meta (events U (ex_cfg X_MODES) ex_fm) = Some 2%nat /\
  count_meta (meta_events U (ex_cfg X_MODES) ex_fm) = Some 1%nat /\
  count_meta (events U (ex_cfg 0) ex_fm) = Some 1%nat.
Proof. vm_compute. repeat split; reflexivity. Qed.

(* both passes have an output on these inputs (a toy YAML oracle: every front matter is the empty map) *)
Definition ex_meta (ext : N) (o : outcome (list pevent)) : option (list (str * str)) :=
  match o with
  | Done evs => metadata_of str (fun x => x) str_eqb (fun _ => Some []) (has (ex_cfg ext) X_MODES) evs
  | Panic _ => None
  end.

Example C14_ex_agree :
  ex_meta 0 (events U (ex_cfg 0) ex_old) = Some [([97], [98])] /\
  ex_meta 0 (meta_events U (ex_cfg 0) ex_old) = Some [([97], [98])] /\
  ex_meta X_MODES (events U (ex_cfg X_MODES) ex_fm) = Some [] /\
  ex_meta X_MODES (meta_events U (ex_cfg X_MODES) ex_fm) = Some [].
Proof. vm_compute. repeat split; reflexivity. Qed.
