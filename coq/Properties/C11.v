(* C11 - Aisle configuration parsing is total, duplicate-free and round-trips.
   Statements only; proofs live in Proofs/AisleProofs.v.
   [parse cfgF] is the model of aisle::parse as the code stands now. *)
From CL Require Import Base.StrLemmas Model.Aisle Proofs.AisleProofs.

(* parsing never panics: for every input there is a result *)
Theorem C11_total : forall s, exists r, parse cfgF s = Done r.
Proof. intro s. destruct (parse_ok s) as (r & H & _). exists r. exact H. Qed.
Print Assumptions C11_total.

(* every span of a returned error lies inside the input, on char boundaries *)
Theorem C11_error_spans :
  forall s e, parse cfgF s = Done (RErr e) -> Forall (span_ok s) (err_spans e).
Proof.
  intros s e H. destruct (parse_ok s) as (r & Hr & Hspec). rewrite H in Hr.
  injection Hr as <-. exact Hspec.
Qed.
Print Assumptions C11_error_spans.

(* no category and no ingredient name occurs twice *)
Theorem C11_nodup :
  forall s c, parse cfgF s = Done (ROk c) ->
    NoDup (map cname c) /\ NoDup (concat (map (fun k => concat (cings k)) c)).
Proof.
  intros s c H. destruct (parse_ok s) as (r & Hr & Hspec). rewrite H in Hr.
  injection Hr as <-. exact Hspec.
Qed.
Print Assumptions C11_nodup.

(* the two defects repaired in /repo, kept as theorems about the old code *)
Theorem C11_total_refuted_before_fix : exists s, parse cfg0 s = Panic site_calc_span.
Proof. exact total_refuted_before_fix. Qed.
Print Assumptions C11_total_refuted_before_fix.

Theorem C11_roundtrip_refuted_before_fix :
  exists s c c', parse cfg0 s = Done (ROk c) /\ parse cfg0 (write c) = Done (ROk c') /\ c <> c'.
Proof. exact roundtrip_refuted_before_fix. Qed.
Print Assumptions C11_roundtrip_refuted_before_fix.
