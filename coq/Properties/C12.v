(* C12 - Fraction approximation never misstates a value.
   Statements only; proofs live in Proofs/FractionProofs.v and Proofs/FractionTry.v (approximating a
   number that already is a stored fraction, repeatedly; ScaledQuantity::try_fraction).  The model (Model/Fraction.v) follows
   src/quantity.rs over exact rationals; the constants (DENOMS, FIX_RATIO, 1e-10, the assertion
   bounds) are those of Gen/FracConsts.v, regenerated from the source on every run.
   [cfgF] is new_approx with the repaired saturation test, [cfg0] the code as found; theorems
   quantified over [c] hold for both. *)
From Coq Require Import List NArith ZArith QArith Qround Qabs Sorted Lia Lqa.
From CL Require Import Base.Chars Gen.FracConsts Model.Fraction Proofs.FractionProofs.
From CL Require Proofs.FractionTry.
Import ListNotations.
Local Open Scope Q_scope.

(* the lookup table built from the regenerated DENOMS / FIX_RATIO: no panic; every entry
   (fixed, (n, d)) has a supported d, 0 < n < d, fixed = floor (FIX_RATIO * n / d) within i16; keys
   strictly increasing; every n/d with a supported d has its cell *)
Theorem C12_table :
  exists t, table_new = Done t
    /\ (forall e, In e t ->
          In (eden e) denoms /\ (0 < enum e < eden e)%N
          /\ ekey e = Qfloor (N2Q (enum e) / N2Q (eden e) * fix_ratio)
          /\ (0 <= ekey e <= i16_max)%Z)
    /\ Sorted (fun a b => (ekey a < ekey b)%Z) t
    /\ (forall d n, In d denoms -> (0 < n < d)%N ->
          exists e, In e t /\ ekey e = fixed_of (N2Q n / N2Q d)).
Proof.
  destruct table_ok as (t & T & W). exists t. split; [exact T|]. split; [|split].
  - exact (table_wf_entries t W).
  - apply keys_increasing_sorted. unfold table_wfb in W.
    apply andb_prop in W. destruct W as [W _]. apply andb_prop in W. destruct W as [_ W]. exact W.
  - exact (table_complete t W).
Qed.
Print Assumptions C12_table.

(* what lookup returns is an entry of the table whose denominator respects max_den *)
Theorem C12_lookup_member :
  forall t x md n d, table_new = Done t -> lookup t x md = Done (Some (n, d)) ->
    In (n, d) (map snd t) /\ In d denoms /\ (0 < n < d)%N /\ (d <= md)%N.
Proof. exact lookup_entry. Qed.
Print Assumptions C12_lookup_member.

(* with accuracy in [0,1] and max_den <= 64 nothing panics (assertions, table construction,
   i16 arithmetic of lookup), whatever the value - finite or not - and max_whole *)
Theorem C12_total :
  forall c (v : f64) acc md mw, 0 <= acc <= 1 -> (md <= 64)%N ->
    exists r, new_approx c v (Fin acc) md mw = Done r.
Proof.
  intros c v acc md mw [A1 A2] M. destruct consts_facts as (L & H & D & _).
  apply approx_no_panic; [split; lra | lia].
Qed.
Print Assumptions C12_total.

(* exact value (fraction plus recorded error) = input *)
Theorem C12_exact :
  forall c v acc md mw x, new_approx c (Fin v) (Fin acc) md mw = Done (Some x) ->
    exists q, value x = Fin q /\ q == v.
Proof.
  intros c v acc md mw x H. apply new_approx_inv in H.
  destruct H as (_ & _ & _ & _ & _ & R). exact (approx_exact _ _ _ _ _ R).
Qed.
Print Assumptions C12_exact.

(* the recorded error is within the requested accuracy *)
Theorem C12_within :
  forall c v acc md mw x, new_approx c (Fin v) (Fin acc) md mw = Done (Some x) ->
    Qabs (err_of x) <= acc * v.
Proof.
  intros c v acc md mw x H. apply new_approx_inv in H.
  destruct H as (V & [A _] & _ & _ & _ & R). destruct consts_facts as (_ & _ & _ & L & _).
  apply (approx_within v acc md mw x V); [lra | exact R].
Qed.
Print Assumptions C12_within.

(* shape of the answer: a plain number only for a value within 1e-10 above an integer <= max_whole;
   otherwise whole <= max_whole and either no fractional part (0/1, whole > 0) or a supported
   denominator <= max_den with 0 < num < den *)
Theorem C12_shape :
  forall c v acc md mw x, new_approx c (Fin v) (Fin acc) md mw = Done (Some x) ->
    match x with
    | Regular r => r = v /\ v - inject_Z (Qfloor v) < regular_eps /\ (Z.to_N (Qfloor v) <= mw)%N
    | Fraction w n d _ =>
        (w <= mw)%N /\
        ((n = 0%N /\ d = 1%N /\ (0 < w)%N) \/ (In d denoms /\ (d <= md)%N /\ (0 < n < d)%N))
    end.
Proof.
  intros c v acc md mw x H. apply new_approx_inv in H.
  destruct H as (_ & _ & _ & _ & W & R). exact (approx_shape _ _ _ _ _ W R).
Qed.
Print Assumptions C12_shape.

(* non-positive and non-finite values are declined *)
Theorem C12_declines :
  forall c (v : f64) acc md mw, 0 <= acc <= 1 -> (md <= 64)%N ->
    match v with Fin q => q <= 0 | NaN | PInf | NInf => True end ->
    new_approx c v (Fin acc) md mw = Done None.
Proof.
  intros c v acc md mw [A1 A2] M H. destruct consts_facts as (L & U & D & _).
  apply approx_declines; [split; lra | lia | destruct v; exact H].
Qed.
Print Assumptions C12_declines.

(* integers within the limit come back as plain numbers (repaired code; max_whole is a u32) *)
Theorem C12_integers :
  forall v z acc md mw, 0 <= acc <= 1 -> (md <= 64)%N ->
    v == inject_Z z -> (0 < z)%Z -> (Z.to_N z <= mw)%N -> (mw <= 4294967295)%N ->
    new_approx cfgF (Fin v) (Fin acc) md mw = Done (Some (Regular v)).
Proof.
  intros v z acc md mw [A1 A2] M E Z0 ZW WU. destruct consts_facts as (L & U & D & _).
  apply (approx_integer cfgF v z acc md mw);
    [split; lra | lia | exact E | exact Z0 | exact ZW | exact WU | discriminate].
Qed.
Print Assumptions C12_integers.

(* the code as found does so below u32::MAX ... *)
Theorem C12_integers_as_found :
  forall v z acc md mw, 0 <= acc <= 1 -> (md <= 64)%N ->
    v == inject_Z z -> (0 < z < 4294967295)%Z -> (Z.to_N z <= mw)%N -> (mw <= 4294967295)%N ->
    new_approx cfg0 (Fin v) (Fin acc) md mw = Done (Some (Regular v)).
Proof.
  intros v z acc md mw [A1 A2] M E [Z0 Z1] ZW WU. destruct consts_facts as (L & U & D & _).
  apply (approx_integer cfg0 v z acc md mw);
    [split; lra | lia | exact E | exact Z0 | exact ZW | exact WU | intros _; exact Z1].
Qed.
Print Assumptions C12_integers_as_found.

(* ... and declines the integer u32::MAX itself although max_whole = u32::MAX allows it *)
Theorem C12_integers_refuted_as_found :
  exists z acc md mw, 0 <= acc <= 1 /\ (md <= 64)%N /\ (0 < z)%Z /\ (Z.to_N z <= mw)%N
    /\ (mw <= 4294967295)%N /\ new_approx cfg0 (Fin (inject_Z z)) (Fin acc) md mw = Done None.
Proof.
  exists u32_max, default_accuracy, default_max_den, u32_max_N.
  split; [vm_compute; split; congruence|]. split; [vm_compute; congruence|].
  split; [reflexivity|]. split; [vm_compute; congruence|]. split; [vm_compute; congruence|].
  exact integer_u32max_declined_as_found.
Qed.
Print Assumptions C12_integers_refuted_as_found.

(* the printed form `w`, `n/d`, `w n/d` of a fraction with non-zero value reads back as w + n/d
   ([fmt], [fmtp] are the f64 formatters of std, used only for "0") *)
Theorem C12_display :
  forall (fmt fmtp : Q -> str), fmt 0 = [48%N] ->
  forall w n d e, is_zero (value (Fraction w n d e)) = false ->
    exists q, read_display (display fmt fmtp false (Fraction w n d e)) = Some q
              /\ q == N2Q w + N2Q n / N2Q d.
Proof. exact display_reads. Qed.
Print Assumptions C12_display.

(* in particular for every fraction new_approx returns *)
Theorem C12_display_of_result :
  forall (fmt fmtp : Q -> str), fmt 0 = [48%N] ->
  forall c v acc md mw w n d e,
    new_approx c (Fin v) (Fin acc) md mw = Done (Some (Fraction w n d e)) ->
    exists q, read_display (display fmt fmtp false (Fraction w n d e)) = Some q
              /\ q == N2Q w + N2Q n / N2Q d.
Proof. intros fmt fmtp F c v acc md mw w n d e H. exact (approx_display fmt fmtp c v acc md mw w n d e F H). Qed.
Print Assumptions C12_display_of_result.

(* ---------- approximating a number again: Number::try_approx, ScaledQuantity::try_fraction ---------- *)

(* two values of type f64 are the same: equal rationals, or the same non-finite value *)
Definition same_value (a b : f64) : Prop :=
  match a, b with
  | Fin p, Fin q => p == q
  | NaN, NaN | PInf, PInf | NInf, NInf => True
  | _, _ => False
  end.

(* [after_calls v0 x ps tr]: [tr] lists the number after each of the successive calls
   `x.try_approx(acc, md, mw)`, (acc, md, mw) ranging over [ps], with the flag the call returned, and
   after EVERY call the exact value (fraction plus recorded error) is still [v0]; a call that returned
   true was made with an accuracy [a] that is a number and left a number with |err| <= a * value, of the
   shape C12_shape describes for these md, mw; a call that returned false left the number as it was *)
Fixpoint after_calls (v0 : f64) (x : number) (ps : list params) (tr : list (number * bool)) : Prop :=
  match ps, tr with
  | [], [] => True
  | (acc, md, mw) :: ps', (y, ok) :: tr' =>
      same_value (value y) v0
      /\ (if ok
          then exists v a, same_value (Fin v) v0 /\ acc = Fin a /\ 0 < v /\ Qabs (err_of y) <= a * v
                 /\ match y with
                    | Regular r => r = v /\ v - inject_Z (Qfloor v) < regular_eps /\ (Z.to_N (Qfloor v) <= mw)%N
                    | Fraction w n d _ =>
                        (w <= mw)%N /\
                        ((n = 0%N /\ d = 1%N /\ (0 < w)%N) \/ (In d denoms /\ (d <= md)%N /\ (0 < n < d)%N))
                    end
          else y = x)
      /\ after_calls v0 y ps' tr'
  | _, _ => False
  end.

(* any number - plain, or a stored fraction with whatever recorded error, also one no approximation
   produced - keeps its exact value through any sequence of try_approx calls with any parameters, and
   after each successful call the clauses of C12_within and C12_shape hold *)
Theorem C12_try_approx_exact :
  forall c x ps tr, try_approx_seq c x ps = Done tr -> after_calls (value x) x ps tr.
Proof.
  intros c x ps tr H.
  exact (FractionTry.try_approx_seq_spec c ps x (value x) tr (FractionTry.same_value_refl _) H).
Qed.
Print Assumptions C12_try_approx_exact.

(* in particular the value after the last call *)
Theorem C12_try_approx_last :
  forall c x ps tr, try_approx_seq c x ps = Done tr ->
    same_value (value (fst (last tr (x, false)))) (value x).
Proof. exact FractionTry.try_approx_seq_last. Qed.
Print Assumptions C12_try_approx_last.

(* with every accuracy in [0,1] and every max_den <= 64 no call of the sequence panics *)
Theorem C12_try_approx_total :
  forall c x ps,
    Forall (fun p : params => match p with (acc, md, _) =>
              (exists a, acc = Fin a /\ 0 <= a <= 1) /\ (md <= 64)%N end) ps ->
    exists tr, try_approx_seq c x ps = Done tr.
Proof. exact FractionTry.try_approx_seq_total. Qed.
Print Assumptions C12_try_approx_total.

(* the numbers of a quantity value keep their exact values *)
Definition values_kept (v v' : qvalue) : Prop :=
  match v, v' with
  | VNumber n, VNumber n' => same_value (value n') (value n)
  | VRange s e, VRange s' e' => same_value (value s') (value s) /\ same_value (value e') (value e)
  | VText, VText => True
  | _, _ => False
  end.

(* ScaledQuantity::try_fraction, whatever the configuration of the unit: number, both ends of a range
   keep their exact values (so calling it again, or on a quantity that was fitted before, changes no
   amount); `false` means nothing was touched *)
Theorem C12_try_fraction_exact :
  forall c fc v v' ok, try_fraction c fc v = Done (v', ok) ->
    values_kept v v' /\ (ok = false -> v' = v).
Proof. exact FractionTry.try_fraction_spec. Qed.
Print Assumptions C12_try_fraction_exact.

(* a configuration that comes out of FractionsConfigHelper::define (clamps regenerated from the source)
   satisfies the assertions of new_approx unless the accuracy written in the units file is NaN *)
Theorem C12_try_fraction_total :
  forall c h v, fh_accuracy h <> Some NaN -> exists r, try_fraction c (define h) v = Done r.
Proof. exact FractionTry.try_fraction_no_panic. Qed.
Print Assumptions C12_try_fraction_total.

(* Examples showing that the hypotheses above are satisfiable are in Proofs/FractionExamples.v
   (they name concrete answers, which depend on the regenerated constants, so they are checked
   and reported separately from the theorems). *)
