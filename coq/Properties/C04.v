(* C04 - Every reported source location is in bounds, on char boundaries, faithful.
   Proved: the token spans, from which every other span is computed, tile the input
   exactly; each token's text is the input slice at its span (so both ends are char
   boundaries inside the input).  Event/label spans are compared exactly with the
   implementation and monitored on it. *)
From CL Require Import Base.StrLemmas Model.Lexer Model.Parser Proofs.LexerProofs.

Theorem C04_tokens_tile :
  forall (U : N -> ucls) s off ts, lex_at U s off = Some ts -> concat (map tstr ts) = s.
Proof. exact lex_tiles. Qed.
Print Assumptions C04_tokens_tile.

Theorem C04_tokens_adjacent :
  forall (U : N -> ucls) s off ts, lex_at U s off = Some ts -> adjacent_from off ts.
Proof. exact lex_adjacent. Qed.
Print Assumptions C04_tokens_adjacent.

(* a token's characters are the input slice at its span *)
Theorem C04_token_faithful :
  forall (U : N -> ucls) s ts, lex U s = Some ts -> Forall (fun t => sub s (tstr t) (tstart t)) ts.
Proof. exact lex_tokens_located. Qed.
Print Assumptions C04_token_faithful.

(* hence every token span is in bounds, ordered, and on character boundaries *)
Theorem C04_token_spans_ok :
  forall (U : N -> ucls) s ts, lex U s = Some ts -> Forall (fun t => span_ok s (tok_span t)) ts.
Proof.
  intros U s ts H. pose proof (lex_tokens_located U s ts H) as HL.
  rewrite Forall_forall in *. intros t Ht. unfold tok_span, tend. apply sub_span_ok. exact (HL t Ht).
Qed.
Print Assumptions C04_token_spans_ok.
