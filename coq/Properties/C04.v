(* C04 - Every reported source location is in bounds, on char boundaries, faithful.
   Proved: the token spans, from which every other span is computed, tile the input
   exactly; each token's text is the input slice at its span (so both ends are char
   boundaries inside the input); every span of every parser event ([event_spans]: component,
   name, alias, note, quantity, value, unit, scaling lock, modifiers, intermediate data,
   metadata key/value, section name, front matter, text and each of its fragments, diagnostic
   labels) satisfies [span_ok]; every text fragment is the input slice at its offset.
   Analysis-stage labels are compared exactly with the implementation and monitored on it. *)
From CL Require Import Base.StrLemmas Model.Lexer Model.Parser Proofs.LexerProofs
  Proofs.ParserFM Proofs.ParserTotal Proofs.ParserSpans Proofs.ParserOrder
  Gen.LabelSites Model.AnalysisLabels Proofs.AnalysisLabelsProofs Proofs.AnalysisLabelsFacts.
From Coq Require String.
Import String.StringSyntax.

Theorem C04_tokens_tile :
  forall (U : N -> ucls) s off ts, lex_at U s off = Some ts -> concat (map tstr ts) = s.
Proof. exact lex_tiles. Qed.
Print Assumptions C04_tokens_tile.

Theorem C04_tokens_adjacent :
  forall (U : N -> ucls) s off ts, lex_at U s off = Some ts -> adjacent_from off ts.
Proof. exact lex_adjacent. Qed.
Print Assumptions C04_tokens_adjacent.

(* a token's characters are the input slice at its span *)
Theorem C04_token_faithful :
  forall (U : N -> ucls) s ts, lex U s = Some ts -> Forall (fun t => sub s (tstr t) (tstart t)) ts.
Proof. exact lex_tokens_located. Qed.
Print Assumptions C04_token_faithful.

(* hence every token span is in bounds, ordered, and on character boundaries *)
Theorem C04_token_spans_ok :
  forall (U : N -> ucls) s ts, lex U s = Some ts -> Forall (fun t => span_ok s (tok_span t)) ts.
Proof.
  intros U s ts H. pose proof (lex_tokens_located U s ts H) as HL.
  rewrite Forall_forall in *. intros t Ht. unfold tok_span, tend. apply sub_span_ok. exact (HL t Ht).
Qed.
Print Assumptions C04_token_spans_ok.

(* the offsets computed by the front-matter splitter are character boundaries: the recipe text
   is a suffix of the input starting at its offset, the YAML text is the input slice at its offset *)
Theorem C04_frontmatter_located :
  forall cfg s fm, parse_frontmatter cfg s = Some fm ->
    (exists pre, s = pre ++ cook_text fm /\ blen pre = cook_off fm) /\ sub s (yaml_text fm) (yaml_off fm).
Proof. exact parse_frontmatter_located. Qed.
Print Assumptions C04_frontmatter_located.

(* every span of every event of the pull parser is in bounds, ordered and on character
   boundaries of the input.  The two hypotheses select the code as it is now (see [pcfg]). *)
Theorem C04_event_spans_ok :
  forall (U : N -> ucls) (cfg : pcfg) (s : str) (evs : list pevent),
    p_strict_escape cfg = false -> p_note_label_old cfg = false ->
    events U cfg s = Done evs -> Forall (span_ok s) (flat_map event_spans evs).
Proof. exact event_spans_all_ok. Qed.
Print Assumptions C04_event_spans_ok.

Theorem C04_meta_event_spans_ok :
  forall (U : N -> ucls) (cfg : pcfg) (s : str) (evs : list pevent),
    p_strict_escape cfg = false -> p_note_label_old cfg = false ->
    meta_events U cfg s = Done evs -> Forall (span_ok s) (flat_map event_spans evs).
Proof. exact meta_event_spans_all_ok. Qed.
Print Assumptions C04_meta_event_spans_ok.

(* every fragment of every text of every event is the input slice at its offset (for a soft
   line break the slice is the newline token, which Text::text renders as one blank) *)
Theorem C04_fragments_faithful :
  forall (U : N -> ucls) (cfg : pcfg) (s : str) (evs : list pevent),
    p_strict_escape cfg = false -> events U cfg s = Done evs ->
    forall ev t f, In ev evs -> In t (event_texts ev) -> In f (frags t) -> sub s (ftext f) (foff f).
Proof. exact fragments_faithful. Qed.
Print Assumptions C04_fragments_faithful.

Theorem C04_meta_fragments_faithful :
  forall (U : N -> ucls) (cfg : pcfg) (s : str) (evs : list pevent),
    p_strict_escape cfg = false -> meta_events U cfg s = Done evs ->
    forall ev t f, In ev evs -> In t (event_texts ev) -> In f (frags t) -> sub s (ftext f) (foff f).
Proof. exact meta_fragments_faithful. Qed.
Print Assumptions C04_meta_fragments_faithful.

(* every label of every parse-stage diagnostic *)
Theorem C04_diag_labels_ok :
  forall (U : N -> ucls) (cfg : pcfg) (s : str) (evs : list pevent),
    p_strict_escape cfg = false -> p_note_label_old cfg = false ->
    events U cfg s = Done evs -> forall d, In (EvDiag d) evs -> Forall (span_ok s) (d_labels d).
Proof. exact diag_labels_ok. Qed.
Print Assumptions C04_diag_labels_ok.

Theorem C04_meta_diag_labels_ok :
  forall (U : N -> ucls) (cfg : pcfg) (s : str) (evs : list pevent),
    p_strict_escape cfg = false -> p_note_label_old cfg = false ->
    meta_events U cfg s = Done evs -> forall d, In (EvDiag d) evs -> Forall (span_ok s) (d_labels d).
Proof. exact meta_diag_labels_ok. Qed.
Print Assumptions C04_meta_diag_labels_ok.

(* the hypotheses are satisfiable and the conclusion is not vacuous: with the configuration of
   the current code every input has an event stream *)
Example C04_hypotheses_satisfiable :
  exists cfg, p_strict_escape cfg = false /\ p_note_label_old cfg = false /\
    forall U s, exists evs, events U cfg s = Done evs.
Proof.
  set (cfg := {| p_ext := 0; p_debug := true; p_strict_escape := false; p_note_label_old := false; p_fm_anywhere := false |}).
  exists cfg. split; [reflexivity|]. split; [reflexivity|]. intros U s.
  destruct (events_ok U cfg s eq_refl) as (evs & E & _). exists evs. exact E.
Qed.

(* the code before the repair of step.rs:561 (label at `start - 1` in bytes): the label
   statement is false there, witness "~" U+540D "(x)" whose label (3,3) is inside U+540D *)
Theorem C04_diag_labels_refuted_old :
  exists U cfg s evs d sp,
    p_strict_escape cfg = false /\ p_note_label_old cfg = true /\
    events U cfg s = Done evs /\ In (EvDiag d) evs /\ In sp (d_labels d) /\ ~ span_ok s sp.
Proof. exact note_label_old_refuted. Qed.
Print Assumptions C04_diag_labels_refuted_old.

(* ---- the events come in source order and do not overlap ----
   [ev_main_span] is the span the monitor orders (harness/src/bin/pmon.rs [ev_span]): the span of
   a text / front matter, of a metadata entry from the start of its key to the end of its value, of
   a section name, of a component; Start, End and diagnostics have none.  [ordered] is the monitor's
   test `c04:order` on every two consecutive spans ([snd a <= fst b] and [fst a <= fst b]).  Together
   with well-formedness of each span this gives pairwise disjointness (C04_events_disjoint). *)
Theorem C04_events_ordered :
  forall (U : N -> ucls) (cfg : pcfg) (s : str) (evs : list pevent),
    p_strict_escape cfg = false -> events U cfg s = Done evs ->
    ordered (main_spans evs) /\
    Forall (fun sp => fst sp <= snd sp /\ snd sp <= blen s) (main_spans evs).
Proof. exact events_ordered. Qed.
Print Assumptions C04_events_ordered.

Theorem C04_events_disjoint :
  forall (U : N -> ucls) (cfg : pcfg) (s : str) (evs : list pevent),
    p_strict_escape cfg = false -> events U cfg s = Done evs ->
    ForallOrdPairs (fun a b => snd a <= fst b) (main_spans evs).
Proof. exact events_disjoint. Qed.
Print Assumptions C04_events_disjoint.

(* the statement is not vacuous: "a @b{} c" has three ordered spans, and [ordered] rejects an
   overlap and a span that starts before its predecessor *)
Example C04_events_ordered_sensitive :
  (exists evs, events U_plain cfg_old_label [97; 32; 64; 98; 123; 125; 32; 99] = Done evs /\
               main_spans evs = [(0, 2); (2, 6); (6, 8)]) /\
  ordered [(0, 2); (2, 6); (6, 8)] /\ ~ ordered [(0, 5); (3, 8)] /\ ~ ordered [(4, 4); (2, 6)].
Proof.
  split; [eexists; split; [vm_compute; reflexivity|vm_compute; reflexivity]|].
  split; [cbn; lia|]. split; cbn; lia.
Qed.

(* ---- the labels of analysis-stage diagnostics ----
   Four layers, from the source to the placement theorem:
   1. Gen/LabelSites.v is REGENERATED from /repo/src/analysis/*.rs on every run (gen/gen_labels.py, token
      level): every expression of the non-test code that becomes the span of a label - the span argument
      of every label!(..), every other argument of .label(..) / .add_label(..) / error!(_, ..) /
      warning!(_, ..), every Span::new / Span::pos / Span::from construction, every argument at a Span
      parameter of a function of these files - as (enclosing fn, expression text), white space and string
      literals normalised, a lone identifier followed by its nearest binder, NO line numbers.
      [C04_label_inventory] pins the list: a label that is added, removed or edited breaks it; moving
      code does not.
   2. Model/AnalysisLabels.v [label_table] has one row per inventory entry ([C04_label_inventory_classified])
      and gives the SITES (id, form) the entry's span reaches; the rows reach exactly the 53 sites of
      [label_sites] ([C04_label_table_sites]).
   3. A form is: the span of a part of a parser event ([FPart]); the position at the end of such a span
      ([FPosEnd]); the start of a metadata key joined with the end of its value ([FJoinKV]); the offset of
      the front matter text plus a byte index into it, from yaml_find_key_position ([FYamlKey], modelled
      function by function); the label of a front matter serde_yaml rejects ([FYamlErr]: the offset plus
      the index of the error's location - an oracle - or, without a location, the span of the whole
      text).  [produces evs f sp]: a label of form f can be sp on the stream evs.
   4. [C04_analysis_labels_ok] / [C04_inventory_labels_ok]: every span a site produces from the events of
      any input is in bounds, ordered and on character boundaries. *)

(* the inventory of the source (as of 45a4888) *)
Local Open Scope string_scope.
Theorem C04_label_inventory :
  LabelSites.sites = [
    ("parse_events",
     "span <- for span in self.old_style_metadata_used");
    ("process_frontmatter",
     "Span::pos(yaml_text.span().start() + loc.index())");
    ("process_frontmatter",
     "err_span <- let err_span = err.location().map(|loc|Span::pos(yaml_text.span().start() + loc.index())).unwrap_or_else(||yaml_text.span())");
    ("process_frontmatter",
     "Span::pos(yaml_text.span().start() + pos)");
    ("process_frontmatter",
     "Span::pos(yaml_text.span().start() + pos)");
    ("process_frontmatter",
     "Span::pos(yaml_text.span().start() + p)");
    ("process_frontmatter",
     "Span::pos(yaml_text.span().start() + p)");
    ("process_frontmatter",
     "Span::pos(yaml_text.span().start() + p)");
    ("metadata",
     "value.span()");
    ("metadata",
     "key.span()");
    ("metadata",
     "key.span()");
    ("metadata",
     "Span::new(key.span().start(), value.span().end())");
    ("metadata",
     "key.span()");
    ("metadata",
     "value.span()");
    ("metadata",
     "value.span()");
    ("metadata",
     "key.span()");
    ("time_override_check",
     "Span::new(e.0.span().start(), e.1.span().end())");
    ("time_override_check",
     "overriden.next().unwrap()");
    ("time_override_check",
     "e <- for e in overriden");
    ("time_override_check",
     "overrides <- let overrides = locs(&[new])[0]");
    ("in_step",
     "text.span()");
    ("in_text",
     "span <- let (c, span) = match ev{Event::Ingredient(i) => (<str>, i.span()), Event::Cookware(c) => (<str>, c.span()), Event::Timer(t) => (<str>, t.span()), _ => unreachable!(), }");
    ("ingredient",
     "ingredient.modifiers.span()");
    ("ingredient",
     "resolve_reference(location: location <- let (ingredient, location) = ingredient.take_pair())");
    ("ingredient",
     "resolve_reference(modifiers_location: located_ingredient.modifiers.span())");
    ("ingredient",
     "new <- let new = new_q_loc.unit.as_ref().map(|l|l.span()).unwrap_or(new_q_loc.span())");
    ("ingredient",
     "old <- let old = old_q_loc.unit.as_ref().map(|l|l.span()).unwrap_or(old_q_loc.span())");
    ("ingredient",
     "new <- let new = new_q_loc.unit.as_ref().map(|l|l.span()).unwrap_or(new_q_loc.span())");
    ("ingredient",
     "old <- let old = old_q_loc.unit.as_ref().map(|l|l.span()).unwrap_or(old_q_loc.span())");
    ("ingredient",
     "new <- let new = new_q_loc.unit.as_ref().map(|l|l.span()).unwrap_or(new_q_loc.span())");
    ("ingredient",
     "old <- let old = old_q_loc.unit.as_ref().map(|l|l.span()).unwrap_or(old_q_loc.span())");
    ("ingredient",
     "new <- let new = new_q_loc.unit.as_ref().map(|l|l.span()).unwrap_or(new_q_loc.span())");
    ("ingredient",
     "old <- let old = old_q_loc.unit.as_ref().map(|l|l.span()).unwrap_or(old_q_loc.span())");
    ("ingredient",
     "warning!(.., main_label <- let (main_label, support_label) = match &e{crate::quantity::IncompatibleUnits::MissingUnit{lhs, ..} => {let m=<str>;let f=<str>;if *lhs{(label!(new, m), label!(old, f))} else {(label!(new, f), label!(old, m))}}crate::quantity::IncompatibleUnits::DifferentPhysicalQuantities{a:a_q, b:b_q, } => {(label!(new, b_q.to_string()), label!(old, a_q.to_string()))}crate::quantity::IncompatibleUnits::UnknownDifferentUnits{..} => {(label!(new), label!(old))}})");
    ("ingredient",
     ".label(support_label <- let (main_label, support_label) = match &e{crate::quantity::IncompatibleUnits::MissingUnit{lhs, ..} => {let m=<str>;let f=<str>;if *lhs{(label!(new, m), label!(old, f))} else {(label!(new, f), label!(old, m))}}crate::quantity::IncompatibleUnits::DifferentPhysicalQuantities{a:a_q, b:b_q, } => {(label!(new, b_q.to_string()), label!(old, a_q.to_string()))}crate::quantity::IncompatibleUnits::UnknownDifferentUnits{..} => {(label!(new), label!(old))}})");
    ("ingredient",
     "note_reference_error(span: note.span())");
    ("ingredient",
     "note_reference_error(def_span: definition_location.span())");
    ("ingredient",
     "note_reference_error(def_note_span: definition_location.note.as_ref().map(|n|n.span()))");
    ("ingredient",
     "conflicting_reference_quantity_error(ref_quantity_span: ingredient.quantity.unwrap().span())");
    ("ingredient",
     "conflicting_reference_quantity_error(def_span: definition_location.span())");
    ("ingredient",
     "text_val_in_ref_warn(text_quantity_span: text_quantity_span <- let (text_quantity_span, number_quantity_span) = if ref_is_text{(ref_q_loc, def_q_loc)} else {(def_q_loc, ref_q_loc)})");
    ("ingredient",
     "text_val_in_ref_warn(number_quantity_span: number_quantity_span <- let (text_quantity_span, number_quantity_span) = if ref_is_text{(ref_q_loc, def_q_loc)} else {(def_q_loc, ref_q_loc)})");
    ("ingredient",
     "location <- let (ingredient, location) = ingredient.take_pair()");
    ("resolve_intermediate_ref",
     "inter_data.span()");
    ("resolve_intermediate_ref",
     "inter_data.span()");
    ("resolve_intermediate_ref",
     "inter_data.span()");
    ("cookware",
     "resolve_reference(location: location <- let (cookware, location) = cookware.take_pair())");
    ("cookware",
     "resolve_reference(modifiers_location: located_cookware.modifiers.span())");
    ("cookware",
     "note_reference_error(span: note.span())");
    ("cookware",
     "note_reference_error(def_span: definition_location.span())");
    ("cookware",
     "note_reference_error(def_note_span: definition_location.note.as_ref().map(|n|n.span()))");
    ("cookware",
     "conflicting_reference_quantity_error(ref_quantity_span: located_cookware.quantity.as_ref().unwrap().span())");
    ("cookware",
     "conflicting_reference_quantity_error(def_span: definition_location.span())");
    ("cookware",
     "text_val_in_ref_warn(text_quantity_span: text_quantity_span <- let (text_quantity_span, number_quantity_span) = if ref_is_text{(ref_q_loc, def_q_loc)} else {(def_q_loc, ref_q_loc)})");
    ("cookware",
     "text_val_in_ref_warn(number_quantity_span: number_quantity_span <- let (text_quantity_span, number_quantity_span) = if ref_is_text{(ref_q_loc, def_q_loc)} else {(def_q_loc, ref_q_loc)})");
    ("timer",
     "located_quantity.value.span()");
    ("timer",
     "unit_span <- let unit_span = located_quantity.unit.as_ref().unwrap().span()");
    ("timer",
     "unit_span <- let unit_span = located_quantity.unit.as_ref().unwrap().span()");
    ("value",
     "value.span()");
    ("resolve_reference",
     "modifiers_location <- fn parameter");
    ("resolve_reference",
     "modifiers_location <- fn parameter");
    ("resolve_reference",
     "location <- fn parameter");
    ("note_reference_error",
     "span <- fn parameter");
    ("note_reference_error",
     "sp <- if let Some(sp) = def_note_span");
    ("note_reference_error",
     "Span::pos(def_span.end())");
    ("conflicting_reference_quantity_error",
     "ref_quantity_span <- fn parameter");
    ("conflicting_reference_quantity_error",
     "def_span <- fn parameter");
    ("text_val_in_ref_warn",
     "text_quantity_span <- fn parameter");
    ("text_val_in_ref_warn",
     "number_quantity_span <- fn parameter")
  ].
Proof. reflexivity. Qed.
Local Close Scope string_scope.
Print Assumptions C04_label_inventory.

(* one row of the classification table per inventory entry, in the same order *)
Theorem C04_label_inventory_classified : map fst label_table = LabelSites.sites.
Proof. reflexivity. Qed.
Print Assumptions C04_label_inventory_classified.

(* the rows name sites of the enumeration, and every site of the enumeration is reached by a row *)
Theorem C04_label_table_sites :
  (forall r c, In r label_table -> In c (snd r) -> In c label_sites) /\
  (forall c, In c label_sites -> exists r, In r label_table /\ In c (snd r)).
Proof. exact (conj label_table_in_sites label_sites_in_table). Qed.
Print Assumptions C04_label_table_sites.

(* yaml_find_key_position: a returned position is the start of a line of the text (the search
   runs on the line after trim_start, so the index of the key inside the line is always 0): a
   character boundary of the text, at most its length; and the one slice of the function never panics *)
Theorem C04_yaml_key_position_ok :
  forall text key p, yaml_find_key_position text key = Done (Some p) -> boundary text p /\ p <= blen text.
Proof. exact yaml_key_position_ok. Qed.
Print Assumptions C04_yaml_key_position_ok.

Theorem C04_yaml_key_position_total :
  forall text key, exists r, yaml_find_key_position text key = Done r.
Proof. exact yaml_key_position_total. Qed.
Print Assumptions C04_yaml_key_position_total.

(* each form yields a span that is in bounds, ordered and on character boundaries, from: every
   span of every event is well placed (C04_event_spans_ok), every text fragment is the source slice
   at its offset (C04_fragments_faithful), [ev_fact] (a metadata key starts at or before the end of
   its value; the front matter text is one verbatim fragment), and the oracle hypothesis
   [yaml_index_ok]: serde_yaml reports an index that is a character boundary of the text it parsed
   (checked at run time: the C04 monitor flags every label that is not well placed) *)
Theorem C04_analysis_label_forms_ok :
  forall yaml_err_index (s : str) (evs : list pevent),
    Forall (span_ok s) (flat_map event_spans evs) ->
    (forall ev t f, In ev evs -> In t (event_texts ev) -> In f (frags t) -> sub s (ftext f) (foff f)) ->
    Forall ev_fact evs -> yaml_index_ok yaml_err_index ->
    forall f sp, f <> FNoteOld -> produces yaml_err_index evs f sp -> span_ok s sp.
Proof.
  intros y s evs H1 H2 H3 H4 f sp Hn Hp. exact (form_ok y s evs H1 H2 f sp Hn H3 H4 Hp).
Qed.
Print Assumptions C04_analysis_label_forms_ok.

(* the two facts about events hold for every event of the pull parser: a metadata key starts at or
   before the end of its value (key text from the tokens before the colon, value text from those
   after it), and the only front matter event is the one built by Text::from_str *)
Theorem C04_event_facts :
  forall (U : N -> ucls) (cfg : pcfg) (s : str) (evs : list pevent),
    p_strict_escape cfg = false -> events U cfg s = Done evs -> Forall ev_fact evs.
Proof. exact events_ev_fact. Qed.
Print Assumptions C04_event_facts.

(* assembled over the enumeration, on the events of the pull parser with the current code: every
   label that any of the 53 sites can produce from the events of any input is in bounds, ordered
   and on character boundaries.  The one hypothesis left is the serde_yaml oracle [yaml_index_ok]
   (site 248 only, and only when the error has a location; without one the label is the span of the
   front matter text).  The number of a site is its source line as of 17e6a01, kept as an identifier. *)
Theorem C04_analysis_labels_ok :
  forall (U : N -> ucls) (cfg : pcfg) (s : str) (evs : list pevent) yaml_err_index,
    p_strict_escape cfg = false -> p_note_label_old cfg = false ->
    events U cfg s = Done evs ->
    yaml_index_ok yaml_err_index ->
    forall line f sp, In (line, f) label_sites -> produces yaml_err_index evs f sp -> span_ok s sp.
Proof.
  intros U cfg s evs y H1 H2 E Hy.
  exact (analysis_labels_ok U cfg s evs y H1 H2 E (events_ev_fact U cfg s evs H1 E) Hy).
Qed.
Print Assumptions C04_analysis_labels_ok.

(* the same, read from the inventory: for every entry (fn, expr) of the regenerated inventory, the row
   of the table with that key, every site (id, f) of the row, every span the site can produce *)
Theorem C04_inventory_labels_ok :
  forall (U : N -> ucls) (cfg : pcfg) (s : str) (evs : list pevent) yaml_err_index,
    p_strict_escape cfg = false -> p_note_label_old cfg = false ->
    events U cfg s = Done evs ->
    yaml_index_ok yaml_err_index ->
    forall fn expr, In (fn, expr) LabelSites.sites ->
      (exists cls, In (fn, expr, cls) label_table) /\
      forall cls id f sp, In (fn, expr, cls) label_table -> In (id, f) cls ->
        produces yaml_err_index evs f sp -> span_ok s sp.
Proof.
  intros U cfg s evs y H1 H2 E Hy fn expr Hin. split.
  - rewrite <- C04_label_inventory_classified in Hin. apply in_map_iff in Hin as ([k cls] & Ek & Hr).
    cbn [fst] in Ek. subst k. exists cls. exact Hr.
  - intros cls id f sp Hr Hc.
    exact (inventory_labels_ok U cfg s evs y H1 H2 E (events_ev_fact U cfg s evs H1 E) Hy fn expr cls id f sp Hr Hc).
Qed.
Print Assumptions C04_inventory_labels_ok.

(* the front matter error label without a location (45a4888) is covered: on "---\n[\n---\n" with an oracle
   that gives no location, site 248 produces the span of the front matter text *)
Example C04_yaml_err_unlocated_inhabited :
  exists evs t, events U_plain cfg_now_all [45;45;45;10;91;10;45;45;45;10] = Done evs /\
    In (EvYaml t) evs /\ In (248, FYamlErr) label_sites /\
    produces (fun _ => None) evs FYamlErr (text_span t) /\ text_span t = (4, 6).
Proof.
  eexists. eexists. split; [vm_compute; reflexivity|]. split; [left; reflexivity|].
  split; [unfold label_sites; repeat (first [left; reflexivity | right])|].
  split; [|reflexivity]. cbn [produces]. eexists. split; [left; reflexivity|]. reflexivity.
Qed.

(* not vacuous: the witness input of the repaired defect has a note label under the current form,
   and it is the note text (23, 25) *)
Example C04_analysis_labels_inhabited :
  exists evs, events U_plain cfg_now_all note_witness = Done evs /\
    In (703, FPart PNote) label_sites /\ produces (fun _ => None) evs (FPart PNote) (23, 25).
Proof.
  eexists. split; [vm_compute; reflexivity|]. split.
  { unfold label_sites. repeat (first [left; reflexivity | right]). }
  cbn [produces]. eexists. split; [right; right; right; right; left; reflexivity|]. left. reflexivity.
Qed.

(* the code before 17e6a01: note_reference_error widened the note text's span by one byte on each
   side; on "@salt{}\n\n@&salt{}(-- U+00E9 \nx)" the label (22, 26) starts inside U+00E9 *)
Theorem C04_note_label_refuted_before_fix :
  exists evs sp,
    events U_plain cfg_now_all note_witness = Done evs /\
    In (703, FNoteOld) label_sites_before_17e6a01 /\
    produces (fun _ => None) evs FNoteOld sp /\ ~ span_ok note_witness sp.
Proof. exact note_label_refuted_before_fix. Qed.
Print Assumptions C04_note_label_refuted_before_fix.
