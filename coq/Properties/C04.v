(* C04 - Every reported source location is in bounds, on char boundaries, faithful.
   Proved: the token spans, from which every other span is computed, tile the input
   exactly; each token's text is the input slice at its span (so both ends are char
   boundaries inside the input); every span of every parser event ([event_spans]: component,
   name, alias, note, quantity, value, unit, scaling lock, modifiers, intermediate data,
   metadata key/value, section name, front matter, text and each of its fragments, diagnostic
   labels) satisfies [span_ok]; every text fragment is the input slice at its offset.
   Analysis-stage labels are compared exactly with the implementation and monitored on it. *)
From CL Require Import Base.StrLemmas Model.Lexer Model.Parser Proofs.LexerProofs
  Proofs.ParserFM Proofs.ParserTotal Proofs.ParserSpans Proofs.ParserOrder.

Theorem C04_tokens_tile :
  forall (U : N -> ucls) s off ts, lex_at U s off = Some ts -> concat (map tstr ts) = s.
Proof. exact lex_tiles. Qed.
Print Assumptions C04_tokens_tile.

Theorem C04_tokens_adjacent :
  forall (U : N -> ucls) s off ts, lex_at U s off = Some ts -> adjacent_from off ts.
Proof. exact lex_adjacent. Qed.
Print Assumptions C04_tokens_adjacent.

(* a token's characters are the input slice at its span *)
Theorem C04_token_faithful :
  forall (U : N -> ucls) s ts, lex U s = Some ts -> Forall (fun t => sub s (tstr t) (tstart t)) ts.
Proof. exact lex_tokens_located. Qed.
Print Assumptions C04_token_faithful.

(* hence every token span is in bounds, ordered, and on character boundaries *)
Theorem C04_token_spans_ok :
  forall (U : N -> ucls) s ts, lex U s = Some ts -> Forall (fun t => span_ok s (tok_span t)) ts.
Proof.
  intros U s ts H. pose proof (lex_tokens_located U s ts H) as HL.
  rewrite Forall_forall in *. intros t Ht. unfold tok_span, tend. apply sub_span_ok. exact (HL t Ht).
Qed.
Print Assumptions C04_token_spans_ok.

(* the offsets computed by the front-matter splitter are character boundaries: the recipe text
   is a suffix of the input starting at its offset, the YAML text is the input slice at its offset *)
Theorem C04_frontmatter_located :
  forall cfg s fm, parse_frontmatter cfg s = Some fm ->
    (exists pre, s = pre ++ cook_text fm /\ blen pre = cook_off fm) /\ sub s (yaml_text fm) (yaml_off fm).
Proof. exact parse_frontmatter_located. Qed.
Print Assumptions C04_frontmatter_located.

(* every span of every event of the pull parser is in bounds, ordered and on character
   boundaries of the input.  The two hypotheses select the code as it is now (see [pcfg]). *)
Theorem C04_event_spans_ok :
  forall (U : N -> ucls) (cfg : pcfg) (s : str) (evs : list pevent),
    p_strict_escape cfg = false -> p_note_label_old cfg = false ->
    events U cfg s = Done evs -> Forall (span_ok s) (flat_map event_spans evs).
Proof. exact event_spans_all_ok. Qed.
Print Assumptions C04_event_spans_ok.

Theorem C04_meta_event_spans_ok :
  forall (U : N -> ucls) (cfg : pcfg) (s : str) (evs : list pevent),
    p_strict_escape cfg = false -> p_note_label_old cfg = false ->
    meta_events U cfg s = Done evs -> Forall (span_ok s) (flat_map event_spans evs).
Proof. exact meta_event_spans_all_ok. Qed.
Print Assumptions C04_meta_event_spans_ok.

(* every fragment of every text of every event is the input slice at its offset (for a soft
   line break the slice is the newline token, which Text::text renders as one blank) *)
Theorem C04_fragments_faithful :
  forall (U : N -> ucls) (cfg : pcfg) (s : str) (evs : list pevent),
    p_strict_escape cfg = false -> events U cfg s = Done evs ->
    forall ev t f, In ev evs -> In t (event_texts ev) -> In f (frags t) -> sub s (ftext f) (foff f).
Proof. exact fragments_faithful. Qed.
Print Assumptions C04_fragments_faithful.

Theorem C04_meta_fragments_faithful :
  forall (U : N -> ucls) (cfg : pcfg) (s : str) (evs : list pevent),
    p_strict_escape cfg = false -> meta_events U cfg s = Done evs ->
    forall ev t f, In ev evs -> In t (event_texts ev) -> In f (frags t) -> sub s (ftext f) (foff f).
Proof. exact meta_fragments_faithful. Qed.
Print Assumptions C04_meta_fragments_faithful.

(* every label of every parse-stage diagnostic *)
Theorem C04_diag_labels_ok :
  forall (U : N -> ucls) (cfg : pcfg) (s : str) (evs : list pevent),
    p_strict_escape cfg = false -> p_note_label_old cfg = false ->
    events U cfg s = Done evs -> forall d, In (EvDiag d) evs -> Forall (span_ok s) (d_labels d).
Proof. exact diag_labels_ok. Qed.
Print Assumptions C04_diag_labels_ok.

Theorem C04_meta_diag_labels_ok :
  forall (U : N -> ucls) (cfg : pcfg) (s : str) (evs : list pevent),
    p_strict_escape cfg = false -> p_note_label_old cfg = false ->
    meta_events U cfg s = Done evs -> forall d, In (EvDiag d) evs -> Forall (span_ok s) (d_labels d).
Proof. exact meta_diag_labels_ok. Qed.
Print Assumptions C04_meta_diag_labels_ok.

(* the hypotheses are satisfiable and the conclusion is not vacuous: with the configuration of
   the current code every input has an event stream *)
Example C04_hypotheses_satisfiable :
  exists cfg, p_strict_escape cfg = false /\ p_note_label_old cfg = false /\
    forall U s, exists evs, events U cfg s = Done evs.
Proof.
  set (cfg := {| p_ext := 0; p_debug := true; p_strict_escape := false; p_note_label_old := false; p_fm_anywhere := false |}).
  exists cfg. split; [reflexivity|]. split; [reflexivity|]. intros U s.
  destruct (events_ok U cfg s eq_refl) as (evs & E & _). exists evs. exact E.
Qed.

(* the code before the repair of step.rs:561 (label at `start - 1` in bytes): the label
   statement is false there, witness "~" U+540D "(x)" whose label (3,3) is inside U+540D *)
Theorem C04_diag_labels_refuted_old :
  exists U cfg s evs d sp,
    p_strict_escape cfg = false /\ p_note_label_old cfg = true /\
    events U cfg s = Done evs /\ In (EvDiag d) evs /\ In sp (d_labels d) /\ ~ span_ok s sp.
Proof. exact note_label_old_refuted. Qed.
Print Assumptions C04_diag_labels_refuted_old.

(* ---- the events come in source order and do not overlap ----
   [ev_main_span] is the span the monitor orders (harness/src/bin/pmon.rs [ev_span]): the span of
   a text / front matter, of a metadata entry from the start of its key to the end of its value, of
   a section name, of a component; Start, End and diagnostics have none.  [ordered] is the monitor's
   test `c04:order` on every two consecutive spans ([snd a <= fst b] and [fst a <= fst b]).  Together
   with well-formedness of each span this gives pairwise disjointness (C04_events_disjoint). *)
Theorem C04_events_ordered :
  forall (U : N -> ucls) (cfg : pcfg) (s : str) (evs : list pevent),
    p_strict_escape cfg = false -> events U cfg s = Done evs ->
    ordered (main_spans evs) /\
    Forall (fun sp => fst sp <= snd sp /\ snd sp <= blen s) (main_spans evs).
Proof. exact events_ordered. Qed.
Print Assumptions C04_events_ordered.

Theorem C04_events_disjoint :
  forall (U : N -> ucls) (cfg : pcfg) (s : str) (evs : list pevent),
    p_strict_escape cfg = false -> events U cfg s = Done evs ->
    ForallOrdPairs (fun a b => snd a <= fst b) (main_spans evs).
Proof. exact events_disjoint. Qed.
Print Assumptions C04_events_disjoint.

(* the statement is not vacuous: "a @b{} c" has three ordered spans, and [ordered] rejects an
   overlap and a span that starts before its predecessor *)
Example C04_events_ordered_sensitive :
  (exists evs, events U_plain cfg_old_label [97; 32; 64; 98; 123; 125; 32; 99] = Done evs /\
               main_spans evs = [(0, 2); (2, 6); (6, 8)]) /\
  ordered [(0, 2); (2, 6); (6, 8)] /\ ~ ordered [(0, 5); (3, 8)] /\ ~ ordered [(4, 4); (2, 6)].
Proof.
  split; [eexists; split; [vm_compute; reflexivity|vm_compute; reflexivity]|].
  split; [cbn; lia|]. split; cbn; lia.
Qed.
