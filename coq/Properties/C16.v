(* C16 - Converters built from configuration layers are consistent or rejected.
   Statements only; proofs live in Proofs/BuilderProofs.v (invariants, induction over files, units,
   extend entries) and Proofs/BuilderExamples.v (closed computations).
   [build cfg_new files] is the model (Model/Builder.v) of ConverterBuilder::new, add_units_file for
   each file, finish, as the code stands now (with the repair /repo aa52d4d); [build cfg_old] is the
   code before the repair.  The theorems hold for every list of files and every iteration order of
   the hash maps (Extend::units, Fractions::unit/quantity are given as lists in iteration order);
   f64 is modelled by exact rationals, so "finite ratios" is built into the type. *)
From CL Require Import Base.StrLemmas Model.Builder Model.BuilderSpec Proofs.BuilderProofs Proofs.BuilderSI Proofs.BuilderExamples.
From CL Require Import Gen.UnitsTomlFile Gen.UnitsSpanishFile Gen.UnitsLive.

(* building never panics: a converter or a ConverterBuilderError *)
Theorem C16_total : forall files, exists r, build cfg_new files = Done r.
Proof. exact build_total. Qed.
Print Assumptions C16_total.

(* every name, symbol and alias of every unit (the SI-prefixed forms are names and symbols of
   units of their own) resolves to exactly that unit; the index holds nothing else; every unit has
   a key, no blank key, no key twice; no key is shared by two units *)
Theorem C16_index_consistent :
  forall files c, build cfg_new files = Done (ROk c) ->
    index_consistent (c_units c) (c_index c) /\ keys_well_formed (c_units c) /\ no_shared_key (c_units c).
Proof.
  intros files c H. destruct (build_ok files c H) as (H1 & H2 & H3 & _). split; [exact H1|]. split; assumption.
Qed.
Print Assumptions C16_index_consistent.

(* each best list is non-empty, starts with threshold 1 at its smallest unit, holds units of its
   own physical quantity in non-decreasing size, and the threshold of a unit is 1 of it
   converted to the smallest unit *)
Theorem C16_best_ok :
  forall files c q, build cfg_new files = Done (ROk c) -> best_store_ok (c_units c) q (c_best c q).
Proof. intros files c q H. destruct (build_ok files c H) as (_ & _ & _ & H4). exact (H4 q). Qed.
Print Assumptions C16_best_ok.

(* ... which for offset-free units is the quotient of the ratios *)
Theorem C16_best_threshold_offset_free :
  forall u b, (difference u == 0)%Q -> (difference b == 0)%Q -> (threshold_of u b == ratio u / ratio b)%Q.
Proof. exact threshold_offset_free. Qed.
Print Assumptions C16_best_threshold_offset_free.

(* layers: the default system is the last given (Metric when none); the best list of a quantity is
   built from the list given last for it (same store shape, and its ids are exactly the units the
   names resolve to in the final index); the all / metric / imperial fractions settings are the
   last given, defaults filled in and clamped.  The other layering statements are
   [C16_precedence_si_tables], [C16_fractions_layers] (unit and quantity tables) and, for the
   extend blocks, [C16_precedence_extend_blocks] with [C16_precedence_extend], [C16_extend_aliases],
   [C16_extend_entries_address_key_owners], [C16_si_forms]. *)
Theorem C16_precedence :
  forall files c, build cfg_new files = Done (ROk c) ->
    Some (c_default c) = last_given uf_default_system files (Some Metric) /\
    (forall q, exists b, last_best q files = Some b /\ best_from c q b) /\
    cf_all (c_fractions c) = defined (last_set fr_all (fractions_layers files) None) /\
    cf_metric (c_fractions c) = defined (last_set fr_metric (fractions_layers files) None) /\
    cf_imperial (c_fractions c) = defined (last_set fr_imperial (fractions_layers files) None).
Proof. exact build_layers. Qed.
Print Assumptions C16_precedence.

(* the SI prefix tables in force when finish expands the units are the layered ones
   (Before prepends, After appends, Override replaces) *)
Theorem C16_precedence_si_tables :
  forall files st, add_files bstate0 files = ROk st ->
    (si_prefixes (b_si st), si_symbol_prefixes (b_si st)) = final_tables files.
Proof. exact add_files_tables. Qed.
Print Assumptions C16_precedence_si_tables.

(* one extend entry in all the layers, whose key is a key of a declared unit: that unit ends up
   exactly as the precedence rule says (names, symbols, aliases layered, ratio and difference
   replaced), whatever SI expansion and re-indexing happen around it *)
Definition C16_precedence_extend_statement : Prop :=
  forall files c, build cfg_new files = Done (ROk c) -> single_extend_ok files c.

Theorem C16_precedence_extend : C16_precedence_extend_statement.
Proof. exact build_single_extend. Qed.
Print Assumptions C16_precedence_extend.

(* any number of entries in a block (model of the second loop of apply_extend_groups, for every
   state of the builder): the aliases of EVERY unit - SI forms included - change only through the
   entries addressed to that unit, by prepending / appending / replacing; in particular the aliases
   a layer gave to an SI form survive every later edit of its base unit, which regenerates the form *)
Theorem C16_extend_aliases :
  forall p si ups units ix units' ix',
    apply_updates ups p si units ix = Done (ROk (units', ix')) ->
    forall j u, nth_error units j = Some u ->
      exists u', nth_error units' j = Some u' /\
                 aliases (ub_unit u') = aliases_after p ups j (aliases (ub_unit u)).
Proof. exact apply_updates_aliases_ok. Qed.
Print Assumptions C16_extend_aliases.

(* ... and an entry is addressed to the unit that owns its key when the block starts ([WF] is the
   invariant of the builder, which holds at the start of every block: Proofs/BuilderProofs.v
   apply_extend_groups_spec) *)
Theorem C16_extend_entries_address_key_owners :
  forall units ix es ups, WF units ix -> resolve_entries es units ix [] = Done (ROk ups) ->
    Forall2 (fun ke ie => snd ke = snd ie /\
               exists u, nth_error units (fst ie) = Some u /\ In (fst ke) (all_keys (ub_unit u)))
            es ups.
Proof. exact resolve_entries_sound_ok. Qed.
Print Assumptions C16_extend_entries_address_key_owners.

(* one extend entry edits a unit exactly as the precedence rule says *)
Theorem C16_precedence_edit_rule : forall u e p, edit_unit u e p = layered_unit u e p.
Proof. exact edit_unit_layered. Qed.
Print Assumptions C16_precedence_edit_rule.

(* SI forms: every `prefix ++ name` and `symbol_prefix ++ symbol` of a unit declared with
   expand_si - names, symbols and ratio as they are after all the extend blocks, prefixes from the
   layered tables - resolves to a unit of the same quantity whose ratio is ratio * 10^k.
   Invariant (Proofs/BuilderSI.v, [SIV]): every expansion is the prefixed form of its base as the base
   is now, and no expansion has two bases; through the expansion loop of finish and every extend entry *)
Definition C16_si_forms_statement : Prop :=
  forall files c, build cfg_new files = Done (ROk c) -> si_forms_ok files c.

Theorem C16_si_forms : C16_si_forms_statement.
Proof. exact build_si_forms. Qed.
Print Assumptions C16_si_forms.

(* fractions: what Fractions::config answers for a unit is, field by field, the first of: the last
   per-unit entry whose key is a key of the unit, the last setting of its quantity, of its system,
   of `all` - each of them taken over ALL the layers (so a broader setting given by a later layer
   reaches the units configured earlier); a unit without entry gets the most specific table entry *)
Theorem C16_fractions_layers :
  forall files c, build cfg_new files = Done (ROk c) ->
    forall t u, nth_error (c_units c) t = Some u ->
      fractions_config (c_fractions c) (usystem u) (quantity u) t = resolved_fractions files c t u.
Proof. exact build_fractions_layers. Qed.
Print Assumptions C16_fractions_layers.

(* all the extend blocks of a build.  The units the blocks start from are the declared units, as
   declared and in order, followed by their SI forms ([SIV]); the blocks apply in the order of the
   files; the entries of a block address the units that own their keys when the block starts; a block
   leaves every unit that is not an SI form exactly as the entries addressed to it say
   ([unit_after]: names, symbols, aliases prepended / appended / replaced by the precedence of the
   block, ratio and difference replaced), changes the aliases of every unit - SI forms included -
   only through the entries addressed to it ([aliases_after]), and every SI form is again the
   prefixed form of its base as the base is after the block ([SIV]); the units of the converter are
   the result.  ([blocks_run], [block_effect]: Proofs/BuilderSI.v; the units carry the builder's
   flags, [c_units c] is their projection.) *)
Theorem C16_precedence_extend_blocks :
  forall files c, build cfg_new files = Done (ROk c) -> extend_run_ok files c.
Proof. exact build_extend_run. Qed.
Print Assumptions C16_precedence_extend_blocks.

(* the shipped configuration: units.toml builds the converter Converter::default() holds (dump of
   the running implementation, regenerated on every run), and units.toml + units/spanish.toml the
   converter the implementation builds from them *)
Theorem C16_default_is_shipped : builds_to cfg_new [units_toml] live_default = true.
Proof. exact default_is_shipped. Qed.
Print Assumptions C16_default_is_shipped.

Theorem C16_spanish_layer_is_live : builds_to cfg_new [units_toml; units_spanish] live_spanish = true.
Proof. exact spanish_layer_is_live. Qed.
Print Assumptions C16_spanish_layer_is_live.

(* the defect repaired by /repo aa52d4d, kept as theorems about the old code: a best list with a
   unit of another physical quantity reached the assert_eq! of convert_f64, or was accepted *)
Theorem C16_total_refuted_before_fix : exists files, build cfg_old files = Panic site_convert_assert.
Proof. exact total_refuted_before_fix. Qed.
Print Assumptions C16_total_refuted_before_fix.

Theorem C16_best_ok_refuted_before_fix :
  exists files c, build cfg_old files = Done (ROk c) /\ ~ best_store_ok (c_units c) Mass (c_best c Mass).
Proof. exact best_ok_refuted_before_fix. Qed.
Print Assumptions C16_best_ok_refuted_before_fix.

(* the hypothesis [build cfg_new files = Done (ROk c)] is satisfiable, and the two witnesses are
   build errors now *)
Example C16_hypothesis_satisfiable : exists files c, build cfg_new files = Done (ROk c).
Proof. exact good_builds. Qed.

Example C16_witnesses_rejected_now :
  build cfg_new w_panic = Done (RErr (EBestUnitQuantity s_ml Mass)) /\
  build cfg_new w_accept = Done (RErr (EBestUnitQuantity s_ml Mass)).
Proof. split; [exact w_panic_now | exact w_accept_now]. Qed.

Example C16_fractions_later_layer :
  match build cfg_new w_frac with
  | Done (ROk c) =>
      let r := fractions_config (c_fractions c) None Mass 4 in
      fc_enabled r && (fc_max_den r =? 8)%N
      && opt_eqb Nat.eqb (find_unit c s_g) (Some 4%nat)
  | _ => false
  end = true.
Proof. exact fractions_later_layer_example. Qed.

Example C16_si_forms_shipped : shipped_ok [units_toml] = true /\ shipped_ok [units_toml; units_spanish] = true.
Proof. exact si_forms_shipped. Qed.

Example C16_single_extend_satisfiable :
  is_ok (build cfg_new w_ext) = true /\
  extend_layers w_ext = [{| ex_prec := Before; ex_units := [(s_g, e_gramo)] |}] /\
  (exists d, nth_error (declared w_ext) 4 = Some d /\ In s_g (all_keys (unit_of d)) /\
             names (layered_unit (unit_of d) e_gramo Before) = [s_gramo; s_gram]).
Proof. exact single_extend_example. Qed.
