(* C16 - Converters built from configuration layers are consistent or rejected.
   Statements only; proofs live in Proofs/BuilderProofs.v and Proofs/BuilderExamples.v.
   [build cfg_new] is the model of ConverterBuilder::new + add_units_file* + finish as the code
   stands now (with the repair aa52d4d), [build cfg_old] the code before it. *)
From CL Require Import Base.StrLemmas Model.Builder Model.BuilderSpec Proofs.BuilderProofs Proofs.BuilderExamples.
From CL Require Import Gen.UnitsTomlFile Gen.UnitsSpanishFile Gen.UnitsLive.

Theorem C16_total_refuted_before_fix : exists files, build cfg_old files = Panic site_convert_assert.
Proof. exact total_refuted_before_fix. Qed.
Print Assumptions C16_total_refuted_before_fix.

Theorem C16_best_ok_refuted_before_fix :
  exists files c, build cfg_old files = Done (ROk c) /\ ~ best_store_ok (c_units c) Mass (c_best c Mass).
Proof. exact best_ok_refuted_before_fix. Qed.
Print Assumptions C16_best_ok_refuted_before_fix.

Theorem C16_default_is_shipped : builds_to cfg_new [units_toml] live_default = true.
Proof. exact default_is_shipped. Qed.
Print Assumptions C16_default_is_shipped.

Theorem C16_spanish_layer_is_live : builds_to cfg_new [units_toml; units_spanish] live_spanish = true.
Proof. exact spanish_layer_is_live. Qed.
Print Assumptions C16_spanish_layer_is_live.
