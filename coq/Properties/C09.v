(* C09 - Unit conversion preserves the physical amount.
   Statements only; proofs live in Proofs/ConvertProofs.v and Proofs/RecipeConvertProofs.v.  The model
   is Model/Convert.v (src/convert/mod.rs, exact rational arithmetic) and, for the recipe-level entry
   point ScaledRecipe::convert (mod.rs 415-453), Model/RecipeConvert.v over the recipe type of
   Model/Scale.v; [bundled_conv] is the converter the model of the builder makes from the
   REGENERATED Gen/UnitsToml.v; [standards] is hand-written. *)
From CL Require Import Base.StrLemmas Model.Convert Model.Standards Gen.UnitsToml Proofs.ConvertProofs.
From CL Require Import Model.Scale Proofs.ScaleProofs Proofs.ScaleTotal Model.RecipeConvert
  Proofs.RecipeConvertProofs.
Open Scope Q_scope.

(* the arithmetic of convert_f64 (mod.rs 720-725), for any two units with non-zero ratios *)
Theorem C09_there_and_back_q : forall v a b,
  0 < u_ratio a -> 0 < u_ratio b -> convert_q (convert_q v a b) b a == v.
Proof. intros v a b Ha Hb. apply convert_q_back; apply Qpos_nonzero; assumption. Qed.
Print Assumptions C09_there_and_back_q.

Theorem C09_via_third_q : forall v a b c,
  0 < u_ratio b -> 0 < u_ratio c -> convert_q (convert_q v a b) b c == convert_q v a c.
Proof. intros v a b c Hb Hc. apply convert_q_trans; apply Qpos_nonzero; assumption. Qed.
Print Assumptions C09_via_third_q.

(* Converter::convert by keys, every converter whose ratios are positive: a successful
   conversion can be undone and gives back the value *)
Theorem C09_there_and_back : forall c v ka kb w ub,
  ratios_pos c ->
  conv_convert c (CNum v) (CKey ka) (ToUnit (CKey kb)) = Done (Ok (CNum w, ub)) ->
  exists v' ua, conv_convert c (CNum w) (CKey kb) (ToUnit (CKey ka)) = Done (Ok (CNum v', ua))
                /\ v' == v.
Proof. exact there_and_back. Qed.
Print Assumptions C09_there_and_back.

(* going through a third unit agrees with the direct conversion *)
Theorem C09_via_third : forall c v ka kb kc w ub x uc,
  ratios_pos c ->
  conv_convert c (CNum v) (CKey ka) (ToUnit (CKey kb)) = Done (Ok (CNum w, ub)) ->
  conv_convert c (CNum w) (CKey kb) (ToUnit (CKey kc)) = Done (Ok (CNum x, uc)) ->
  exists y, conv_convert c (CNum v) (CKey ka) (ToUnit (CKey kc)) = Done (Ok (CNum y, uc)) /\ y == x.
Proof. exact via_third. Qed.
Print Assumptions C09_via_third.

(* the shipped table: units.toml builds, has 38 units after SI expansion, and every one of
   them is filed under the right physical quantity with ratio and offset within relative
   1e-6 of the real-world definition (finite: forallb over the regenerated table) *)
Theorem C09_definitions :
  bundled = Done (Some bundled_conv) /\ length bundled_units = 38%nat /\
  forall u, In u bundled_units -> within_tol u = true.
Proof.
  split; [destruct bundled_builds as (c & H & ->); exact H|].
  split; [exact bundled_count|]. apply forallb_forall. exact bundled_definitions_b.
Qed.
Print Assumptions C09_definitions.

(* the hypotheses of the theorems below hold for the shipped table *)
Theorem C09_bundled_wellformed :
  ratios_pos bundled_conv /\ index_consistent bundled_conv /\ nosys_nofrac_b bundled_conv = true.
Proof.
  split; [exact bundled_ratios_pos|]. split; [exact bundled_index_consistent|exact bundled_nosys_nofrac].
Qed.
Print Assumptions C09_bundled_wellformed.

(* Converter::convert_to_best: the unit is one of the designated list of the requested system
   for the same physical quantity, and both ends of the value keep their amount *)
Theorem C09_best_member : forall c v u s v' b,
  ratios_pos c -> is_ref c u ->
  convert_to_best c v u s = Done (Ok (v', b)) ->
  is_ref c b /\
  In (fst b) (map snd (conversions (best c (u_pq (snd u))) s)) /\
  pair_eq (cv_amount (snd b) v') (cv_amount (snd u) v) /\
  u_pq (snd b) = u_pq (snd u).
Proof. exact convert_to_best_spec. Qed.
Print Assumptions C09_best_member.

Section Quantities.
  Variable approx : Q -> frac_cfg -> outcome (option number).
  (* what C12 proves about Number::new_approx *)
  Hypothesis approx_exact : forall v cfg n, approx v cfg = Done (Some n) -> num_value n == v.

  (* ScaledQuantity::convert (to a unit, to a system, same system): on success the amount is
     kept (fraction error included, both ends of a range), the physical quantity is the same,
     the unit is in the designated list of the target system / is the requested unit *)
  Theorem C09_convert_preserves : forall c q to q',
    ratios_pos c -> index_consistent c -> to_ok c to ->
    convert_impl approx c q to = Done (q', Ok tt) ->
    exists u nu, unit_info c q = Done (Some u) /\ unit_info c q' = Done (Some nu) /\
      (exists a, q_amount c q = Some a) /\
      amt_eq (q_amount c q') (q_amount c q) /\
      u_pq (snd nu) = u_pq (snd u) /\
      (forall s, target_system c (snd u) to = Some s ->
         In (fst nu) (map snd (conversions (best c (u_pq (snd u))) s))) /\
      (forall k, to = ToUnit (CKey k) -> get_unit_id c k = Some (fst nu)).
  Proof.
    intros c q to q' Hp Hi Hto H.
    destruct (convert_impl_spec approx approx_exact c q to q' (Ok tt) Hp Hi Hto H) as [_ K].
    exact (K eq_refl).
  Qed.

  (* ScaledQuantity::fit keeps the amount whatever it returns *)
  Theorem C09_fit_preserves : forall c q q' r,
    ratios_pos c -> index_consistent c ->
    fit approx c q = Done (q', r) -> amt_eq (q_amount c q') (q_amount c q).
  Proof. intros c q q' r Hp Hi H. exact (proj1 (fit_spec approx approx_exact c q q' r Hp Hi H)). Qed.

  (* ... and lands in the designated list of the unit's system (default system for units
     without one, provided fractions are off for them, as in the shipped table) *)
  Theorem C09_fit_member : forall c q q' u,
    ratios_pos c -> index_consistent c ->
    fit approx c q = Done (q', Ok tt) -> unit_info c q = Done (Some u) ->
    (u_sys (snd u) = None ->
       exists cfg, fractions_config c (snd u) = Done cfg /\ fc_enabled cfg = false) ->
    exists nu, unit_info c q' = Done (Some nu) /\ fit_member c u nu.
  Proof.
    intros c q q' u Hp Hi H Hu Hs.
    destruct (fit_spec approx approx_exact c q q' (Ok tt) Hp Hi H) as (_ & _ & K).
    exact (K u Hu eq_refl Hs).
  Qed.

  (* errors come before mutation: a failed convert or fit leaves the quantity as it was *)
  Theorem C09_failures_frame : forall c q to q' e,
    ratios_pos c -> index_consistent c -> to_ok c to ->
    (convert_impl approx c q to = Done (q', Err e) -> q' = q) /\
    (fit approx c q = Done (q', Err e) -> q' = q).
  Proof.
    intros c q to q' e Hp Hi Hto. split; intro H.
    - exact (proj1 (convert_impl_spec approx approx_exact c q to q' (Err e) Hp Hi Hto H) e eq_refl).
    - destruct (fit_spec approx approx_exact c q q' (Err e) Hp Hi H) as (_ & K & _). exact (K e eq_refl).
  Qed.
End Quantities.
Print Assumptions C09_convert_preserves.
Print Assumptions C09_fit_preserves.
Print Assumptions C09_fit_member.
Print Assumptions C09_failures_frame.

(* the failures the statement names do occur (whatever the approximation function is):
   unit-less, unknown unit, text value, cross-quantity target, unknown target *)
Theorem C09_failures_occur : forall approx c q,
  (forall to, q_unit q = None -> convert_impl approx c q to = Done (q, Err ENoUnit)) /\
  (forall to k, q_unit q = Some k -> get_unit_id c k = None ->
     convert_impl approx c q to = Done (q, Err (EUnknownUnit k))) /\
  (forall to k id u t, q_unit q = Some k -> get_unit_id c k = Some id ->
     nth_error (all_units c) (N.to_nat id) = Some u -> q_value q = VText t ->
     convert_impl approx c q to = Done (q, Err (ETextValue t))) /\
  (forall k id u k2 id2 u2, q_unit q = Some k -> get_unit_id c k = Some id ->
     nth_error (all_units c) (N.to_nat id) = Some u -> (forall t, q_value q <> VText t) ->
     get_unit_id c k2 = Some id2 -> nth_error (all_units c) (N.to_nat id2) = Some u2 ->
     u_pq u <> u_pq u2 ->
     convert_impl approx c q (ToUnit (CKey k2)) = Done (q, Err (EMixed (u_pq u) (u_pq u2)))) /\
  (forall k id u k2, q_unit q = Some k -> get_unit_id c k = Some id ->
     nth_error (all_units c) (N.to_nat id) = Some u -> (forall t, q_value q <> VText t) ->
     get_unit_id c k2 = None ->
     convert_impl approx c q (ToUnit (CKey k2)) = Done (q, Err (EUnknownUnit k2))).
Proof.
  intros approx c q. split; [intros; apply convert_fails_nounit; assumption|].
  split; [intros; apply convert_fails_unknown; assumption|].
  split; [intros; eapply convert_fails_text; eassumption|].
  split; [intros; eapply convert_fails_mixed; eassumption|].
  intros; eapply convert_fails_unknown_target; eassumption.
Qed.
Print Assumptions C09_failures_occur.

(* the hypotheses are satisfiable and the model runs: 1500 g fits to 1.5 kg; 3 tsp converted
   to the imperial system becomes 1 tbsp with the error recorded; text fails unchanged *)
From Coq Require Import String.
Definition qty (v : Q) (u : string) : quantity := {| q_value := VNumber (Regular v); q_unit := Some (s u) |}.
Example C09_example_fit :
  fit new_approx bundled_conv (qty 1500 "g"%string) = Done (qty (1500 / 1000) "kg"%string, Ok tt).
Proof. vm_compute. reflexivity. Qed.
Example C09_example_convert :
  exists e, convert_impl new_approx bundled_conv (qty 3 "tsp"%string) (ToBest Imperial)
            = Done ({| q_value := VNumber (Fraction 1 0 1 e); q_unit := Some (s "tbsp"%string) |}, Ok tt)
            /\ 1 + e == 3 * (4928921 # 1000000000) / (14786764 # 1000000000).
Proof. eexists. split; [vm_compute; reflexivity|]. vm_compute. reflexivity. Qed.
Example C09_example_trivial_approx :
  forall (v : Q) (cfg : frac_cfg) n,
    (fun (_ : Q) (_ : frac_cfg) => @Done (option number) None) v cfg = Done (Some n) -> num_value n == v.
Proof. intros v cfg n H. discriminate. Qed.

(* ====================================================================== ScaledRecipe::convert
   The recipe-level entry point (mod.rs 415-453), modelled in Model/RecipeConvert.v.  A recipe is
   ANY value of the model's recipe type (not only parsed ones); metadata and sections (steps, items)
   are the opaque frame MF, the non-quantity fields of ingredients / cookware the frames IF / CF.
   Vocabulary (Proofs/RecipeConvertProofs.v):
     recipe_quantities r     the quantities the function visits, in visiting order: those of the
                             ingredients, then of the timers, then the inline quantities
     converted c s q q'      both units known, q numeric, amount(q') = amount(q) (both ends of a range,
                             fraction error included), same physical quantity, the unit of q' is in the
                             designated (best) list of system s for that physical quantity
     fail_reason c s q e     the error q's shape decides, in the order of the code: no unit -> NoUnit;
                             unknown unit -> UnknownUnit(key); text value -> TextValue(text); no designated
                             unit at all for the physical quantity in s -> BestUnitNotFound
     qconv_rel c s q q' es   es = [] and converted c s q q',  or  es = [e], q' = q and fail_reason c s q e
     Forall3 R la lb lc      R holds position by position (the three lists have the same length) *)

(* (a) frame, no hypothesis on the converter: metadata and sections, cookware, the scaling data, the
   frame of every ingredient (name, alias, note, reference, relation, modifiers) and the timer names
   are identical and in the same order; a quantity is present exactly where one was; there are as many
   inline quantities as before.  Only quantity slots of ingredients, timers and inline quantities may change. *)
Theorem C09_recipe_frame : forall approx c s (IF CF MF : Type) (r r' : recipe IF CF MF) errs,
  recipe_convert approx c s r = Done (r', errs) ->
  r_frame r' = r_frame r /\ r_cookware r' = r_cookware r /\ r_data r' = r_data r /\
  map ig_frame (r_ingredients r') = map ig_frame (r_ingredients r) /\
  map tm_name (r_timers r') = map tm_name (r_timers r) /\
  map (has_quantity ig_quantity) (r_ingredients r') = map (has_quantity ig_quantity) (r_ingredients r) /\
  map (has_quantity tm_quantity) (r_timers r') = map (has_quantity tm_quantity) (r_timers r) /\
  List.length (r_inline r') = List.length (r_inline r).
Proof. intros approx c s IF CF MF r r' errs. exact (recipe_convert_frame approx c s r r' errs). Qed.
Print Assumptions C09_recipe_frame.

(* ... and what happens in a slot is ScaledQuantity::convert(system) of the quantity that was there,
   its error (if any) appended to the list: the returned errors are those of the failed quantities,
   one each, in visiting order *)
Theorem C09_recipe_is_quantity_convert : forall approx c s (IF CF MF : Type) (r r' : recipe IF CF MF) errs,
  recipe_convert approx c s r = Done (r', errs) ->
  exists ess, errs = List.concat ess /\
    Forall3 (fun q q' es => exists res, convert_impl approx c q (ToBest s) = Done (q', res) /\
                                        es = match res with Ok _ => [] | Err e => [e] end)
            (recipe_quantities r) (recipe_quantities r') ess.
Proof. intros approx c s IF CF MF r r' errs. exact (recipe_convert_slots approx c s r r' errs). Qed.
Print Assumptions C09_recipe_is_quantity_convert.

Section Recipes.
  Variable approx : Q -> frac_cfg -> outcome (option number).
  (* what C12 proves about Number::new_approx *)
  Hypothesis approx_exact : forall v cfg n, approx v cfg = Done (Some n) -> num_value n == v.
  Context {IF CF MF : Type}.

  (* (b) + (c): every visited quantity is either converted - same physical amount, unit from the
     target system's designated list, nothing reported - or left exactly as it was with exactly one
     error reported, the one its shape decides; the returned list is these errors in visiting order *)
  Theorem C09_recipe_convert : forall c s (r r' : recipe IF CF MF) errs,
    ratios_pos c -> index_consistent c ->
    recipe_convert approx c s r = Done (r', errs) ->
    exists ess, errs = List.concat ess /\
      Forall3 (qconv_rel c s) (recipe_quantities r) (recipe_quantities r') ess.
  Proof. exact (recipe_convert_spec approx approx_exact). Qed.

  (* the same, position by position *)
  Theorem C09_recipe_each : forall c s (r r' : recipe IF CF MF) errs,
    ratios_pos c -> index_consistent c ->
    recipe_convert approx c s r = Done (r', errs) ->
    List.length (recipe_quantities r') = List.length (recipe_quantities r) /\
    exists ess, errs = List.concat ess /\ List.length ess = List.length (recipe_quantities r) /\
      forall k q, nth_error (recipe_quantities r) k = Some q ->
        exists q' es, nth_error (recipe_quantities r') k = Some q' /\ nth_error ess k = Some es /\
                      qconv_rel c s q q' es.
  Proof. exact (recipe_convert_each approx approx_exact). Qed.

  (* (e) converting the converted recipe once more to the same system - every convertible quantity
     is now in a unit of that system - reports the same errors again and every quantity still has the
     amount it had in the ORIGINAL recipe, in a designated unit *)
  Theorem C09_recipe_twice : forall c s (r r1 r2 : recipe IF CF MF) e1 e2,
    ratios_pos c -> index_consistent c ->
    recipe_convert approx c s r = Done (r1, e1) ->
    recipe_convert approx c s r1 = Done (r2, e2) ->
    e2 = e1 /\
    exists ess, e1 = List.concat ess /\
      Forall3 (qconv_rel c s) (recipe_quantities r) (recipe_quantities r2) ess.
  Proof. exact (recipe_convert_twice approx approx_exact). Qed.
End Recipes.
Print Assumptions C09_recipe_convert.
Print Assumptions C09_recipe_each.
Print Assumptions C09_recipe_twice.

(* the two cases of qconv_rel exclude each other: a quantity is converted or reported, never both *)
Theorem C09_recipe_exclusive : forall c s q q' e, converted c s q q' -> fail_reason c s q e -> False.
Proof. exact converted_not_fail. Qed.
Print Assumptions C09_recipe_exclusive.

(* (d) text values, unit-less values and unknown units are always in the failure case: untouched,
   one error, which says which of the three it was (no unit is looked at first, then the unit, then
   the value: `some%pinch` reports the unknown unit, `{some}` the missing unit) *)
Theorem C09_recipe_untouched : forall c s q q' es,
  (q_unit q = None \/ (exists k, q_unit q = Some k /\ get_unit_id c k = None) \/ (exists t, q_value q = VText t)) ->
  qconv_rel c s q q' es ->
  q' = q /\ exists e, es = [e] /\
    (q_unit q = None -> e = ENoUnit) /\
    (forall k, q_unit q = Some k -> get_unit_id c k = None -> e = EUnknownUnit k) /\
    (forall k id t, q_unit q = Some k -> get_unit_id c k = Some id -> q_value q = VText t ->
                    e = ETextValue t).
Proof. exact qconv_inconvertible. Qed.
Print Assumptions C09_recipe_untouched.

(* (e) conversely a numeric quantity in a known unit is always converted and nothing is reported,
   provided its physical quantity has a designated unit in the target system - whatever system its own
   unit belongs to: a unit that is ALREADY of the target system gets no special treatment (5 dl becomes
   500 ml, 1500 g becomes 1.5 kg), and keeps its amount like any other *)
Theorem C09_recipe_convertible : forall c s q q' es u,
  unit_info c q = Done (Some u) -> (forall t, q_value q <> VText t) ->
  conversions (best c (u_pq (snd u))) s <> [] ->
  qconv_rel c s q q' es -> es = [] /\ converted c s q q'.
Proof. exact qconv_convertible. Qed.
Print Assumptions C09_recipe_convertible.

(* no panic: on a well-formed converter [conv_wf] (what ConverterBuilder::finish establishes, see
   C08.v / Proofs/ScaleTotal.v) and an approximation function that returns on clamped configurations,
   ScaledQuantity::convert(system) and ScaledRecipe::convert return for every quantity / recipe value *)
Theorem C09_recipe_total : forall approx c,
  (forall v cfg, cfg_ok cfg -> exists o, approx v cfg = Done o) -> conv_wf c ->
  (forall q s, exists r, convert_impl approx c q (ToBest s) = Done r) /\
  (forall (IF CF MF : Type) s (r : recipe IF CF MF),
     exists r' errs, recipe_convert approx c s r = Done (r', errs)).
Proof.
  intros approx c Ha Hwf. split; [exact (convert_impl_best_total approx Ha c Hwf)|].
  intros IF CF MF s r. exact (recipe_convert_total approx Ha c Hwf s r).
Qed.
Print Assumptions C09_recipe_total.

(* no hypothesis left: the shipped unit table (regenerated Gen/UnitsToml.v through the model of the
   builder) with the model of Number::new_approx.  Every physical quantity has designated units in
   both systems there, so BestUnitNotFound cannot occur: exactly the text / unit-less / unknown-unit
   quantities are reported. *)
Theorem C09_recipe_shipped : forall (IF CF MF : Type) s (r : recipe IF CF MF),
  (exists r' errs ess, recipe_convert new_approx bundled_conv s r = Done (r', errs) /\
     errs = List.concat ess /\
     Forall3 (qconv_rel bundled_conv s) (recipe_quantities r) (recipe_quantities r') ess) /\
  (forall p s', conversions (best bundled_conv p) s' <> []).
Proof.
  intros IF CF MF s r. split.
  - destruct (recipe_convert_total new_approx new_approx_total bundled_conv bundled_wf s r) as (r' & errs & H).
    destruct (recipe_convert_spec new_approx new_approx_exact bundled_conv s r r' errs
                bundled_ratios_pos bundled_index_consistent H) as (ess & He & Hf).
    exists r', errs, ess. split; [exact H|]. split; [exact He|exact Hf].
  - intros p s'. destruct p, s'; vm_compute; discriminate.
Qed.
Print Assumptions C09_recipe_shipped.

(* the hypotheses are satisfiable and the model runs.  To metric: 5 dl (already metric, not a designated
   unit) becomes 500 ml, 1500 g becomes 1.5 kg, `some g`, `2 pinch` and a bare 3 are reported and kept,
   the ingredient without quantity is skipped, 2-3 cups become 473.2-709.8 ml, the cookware is not
   visited, 90 min (time units have no system) become 1.5 h, 350 F become 176.67 C *)
Definition qn (v : Q) (u : string) : option quantity :=
  Some {| q_value := VNumber (Regular v); q_unit := Some (s u) |}.
Definition ex_rc : recipe N N N :=
  {| r_frame := 0%N;
     r_ingredients :=
       [ {| ig_frame := 1%N; ig_quantity := qn 5 "dl" |};
         {| ig_frame := 2%N; ig_quantity := qn 1500 "g" |};
         {| ig_frame := 3%N; ig_quantity := Some {| q_value := VText (s "some"); q_unit := Some (s "g") |} |};
         {| ig_frame := 4%N; ig_quantity := qn 2 "pinch" |};
         {| ig_frame := 5%N; ig_quantity := Some {| q_value := VNumber (Regular 3); q_unit := None |} |};
         {| ig_frame := 6%N; ig_quantity := None |};
         {| ig_frame := 7%N;
            ig_quantity := Some {| q_value := VRange (Regular 2) (Regular 3); q_unit := Some (s "cup") |} |} ];
     r_cookware := [ {| ck_frame := 8%N; ck_quantity := Some (VNumber (Regular 2)) |} ];
     r_timers := [ {| tm_name := None; tm_quantity := qn 90 "min" |} ];
     r_inline := [ {| q_value := VNumber (Regular 350); q_unit := Some (s "F") |} ];
     r_data := DefaultScaling |}.
Definition shown_q (q : quantity) : option (Q * Q) * option str :=
  (match q_value q with
   | VNumber n => Some (Qred (num_value n), Qred (num_value n))
   | VRange a b => Some (Qred (num_value a), Qred (num_value b))
   | VText _ => None
   end, q_unit q).
Example C09_example_recipe :
  exists r', recipe_convert new_approx bundled_conv Metric ex_rc
             = Done (r', [ETextValue (s "some"); EUnknownUnit (s "pinch"); ENoUnit]) /\
    map shown_q (recipe_quantities r') =
      [ (Some (500, 500), Some (s "ml"));
        (Some (3 # 2, 3 # 2), Some (s "kg"));
        (None, Some (s "g"));
        (Some (2, 2), Some (s "pinch"));
        (Some (3, 3), None);
        (Some (59147059 # 125000, 177441177 # 250000), Some (s "ml"));
        (Some (3 # 2, 3 # 2), Some (s "h"));
        (Some (Qred ((350 + (45967 # 100)) * (55555555556 # 100000000000) - (27315 # 100)),
               Qred ((350 + (45967 # 100)) * (55555555556 # 100000000000) - (27315 # 100))),
         Some [176%N; 67%N]) ] /\
    map ig_frame (r_ingredients r') = [1; 2; 3; 4; 5; 6; 7]%N /\
    nth_error (r_ingredients r') 5 = Some {| ig_frame := 6%N; ig_quantity := None |} /\
    r_cookware r' = r_cookware ex_rc.
Proof. eexists. split; [vm_compute; reflexivity|]. repeat split; vm_compute; reflexivity. Qed.
(* ... and once more: same errors, same quantities *)
Example C09_example_recipe_twice :
  exists r1 r2 e, recipe_convert new_approx bundled_conv Metric ex_rc = Done (r1, e) /\
                  recipe_convert new_approx bundled_conv Metric r1 = Done (r2, e) /\
                  map shown_q (recipe_quantities r2) = map shown_q (recipe_quantities r1).
Proof. eexists. eexists. eexists. split; [vm_compute; reflexivity|]. split; vm_compute; reflexivity. Qed.
