(* C09 - Unit conversion preserves the physical amount.
   Statements only; proofs live in Proofs/ConvertProofs.v.  The model is Model/Convert.v
   (src/convert/mod.rs, exact rational arithmetic); [bundled_conv] is the converter the model
   of the builder makes from the REGENERATED Gen/UnitsToml.v; [standards] is hand-written. *)
From CL Require Import Base.StrLemmas Model.Convert Model.Standards Gen.UnitsToml Proofs.ConvertProofs.
Open Scope Q_scope.

(* the arithmetic of convert_f64 (mod.rs 720-725), for any two units with non-zero ratios *)
Theorem C09_there_and_back_q : forall v a b,
  0 < u_ratio a -> 0 < u_ratio b -> convert_q (convert_q v a b) b a == v.
Proof. intros v a b Ha Hb. apply convert_q_back; apply Qpos_nonzero; assumption. Qed.
Print Assumptions C09_there_and_back_q.

Theorem C09_via_third_q : forall v a b c,
  0 < u_ratio b -> 0 < u_ratio c -> convert_q (convert_q v a b) b c == convert_q v a c.
Proof. intros v a b c Hb Hc. apply convert_q_trans; apply Qpos_nonzero; assumption. Qed.
Print Assumptions C09_via_third_q.

(* Converter::convert by keys, every converter whose ratios are positive: a successful
   conversion can be undone and gives back the value *)
Theorem C09_there_and_back : forall c v ka kb w ub,
  ratios_pos c ->
  conv_convert c (CNum v) (CKey ka) (ToUnit (CKey kb)) = Done (Ok (CNum w, ub)) ->
  exists v' ua, conv_convert c (CNum w) (CKey kb) (ToUnit (CKey ka)) = Done (Ok (CNum v', ua))
                /\ v' == v.
Proof. exact there_and_back. Qed.
Print Assumptions C09_there_and_back.

(* going through a third unit agrees with the direct conversion *)
Theorem C09_via_third : forall c v ka kb kc w ub x uc,
  ratios_pos c ->
  conv_convert c (CNum v) (CKey ka) (ToUnit (CKey kb)) = Done (Ok (CNum w, ub)) ->
  conv_convert c (CNum w) (CKey kb) (ToUnit (CKey kc)) = Done (Ok (CNum x, uc)) ->
  exists y, conv_convert c (CNum v) (CKey ka) (ToUnit (CKey kc)) = Done (Ok (CNum y, uc)) /\ y == x.
Proof. exact via_third. Qed.
Print Assumptions C09_via_third.

(* the shipped table: units.toml builds, has 38 units after SI expansion, and every one of
   them is filed under the right physical quantity with ratio and offset within relative
   1e-6 of the real-world definition (finite: forallb over the regenerated table) *)
Theorem C09_definitions :
  bundled = Done (Some bundled_conv) /\ length bundled_units = 38%nat /\
  forall u, In u bundled_units -> within_tol u = true.
Proof.
  split; [destruct bundled_builds as (c & H & ->); exact H|].
  split; [exact bundled_count|]. apply forallb_forall. exact bundled_definitions_b.
Qed.
Print Assumptions C09_definitions.

(* the hypotheses of the theorems below hold for the shipped table *)
Theorem C09_bundled_wellformed :
  ratios_pos bundled_conv /\ index_consistent bundled_conv /\ nosys_nofrac_b bundled_conv = true.
Proof.
  split; [exact bundled_ratios_pos|]. split; [exact bundled_index_consistent|exact bundled_nosys_nofrac].
Qed.
Print Assumptions C09_bundled_wellformed.

(* Converter::convert_to_best: the unit is one of the designated list of the requested system
   for the same physical quantity, and both ends of the value keep their amount *)
Theorem C09_best_member : forall c v u s v' b,
  ratios_pos c -> is_ref c u ->
  convert_to_best c v u s = Done (Ok (v', b)) ->
  is_ref c b /\
  In (fst b) (map snd (conversions (best c (u_pq (snd u))) s)) /\
  pair_eq (cv_amount (snd b) v') (cv_amount (snd u) v) /\
  u_pq (snd b) = u_pq (snd u).
Proof. exact convert_to_best_spec. Qed.
Print Assumptions C09_best_member.

Section Quantities.
  Variable approx : Q -> frac_cfg -> outcome (option number).
  (* what C12 proves about Number::new_approx *)
  Hypothesis approx_exact : forall v cfg n, approx v cfg = Done (Some n) -> num_value n == v.

  (* ScaledQuantity::convert (to a unit, to a system, same system): on success the amount is
     kept (fraction error included, both ends of a range), the physical quantity is the same,
     the unit is in the designated list of the target system / is the requested unit *)
  Theorem C09_convert_preserves : forall c q to q',
    ratios_pos c -> index_consistent c -> to_ok c to ->
    convert_impl approx c q to = Done (q', Ok tt) ->
    exists u nu, unit_info c q = Done (Some u) /\ unit_info c q' = Done (Some nu) /\
      (exists a, q_amount c q = Some a) /\
      amt_eq (q_amount c q') (q_amount c q) /\
      u_pq (snd nu) = u_pq (snd u) /\
      (forall s, target_system c (snd u) to = Some s ->
         In (fst nu) (map snd (conversions (best c (u_pq (snd u))) s))) /\
      (forall k, to = ToUnit (CKey k) -> get_unit_id c k = Some (fst nu)).
  Proof.
    intros c q to q' Hp Hi Hto H.
    destruct (convert_impl_spec approx approx_exact c q to q' (Ok tt) Hp Hi Hto H) as [_ K].
    exact (K eq_refl).
  Qed.

  (* ScaledQuantity::fit keeps the amount whatever it returns *)
  Theorem C09_fit_preserves : forall c q q' r,
    ratios_pos c -> index_consistent c ->
    fit approx c q = Done (q', r) -> amt_eq (q_amount c q') (q_amount c q).
  Proof. intros c q q' r Hp Hi H. exact (proj1 (fit_spec approx approx_exact c q q' r Hp Hi H)). Qed.

  (* ... and lands in the designated list of the unit's system (default system for units
     without one, provided fractions are off for them, as in the shipped table) *)
  Theorem C09_fit_member : forall c q q' u,
    ratios_pos c -> index_consistent c ->
    fit approx c q = Done (q', Ok tt) -> unit_info c q = Done (Some u) ->
    (u_sys (snd u) = None ->
       exists cfg, fractions_config c (snd u) = Done cfg /\ fc_enabled cfg = false) ->
    exists nu, unit_info c q' = Done (Some nu) /\ fit_member c u nu.
  Proof.
    intros c q q' u Hp Hi H Hu Hs.
    destruct (fit_spec approx approx_exact c q q' (Ok tt) Hp Hi H) as (_ & _ & K).
    exact (K u Hu eq_refl Hs).
  Qed.

  (* errors come before mutation: a failed convert or fit leaves the quantity as it was *)
  Theorem C09_failures_frame : forall c q to q' e,
    ratios_pos c -> index_consistent c -> to_ok c to ->
    (convert_impl approx c q to = Done (q', Err e) -> q' = q) /\
    (fit approx c q = Done (q', Err e) -> q' = q).
  Proof.
    intros c q to q' e Hp Hi Hto. split; intro H.
    - exact (proj1 (convert_impl_spec approx approx_exact c q to q' (Err e) Hp Hi Hto H) e eq_refl).
    - destruct (fit_spec approx approx_exact c q q' (Err e) Hp Hi H) as (_ & K & _). exact (K e eq_refl).
  Qed.
End Quantities.
Print Assumptions C09_convert_preserves.
Print Assumptions C09_fit_preserves.
Print Assumptions C09_fit_member.
Print Assumptions C09_failures_frame.

(* the failures the statement names do occur (whatever the approximation function is):
   unit-less, unknown unit, text value, cross-quantity target, unknown target *)
Theorem C09_failures_occur : forall approx c q,
  (forall to, q_unit q = None -> convert_impl approx c q to = Done (q, Err ENoUnit)) /\
  (forall to k, q_unit q = Some k -> get_unit_id c k = None ->
     convert_impl approx c q to = Done (q, Err (EUnknownUnit k))) /\
  (forall to k id u t, q_unit q = Some k -> get_unit_id c k = Some id ->
     nth_error (all_units c) (N.to_nat id) = Some u -> q_value q = VText t ->
     convert_impl approx c q to = Done (q, Err (ETextValue t))) /\
  (forall k id u k2 id2 u2, q_unit q = Some k -> get_unit_id c k = Some id ->
     nth_error (all_units c) (N.to_nat id) = Some u -> (forall t, q_value q <> VText t) ->
     get_unit_id c k2 = Some id2 -> nth_error (all_units c) (N.to_nat id2) = Some u2 ->
     u_pq u <> u_pq u2 ->
     convert_impl approx c q (ToUnit (CKey k2)) = Done (q, Err (EMixed (u_pq u) (u_pq u2)))) /\
  (forall k id u k2, q_unit q = Some k -> get_unit_id c k = Some id ->
     nth_error (all_units c) (N.to_nat id) = Some u -> (forall t, q_value q <> VText t) ->
     get_unit_id c k2 = None ->
     convert_impl approx c q (ToUnit (CKey k2)) = Done (q, Err (EUnknownUnit k2))).
Proof.
  intros approx c q. split; [intros; apply convert_fails_nounit; assumption|].
  split; [intros; apply convert_fails_unknown; assumption|].
  split; [intros; eapply convert_fails_text; eassumption|].
  split; [intros; eapply convert_fails_mixed; eassumption|].
  intros; eapply convert_fails_unknown_target; eassumption.
Qed.
Print Assumptions C09_failures_occur.

(* the hypotheses are satisfiable and the model runs: 1500 g fits to 1.5 kg; 3 tsp converted
   to the imperial system becomes 1 tbsp with the error recorded; text fails unchanged *)
From Coq Require Import String.
Definition qty (v : Q) (u : string) : quantity := {| q_value := VNumber (Regular v); q_unit := Some (s u) |}.
Example C09_example_fit :
  fit new_approx bundled_conv (qty 1500 "g"%string) = Done (qty (1500 / 1000) "kg"%string, Ok tt).
Proof. vm_compute. reflexivity. Qed.
Example C09_example_convert :
  exists e, convert_impl new_approx bundled_conv (qty 3 "tsp"%string) (ToBest Imperial)
            = Done ({| q_value := VNumber (Fraction 1 0 1 e); q_unit := Some (s "tbsp"%string) |}, Ok tt)
            /\ 1 + e == 3 * (4928921 # 1000000000) / (14786764 # 1000000000).
Proof. eexists. split; [vm_compute; reflexivity|]. vm_compute. reflexivity. Qed.
Example C09_example_trivial_approx :
  forall (v : Q) (cfg : frac_cfg) n,
    (fun (_ : Q) (_ : frac_cfg) => @Done (option number) None) v cfg = Done (Some n) -> num_value n == v.
Proof. intros v cfg n H. discriminate. Qed.
