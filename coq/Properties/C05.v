(* C05 - No recipe content is silently dropped.
   Proved (every input, every offset): the comment scanner the monitor uses is the lexer's
   own notion of comment, and a letter or digit outside comments always sits in a Word, Int,
   ZeroInt or Escaped token - for the character classification dumped from the
   implementation on this run (Gen/CharClass.v) and for any other classification with the
   two stated properties.
   Proved as well (every input, every configuration, every extension set): every such token of
   the cooklang part whose payload is not blank lies inside the span of an event of the
   pull-parser model (C05_conservation; no "error-free" hypothesis is needed), and, composed
   with the two facts above and the anatomy of the front matter split: every letter or digit of
   the input that is not inside a comment lies within the span of an event
   (C05_no_content_dropped).  The model is tied to the implementation by the L-ev
   correspondence; the monitor evaluates the same statement on the implementation's events. *)
From CL Require Import Base.StrLemmas Model.Lexer Model.CommentMask Model.Parser
  Proofs.MaskProofs Proofs.MaskGen Gen.CharClass
  Proofs.ParserSeg Proofs.ParserCover Proofs.ParserCoverBlock Proofs.ParserCoverDoc Proofs.ParserCoverChars
  Proofs.CoverGen.

Theorem C05_mask_is_lexer :
  forall s off ts, lex_at U s off = Some ts -> mask s = token_mask ts.
Proof. exact (mask_is_lexer U gen_special_breaks). Qed.
Print Assumptions C05_mask_is_lexer.

Theorem C05_mask_is_lexer_any_classification :
  forall (V : N -> ucls),
    (forall c, special c = true -> is_word_char V c = false /\ is_lex_ws V c = false) ->
    forall s off ts, lex_at V s off = Some ts -> mask s = token_mask ts.
Proof. exact mask_is_lexer. Qed.
Print Assumptions C05_mask_is_lexer_any_classification.

Theorem C05_alnum_tokens :
  forall s off ts, lex_at U s off = Some ts ->
    Forall (fun t => forall x, In x (tstr t) -> u_alnum (U x) = true ->
                     content_kind (kind t) = true \/ is_comment (kind t) = true) ts.
Proof. exact (alnum_tokens U gen_alnum_not_struct). Qed.
Print Assumptions C05_alnum_tokens.

(* the mask has one flag per character, so "outside a comment" is defined for every position *)
Theorem C05_mask_length : forall s, length (mask s) = length s.
Proof. exact (scan_length MNormal). Qed.
Print Assumptions C05_mask_length.

(* the span an event covers (as the monitor computes it: harness/src/bin/pmon.rs ev_span);
   the definition lives in Proofs/ParserCover.v, this is its text *)
Example C05_event_span_def : forall e, event_span e =
  match e with
  | EvYaml t | EvText t => Some (text_span t)
  | EvMetadata k v => Some (fst (text_span k), N.max (snd (text_span v)) (snd (text_span k)))
  | EvSection (Some t) => Some (text_span t)
  | EvIngredient i => Some (i_span i)
  | EvCookware c => Some (c_span c)
  | EvTimer t => Some (t_span t)
  | _ => None
  end.
Proof. reflexivity. Qed.

(* what a content token contributes: an escaped token `\x` contributes x, at the byte after the
   backslash (the backslash itself is dropped by design: block_parser.rs text()) *)
Example C05_payload_def : forall t,
  payload t = (match kind t with KEscaped => tl (tstr t) | _ => tstr t end) /\
  pstart t = (match kind t with KEscaped => tstart t + 1 | _ => tstart t end).
Proof. intro t. split; reflexivity. Qed.

(* the tokens of the cooklang part: after the front matter when there is one, at their byte
   offsets in the whole input *)
Example C05_cook_tokens_def : forall V cfg s, cook_tokens V cfg s =
  match parse_frontmatter cfg s with
  | Some fm => lex_at V (cook_text fm) (cook_off fm)
  | None => lex_at V s 0
  end.
Proof. reflexivity. Qed.

(* ---- the two layers under the document theorem -------------------------------------------- *)

(* the block splitter (mod.rs next_block 251-301 with its trimming arithmetic) hands every
   content token to the block it returns or leaves it in the remainder; when it returns no block
   there is no content token left *)
Theorem C05_split_covers :
  forall fuel ts,
    (forall blk r, next_block fuel ts = Some (blk, r) ->
       forall t, In t ts -> content_kind (kind t) = true -> In t blk \/ In t r) /\
    ((length ts < fuel)%nat -> next_block fuel ts = None ->
       forall t, In t ts -> content_kind (kind t) = false).
Proof. intros fuel ts. split; [apply next_block_content|apply next_block_none]. Qed.
Print Assumptions C05_split_covers.

(* parse_block (metadata entry, section, text block, step loop with the component parsers and
   their recovery paths) on a located chain of tokens: the events pushed before stay, and every
   non-blank content token of the block is inside the span of an event *)
Theorem C05_block_covers :
  forall (src : str) (cfg : pcfg) ts a b evs old_style evs',
    seg src a ts b -> run_block ts evs (parse_block cfg old_style) = Done evs' ->
    (exists es, evs' = es ++ evs) /\
    forall t, In t ts -> content_kind (kind t) = true -> str_blank (payload t) = false ->
      exists e sp, In e evs' /\ event_span e = Some sp /\ fst sp <= pstart t /\ tend t <= snd sp.
Proof.
  intros src cfg ts a b evs old evs' Hs H. destruct (run_block_cov src cfg ts a b evs old evs' Hs H) as (A & B).
  split; [exact A|]. intros t Hi Hc Hb. exact (B t Hi (conj Hc Hb)).
Qed.
Print Assumptions C05_block_covers.

Definition no_error_event (e : pevent) : Prop :=
  match e with EvDiag d => d_err d = false | _ => True end.

(* The statement as first written:

     Definition C05_conservation_statement : Prop :=
       forall (cfg : pcfg) (s : str) evs ts,
         events U cfg s = Done evs -> lex U s = Some ts ->
         Forall (fun e => match e with EvDiag d => d_err d = false | _ => True end) evs ->
         Forall (fun t => content_kind (kind t) = true ->
                          exists e sp, In e evs /\ event_span e = Some sp /\ fst sp <= tstart t /\ tend t <= snd sp) ts.

   It asks too much in three ways, none of which concerns a letter or a digit:
   (1) it wants the whole token inside a span, but the backslash of an escaped token is never
       part of a text (input "\a": the token is bytes 0..2, the text event is 1..2) - refuted
       below (C05_whole_token_statement_refuted);
   (2) a content token whose payload is blank may vanish (a Word made of U+000B in a text
       block line, the escaped blank of "= \  =", a lone trailing backslash): such a token
       holds no letter or digit;
   (3) with front matter the tokens the parser sees are those of the cooklang part, shifted by
       cook_off, not those of the whole input (the YAML text is covered by the front matter
       event, the fence lines hold no letter or digit: C05_no_content_dropped).
   The statement that is true and says what C05 says about tokens: *)
Definition C05_conservation_statement : Prop :=
  forall (cfg : pcfg) (s : str) evs ts,
    events U cfg s = Done evs -> cook_tokens U cfg s = Some ts ->
    Forall no_error_event evs ->
    Forall (fun t => content_kind (kind t) = true -> str_blank (payload t) = false ->
                     exists e sp, In e evs /\ event_span e = Some sp /\ fst sp <= pstart t /\ tend t <= snd sp) ts.

Theorem C05_conservation : C05_conservation_statement.
Proof.
  intros cfg s evs ts He Ht _. apply Forall_forall. intros t Hi Hc Hb.
  exact (events_cover U cfg s evs ts He Ht t Hi (conj Hc Hb)).
Qed.
Print Assumptions C05_conservation.

(* the same for any classification, any configuration (also the pre-repair ones), and without
   the "no error event" hypothesis: the parser never consumes a non-blank content token
   without covering it, whether or not it also reports an error *)
Theorem C05_conservation_any_stream :
  forall (V : N -> ucls) (cfg : pcfg) (s : str) evs ts,
    events V cfg s = Done evs -> cook_tokens V cfg s = Some ts ->
    forall t, In t ts -> content_kind (kind t) = true -> str_blank (payload t) = false ->
      exists e sp, In e evs /\ event_span e = Some sp /\ fst sp <= pstart t /\ tend t <= snd sp.
Proof. intros V cfg s evs ts He Ht t Hi Hc Hb. exact (events_cover V cfg s evs ts He Ht t Hi (conj Hc Hb)). Qed.
Print Assumptions C05_conservation_any_stream.

(* the configuration of the code as it stands (all repairs in, every extension, debug build) *)
Definition cfg_now : pcfg :=
  {| p_ext := X_ALL; p_debug := true; p_strict_escape := false; p_note_label_old := false; p_fm_anywhere := false |}.

Theorem C05_whole_token_statement_refuted :
  ~ (forall (cfg : pcfg) (s : str) evs ts,
       events U cfg s = Done evs -> lex U s = Some ts -> Forall no_error_event evs ->
       Forall (fun t => content_kind (kind t) = true ->
                        exists e sp, In e evs /\ event_span e = Some sp /\ fst sp <= tstart t /\ tend t <= snd sp) ts).
Proof.
  intro H.
  assert (Eo : events U cfg_now [92; 97] =
               Done [EvStart true; EvText {| toff := 0; frags := [{| ftext := [97]; foff := 1; fsoft := false |}] |}; EvEnd true])
    by (vm_compute; reflexivity).
  assert (El : lex U [92; 97] = Some [{| kind := KEscaped; tstr := [92; 97]; tstart := 0 |}])
    by (vm_compute; reflexivity).
  assert (Hn : Forall no_error_event
           [EvStart true; EvText {| toff := 0; frags := [{| ftext := [97]; foff := 1; fsoft := false |}] |}; EvEnd true])
    by (repeat constructor).
  pose proof (H _ _ _ _ Eo El Hn) as Hx.
  inversion Hx as [|? ? Ht _]; subst. destruct (Ht eq_refl) as (e & sp & Hi & Hs & Hlo & _).
  cbn [tstart] in Hlo.
  destruct Hi as [<-|[<-|[<-|[]]]]; cbn [event_span] in Hs; try discriminate.
  injection Hs as <-. vm_compute in Hlo. apply Hlo. reflexivity.
Qed.
Print Assumptions C05_whole_token_statement_refuted.

(* ---- every letter or digit of every input ------------------------------------------------- *)

(* the comment flag of the i-th character, as the monitor computes it (vh::comment_mask from the
   start of the cooklang part: there are no cooklang comments inside the front matter) *)
Example C05_comment_at_def : forall cfg s i, comment_at cfg s i =
  match parse_frontmatter cfg s with
  | None => nth i (mask s) false
  | Some fm =>
      let k := (length s - length (cook_text fm))%nat in
      if (i <? k)%nat then false else nth (i - k) (mask (cook_text fm)) false
  end.
Proof. reflexivity. Qed.

Example C05_bytes_covered_def : forall evs a b, bytes_covered evs a b <->
  exists e sp, In e evs /\ event_span e = Some sp /\ fst sp <= a /\ b <= snd sp.
Proof. intros. reflexivity. Qed.

(* C05: in an error-free event stream, the character c at byte offset [blen p] of the input, a
   letter or digit outside comments, lies within the span of an event.  [p_fm_anywhere = false]
   selects the repaired front matter detection (fences only at the top). *)
Theorem C05_no_content_dropped :
  forall (cfg : pcfg) (s : str) evs,
    p_fm_anywhere cfg = false -> events U cfg s = Done evs -> Forall no_error_event evs ->
    forall p c q, s = p ++ c :: q -> u_alnum (U c) = true -> comment_at cfg s (length p) = false ->
      bytes_covered evs (blen p) (blen p + utf8_len c).
Proof.
  intros cfg s evs Hf He _.
  exact (chars_covered U gen_special_breaks gen_alnum_not_struct gen_alnum_plain cfg s evs Hf He).
Qed.
Print Assumptions C05_no_content_dropped.

Theorem C05_no_content_dropped_any_classification :
  forall (V : N -> ucls),
    (forall c, special c = true -> is_word_char V c = false /\ is_lex_ws V c = false) ->
    (forall c, u_alnum (V c) = true ->
       u_punct (V c) = false /\ is_lex_ws V c = false /\ single_kind c = None
       /\ (c =? 10) = false /\ (c =? 13) = false /\ (c =? 62) = false /\ (c =? 45) = false /\ (c =? 91) = false) ->
    (forall c, u_alnum (V c) = true -> uni_ws c = false /\ (c =? 92) = false) ->
    forall (cfg : pcfg) (s : str) evs,
      p_fm_anywhere cfg = false -> events V cfg s = Done evs ->
      forall p c q, s = p ++ c :: q -> u_alnum (V c) = true -> comment_at cfg s (length p) = false ->
        bytes_covered evs (blen p) (blen p + utf8_len c).
Proof. exact chars_covered. Qed.
Print Assumptions C05_no_content_dropped_any_classification.

(* the hypotheses are satisfiable: front matter, a step with an ingredient and a comment; the
   letter `s` of `salt` (character 18, byte 18) *)
Example C05_hypotheses_satisfiable :
  let s := [45;45;45;10; 116;58;32;120;10; 45;45;45;10; 65;100;100;32;64;115;97;108;116;123;49;37;103;125;32;45;45;32;99;10] in
  exists evs, p_fm_anywhere cfg_now = false /\ events U cfg_now s = Done evs /\
    forallb (fun e => match e with EvDiag d => negb (d_err d) | _ => true end) evs = true /\
    nth 18 s 0 = 115 /\ u_alnum (U 115) = true /\ comment_at cfg_now s 18 = false.
Proof. eexists. split; [reflexivity|]. split; [vm_compute; reflexivity|]. vm_compute. repeat split. Qed.

(* frontmatter.rs before the repair 3c2d952: the first two fence lines were taken wherever they
   were, the text before them silently dropped ("hello\n---\na: 1\n---\nstep": the `h`) *)
Definition cfg_fm_anywhere : pcfg :=
  {| p_ext := X_ALL; p_debug := true; p_strict_escape := false; p_note_label_old := false; p_fm_anywhere := true |}.

Theorem C05_no_content_dropped_refuted_before_fix :
  exists (cfg : pcfg) (s : str) evs p c q,
    p_fm_anywhere cfg = true /\ events U cfg s = Done evs /\ Forall no_error_event evs /\
    s = p ++ c :: q /\ u_alnum (U c) = true /\ comment_at cfg s (length p) = false /\
    ~ bytes_covered evs (blen p) (blen p + utf8_len c).
Proof.
  exists cfg_fm_anywhere, [104;101;108;108;111;10; 45;45;45;10; 97;58;32;49;10; 45;45;45;10; 115;116;101;112].
  eexists. exists [], 104. eexists.
  split; [reflexivity|]. split; [vm_compute; reflexivity|]. split; [repeat constructor|].
  split; [reflexivity|]. split; [vm_compute; reflexivity|]. split; [vm_compute; reflexivity|].
  intros (e & sp & Hi & Hs & Hlo & Hhi). cbn [blen utf8_len] in Hlo, Hhi.
  repeat (destruct Hi as [<-|Hi]; [cbn [event_span] in Hs; try discriminate; injection Hs as <-; vm_compute in Hlo; apply Hlo; reflexivity|]).
  destruct Hi.
Qed.
Print Assumptions C05_no_content_dropped_refuted_before_fix.
