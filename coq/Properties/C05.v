(* C05 - No recipe content is silently dropped.
   Proved (every input, every offset): the comment scanner the monitor uses is the lexer's
   own notion of comment, and a letter or digit outside comments always sits in a Word, Int,
   ZeroInt or Escaped token - for the character classification dumped from the
   implementation on this run (Gen/CharClass.v) and for any other classification with the
   two stated properties.  That every such token of an error-free event stream lies in the
   span of an event is decided at run time by the exact L-ev correspondence and the monitor;
   its statement is kept visible below. *)
From CL Require Import Base.StrLemmas Model.Lexer Model.CommentMask Model.Parser
  Proofs.MaskProofs Proofs.MaskGen Gen.CharClass.

Theorem C05_mask_is_lexer :
  forall s off ts, lex_at U s off = Some ts -> mask s = token_mask ts.
Proof. exact (mask_is_lexer U gen_special_breaks). Qed.
Print Assumptions C05_mask_is_lexer.

Theorem C05_mask_is_lexer_any_classification :
  forall (V : N -> ucls),
    (forall c, special c = true -> is_word_char V c = false /\ is_lex_ws V c = false) ->
    forall s off ts, lex_at V s off = Some ts -> mask s = token_mask ts.
Proof. exact mask_is_lexer. Qed.
Print Assumptions C05_mask_is_lexer_any_classification.

Theorem C05_alnum_tokens :
  forall s off ts, lex_at U s off = Some ts ->
    Forall (fun t => forall x, In x (tstr t) -> u_alnum (U x) = true ->
                     content_kind (kind t) = true \/ is_comment (kind t) = true) ts.
Proof. exact (alnum_tokens U gen_alnum_not_struct). Qed.
Print Assumptions C05_alnum_tokens.

(* the mask has one flag per character, so "outside a comment" is defined for every position *)
Theorem C05_mask_length : forall s, length (mask s) = length s.
Proof. exact (scan_length MNormal). Qed.
Print Assumptions C05_mask_length.

(* the span an event covers (as the monitor computes it: harness/src/bin/pmon.rs ev_span) *)
Definition event_span (e : pevent) : option (N * N) :=
  match e with
  | EvYaml t | EvText t => Some (text_span t)
  | EvMetadata k v => Some (fst (text_span k), N.max (snd (text_span v)) (snd (text_span k)))
  | EvSection (Some t) => Some (text_span t)
  | EvIngredient i => Some (i_span i)
  | EvCookware c => Some (c_span c)
  | EvTimer t => Some (t_span t)
  | _ => None
  end.

(* full statement (not yet a theorem; decided by correspondence + monitor on every run):
   in an error-free event stream every content token outside comments is inside the span of
   an event *)
Definition C05_conservation_statement : Prop :=
  forall (cfg : pcfg) (s : str) evs ts,
    events U cfg s = Done evs -> lex U s = Some ts ->
    Forall (fun e => match e with EvDiag d => d_err d = false | _ => True end) evs ->
    Forall (fun t => content_kind (kind t) = true ->
                     exists e sp, In e evs /\ event_span e = Some sp /\ fst sp <= tstart t /\ tend t <= snd sp) ts.
